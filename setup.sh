#!/bin/sh
# Offline setup: nothing to download or compile.  Parse every spec once (fails early on a broken spec) and warm
# the numba caches of /repo with one power flow.
set -e
cd "$(dirname "$0")"
mkdir -p evidence replay
for f in spec/*.tla; do
  ( cd spec && java -cp /opt/veriftools/tla/tla2tools.jar:/opt/veriftools/tla/CommunityModules-deps.jar tla2sany.SANY "$(basename "$f")" >/tmp/ppverif_sany.log 2>&1 ) || { cat /tmp/ppverif_sany.log; echo "SANY failed on $f"; exit 1; }
done
rm -f /tmp/ppverif_sany.log
E2NIEE_PANDAPOWER_VERIF=1 /venv/bin/python -B -c "
import sys; sys.path.insert(0, '/repo')
import pandapower as pp, pandapower.networks as pn
net = pn.case9(); pp.runpp(net); pp.rundcpp(net); print('setup ok', pp.__file__)"
