#!/venv/bin/python
"""Confirms a seeded breaking change and runs the registered check against it.

  tools/seed_confirm.py <dir with patch.diff demo.py meta.json> [--no-suite] [--tier quick|thorough] [--keep]

Steps (all in a scratch worktree of /repo under /tmp/seedwt, removed afterwards):
  1. demo.py on the clean tree           -> must exit 0
  2. git apply patch.diff; byte-compile  -> must succeed
  3. demo.py on the changed tree         -> must exit non-zero
  4. the repository's test suite         -> every test of BASELINE.stable_pass must still pass   (skipped with --no-suite)
  5. ./check <property> against the changed tree (VERIF_REPO / VERIF_OUT), exit code and VIOLATION lines recorded
Writes <dir>/confirm.json.  Nothing is ever applied to /repo itself.
"""
import json
import os
import shutil
import subprocess
import sys
import time
import xml.etree.ElementTree as ET

PY = "/venv/bin/python"
VERIF = os.path.dirname(os.path.dirname(os.path.abspath(__file__)))


def sh(cmd, cwd=None, env=None, timeout=7200):
    e = dict(os.environ)
    e.pop("E2NIEE_PANDAPOWER_VERIF", None)
    if env:
        e.update(env)
    t0 = time.time()
    try:
        p = subprocess.run(cmd, cwd=cwd, env=e, stdout=subprocess.PIPE, stderr=subprocess.STDOUT, text=True, timeout=timeout,
                           shell=isinstance(cmd, str))
        return p.returncode, p.stdout, time.time() - t0
    except subprocess.TimeoutExpired as ex:
        return 124, (ex.stdout or b"").decode() if isinstance(ex.stdout, bytes) else (ex.stdout or ""), time.time() - t0


def junit_pass(path):
    ok = set()
    for tc in ET.parse(path).getroot().iter("testcase"):
        if not any(ch.tag in ("failure", "error", "skipped") for ch in tc):
            cn = tc.get("classname")
            ok.add("%s::%s" % (cn, tc.get("name")))
            if not cn.startswith("pandapower.test."):              # rootdir = pandapower/test when test paths are given
                ok.add("pandapower.test.%s::%s" % (cn, tc.get("name")))
    return ok


AREAS = [   # changed path prefix -> test packages that exercise it (targeted re-run; the seeding agent ran the full suite)
    ("pandapower/control", ["control", "timeseries", "api"]), ("pandapower/timeseries", ["timeseries", "control"]),
    ("pandapower/contingency", ["contingency"]), ("pandapower/opf", ["opf"]), ("pandapower/optimal_powerflow", ["opf"]),
    ("pandapower/pypower/opf", ["opf"]), ("pandapower/pypower/dcopf", ["opf"]), ("pandapower/pypower/pips", ["opf"]),
    ("pandapower/shortcircuit", ["shortcircuit"]), ("pandapower/estimation", ["estimation"]),
    ("pandapower/converter", ["converter"]), ("pandapower/toolbox", ["toolbox", "api", "grid_equivalents"]),
    ("pandapower/create", ["api", "toolbox", "loadflow"]), ("pandapower/std_types", ["api", "toolbox"]),
    ("pandapower/topology", ["topology", "toolbox"]), ("pandapower/grid_equivalents", ["grid_equivalents"]),
    ("pandapower/protection", ["protection"]), ("pandapower/diagnostic", ["api"]), ("pandapower/groups", ["toolbox", "api"]),
    ("pandapower/pf/runpp_3ph", ["loadflow"]), ("pandapower/run.py", ["loadflow", "api", "control"]),
    ("pandapower", ["loadflow", "api"]),       # core power flow: pf/, pypower/, build_*, results*
]


def areas_for(files):
    out = []
    for f in files:
        for pre, dirs in AREAS:
            if f.startswith(pre):
                out += [d for d in dirs if d not in out]
                break
    return out


def main():
    args = [a for a in sys.argv[1:] if not a.startswith("--")]
    flags = [a for a in sys.argv[1:] if a.startswith("--")]
    d = os.path.abspath(args[0])
    tier = "quick"
    if "--tier" in sys.argv:
        tier = sys.argv[sys.argv.index("--tier") + 1]
        args = [a for a in args if a != tier]
    meta = json.load(open(os.path.join(d, "meta.json")))
    prop = meta["property"]
    name = os.path.basename(d.rstrip("/"))
    wt = "/tmp/seedwt/%s_%d" % (name, os.getpid())       # unique per invocation: several engineers may confirm the same seed
    out = "/tmp/seedout/%s_%d" % (name, os.getpid())
    res = {"seed": name, "property": prop, "repo_head": None, "steps": {}}
    prev_path = os.path.join(d, "confirm.json")
    prev = json.load(open(prev_path)) if os.path.exists(prev_path) else {}
    os.makedirs("/tmp/seedwt", exist_ok=True)
    shutil.rmtree(out, ignore_errors=True)
    os.makedirs(out, exist_ok=True)
    sh(["git", "-C", "/repo", "worktree", "remove", "--force", wt])
    rc, o, _ = sh(["git", "-C", "/repo", "worktree", "add", "--detach", wt, "HEAD"])
    if rc:
        print(o)
        sys.exit(2)
    try:
        res["repo_head"] = sh(["git", "-C", "/repo", "rev-parse", "--short", "HEAD"])[1].strip()
        env = {"PYTHONPATH": wt, "PYTHONHASHSEED": "0"}
        demo = os.path.join(d, "demo.py")
        rc0, o0, t = sh([PY, "-B", demo], cwd=wt, env=env, timeout=900)
        res["steps"]["demo_clean"] = {"rc": rc0, "ok": rc0 == 0, "s": round(t, 1), "tail": o0[-600:]}
        rc, o, _ = sh(["git", "-C", wt, "apply", os.path.join(d, "patch.diff")])
        res["steps"]["apply"] = {"rc": rc, "ok": rc == 0, "tail": o[-400:]}
        changed = sh(["git", "-C", wt, "diff", "--name-only"])[1].split()
        res["files"] = changed
        rc, o, _ = sh([PY, "-m", "py_compile"] + [os.path.join(wt, f) for f in changed if f.endswith(".py")])
        res["steps"]["compile"] = {"rc": rc, "ok": rc == 0, "tail": o[-400:]}
        rc1, o1, t = sh([PY, "-B", demo], cwd=wt, env=env, timeout=900)
        res["steps"]["demo_mutated"] = {"rc": rc1, "ok": rc1 != 0, "s": round(t, 1), "tail": o1[-600:]}
        psuite = prev.get("steps", {}).get("suite", {})
        if psuite.get("ok") and ("--no-suite" in flags or ("--suite-targeted" in flags and psuite.get("scope", "full") == "full")):
            res["steps"]["suite"] = prev["steps"]["suite"]          # keep an earlier suite result
        if "--suite-targeted" in flags and "suite" in res["steps"]:
            pass                                                     # an earlier full pass is kept
        elif "--suite-targeted" in flags:
            base = json.load(open("/root/.vp/BASELINE.json"))
            dirs = areas_for(changed)
            jx = os.path.join(out, "junit.xml")
            rc, o, t = sh([PY, "-m", "pytest", "-q", "-p", "no:cacheprovider", "--timeout=1800", "--continue-on-collection-errors",
                           "-n", os.environ.get("SEED_SUITE_PROCS", "6"), "--junitxml=" + jx] +
                          ["pandapower/test/" + d for d in dirs], cwd=wt, timeout=5400)
            want = [x for x in base["stable_pass"] if any(x.startswith("pandapower.test.%s." % d) for d in dirs)]
            try:
                ok = junit_pass(jx)
                lost = sorted(set(want) - ok)
            except Exception as ex:  # noqa
                lost = ["<no junit: %s>" % ex]
            res["steps"]["suite"] = {"rc": rc, "ok": not lost, "lost": lost[:20], "n_lost": len(lost), "s": round(t, 1),
                                     "scope": "targeted: " + " ".join(dirs), "n_baseline_tests_in_scope": len(want), "tail": o[-300:]}
        elif "--no-suite" not in flags:
            base = json.load(open("/root/.vp/BASELINE.json"))
            jx = os.path.join(out, "junit.xml")
            rc, o, t = sh([PY, "-m", "pytest", "-q", "-p", "no:cacheprovider", "--timeout=900", "--continue-on-collection-errors",
                           "-n", os.environ.get("SEED_SUITE_PROCS", "6"), "--junitxml=" + jx], cwd=wt, timeout=5400)
            try:
                ok = junit_pass(jx)
                lost = sorted(set(base["stable_pass"]) - ok)
            except Exception as ex:  # noqa
                lost = ["<no junit: %s>" % ex]
            res["steps"]["suite"] = {"rc": rc, "ok": not lost, "lost": lost[:20], "n_lost": len(lost), "s": round(t, 1),
                                     "scope": "full", "tail": o[-300:]}
        props = [prop] + [p for p in meta.get("also_check", [])]
        res["checks"] = {}
        if "--suite-only" in flags:
            props = []
            res["checks"] = prev.get("checks", {})
        for p in props:
            if not os.path.exists(os.path.join(VERIF, "harness", "checks", p.lower() + ".py")):
                res["checks"][p] = {"rc": None, "note": "no check registered"}
                continue
            rc, o, t = sh([os.path.join(VERIF, "check"), p, "--tier", tier], cwd=VERIF,
                          env={"VERIF_REPO": wt, "VERIF_OUT": out, "VERIF_SEED": os.environ.get("VERIF_SEED", "1")}, timeout=7200)
            viol = [l for l in o.splitlines() if l.startswith("VIOLATION")]
            res["checks"][p] = {"rc": rc, "detected": rc == 1 and bool(viol), "violations": [v[:400] for v in viol[:6]],
                                "n_violation_lines": len(viol), "s": round(t, 1), "tail": o[-500:], "tier": tier}
        res["confirmed"] = all(s["ok"] for s in res["steps"].values()) and "suite" in res["steps"]
        res["confirmed_without_suite"] = all(s["ok"] for k, s in res["steps"].items() if k != "suite")
        res["detected"] = any(c.get("detected") for c in res["checks"].values())
    finally:
        if "--keep" not in flags:
            sh(["git", "-C", "/repo", "worktree", "remove", "--force", wt])
            shutil.rmtree(wt, ignore_errors=True)
        shutil.rmtree(out, ignore_errors=True)
    with open(os.path.join(d, "confirm.json"), "w") as f:
        json.dump(res, f, indent=1)
    print("%s: confirmed=%s detected=%s  %s" % (name, res.get("confirmed"), res.get("detected"),
                                                  {k: v["ok"] for k, v in res["steps"].items()}))


if __name__ == "__main__":
    main()
