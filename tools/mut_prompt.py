"""Prints the prompt for a mutation sub-agent: property text + worktree only (nothing from /verif)."""
import json, sys
pid = sys.argv[1]
props = {json.loads(l)["id"]: json.loads(l) for l in open("/verif/properties.jsonl")}
p = props[pid]
print(f"""You are a software engineer helping to evaluate how well a (hidden) verification framework detects regressions in the open-source Python library pandapower (power-system analysis). You work ONLY inside the scratch git worktree {"/tmp/mut/" + pid} (a checkout of pandapower; run Python with /venv/bin/python). Do NOT read, list or modify anything under /verif or /repo, and do not use the network (there is none).

The semantic property under study ({pid}: {p['title']}):

  {p['statement']}

  It is meant to hold for: {p['quantifier']['text']}

YOUR TASK: produce TWO independent source changes ("mutations", call them {pid}a and {pid}b, in different code locations / mechanisms if at all possible) to the pandapower library code (not to its tests) such that each one, applied alone:
  1. breaks the property above on the real code (you can show a concrete failing input / call sequence),
  2. still imports and compiles, and the EXISTING test suite still passes with it (no test edited),
  3. is realistic: it looks like a plausible refactoring, optimisation, clean-up or well-meant bug fix that went subtly wrong -- not sabotage, no dead giveaways, a few lines,
  4. needs something SPECIFIC to manifest: a particular multi-step sequence of operations, an unusual-but-legal input or option combination, a fault/exception at a particular point, a particular interleaving/completion order, or two cooperating code sites that each look fine alone. It must NOT be something ordinary everyday use or the most basic smoke test would expose at once.

How to work:
  * Read the relevant pandapower source in the worktree to find where the property is implemented. Think about which inputs the existing tests (pandapower/test/...) exercise, and pick a breakage they do not reach.
  * To run code against the worktree: `cd /tmp/mut/{pid} && PYTHONPATH=/tmp/mut/{pid} /venv/bin/python your_script.py` and make the script print pandapower.__file__ once to be sure it imports from the worktree (it must start with /tmp/mut/{pid}).
  * Tests: during development run only the relevant test sub-directories, e.g. `cd /tmp/mut/{pid} && /venv/bin/python -m pytest -q -p no:cacheprovider -x -n 4 pandapower/test/<subdir>`. When a mutation is final, run the whole suite ONCE with it applied: `cd /tmp/mut/{pid} && /venv/bin/python -m pytest -q -p no:cacheprovider --timeout=900 -n 4 pandapower/test 2>&1 | tail -15` (takes several minutes; the unmodified tree has 1173 passing tests and some skips/xfails/failures that exist without your change too -- only NEW failures matter; if unsure compare with a run of the failing test on the clean tree by re-running it in a fresh `git worktree`-independent way: `git diff > /tmp/mutout/my.patch; git checkout -- .; <run test>; git apply /tmp/mutout/my.patch` (never use `git stash`: the stash is shared between worktrees)).
  * For each mutation write into /tmp/mutout/{pid}a/ (resp. /tmp/mutout/{pid}b/):
      - patch.diff  : output of `git -C /tmp/mut/{pid} diff` with only that mutation applied (must apply with `git apply` to a clean checkout),
      - demo.py     : a standalone script (no pytest needed) that exits 0 on the unmodified tree and exits non-zero (failed assertion with a clear message) with the mutation applied; it must import pandapower from PYTHONPATH, use only what is installed, run in under ~60 s, and be deterministic,
      - meta.json   : {{"property": "{pid}", "id": "{pid}a", "summary": "<what the change does>", "needs": "<what specific input/sequence/fault/schedule is needed for it to manifest>", "files": [...], "tests_run": "<the commands you ran and their outcome>"}}
  * Between the two mutations and at the very end restore the worktree: `git -C /tmp/mut/{pid} checkout -- . && git -C /tmp/mut/{pid} status --short`.
  * Verify yourself, for each mutation: demo.py exits 0 on the clean worktree, non-zero with the patch; full test suite shows no new failures.

Report back briefly: for each mutation one paragraph (what, where, what is needed to trigger it, test-suite outcome). Do not include anything else.""")
