#!/venv/bin/python
"""Summarises /verif/seeded/*/ (meta.json + confirm.json): markdown table for DESIGN.md; --write-meta merges the confirmation
summary into each meta.json (field "confirmation": what was run by tools/seed_confirm.py and what came out)."""
import glob
import json
import os
import sys

VERIF = os.path.dirname(os.path.dirname(os.path.abspath(__file__)))
rows = []
for d in sorted(glob.glob(os.path.join(VERIF, "seeded", "*"))):
    mp, cp = os.path.join(d, "meta.json"), os.path.join(d, "confirm.json")
    if not os.path.exists(mp):
        continue
    m = json.load(open(mp))
    c = json.load(open(cp)) if os.path.exists(cp) else {}
    steps = c.get("steps", {})
    chk = c.get("checks", {})
    det = [p for p, r in chk.items() if r.get("detected")]
    und = [p for p, r in chk.items() if r.get("rc") == 0]
    clauses = sorted({v.split("key=")[1].split(" ")[0].split("|")[1] for r in chk.values() for v in r.get("violations", []) if "key=" in v and "|" in v.split("key=")[1]})
    suite = steps.get("suite", {})
    rows.append((os.path.basename(d), m.get("property"), (m.get("summary") or "")[:110].replace("|", "/").replace("\n", " "),
                 "yes" if steps.get("demo_clean", {}).get("ok") and steps.get("demo_mutated", {}).get("ok") else "NO",
                 (("pass" if suite.get("ok") else "lost %s" % suite.get("n_lost")) + " (%s)" % suite.get("scope", "full")) if suite else "not run",
                 ("**detected** by %s (%s)" % (",".join(det), ", ".join(clauses)[:90]) if det else
                  ("not detected (%s quick)" % ",".join(und) if und else "check not run / machinery")) +
                 (" — confirmed against %s; patch superseded by a later fix, see meta.json" % c.get("repo_head") if m.get("superseded") else "")))
    if "--write-meta" in sys.argv and c:
        m["confirmation"] = {"tool": "tools/seed_confirm.py (scratch worktree of /repo HEAD %s; demo on clean and changed tree; "
                                     "test suite vs BASELINE.stable_pass; ./check with VERIF_REPO)" % c.get("repo_head"),
                             "demo_clean_exit0": steps.get("demo_clean", {}).get("ok"), "demo_changed_fails": steps.get("demo_mutated", {}).get("ok"),
                             "suite": ({"ok": suite.get("ok"), "lost": suite.get("lost"), "scope": suite.get("scope", "full")} if suite else "not run by me; the author's run is in tests_run"),
                             "checks": {p: {"exit": r.get("rc"), "violation_lines": r.get("n_violation_lines"), "tier": r.get("tier")} for p, r in chk.items()}}
        json.dump(m, open(mp, "w"), indent=1)
print("| seed | property | change | demo clean ok / changed fails | suite | result of the registered check |")
print("|---|---|---|---|---|---|")
for r in rows:
    print("| %s | %s | %s | %s | %s | %s |" % r)
