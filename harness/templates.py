"""Template networks.  The wiring here mirrors the constant tables of the spec modules one to one."""
import numpy as np


def line(pp, net, a, b, km=1.0, r=0.12, x=0.11, c=10.0, **kw):
    return pp.create_line_from_parameters(net, a, b, km, r, x, c, 0.5, **kw)


def trafo(pp, net, hv, lv, vn_hv=20.0, vn_lv=0.4, sn=1.0, **kw):
    args = dict(sn_mva=sn, vn_hv_kv=vn_hv, vn_lv_kv=vn_lv, vkr_percent=1.0, vk_percent=6.0, pfe_kw=1.0,
                i0_percent=0.1, shift_degree=0.0)
    args.update(kw)
    return pp.create_transformer_from_parameters(net, hv, lv, **args)


def trafo3w(pp, net, hv, mv, lv, vn=(20.0, 20.0, 0.4), **kw):
    args = dict(vn_hv_kv=vn[0], vn_mv_kv=vn[1], vn_lv_kv=vn[2], sn_hv_mva=2.0, sn_mv_mva=1.0, sn_lv_mva=1.0,
                vk_hv_percent=6.0, vk_mv_percent=6.0, vk_lv_percent=6.0, vkr_hv_percent=1.0, vkr_mv_percent=1.0,
                vkr_lv_percent=1.0, pfe_kw=1.0, i0_percent=0.1, shift_mv_degree=0.0, shift_lv_degree=0.0)
    args.update(kw)
    return pp.create_transformer3w_from_parameters(net, hv, mv, lv, **args)


def build_T4():
    """Topology.tla template: buses 0..3, lines l0(0-1) l1(1-2) l2(0-2), trafo t0(2->3), trafo3w w0(0,1,3),
    l3(0-1, parallel to l0, 4 km), trafo3w w1(0,2,3), ext_grids e0@0 e1@2, slack gen g0@3, PV gen g1@1, switches s0 b(1,2) s1 l(1,l0)
    s2 t(3,t0) s3 t3(1,w0) s4 l(0,l0) s5 t3(0,w1)."""
    import pandapower as pp
    net = pp.create_empty_network()
    for i, vn in enumerate([20.0, 20.0, 20.0, 0.4]):
        pp.create_bus(net, vn_kv=vn, index=i)
    line(pp, net, 0, 1)
    line(pp, net, 1, 2, km=2.0)
    line(pp, net, 0, 2)
    line(pp, net, 0, 1, km=4.0)          # l3: parallel to l0, longer
    trafo(pp, net, 2, 3)
    trafo3w(pp, net, 0, 1, 3)
    trafo3w(pp, net, 0, 2, 3)            # w1: shares bus 0 and bus 3 with w0
    pp.create_ext_grid(net, 0, vm_pu=1.0)
    pp.create_ext_grid(net, 2, vm_pu=1.0)
    pp.create_gen(net, 3, p_mw=0.01, vm_pu=1.0, slack=True)
    pp.create_gen(net, 1, p_mw=0.05, vm_pu=1.0)
    pp.create_switch(net, 1, 2, et="b")
    pp.create_switch(net, 1, 0, et="l")
    pp.create_switch(net, 3, 0, et="t")
    pp.create_switch(net, 1, 0, et="t3")
    pp.create_switch(net, 0, 0, et="l")
    pp.create_switch(net, 0, 1, et="t3")  # s5: w1 at its hv bus
    for b in range(4):
        pp.create_load(net, b, p_mw=0.05, q_mvar=0.01)
    pp.create_sgen(net, 2, p_mw=0.02, q_mvar=0.0)
    pp.create_shunt(net, 1, q_mvar=0.01, p_mw=0.0)
    return net


def apply_T4(net, f):
    """Mutate the flags of a T4 net in place from the spec's flag record."""
    net.bus["in_service"] = np.array([f["b0"], f["b1"], f["b2"], f["b3"]], dtype=bool)
    net.line["in_service"] = np.array([f["l0"], f["l1"], f["l2"], f["l3"]], dtype=bool)
    net.trafo["in_service"] = np.array([f["t0"]], dtype=bool)
    net.trafo3w["in_service"] = np.array([f["w0"], f["w1"]], dtype=bool)
    net.ext_grid["in_service"] = np.array([f["e0"], f["e1"]], dtype=bool)
    net.gen["in_service"] = np.array([f["g0"], f["g1"]], dtype=bool)
    net.switch["closed"] = np.array([f["s0"], f["s1"], f["s2"], f["s3"], f["s4"], f["s5"]], dtype=bool)
    net.switch["z_ohm"] = np.array([0.5 if f["z0"] else 0.0, 0, 0, 0, 0, 0], dtype=float)


T4_FLAGS = ["b0", "b1", "b2", "b3", "l0", "l1", "l2", "l3", "t0", "w0", "w1", "e0", "e1", "g0", "g1", "s0", "s1", "s2", "s3",
            "s4", "s5", "z0"]


def char_table(ids_steps, base_vk=6.0, base_vkr=1.0):
    """trafo_characteristic_table with one distinct row per (id, step): ratio 1+0.02*step+0.003*id, vk/vkr distinct."""
    import numpy as np
    import pandas as pd
    rows = []
    for cid, steps in ids_steps.items():
        for st in steps:
            rows.append({"id_characteristic": cid, "step": st, "voltage_ratio": 1 + 0.02 * st + 0.003 * cid,
                         "angle_deg": 0.5 * st + 0.1 * cid, "vk_percent": base_vk + 0.3 * st + 0.7 * cid,
                         "vkr_percent": base_vkr + 0.05 * st + 0.1 * cid, "vk_hv_percent": np.nan,
                         "vkr_hv_percent": np.nan, "vk_mv_percent": np.nan, "vkr_mv_percent": np.nan,
                         "vk_lv_percent": np.nan, "vkr_lv_percent": np.nan})
    return pd.DataFrame(rows)


def build_calc_net(feats=()):
    """Net for C08/C09: 3 x 20 kV buses in a ring + 0.4 kV bus; data for OPF, short-circuit (3ph/2ph/1ph) and 3ph pf.
    feats: "dcline" (dcline b1->b2), "taptable" (trafo uses a characteristic table at tap_pos 1),
    "usergens" (two PV gens with short-circuit data)."""
    import numpy as np
    import pandapower as pp
    net = pp.create_empty_network()
    b = [pp.create_bus(net, 20.0, min_vm_pu=0.9, max_vm_pu=1.1) for _ in range(3)]
    b.append(pp.create_bus(net, 0.4, min_vm_pu=0.9, max_vm_pu=1.1))
    pp.create_ext_grid(net, b[0], vm_pu=1.01, s_sc_max_mva=500.0, s_sc_min_mva=300.0, rx_max=0.1, rx_min=0.1,
                       x0x_max=1.0, r0x0_max=0.1, min_p_mw=-50, max_p_mw=50, min_q_mvar=-50, max_q_mvar=50)
    for a, c in ((0, 1), (1, 2), (0, 2)):
        pp.create_line_from_parameters(net, b[a], b[c], 2.0, 0.12, 0.11, 10.0, 0.5, r0_ohm_per_km=0.4,
                                       x0_ohm_per_km=0.4, c0_nf_per_km=5.0, endtemp_degree=80.0, max_loading_percent=100.)
    pp.create_transformer_from_parameters(
        net, b[2], b[3], sn_mva=1.0, vn_hv_kv=20.0, vn_lv_kv=0.4, vkr_percent=1.0, vk_percent=6.0, pfe_kw=1.0,
        i0_percent=0.1, shift_degree=0.0, vector_group="Dyn", vk0_percent=6.0, vkr0_percent=1.0, mag0_percent=100.0,
        mag0_rx=0.0, si0_hv_partial=0.9, tap_side="hv", tap_neutral=0, tap_min=-2, tap_max=2, tap_step_percent=2.0,
        tap_pos=1, tap_changer_type="Ratio", max_loading_percent=100.)
    pp.create_load(net, b[3], 0.2, 0.05)
    pp.create_load(net, b[1], 1.0, 0.2)
    pp.create_poly_cost(net, 0, "ext_grid", cp1_eur_per_mw=10.0)
    if "usergens" in feats:
        for k, bus in enumerate((b[1], b[2])):
            g = pp.create_gen(net, bus, p_mw=0.3, vm_pu=1.0, vn_kv=20.0, xdss_pu=0.2, rdss_ohm=0.05, cos_phi=0.9,
                              sn_mva=2.0, pg_percent=0.0, min_p_mw=0.0, max_p_mw=1.0, min_q_mvar=-1.0, max_q_mvar=1.0,
                              controllable=True, name="user_gen_%d" % k)
            pp.create_poly_cost(net, g, "gen", cp1_eur_per_mw=12.0 + k)
    if "dcline" in feats:
        pp.create_dcline(net, b[1], b[2], p_mw=0.1, loss_percent=1.0, loss_mw=0.001, vm_from_pu=1.0, vm_to_pu=1.0,
                         max_p_mw=0.5, min_q_from_mvar=-0.5, max_q_from_mvar=0.5, min_q_to_mvar=-0.5, max_q_to_mvar=0.5)
    if "ideal" in feats:
        # an ideal phase shifter b1 -> b2 defined by tap_step_degree only (tap_step_percent stays NaN); the first
        # transformer has no tap_step_degree (NaN): the user's NaN cells must survive every calculation
        pp.create_transformer_from_parameters(
            net, b[1], b[2], sn_mva=5.0, vn_hv_kv=20.0, vn_lv_kv=20.0, vkr_percent=0.5, vk_percent=8.0, pfe_kw=1.0,
            i0_percent=0.1, shift_degree=0.0, vector_group="YNyn", vk0_percent=8.0, vkr0_percent=0.5, mag0_percent=100.0,
            mag0_rx=0.0, si0_hv_partial=0.9, tap_side="hv", tap_neutral=0, tap_min=-2, tap_max=2, tap_step_degree=2.0,
            tap_pos=1, tap_changer_type="Ideal", max_loading_percent=100.)
    # measurements for the state-estimation kind of C08: exact values of a power flow of this very net; a bus-bus switch with
    # impedance between two extra buses gives estimate(fuse_buses_with_bb_switch=...) something to change temporarily
    try:
        import copy as _copy
        ref = _copy.deepcopy(net)          # never calculate on the template itself: its tables are the "before" state of C08
        pp.runpp(ref)
        for bus in net.bus.index:
            pp.create_measurement(net, "v", "bus", float(ref.res_bus.vm_pu.at[bus]), 0.002, bus)
            pp.create_measurement(net, "p", "bus", float(ref.res_bus.p_mw.at[bus]), 0.01, bus)
            pp.create_measurement(net, "q", "bus", float(ref.res_bus.q_mvar.at[bus]), 0.01, bus)
    except Exception:  # noqa
        pass
    if "taptable" in feats:
        net["trafo_characteristic_table"] = char_table({0: [-2, -1, 0, 1, 2]})
        net.trafo["id_characteristic_table"] = net.trafo["id_characteristic_table"].astype("Int64")
        net.trafo.loc[0, "id_characteristic_table"] = 0
        net.trafo["tap_dependency_table"] = False
        net.trafo.loc[0, "tap_dependency_table"] = True
    return net
