"""Regenerates MANIFEST.json from the CHECKS / NOT_APPLICABLE tables below (run: /venv/bin/python harness/manifest_gen.py)."""
import json
import os

VERIF = os.path.dirname(os.path.dirname(os.path.abspath(__file__)))

CHECKS = {
    "C07": ("model_checking",
            "TLC enumerates every in_service/switch configuration of a 4-bus template (lines, trafo, trafo3w, all four "
            "switch kinds, 4 sources), proves the modelled power-flow route and topology route equal on all of them, and "
            "every configuration is replayed on runpp/rundcpp/unsupplied_buses; TLC decides the property's predicates on "
            "the observations. Exhaustive in the template, which is where the bookkeeping bugs of this kind live.",
            "TLC + TLA+ value parser + the template builder; one template only; NaN/zero tests are exact",
            "TLC-enumerated configurations replayed on the implementation; TLC evaluates invariants on observations", "§4 C07"),
    "C26": ("model_checking",
            "TLC enumerates configurations x create_nxgraph option records, checks partition / shortest-path theorems on "
            "the model, and the real graphs (adjacency, components, distances) must equal the spec's for every state.",
            "as C07; notravbuses semantics as implemented (outgoing edges removed)",
            "TLC-enumerated (configuration, options) states replayed; graph equality decided by TLC", "§4 C07/C26"),
    "C34": ("model_checking",
            "TLC enumerates every (stored, passed) assignment over every pair of the 17 runpp options (values unset / default / "
            "non-default), the required resolution function incl. the documented derivations (init, max_iteration) is the "
            "spec; one set_user_pf_options + runpp per state, net._options compared by TLC. Divergence = violation.",
            "pairwise interaction coverage only; token meanings in harness/checks/c34.py; known deviations are attributed by "
            "a named deviation model (ExpectedImpl) evaluated by TLC, never accepted silently",
            "TLC-enumerated option configurations replayed; decision function equality decided by TLC", "§4 C34"),
    "C30": ("model_checking",
            "TLC enumerates every history of <=4 new/register/diagnose actions over two Diagnostic instances; each history is "
            "replayed on real objects with recording DiagnosticFunctions; TLC compares what every diagnose call ran and saw "
            "with the stateless abstract model, and the net digest before/after.",
            "default function set stubbed in the exhaustive part (real set on a seeded sample in thorough); reports not covered",
            "TLC-generated histories replayed on real objects; observations validated by TLC", "§4 C30"),
    "C08": ("fault_enumeration",
            "CalcPipeline.tla models every calculation kind as a staged machine with auxiliary rows / temporaries and the "
            "required restore-on-every-exit design; TLC enumerates every (kind x feature subset x crash point) triple incl. "
            "nested contingency runs; each triple is executed on the real code with an injected raise at that hook stage (or "
            "the natural failure), and CalcPipelineTrace.tla validates the recorded hook-event trace against the machine and "
            "decides 'no rows added/removed, no pre-existing input value changed' on the observed final state.",
            "crash points = hook stages of pandapower/_verif.py (foreign exception or LoadflowNotConverged) + 2 natural failures; estimate() only on its normal path; b2b_vsc not covered; "
            "tables compared per pre-existing column by value digest",
            "TLC-enumerated crash points injected via env-guarded hooks; trace validation by TLC", "§4 C08"),
    "C09": ("model_checking",
            "History.tla: TLC enumerates every history (<=4 steps) of edits and calculations ending in a power flow; each is "
            "replayed on one long-lived net, the last step also on a deep copy and on a freshly built net with the same "
            "element state; TLC compares the three result projections in fixed point, checks the NaN mask against the spec's "
            "unsupplied set and the convergence obligation of init='results' under the Nearby predicate.",
            "one template; DC runs are not compared on q_mvar against the fresh net (rundcpp leaves that column untouched)",
            "TLC-generated histories replayed differentially; relations evaluated by TLC", "§4 C09"),
    "C31": ("model_checking",
            "TapTable.tla: TLC enumerates every assignment of (tap_dependency_table, characteristic id, tap position) to three "
            "transformers sharing one table with a distinct row per (id, step); the spec's required row <<id_t, pos_t>> is "
            "entered directly into a second net; TLC compares bus voltages and transformer flows of the two solved nets and "
            "checks that the lookup did not write into net.trafo.",
            "2W family: row entered directly; 3W family (tap side hv/mv/lv, tap at star point, Ratio/Symmetrical/Ideal, shared ids): "
            "self-consistency with the non-tabular path (own row = own linear tap model) and direct entry for terminal taps; tolerances 3e-5 abs + 20 ppm",
            "TLC-enumerated configurations; differential power flow compared by TLC", "§4 C31"),
    "C22": ("model_checking",
            "NetEditDef.tla is a relational model of the net (rows, typed references with cascade kinds, result rows) with the "
            "edit API as constructive operations; TLC checks RefIntegrity/ResSubset on every history of the model, every "
            "maximal history is replayed on a real net containing all four switch kinds, measurements, costs, groups and "
            "controllers, and TLC evaluates RefIntegrity on the mechanical projection logged after EVERY step (this decides "
            "C22) and compares the final state with the constructive model (divergence only).",
            "alphabet NetEditDef!Ops (drop/reindex/continuous/fuse/select); depth 2 quick, 3 thorough; merge_nets/replace_* "
            "not enumerated; controller targets read from element/element_index attributes",
            "TLC-generated edit histories replayed; reference integrity of every logged state decided by TLC", "§4 C22"),
    "C27": ("model_checking",
            "GroupsDef.tla is the abstract set model (membership per group and element type, element existence, index shift, "
            "in_service) with create/attach/detach/drop_elements/reindex_elements/drop_group/set_group_in|out_of_service as "
            "pure steps; TLC checks the set laws on the model, every maximal history is replayed on a real net with an "
            "index-based and a reference-column group, and TLC compares group_element_index, net.group rows, in_service "
            "sets and group_res_p_mw (member powers are powers of two, so the sum identifies the set) after EVERY step. "
            "Divergence = violation.",
            "two element types, two groups, member sets GroupsDef!Sel, depth 3 (4 thorough)",
            "TLC-generated operation histories replayed; abstract-set equality decided by TLC at every step", "§4 C27"),
    "C24": ("model_checking",
            "Create.tla enumerates every configuration (17 create pairs x subsets of explicitly passed optional parameter groups "
            "x standard-type shapes x error conditions); both routes (two single calls / one batch call) are executed with a "
            "distinct sentinel value per parameter source, and TLC decides row equality, 'batch rejects iff a single call "
            "rejects', the spec's required rejection and 'no partial creation' on the recorded rows.",
            "optional groups per Create.tla!Opt; missing values (None/NaN/''/absent column) are one token; name and geodata "
            "columns excluded",
            "TLC-enumerated creation configurations executed on both routes; provenance rows compared by TLC", "§4 C24"),
    "C25": ("model_checking",
            "StdTypes.tla: the type library of two nets as a state machine (create with/without overwrite, rename, delete, "
            "copy); every maximal history is replayed and TLC compares load_std_type of every name after every step and "
            "which calls raise. StdApply.tla enumerates element kind x type shape x route (create / change_std_type): TLC "
            "checks that every calculation-relevant parameter of the type is in the row. Built-in types are applied and "
            "compared in a power flow with explicitly parameterised elements (TLC, fixed point).",
            "'every parameter' read as the calculation-relevant ones (StdTypesObs!Relevant); fuse types not covered; quick "
            "samples 12 built-in types per kind, thorough all",
            "TLC-generated library histories and apply configurations replayed; equality decided by TLC", "§4 C25"),
    "C14": ("model_checking",
            "Contingency.tla: N-1 analysis as a fold over case outcomes. TLC enumerates every configuration (9 case orders x 64 "
            "outcome matrices x own-outage value NaN/0 x failing case) and the required extremes / causes / overload flags as "
            "pure functions; every configuration is executed through the real run_contingency with a stub evaluation "
            "function that writes exactly the model's numbers, and TLC decides max/min/cause/causes_overloading/N-0/bus "
            "extremes/written columns/in_service restoration on the returned dict and on net.res_*.",
            "three parallel lines, loadings {1,3} %, limit 2 %; stub evaluation function (the real runpp path of a contingency "
            "run is exercised under C08); trafo/trafo3w case lists only in thorough",
            "TLC-enumerated outcome matrices executed through the real aggregation code; required fold decided by TLC", "§4 C14"),
    "C15": ("model_checking",
            "Contingency.tla models the worker pool (Dispatch/Complete in any interleaving, Collect in task order); TLC proves "
            "the aggregated result schedule-independent and equal to the sequential fold for every schedule; a seeded "
            "sample of configurations runs under the real multiprocessing pool with n_procs 1..3 and per-task delays that "
            "realise completion orders TLC explored; TLC compares every key/value with the sequential result.",
            "completion order is logged, never used for the verdict; cause compared as 'a valid cause' (ties are legitimate)",
            "TLC-explored worker schedules realised on the real process pool; result equality decided by TLC", "§4 C15"),
    "C13": ("model_checking",
            "ControlLoopDef.tla is the loop of run_control.py as a deterministic event machine (initialize pass, initial "
            "calculation, per level: level_reset pass, sweeps of is_converged/control_step in ascending order, evaluate_net, "
            "max_iter check; finalize pass) plus the transcribed decision functions of DiscreteTapControl/ContinuousTapControl. "
            "ControlLoop.tla drives it with an abstract plant and TLC explores every behaviour of every configuration (tap range, "
            "fresh results, bounded calculations, convergence on return, termination). Every model configuration is run on the real "
            "run_control with the real controller classes and a stub run= implementing the model's plant, the same structures run "
            "on a real feeder with runpp through both entry points; every controller instance is wrapped and TLC folds the machine "
            "over each recorded event trace: order, tap range, only not-converged errors, convergence of every in-service controller "
            "on the final state (decided by the spec's own decision function from the logged voltage/tap), results equal a fresh power flow.",
            "two controllers on 2W transformers (Discrete/Continuous tap, ConstControl); CharacteristicControl/trafo3w modelled, not "
            "instantiated; decisions within 3 micro-pu of a band edge accepted either way on real power flows",
            "TLC-explored loop model; recorded event traces of the real loop validated by folding the spec machine in TLC", "§4 C13"),
    "C12": ("model_checking",
            "Recycle.tla models run_timeseries as a machine over the set of stale ppc components: ConstControl writes invalidate "
            "components (Dep), the first step builds everything, later steps refresh what the aggregated recycle flags name "
            "(transcribed from const_control.set_recycle, _check_controller_recyclability, _recycled_powerflow), results are logged "
            "per step or by the batch reader (transcribed eligibility). TLC checks coherence at every solve and soundness of the "
            "batch decision for every configuration; every single-target configuration and a seeded sample of the two-target ones "
            "run through the real run_timeseries and, step by step, a fresh runpp on a controller-free copy; TLC compares every "
            "recorded value, decides 'recorded instead of failing' and checks the recycle flags / batch decision tables.",
            "14 write targets x 12 result variables x request form x switch scenario on one template; three steps; in_service "
            "profiles not enumerated",
            "TLC-checked cache-coherence model; TLC-enumerated configurations replayed on run_timeseries vs fresh power flows", "§4 C12"),
    "C06": ("exploration",
            "SolversDef.tla classifies network classes (1-2 islands of a 4-bus template: radial / 1 loop / 2 loops, slack kind and "
            "position, PV gen, second slack, phase-shifting transformers, load level), transcribes the option resolution / dispatch / "
            "back-end selection of runpp and an index model of the bfsw BIBC/BCBV construction and its angle post-processing, and "
            "derives the outcome set the property allows per solver run (BfswApplicable, BfswMustSolve, Comparable). Solvers.tla is "
            "the state machine fresh -> classify -> solve(s); every class x calculate_voltage_angles is run on the real code with 13 "
            "solver configurations (iwamoto_nr, bfsw, gs, fdbx, fdxb, lightsim2grid, numba off, init dc/results/flat ...) and TLC "
            "decides: a returned result equals the NR reference, bfsw never dies with an internal error where applicable, bfsw solves "
            "where it must; conformance of options / call traces with the model is checked too (divergence).",
            "'weakly meshed' read as <= 1 loop per island; nr flat start not compared behind 150 degree transformers with angles "
            "(documented low-voltage solution); LoadflowNotConverged outside BfswMustSolve counted, not flagged",
            "TLC-enumerated network classes x solver configurations run on the implementation; agreement decided by TLC", "§5 C06"),
    "C01": ("exploration",
            'BalanceDef.tla fixes the template (6 buses, 9 branches incl. trafo3w, impedance, impedance switch, dcline, 17 bus elements) and the contribution map: which element / branch terminal contributes at which fused bus class with which sign. BalanceNet.tla lets TLC choose the structure of every case: corner configurations plus a seeded RandomSubset of the full product (21 element switches x ZIP fractions, voltage_depend_loads, AC/DC, trafo_model, enforce_q_lims, tight limits, distributed_slack, weights, scaling, shunt rating), checked for well-formedness. Each state is solved by the real runpp/rundcpp and TLC evaluates on the logged result tables: '
            "Kirchhoff balance of P and Q at every fused class and res_bus = net consumption at every bus.",
            "one template; level tables in harness/balance.py; tolerance 1 micro-unit per summed term + 3",
            "TLC-chosen configurations solved by the implementation; nodal balance decided by TLC on fixed-point observations", "§5 C01"),
    "C03": ("exploration",
            'BalanceDef.tla fixes the template (6 buses, 9 branches incl. trafo3w, impedance, impedance switch, dcline, 17 bus elements) and the contribution map: which element / branch terminal contributes at which fused bus class with which sign. BalanceNet.tla lets TLC choose the structure of every case: corner configurations plus a seeded RandomSubset of the full product (21 element switches x ZIP fractions, voltage_depend_loads, AC/DC, trafo_model, enforce_q_lims, tight limits, distributed_slack, weights, scaling, shunt rating), checked for well-formedness. Each state is solved by the real runpp/rundcpp and TLC evaluates on the logged result tables: '
            "total consumption - generation + branch losses = 0, pl = sum of terminal powers, non-negative losses of the passive branches, "
            "lossless branches and balance in DC.",
            "as C01; all branches of the template are passive (reciprocal impedance)",
            "TLC-chosen configurations solved by the implementation; conservation relations decided by TLC", "§5 C03"),
    "C04": ("exploration",
            'BalanceDef.tla fixes the template (6 buses, 9 branches incl. trafo3w, impedance, impedance switch, dcline, 17 bus elements) and the contribution map: which element / branch terminal contributes at which fused bus class with which sign. BalanceNet.tla lets TLC choose the structure of every case: corner configurations plus a seeded RandomSubset of the full product (21 element switches x ZIP fractions, voltage_depend_loads, AC/DC, trafo_model, enforce_q_lims, tight limits, distributed_slack, weights, scaling, shunt rating), checked for well-formedness. Each state is solved by the real runpp/rundcpp and TLC evaluates on the logged result tables: '
            "ext_grid magnitude/angle, gen bus at its setpoint or gens exactly at the binding enforced limit with the voltage deviating in the "
            "explained direction, q within limits under enforcement, p*scaling / q*scaling of gens, sgens, storages and constant-power loads, "
            "the ZIP law and the shunt law as exact products in multi-limb integer arithmetic (Wide.tla).",
            "as C01; response laws to 40 ppm; reactive limits to 30 micro-Mvar; several gens on a bus compared by their sum",
            "TLC-chosen configurations solved by the implementation; setpoint / response-law relations decided by TLC (Wide arithmetic)", "§5 C04"),
    "C10": ("exploration",
            'BalanceDef.tla fixes the template (6 buses, 9 branches incl. trafo3w, impedance, impedance switch, dcline, 17 bus elements) and the contribution map: which element / branch terminal contributes at which fused bus class with which sign. BalanceNet.tla lets TLC choose the structure of every case: corner configurations plus a seeded RandomSubset of the full product (21 element switches x ZIP fractions, voltage_depend_loads, AC/DC, trafo_model, enforce_q_lims, tight limits, distributed_slack, weights, scaling, shunt rating), checked for well-formedness. Each state is solved by the real runpp/rundcpp and TLC evaluates on the logged result tables: '
            "deviation/weight equal for all participating ext_grids and gens (cross-multiplied), non-participants keep their setpoints, nodal "
            "balance holds at every class (this clause covers the xward, whose internal share is not a result column).",
            "as C01; configurations with distributed_slack only; xward proportionality not observable from the result tables",
            "TLC-chosen configurations solved by the implementation; proportional sharing decided by TLC", "§5 C10"),
    "C29": ("model_checking",
            "ProtectionDef.tla transcribes the stage selection of OCRelay (DTOC/IDMT/IDTOC) and the fuse regions / curve choice in integer "
            "levels (binary-exact currents and times) and the device life cycle reset -> eval(I) -> status_to_net -> str as a step function; "
            "Protection.tla enumerates relay kinds x pick-up and time routes x all consistent gradings x curves, fuse routes x data sets x "
            "monotone point sets, and every history up to the depth, with model invariants (trip iff pick-up, graded => monotone, every "
            "boundary probed, stateless). Every history is replayed on real OCRelay/Fuse objects on a small net; TLC decides trip/no-trip, "
            "exact definite times, monotone ordering (inf last), fuse bracketing, activation value and device state for every evaluation.",
            "inverse-time and fuse curve VALUES decided as ordering/bracketing only; currents fed by overwriting the result table the device reads",
            "TLC-generated device histories replayed on real protection devices; verdicts by folding the spec's step function in TLC", "§4/§5 C29"),
    "C11": ("exploration",
            "Phase3Def.tla models what runpp_3ph does structurally (vector-group class, topology and supply, element mapping wye/delta, level "
            "patterns, Balanced/Unbalanced classification); Phase3.tla enumerates vector group x topology x up to two elements (kind, bus, "
            "connection, per-phase pattern, modifiers) through Convert -> MapLoads -> Require with model invariants; every configuration is run "
            "on runpp_3ph and runpp and TLC decides: equal phase magnitudes = symmetric result and -120/+120 degree angles and thirds of the "
            "symmetric powers for balanced networks; phases as given, phase sums = totals, per-phase nodal balance and res_bus_3ph bookkeeping always.",
            "per-phase balance at a bus with a delta element in an unbalanced network is not required (only the three-phase sum); vector groups "
            "outside {Dyn, YNyn, Yzn} only bound on accept/reject; nodal tolerance 100 micro-MW",
            "TLC-enumerated configurations run on runpp_3ph/runpp; relations decided by TLC on fixed-point observations", "§5 C11"),
    "C18": ("exploration",
            "ShortCircuitDef.tla transcribes the decision functions behind the IEC 60909 results (voltage factor table, when current sources "
            "contribute, which rows are reported, which calls are supported) and the option cube; ShortCircuit.tla's states are the PAIRS of "
            "runs that must agree (a canonical run and one varied dimension: 3ph->2ph, sn_mva, inverse_y, faulted bus subset) for every "
            "configuration (gen, sgen, ring, case, ip mode, branch results); every state is executed with calc_sc and TLC decides, in squared / "
            "cross-multiplied multi-limb arithmetic (Wide.tla): 3 ikss^2 (rk^2 + xk^2) = c^2 Un^2, skss^2 = 3 Un^2 ikss^2 (3ph), 4 ikss_2ph^2 = "
            "3 ikss_3ph^2, the ip bounds, and equality of bus and branch results across sn_mva, inverse_y and the faulted-bus subset.",
            "the clause 'Thevenin impedance equals an independently built network' is NOT decided (needs complex network reduction); 1ph with "
            "a gen excluded as unsupported; relations 1e-5 relative, cross-run equality 1e-6 relative",
            "TLC-enumerated run pairs executed with calc_sc; IEC relations decided by TLC in multi-limb integer arithmetic", "§5 C18"),
    "C05": ("exploration",
            "EquivDef.tla holds an abstract network of NAMED elements (9 buses incl. a fused bus, a second island and a de-energised bus; lines "
            "with parallel > 1, a transformer, impedance, ward, xward, zero-power and out-of-service elements) and every re-representation as an "
            "operator that yields the transformed abstract net and the CORRESPONDENCE between observation keys (eq, renamed, sum, swapped ends, "
            "fused classes, total losses); Equiv.tla enumerates transformation x target x base variant (corners + seeded RandomSubset) with model "
            "invariants (correspondence total on common buses, sums partition the original ...). The harness builds both nets, solves both with "
            "runpp and TLC checks every correspondence on the fixed-point observations: sn_mva, re-indexing / row permutation (real reindex_*), "
            "splitting loads/sgens, parallel=n <-> n lines, swapped line ends, added out-of-service / zero-power elements, fused buses.",
            "one template; tolerance 30 micro-units + 20 ppm between two solves (tolerance_mva=1e-10)",
            "TLC-enumerated transformations applied to the implementation; correspondences computed by the spec and decided by TLC", "§5 C05/C23"),
    "C23": ("exploration",
            "Same specification as C05 (EquivDef/Equiv/EquivObs) with the REAL toolbox functions as transformations: create_continuous_bus_index / "
            "create_continuous_elements_index, replace_line_by_impedance <-> replace_impedance_by_line, replace_ext_grid_by_gen, replace_ward_by_"
            "internal_elements, replace_xward_by_internal_elements, merge_nets, select_subnet, drop_out_of_service_elements, drop_inactive_elements, "
            "fuse_buses, merge_parallel_line; Applicable carries the documented preconditions; TLC decides every correspondence.",
            "as C05; line -> impedance only for lines without shunt capacitance (documented), ext_grid with va_degree = 0",
            "TLC-enumerated toolbox transformations applied with the real functions; correspondences decided by TLC", "§5 C05/C23"),
    "C16": ("exploration",
            "OpfDef.tla is an integer-valued OPF template (4 buses, one element of each controllable kind, optional mesh line and dcline) with the "
            "instance data computed by the spec (Inst(cfg), serialised by TLC and read back from the built net); Opf.tla enumerates controllable "
            "sets x AC/DC x solver options x mesh x dcline x voltage band x limit levels x branch rating x cost profile; every sampled state is "
            "solved with runopp / rundcopp and TLC decides voltage, active, reactive, branch loading and dcline limits, fixed setpoints of "
            "non-controllable elements, and that a power flow with the OPF dispatch reproduces the OPF result.",
            "tolerances derived from the PIPS termination criterion (stated in OpfObs.tla); non-converged OPFs counted",
            "TLC-enumerated OPF configurations solved by the implementation; feasibility relations decided by TLC", "§5 C16"),
    "C17": ("exploration",
            "OpfDef.tla states the user-side cost convention once (UserRowP / PwlAt), transcribes make_objective.py (CodeRowP/Q, CodePwlAt) and "
            "derives where the code deviates (DevClasses); for DC OPF on radial integer instances it computes the optimum by brute force over the "
            "integer dispatch grid (exact for linear costs, an upper bound for convex quadratic ones). Every sampled cost configuration (all "
            "admissible cost kinds on <= 2 of 6 element types) is solved and TLC decides res_cost = sum of the user's functions at the element's "
            "own result power, and res_cost = grid optimum where that is decided.",
            "optimality of AC results, meshed or lossy-dcline DC cases and a lower bound for quadratic costs are not decided",
            "TLC-enumerated cost configurations solved by the implementation; cost identity and brute-force optimum decided by TLC", "§5 C17"),
    "C19": ("exploration",
            "EstimationDef.tla models measurement-set structures on two templates (core of v / injection / flow measurements, redundant rows, "
            "duplicates, order classes), a conservative sufficient observability predicate (spanning-tree search cross-checked against a "
            "connectivity fixpoint), critical measurements, and transcribes how the code aggregates the table into the measurement vector; "
            "Estimation.tla explores AddRedundant / Duplicate / Reorder from every observable core. Each state is instantiated with noise-free "
            "values of a converged power flow; TLC decides success, estimated voltages and flows = power flow, invariance under order and "
            "redundancy (pairs defined by the spec), and that no bad data is flagged / removed.",
            "observable sets outside the conservative predicate (current-only, mixed) not required; lp agreement recorded only",
            "TLC-explored measurement-set structures instantiated on estimate(); relations decided by TLC", "§5 C19"),
    "C21": ("exploration",
            "ConvertDef.tla models the conversion pipeline on a 5-bus template: which buses survive (in service, fused, energised), auxiliary buses "
            "of open line switches, netting of PD/QD, the decisions of from_ppc, the .mat route and which fields it carries; it defines the bus "
            "CORRESPONDENCE a round trip must preserve. Convert.tla enumerates element sets x route (to_ppc->from_ppc, to_mpc->.mat->from_mpc) "
            "with 8 model invariants; TLC decides round trip completes, same vm/va at corresponding buses, same slack power, same total losses.",
            "pi transformer model, no asymmetric branch data (converter scope)",
            "TLC-enumerated element sets converted forth and back; equality through the spec's correspondence decided by TLC", "§5 C21"),
    "C28": ("exploration",
            "GridEqDef.tla transcribes _determine_bus_groups on a 7-bus template (two rings, tie lines, spur), the required outcome of a call and "
            "structural feature classes of the constructions; GridEq.tla enumerates (boundary, internal seeds) x {ward, xward, rei} x network "
            "variants with invariants (groups partition the buses, valid boundary, slack retained ...). TLC decides: an equivalent is returned, "
            "same vm/va at internal and boundary buses, original network unchanged.",
            "REI equivalents solved at 1e-8 MVA where 1e-9 is unreachable; non-converged equivalents counted",
            "TLC-enumerated boundary partitions run through get_equivalent; voltage equality decided by TLC", "§5 C28"),
    "C32": ("exploration",
            "Curve.tla is a state machine over one characteristic object (class x interpolator kind x fill option x container x data shape chosen "
            "by TLC as small integer sequences; actions Eval (lazy interpolator cache) and Ser(route): net JSON, object JSON, deepcopy, pickle); "
            "CurveDef.tla chooses the abscissae and computes the required values (y_i at support points, enclosure by neighbouring support values "
            "for shape-preserving kinds on monotone data, an exact model of the linear/step kinds). TLC decides on the evaluations of the real "
            "objects: evaluates, support points reproduced, shape preserved, unchanged by every serialisation route (up to two in sequence).",
            "tolerances stated in CurveObs.tla; scalar and vector calls both checked",
            "TLC-generated characteristic histories replayed on real objects; values decided by TLC", "§5 C32"),
    "C33": ("exploration",
            "DerDef.tla transcribes the DERController pipeline in integer units (q models, PQ/QV/PQV areas incl. the VDE-AR-N 4105/4110/4120 variants "
            "and STATCOM, area clipping, saturate_sn_mva with q / p priority, damping, convergence); Der.tla runs the control loop over area x "
            "operating-point region (indices into per-area corner tables) x q model x saturation x damping with model invariants (target / step / "
            "settled feasible, priority kept ...). Every state runs the real run_control with the controller's control_step wrapped; TLC decides "
            "p^2 + q^2 <= sn^2 and q within the area object's own q_flexibility(p, v) after every step, and the settled state.",
            "VDE 4130 areas and cosphi(V)/cosphi(P) curve models not covered; with damping the per-step clauses are required from a feasible start",
            "TLC-explored controller configurations replayed on run_control; capability relations decided by TLC", "§5 C33"),
}

NOT_APPLICABLE = {
    "C02": "needs an independent real-number implementation of the element equivalent circuits; no state machine or relation "
           "TLC could evaluate without re-implementing the power-flow numerics in fixed point (DESIGN §6)",
    "C20": "encode/decode fidelity of arbitrary DataFrames/object graphs; a TLA+ comparison would need the projection to "
           "re-implement the serialiser under test (DESIGN §6)",
}


def main():
    props = [json.loads(l)["id"] for l in open(os.path.join(VERIF, "properties.jsonl"))]
    checks = []
    for pid in props:
        if pid not in CHECKS:
            continue
        cat, text, note, tech, ref = CHECKS[pid]
        checks.append({
            "property_id": pid,
            "quick_cmd": "./check %s --tier quick" % pid,
            "thorough_cmd": "./check %s --tier thorough" % pid,
            "evidence_file": "/verif/evidence/%s.json" % pid,
            "replay_cmd_template": "./check %s --replay {path}" % pid,
            "engine": "tlc",
            "level_claimed": {"category": cat, "text": text, "design_ref": ref},
            "level_note": note,
            "technique": tech,
        })
    na = [{"property_id": p, "reason": r} for p, r in NOT_APPLICABLE.items()]
    for pid in props:
        if pid not in CHECKS and pid not in NOT_APPLICABLE:
            na.append({"property_id": pid, "reason": "not claimed yet: the TLA+ spec / binding for this property is not "
                                                      "built or does not yet run clean (DESIGN §10 order of work)"})
    hooks_commits = []
    hp = os.path.join(VERIF, "hooks_commits.txt")
    if os.path.exists(hp):
        hooks_commits = [l.split()[0] for l in open(hp) if l.strip()]
    man = {
        "version": 1,
        "setup_cmd": "./setup.sh",
        "hooks": {"guard": "E2NIEE_PANDAPOWER_VERIF",
                  "enable": "checks import pandapower from /repo's working tree with E2NIEE_PANDAPOWER_VERIF=1 in the environment "
                            "(pure Python, nothing to build)",
                  "baseline_off_cmd": "cd /repo && env -u E2NIEE_PANDAPOWER_VERIF /venv/bin/python -m pytest -ra -q -p no:cacheprovider "
                                      "--timeout=900 --continue-on-collection-errors",
                  "source_commits": hooks_commits, "add_only": True},
        "engines": [{"name": "tlc", "path": "/verif/spec", "serves_properties": sorted(CHECKS),
                     "kind_free_text": "explicit TLA+ specifications model-checked by TLC 1.8; bound to the code by replaying "
                                       "TLC-generated states/behaviours and by TLC validating recorded observations/traces"}],
        "checks": checks,
        "not_applicable": na,
        "notes": "exit 2 = machinery failure (TLC crash, parse error, overflow), never a verdict. known_findings.jsonl lists "
                 "recorded genuine defects (status known) and repaired ones (status fixed, suppress nothing).",
    }
    with open(os.path.join(VERIF, "MANIFEST.json"), "w") as f:
        json.dump(man, f, indent=1)
    print("MANIFEST.json: %d checks, %d not_applicable" % (len(checks), len(na)))


if __name__ == "__main__":
    main()
