"""Mechanical projections of a pandapower net: per-table digests (C08, C30, C28) and reference columns (C22)."""
import hashlib

import numpy as np
import pandas as pd


def table_digest(df):
    h = hashlib.sha1()
    h.update(repr(list(map(str, df.columns))).encode())
    h.update(repr([str(t) for t in df.dtypes]).encode())
    h.update(repr(list(df.index)).encode())
    for c in df.columns:
        col = df[c]
        try:
            if col.dtype == object:
                h.update(repr([None if (isinstance(x, float) and np.isnan(x)) else (x if isinstance(x, (str, int, float, bool, type(None))) else type(x).__name__ + str(getattr(x, "index", ""))) for x in col.values]).encode())
            else:
                a = np.ascontiguousarray(col.values)
                h.update(a.tobytes())
        except Exception:  # noqa
            h.update(repr(list(col.values)).encode())
    return h.hexdigest()[:16]


def snapshot(net, results=False):
    """{table name: digest} over every DataFrame of the net that is an input table (results optionally)."""
    out = {}
    for k in list(net.keys()):
        v = net[k]
        if isinstance(v, pd.DataFrame) and not k.startswith("_"):
            if k.startswith("res_") and not results:
                continue
            out[k] = table_digest(v)
    return out


def snap_diff(a, b):
    return sorted(k for k in set(a) | set(b) if a.get(k) != b.get(k))


def rows(net):
    return {k: len(net[k]) for k in net.keys() if isinstance(net[k], pd.DataFrame) and not k.startswith("_")
            and not k.startswith("res_")}
