"""Mechanical projections of a pandapower net: per-table digests (C08, C30, C28) and reference columns (C22)."""
import hashlib

import numpy as np
import pandas as pd


def table_digest(df):
    h = hashlib.sha1()
    h.update(repr(list(map(str, df.columns))).encode())
    h.update(repr([str(t) for t in df.dtypes]).encode())
    h.update(repr(list(df.index)).encode())
    for c in df.columns:
        col = df[c]
        try:
            if col.dtype == object:
                h.update(repr([None if (isinstance(x, float) and np.isnan(x)) else (x if isinstance(x, (str, int, float, bool, type(None))) else type(x).__name__ + str(getattr(x, "index", ""))) for x in col.values]).encode())
            else:
                a = np.ascontiguousarray(col.values)
                h.update(a.tobytes())
        except Exception:  # noqa
            h.update(repr(list(col.values)).encode())
    return h.hexdigest()[:16]


def snapshot(net, results=False):
    """{table name: digest} over every DataFrame of the net that is an input table (results optionally)."""
    out = {}
    for k in list(net.keys()):
        v = net[k]
        if isinstance(v, pd.DataFrame) and not k.startswith("_"):
            if k.startswith("res_") and not results:
                continue
            out[k] = table_digest(v)
    return out


def snap_diff(a, b):
    return sorted(k for k in set(a) | set(b) if a.get(k) != b.get(k))


def rows(net):
    return {k: len(net[k]) for k in net.keys() if isinstance(net[k], pd.DataFrame) and not k.startswith("_")
            and not k.startswith("res_")}


def col_digest(col):
    h = hashlib.sha1()
    try:
        if col.dtype == object or str(col.dtype) in ("string", "category") or str(col.dtype)[0].isupper():
            h.update(repr([None if (x is None or x is pd.NA or (isinstance(x, float) and np.isnan(x))) else
                           (x if isinstance(x, (str, int, float, bool)) else type(x).__name__) for x in col.tolist()]).encode())
        else:
            a = np.ascontiguousarray(col.values)
            if a.dtype.kind == "f":
                a = a.astype(np.float64)
            elif a.dtype.kind in "iu":
                a = a.astype(np.int64)
            h.update(a.tobytes())
    except Exception:  # noqa
        h.update(repr(col.tolist()).encode())
    return h.hexdigest()[:12]


def value_snapshot(net):
    """{table: {"#index": digest, column: digest}} for every input table (no res_*, no private tables)."""
    out = {}
    for k in list(net.keys()):
        v = net[k]
        if isinstance(v, pd.DataFrame) and not k.startswith("_") and not k.startswith("res_"):
            d = {"#index": hashlib.sha1(repr(list(v.index)).encode()).hexdigest()[:12]}
            for c in v.columns:
                d[str(c)] = col_digest(v[c])
            out[k] = d
    return out


def value_diff(a, b):
    """pre-existing values that changed: ['table.column', ...] (new columns/tables are not a change of existing values)."""
    out = []
    for t, cols in a.items():
        if t not in b:
            out.append(t + ".#dropped")
            continue
        for c, dg in cols.items():
            if c not in b[t]:
                out.append("%s.%s#dropped" % (t, c))
            elif b[t][c] != dg:
                out.append("%s.%s" % (t, c))
    return sorted(out)
