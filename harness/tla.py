"""TLC runner and TLA+ value parser (stdlib only).

run_tlc()      runs one TLC job (exhaustive or -simulate) in a private scratch directory and returns
               counters, the list of violated invariants (with the violating state text), and the dump.
parse_value()  bracket-matching parser for TLA+ values as TLC prints them.
parse_dump()   reads a `-dump` file into a list of {var: value} dicts.
"""
import os
import re
import shutil
import subprocess
import tempfile
import time

TLA_JAR = "/opt/veriftools/tla/tla2tools.jar:/opt/veriftools/tla/CommunityModules-deps.jar"
SPEC_DIR = os.path.join(os.path.dirname(os.path.dirname(os.path.abspath(__file__))), "spec")


class MachineryError(Exception):
    """TLC crashed, a spec did not parse, overflow ... -> exit code 2, never a VIOLATION."""


# ------------------------------------------------------------------------------------------------
# value parser
# ------------------------------------------------------------------------------------------------
class HDict(dict):
    """hashable dict: TLA+ records / functions may be elements of sets"""

    def __hash__(self):
        return hash(frozenset(self.items()))


class _P:
    def __init__(self, s):
        self.s = s
        self.i = 0
        self.n = len(s)

    def ws(self):
        s, n = self.s, self.n
        while self.i < n and s[self.i] in " \t\r\n":
            self.i += 1

    def peek(self, k=1):
        return self.s[self.i:self.i + k]

    def expect(self, tok):
        self.ws()
        if self.s.startswith(tok, self.i):
            self.i += len(tok)
        else:
            raise ValueError("expected %r at %d: %r" % (tok, self.i, self.s[self.i:self.i + 40]))

    def value(self):
        self.ws()
        c = self.peek()
        s = self.s
        if c == '"':
            j = self.i + 1
            out = []
            while s[j] != '"':
                if s[j] == "\\":
                    j += 1
                    out.append({"n": "\n", "t": "\t"}.get(s[j], s[j]))
                else:
                    out.append(s[j])
                j += 1
            self.i = j + 1
            v = "".join(out)
        elif self.peek(2) == "<<":
            self.i += 2
            v = tuple(self.seq(">>"))
        elif c == "{":
            self.i += 1
            v = frozenset(self.seq("}"))
        elif c == "[":
            self.i += 1
            v = HDict()
            self.ws()
            if self.peek() == "]":
                self.i += 1
            else:
                while True:
                    self.ws()
                    m = re.compile(r"[A-Za-z_0-9]+").match(s, self.i)
                    k = m.group(0)
                    self.i = m.end()
                    self.expect("|->")
                    v[k] = self.value()
                    self.ws()
                    if self.peek() == ",":
                        self.i += 1
                        continue
                    self.expect("]")
                    break
        elif c == "(":
            self.i += 1
            v = HDict()
            while True:
                k = self.value()
                self.expect(":>")
                v[k] = self.value()
                self.ws()
                if self.peek(2) == "@@":
                    self.i += 2
                    continue
                self.expect(")")
                break
        else:
            m = re.compile(r"-?[0-9]+").match(s, self.i)
            if m:
                self.i = m.end()
                v = int(m.group(0))
                self.ws()
                if self.peek(2) == "..":
                    self.i += 2
                    hi = self.value()
                    v = frozenset(range(v, hi + 1))
            else:
                m = re.compile(r"[A-Za-z_][A-Za-z_0-9]*").match(s, self.i)
                if not m:
                    raise ValueError("cannot parse at %d: %r" % (self.i, s[self.i:self.i + 40]))
                self.i = m.end()
                w = m.group(0)
                v = True if w == "TRUE" else False if w == "FALSE" else w
        return v

    def seq(self, close):
        out = []
        self.ws()
        if self.s.startswith(close, self.i):
            self.i += len(close)
            return out
        while True:
            out.append(self.value())
            self.ws()
            if self.peek() == ",":
                self.i += 1
                continue
            self.expect(close)
            return out


def parse_value(text):
    p = _P(text)
    v = p.value()
    p.ws()
    if p.i != p.n:
        raise ValueError("trailing text: %r" % text[p.i:p.i + 40])
    return v


_VAR = re.compile(r"^/\\ ([A-Za-z_][A-Za-z_0-9]*) = ", re.M)


def parse_state(text):
    """'/\\ a = ...\n/\\ b = ...' -> {a: value, b: value} (single-variable states print 'a = ...')."""
    text = text.strip()
    if not text.startswith("/\\"):
        text = "/\\ " + text
    ms = list(_VAR.finditer(text))
    st = {}
    for k, m in enumerate(ms):
        end = ms[k + 1].start() if k + 1 < len(ms) else len(text)
        st[m.group(1)] = parse_value(text[m.end():end])
    return st


def parse_dump(path, contains=None):
    """contains: parse only the states whose text contains this substring (large dumps)"""
    with open(path) as f:
        txt = f.read()
    parts = re.split(r"^State \d+:\s*$", txt, flags=re.M)
    return [parse_state(p) for p in parts[1:] if p.strip() and (contains is None or contains in p)]


def to_tla(v):
    """Python value -> TLA+ literal (for generated cfg/constant modules)."""
    if isinstance(v, bool):
        return "TRUE" if v else "FALSE"
    if isinstance(v, int):
        return str(v)
    if isinstance(v, str):
        return '"%s"' % v
    if isinstance(v, (list, tuple)):
        return "<<" + ", ".join(to_tla(x) for x in v) + ">>"
    if isinstance(v, (set, frozenset)):
        return "{" + ", ".join(to_tla(x) for x in sorted(v, key=repr)) + "}"
    if isinstance(v, dict):
        if not v:
            return "<<>>"
        if all(isinstance(k, str) and re.match(r"^[A-Za-z_][A-Za-z_0-9]*$", k) for k in v):
            return "[" + ", ".join("%s |-> %s" % (k, to_tla(x)) for k, x in v.items()) + "]"
        return "(" + " @@ ".join("%s :> %s" % (to_tla(k), to_tla(x)) for k, x in v.items()) + ")"
    raise TypeError(type(v))


def jsonable(v):
    """parsed TLA+ value -> JSON-serialisable (sets -> sorted lists, non-str keys -> str)."""
    if isinstance(v, (frozenset, set)):
        return sorted((jsonable(x) for x in v), key=repr)
    if isinstance(v, tuple):
        return [jsonable(x) for x in v]
    if isinstance(v, dict):
        return {str(k): jsonable(x) for k, x in v.items()}
    return v


# ------------------------------------------------------------------------------------------------
# runner
# ------------------------------------------------------------------------------------------------
class TLCResult:
    def __init__(self):
        self.stdout = ""
        self.rc = None
        self.generated = 0
        self.distinct = 0
        self.init_states = 0
        self.depth = 0
        self.violations = []   # list of (invariant name or kind, state dict or None, raw text)
        self.errors = []       # non-invariant errors (machinery)
        self.dump = None
        self.wall = 0.0
        self.coverage = {}
        self.printed = []

    @property
    def transitions(self):
        return max(self.generated - self.init_states, 0)


_RE_INV_INIT = re.compile(r"Error: Invariant (\w+) is violated by the initial state:\n((?:.+\n)+?)\n", re.M)
_RE_INV = re.compile(r"Error: Invariant (\w+) is violated\.")
_RE_ACTPROP = re.compile(r"Error: Action property (\w+) is violated\.")
_RE_STATS = re.compile(r"(\d+) states generated, (\d+) distinct states found")
_RE_INITN = re.compile(r"Finished computing initial states: (\d+) distinct state")
_RE_DEPTH = re.compile(r"The depth of the complete state graph search is (\d+)")


def run_tlc(module, cfg, workdir=None, workers=16, dump=False, extra=(), env=None, timeout=3600,
            cont=True, simulate=None, depth=None, seed=None, deadlock=False, heap=None, keep=False,
            coverage=False, extra_files=(), jvm=(), dump_filter=None):
    """Run TLC on spec/<module>.tla with spec/<cfg> (or an absolute cfg path).

    All spec/*.tla files are copied into a scratch directory so generated modules (constants, traces) can
    sit next to them; nothing is written into /verif/spec or /repo.
    Returns TLCResult; raises MachineryError when TLC fails for a reason other than a property violation.
    """
    res = TLCResult()
    own = workdir is None
    wd = workdir or tempfile.mkdtemp(prefix="ppverif_tlc_")
    try:
        for fn in os.listdir(SPEC_DIR):
            if fn.endswith(".tla") or fn.endswith(".cfg"):
                dst = os.path.join(wd, fn)
                if not os.path.exists(dst):
                    shutil.copy(os.path.join(SPEC_DIR, fn), dst)
        for src in extra_files:
            shutil.copy(src, os.path.join(wd, os.path.basename(src)))
        cfgp = cfg if os.path.isabs(cfg) else os.path.join(wd, cfg)
        cmd = ["java", "-XX:+UseParallelGC"] + list(jvm)
        if heap:
            cmd.append("-Xmx" + heap)
        cmd += ["-cp", TLA_JAR, "tlc2.TLC", "-workers", str(workers), "-metadir", os.path.join(wd, "meta"),
                "-noGenerateSpecTE", "-config", cfgp]
        if cont:
            cmd.append("-continue")
        if not deadlock:
            cmd.append("-deadlock")
        if dump:
            cmd += ["-dump", os.path.join(wd, "dump")]
        if simulate:
            cmd += ["-simulate", simulate]
        if depth:
            cmd += ["-depth", str(depth)]
        if seed is not None:
            cmd += ["-seed", str(seed)]
        if coverage:
            cmd += ["-coverage", "1"]
        cmd += list(extra)
        cmd.append(module + ".tla")
        e = dict(os.environ)
        if env:
            e.update({k: str(v) for k, v in env.items()})
        t0 = time.time()
        try:
            pr = subprocess.run(cmd, cwd=wd, env=e, stdout=subprocess.PIPE, stderr=subprocess.STDOUT,
                                timeout=timeout, text=True)
        except subprocess.TimeoutExpired as ex:
            if simulate:
                res.stdout = (ex.stdout or b"").decode() if isinstance(ex.stdout, bytes) else (ex.stdout or "")
                res.rc = 0
                pr = None
            else:
                raise MachineryError("TLC timeout after %ss on %s" % (timeout, module))
        res.wall = time.time() - t0
        if pr is not None:
            res.stdout = pr.stdout
            res.rc = pr.returncode
        out = res.stdout
        m = None
        for m in _RE_STATS.finditer(out):
            pass
        if m:
            res.generated, res.distinct = int(m.group(1)), int(m.group(2))
        m = _RE_INITN.search(out)
        if m:
            res.init_states = int(m.group(1))
        m = _RE_DEPTH.search(out)
        if m:
            res.depth = int(m.group(1))
        for m in _RE_INV_INIT.finditer(out):
            try:
                st = parse_state(m.group(2))
            except Exception:
                st = None
            res.violations.append((m.group(1), st, m.group(2)))
        # non-initial invariant violations: name followed by behaviour
        for m in _RE_INV.finditer(out):
            tail = out[m.end():]
            k = tail.find("The behavior up to this point is:")
            if k < 0 or k > 200:
                res.violations.append((m.group(1), None, tail[:2000]))
                continue
            body = tail[k:]
            stop = re.search(r"^(Error:|Progress\(|\d+ states generated|Finished )", body, flags=re.M)
            body = body[:stop.start()] if stop else body
            beh = []
            for s in re.split(r"^State \d+: .*$", body, flags=re.M)[1:]:
                try:
                    beh.append(parse_state(s))
                except Exception:
                    beh.append(None)
            res.violations.append((m.group(1), beh, body[:4000]))
        for m in _RE_ACTPROP.finditer(out):
            res.violations.append((m.group(1), None, out[m.end():m.end() + 4000]))
        res.printed = re.findall(r"^(<<.*>>|\".*\")$", out, flags=re.M)
        # machinery errors: any "Error:" line that is not an invariant/property violation or its trace header
        for line in out.splitlines():
            if line.startswith("Error:") and not (
                    "is violated" in line or "The behavior up to this point" in line
                    or "The following behavior constitutes a counter-example" in line):
                res.errors.append(line)
        if "Parsing or semantic analysis failed" in out or "TLC threw an unexpected exception" in out \
                or "java.lang." in out and "Exception" in out and not res.violations:
            raise MachineryError("TLC failed on %s:\n%s" % (module, out[-3000:]))
        if res.errors:
            raise MachineryError("TLC reported errors on %s:\n%s\n...\n%s" % (module, "\n".join(res.errors[:5]),
                                                                            out[-2500:]))
        if dump:
            dp = os.path.join(wd, "dump.dump")
            if os.path.exists(dp):
                res.dump = parse_dump(dp, dump_filter)
        if coverage:
            for m in re.finditer(r"<(\w+) line (\d+), col \d+ to line \d+, col \d+ of module (\w+)>: (\d+):(\d+)", out):
                res.coverage["%s.%s" % (m.group(3), m.group(1))] = (int(m.group(4)), int(m.group(5)))
        return res
    finally:
        if own and not keep:
            shutil.rmtree(wd, ignore_errors=True)
