"""Shared plumbing of the checks: repo import path, fixed-point conversion, evidence, findings, verdicts."""
import hashlib
import json
import math
import os
import sys
import time

VERIF = os.path.dirname(os.path.dirname(os.path.abspath(__file__)))
REPO = os.environ.get("VERIF_REPO", "/repo")
GUARD = "E2NIEE_PANDAPOWER_VERIF"
# VERIF_OUT redirects evidence/replay output (used when the checks are pointed at a mutated scratch worktree via VERIF_REPO)
_OUT = os.environ.get("VERIF_OUT", VERIF)
EVIDENCE_DIR = os.path.join(_OUT, "evidence")
REPLAY_DIR = os.path.join(_OUT, "replay")
FINDINGS = os.path.join(VERIF, "known_findings.jsonl")


def use_repo(hooks=True):
    """Import pandapower from /repo's working tree (never from an installed copy)."""
    if hooks:
        os.environ[GUARD] = "1"
    os.environ.setdefault("PYTHONHASHSEED", "0")
    if REPO not in sys.path:
        sys.path.insert(0, REPO)
    import warnings
    warnings.filterwarnings("ignore")
    import logging
    logging.disable(logging.CRITICAL)


# ---- fixed point ---------------------------------------------------------------------------------
LIM = 1000.0
# TLC cannot compare an integer with a string, so the non-numbers are sentinel integers above the value range
NAN, PINF, NINF = 2000000001, 2000000002, 2000000003


def fx(x, scale=1e6):
    """float -> micro-unit integer, or the sentinels NAN / PINF / NINF (DESIGN 2.3, Fix.tla)."""
    if x is None:
        return NAN
    x = float(x)
    if math.isnan(x):
        return NAN
    if math.isinf(x):
        return PINF if x > 0 else NINF
    if abs(x) >= LIM * 1e6 / scale:
        raise OverflowError("value %r outside the fixed-point range" % x)
    return int(round(x * scale))


def wide(x, scale=1e6):
    """float -> wide integer record {"s": sign, "m": little-endian base-10^4 limbs} (Wide.tla)."""
    x = float(x)
    if math.isnan(x) or math.isinf(x):
        return fx(x)
    n = int(round(x * scale))
    s = -1 if n < 0 else 1
    n = abs(n)
    limbs = []
    while n:
        limbs.append(n % 10000)
        n //= 10000
    return {"s": s, "m": limbs}


def digest(obj):
    return hashlib.sha1(json.dumps(obj, sort_keys=True, default=str).encode()).hexdigest()[:12]


# ---- findings / verdicts -------------------------------------------------------------------------
def load_findings(prop):
    known, fixed = {}, {}
    files = [FINDINGS] + [f for f in os.environ.get("VERIF_EXTRA_FINDINGS", "").split(":") if f]   # extra: development only
    for fn in files:
        if not os.path.exists(fn):
            continue
        for line in open(fn):
            line = line.strip()
            if not line:
                continue
            r = json.loads(line)
            if r.get("property") != prop:
                continue
            (fixed if r.get("status") == "fixed" else known)[r["key"]] = r
    return known, fixed


class Verdict:
    """Collects violations of one property run; decides exit code; writes replay files + evidence."""

    def __init__(self, prop, tier, seed, level):
        self.prop, self.tier, self.seed, self.level = prop, tier, seed, level
        self.t0 = time.time()
        self.violations = []      # dicts {key, what, case}
        self.divergences = []
        self.coverage = {}
        self.assumptions = []
        self.known, self.fixed = load_findings(prop)

    def violation(self, key, what, case=None):
        self.violations.append({"key": key, "what": what, "case": case})

    def divergence(self, what, case=None):
        if len(self.divergences) < 50:
            self.divergences.append({"what": what, "case": case})

    def finish(self):
        os.makedirs(EVIDENCE_DIR, exist_ok=True)
        new, seen_known = [], {}
        for v in self.violations:
            if v["key"] in self.known:
                seen_known.setdefault(v["key"], []).append(v)
            else:
                new.append(v)
        for k, vs in sorted(seen_known.items()):
            print("KNOWN-FINDING: property=%s %s (%d cases; e.g. %s)" % (self.prop, k, len(vs), vs[0]["what"]))
        rc = 0
        if new:
            rc = 1
            d = os.path.join(REPLAY_DIR, self.prop)
            os.makedirs(d, exist_ok=True)
            bykey = {}
            for v in new:
                bykey.setdefault(v["key"], []).append(v)
            for k, vs in sorted(bykey.items()):
                path = os.path.join(d, "%s.json" % digest([k, vs[0]["case"]]))
                with open(path, "w") as f:
                    json.dump({"property": self.prop, "key": k, "what": vs[0]["what"], "case": vs[0]["case"],
                               "n_cases": len(vs), "seed": self.seed, "tier": self.tier}, f, indent=1, default=str)
                print("VIOLATION property=%s replay=%s key=%s n=%d :: %s" % (self.prop, path, k, len(vs), vs[0]["what"]))
        cov = dict(self.coverage)
        cov["known_findings_seen"] = sorted(seen_known)
        cov["divergences"] = self.divergences[:20]
        cov["n_divergences"] = len(self.divergences)
        ev = {"property_id": self.prop, "tier": self.tier, "seed": int(self.seed), "level": self.level,
              "coverage": cov, "assumptions": self.assumptions, "wall_s": round(time.time() - self.t0, 2),
              "violations": len(new)}
        with open(os.path.join(EVIDENCE_DIR, self.prop + ".json"), "w") as f:
            json.dump(ev, f, indent=1, default=str)
        print("%s %s: %s  (%d new violations, %d known-finding keys, %d divergences, %.1fs)" % (
            self.prop, self.tier, "FAIL" if rc else "ok", len(new), len(seen_known), len(self.divergences),
            time.time() - self.t0))
        return rc


_POOL = None


def _worker_init(hooks):
    use_repo(hooks)
    import pandapower  # noqa


def get_pool(procs=16, hooks=True):
    """Persistent pool of FRESH interpreters (spawn).  Forking a parent that has pandapower imported makes every
    worker pay copy-on-write page faults for the whole heap, which in this VM costs more than it saves
    (measured: fork 41 cases/s on 16 processes, spawn 480 cases/s)."""
    global _POOL
    if _POOL is None:
        import multiprocessing as mp
        ctx = mp.get_context("spawn")
        _POOL = ctx.Pool(procs, initializer=_worker_init, initargs=(hooks,))
        import atexit
        atexit.register(close_pool)
    return _POOL


def close_pool():
    global _POOL
    if _POOL is not None:
        _POOL.terminate()
        _POOL.join()
        _POOL = None


def pool_map(fn, items, procs=16, chunksize=None):
    """Parallel map over a module-level function; serial for tiny inputs."""
    items = list(items)
    if not items:
        return []
    if _POOL is None and (len(items) < 400 or procs <= 1):
        return [fn(x) for x in items]      # below ~400 cases the pool's start-up (~20 s) costs more than it saves
    p = get_pool(min(procs, max(2, len(items) // 200)))
    return p.map(fn, items, chunksize or max(1, min(64, len(items) // (procs * 4))))
