"""Shared driver of the power-balance family C01 / C03 / C04 / C10 (BalanceDef.tla, BalanceNet.tla).

The template network mirrors BalanceDef!Node / BalanceDef!Branch one to one; a configuration (a state of BalanceNet.tla)
switches elements on/off and selects levels/options.  observe() runs the real power flow and logs the result tables as
fixed-point integers keyed by the spec's element / terminal names, plus the INPUTS the response laws refer to.
"""
import copy
import os
import shutil
import tempfile

from .common import fx, NAN
from .tla import SPEC_DIR, jsonable, run_tlc

_BASE = {}
# element name -> (table, row index) ; fixed by build()
ROW = {"e0": ("ext_grid", 0), "g0": ("gen", 0), "g1": ("gen", 1), "g2": ("gen", 2), "g3": ("gen", 3), "sg0": ("sgen", 0), "sg1": ("sgen", 1),
       "ld0": ("load", 0), "ld1": ("load", 1), "ld2": ("load", 2), "ld3": ("load", 3), "st0": ("storage", 0), "mo0": ("motor", 0),
       "sh0": ("shunt", 0), "wa0": ("ward", 0), "xw0": ("xward", 0), "al0": ("asymmetric_load", 0), "as0": ("asymmetric_sgen", 0),
       "l0": ("line", 0), "l1": ("line", 1), "l2": ("line", 2), "l3": ("line", 3), "t0": ("trafo", 0), "w0": ("trafo3w", 0),
       "i0": ("impedance", 0), "z0": ("switch", 1), "d0": ("dcline", 0)}
NODES = ["e0", "g0", "g1", "g2", "g3", "sg0", "sg1", "ld0", "ld1", "ld2", "ld3", "st0", "mo0", "sh0", "wa0", "xw0", "al0", "as0"]
TERMS = {"l0": ("from", "to"), "l1": ("from", "to"), "l2": ("from", "to"), "l3": ("from", "to"), "t0": ("hv", "lv"),
         "w0": ("hv", "mv", "lv"), "i0": ("from", "to"), "z0": ("from", "to"), "d0": ("from", "to")}
TNAME = {"from": "f", "to": "t", "hv": "h", "mv": "m", "lv": "l"}
WEIGHTS = {1: {"e0": 1, "g0": 0, "g1": 0, "g2": 0, "g3": 0, "xw0": 0}, 2: {"e0": 1, "g0": 2, "g1": 0, "g2": 1, "g3": 0, "xw0": 1},
           3: {"e0": 2, "g0": 1, "g1": 3, "g2": 0, "g3": 1, "xw0": 2}}
ZIP = {"p": (0, 0), "mix": (30, 20), "z": (100, 0)}       # (const_z_percent, const_i_percent)


def build():
    import pandapower as pp
    if "net" in _BASE:
        return _BASE["net"]
    net = pp.create_empty_network()
    b = [pp.create_bus(net, v) for v in (20., 20., 20., 0.4, 20., 20.)]
    pp.create_ext_grid(net, b[0], vm_pu=1.02, va_degree=0.0, slack_weight=1.0)
    for a, c, km in ((0, 1, 2.0), (1, 2, 1.5), (0, 2, 3.0), (2, 5, 1.0)):
        pp.create_line_from_parameters(net, b[a], b[c], km, 0.12, 0.11, 10., 0.6, g_us_per_km=2.0)
    pp.create_transformer_from_parameters(net, b[2], b[3], sn_mva=1.0, vn_hv_kv=20., vn_lv_kv=0.4, vkr_percent=1.0, vk_percent=6.,
                                          pfe_kw=1.0, i0_percent=0.1, shift_degree=150., tap_side="hv", tap_neutral=0, tap_min=-2,
                                          tap_max=2, tap_step_percent=2.5, tap_pos=1, tap_changer_type="Ratio")
    pp.create_transformer3w_from_parameters(net, b[0], b[1], b[3], vn_hv_kv=20., vn_mv_kv=20., vn_lv_kv=0.4, sn_hv_mva=2.,
                                            sn_mv_mva=1., sn_lv_mva=1., vk_hv_percent=6., vk_mv_percent=6., vk_lv_percent=6.,
                                            vkr_hv_percent=1., vkr_mv_percent=1., vkr_lv_percent=1., pfe_kw=1., i0_percent=0.1,
                                            shift_mv_degree=0., shift_lv_degree=150.)
    pp.create_impedance(net, b[1], b[2], rft_pu=0.01, xft_pu=0.05, sn_mva=10.)     # reciprocal (passive) impedance
    pp.create_switch(net, b[2], b[4], et="b", closed=True)                   # fuses b2 and b4
    pp.create_switch(net, b[1], b[5], et="b", closed=True, z_ohm=0.5)        # z0: impedance switch
    pp.create_gen(net, b[1], 1.0, vm_pu=1.01, slack_weight=0.0)
    pp.create_gen(net, b[1], 0.5, vm_pu=1.01, slack_weight=0.0)
    pp.create_gen(net, b[2], 0.8, vm_pu=1.005, slack_weight=0.0)
    pp.create_gen(net, b[0], 0.3, vm_pu=1.02, slack_weight=0.0)               # g3: at the ext_grid's bus, same setpoint
    pp.create_sgen(net, b[2], 0.8, 0.1)
    pp.create_sgen(net, b[1], 0.3, 0.0, scaling=2.0)
    pp.create_load(net, b[1], 2.0, 0.5)
    pp.create_load(net, b[1], 1.0, 0.2)
    pp.create_load(net, b[4], 0.5, 0.1, scaling=0.5)
    pp.create_load(net, b[5], 0.4, 0.1)
    pp.create_storage(net, b[2], 0.3, 1.0, q_mvar=0.05)
    pp.create_motor(net, b[3], pn_mech_mw=0.05, cos_phi=0.9, efficiency_percent=95., loading_percent=80.)
    pp.create_shunt(net, b[1], q_mvar=-0.5, p_mw=0.01, step=2, vn_kv=19.)
    pp.create_ward(net, b[2], ps_mw=0.1, qs_mvar=0.05, pz_mw=0.1, qz_mvar=0.02)
    pp.create_xward(net, b[1], ps_mw=0.1, qs_mvar=0.05, pz_mw=0.1, qz_mvar=0.02, r_ohm=1., x_ohm=5., vm_pu=1.01, slack_weight=0.0)
    pp.create_asymmetric_load(net, b[3], p_a_mw=0.01, p_b_mw=0.02, p_c_mw=0.005, q_a_mvar=0.002)
    pp.create_asymmetric_sgen(net, b[3], p_a_mw=0.004, p_b_mw=0.002, p_c_mw=0.005)
    pp.create_dcline(net, b[0], b[2], p_mw=0.5, loss_percent=2., loss_mw=0.01, vm_from_pu=1.02, vm_to_pu=1.005,
                     min_q_from_mvar=-50, max_q_from_mvar=50, min_q_to_mvar=-50, max_q_to_mvar=50)
    for t in ("gen",):
        net[t]["min_q_mvar"] = -50.0
        net[t]["max_q_mvar"] = 50.0
    _BASE["net"] = net
    return net


def apply(cfg):
    net = copy.deepcopy(build())
    for name, (tab, i) in ROW.items():
        if name in cfg:
            if tab == "switch":
                net.switch.at[i, "closed"] = bool(cfg[name])
            else:
                net[tab].at[i, "in_service"] = bool(cfg[name])
    cz, ci = ZIP[cfg["zip"]]
    for col, val in (("const_z_p_percent", cz), ("const_i_p_percent", ci), ("const_z_q_percent", cz), ("const_i_q_percent", ci)):
        net.load.at[0, col] = float(val)
    sc = 1.0 if cfg["scal"] == "one" else 0.5
    net.load.at[0, "scaling"] = sc
    net.sgen.at[0, "scaling"] = sc
    net.gen.at[2, "scaling"] = sc
    net.sn_mva = float(cfg.get("sn", 1))
    if cfg.get("shpq", "std") == "equal":
        net.shunt.at[0, "p_mw"] = 0.4
        net.shunt.at[0, "q_mvar"] = 0.4
    elif cfg.get("shpq") == "table":
        import pandas as pd
        # total p / q of the bank at each step (not proportional to the step); the shunt runs at step 2
        net["shunt_characteristic_table"] = pd.DataFrame({"id_characteristic": [0, 0, 0], "step": [1, 2, 3],
                                                          "q_mvar": [-0.3, -0.7, -0.9], "p_mw": [0.01, 0.03, 0.04]})
        net.shunt["id_characteristic_table"] = net.shunt["id_characteristic_table"].astype("Int64") if "id_characteristic_table" in net.shunt else pd.array([pd.NA], dtype="Int64")
        net.shunt.at[0, "id_characteristic_table"] = 0
        net.shunt["step_dependency_table"] = True
        net.shunt.at[0, "step"] = 2
        net.shunt.at[0, "max_step"] = 3
    net.shunt.at[0, "vn_kv"] = 20.0 if cfg["shvn"] == "bus" else 19.0
    lim = 0.3 if cfg["qtight"] else 50.0
    net.gen["min_q_mvar"] = -lim
    net.gen["max_q_mvar"] = lim
    net.gen.at[3, "min_q_mvar"], net.gen.at[3, "max_q_mvar"] = -50.0, 50.0     # reference-bus machines are not limited
    for name, w in WEIGHTS[cfg["wts"]].items():
        tab, i = ROW[name]
        net[tab].at[i, "slack_weight"] = float(w)
    return net


def stagger(net, cfg):
    """level qstag (BalanceDef): place the limit of g2 between its reactive output at the set points (all gens inside or at wide
    limits) and its output once the gens of bus 1 sit at their tight limits, on the side it moves to.  Two auxiliary power flows
    with the options of the case; returns True when the limits could be staggered (the outputs differ by more than 0.02 Mvar)."""
    if not (cfg.get("qstag") and cfg["qtight"] and cfg["qlims"] and cfg["g0"] and cfg["g2"] and cfg["mode"] == "ac"):
        return False
    a = copy.deepcopy(net)
    a.gen["min_q_mvar"], a.gen["max_q_mvar"] = -50.0, 50.0
    b = copy.deepcopy(net)
    b.gen.at[2, "min_q_mvar"], b.gen.at[2, "max_q_mvar"] = -50.0, 50.0
    if not solve(a, dict(cfg, qlims=False))[0] or not solve(b, cfg)[0]:
        return False
    qa, qb = float(a.res_gen.at[2, "q_mvar"]), float(b.res_gen.at[2, "q_mvar"])
    if not abs(qb - qa) > 0.02:
        return False
    mid = round((qa + qb) / 2, 4)
    net.gen.at[2, "min_q_mvar"], net.gen.at[2, "max_q_mvar"] = (-50.0, mid) if qb > qa else (mid, 50.0)
    return True


def solve(net, cfg):
    import pandapower as pp
    try:
        if cfg["mode"] == "dc":
            pp.rundcpp(net, trafo_model=cfg["tmodel"])
        else:
            pp.runpp(net, voltage_depend_loads=bool(cfg["vdl"]), trafo_model=cfg["tmodel"], enforce_q_lims=bool(cfg["qlims"]),
                     distributed_slack=bool(cfg["dslack"]), calculate_voltage_angles=True, tolerance_mva=1e-10, max_iteration=60,
                     init="dc", **({} if cfg.get("ls2g", True) else {"lightsim2grid": False}),
                     **({} if cfg.get("alg", "nr") == "nr" else {"algorithm": cfg["alg"]}))
        return bool(net.converged), ""
    except Exception as e:  # noqa
        return False, type(e).__name__


def _v(df, i, col, scale=1e6):
    try:
        return fx(df.at[i, col], scale)
    except OverflowError:
        raise
    except Exception:  # noqa
        return NAN


def observe(cfg):
    """one case: cfg + inputs + result tables (fixed point)"""
    net = apply(cfg)
    stag = stagger(net, cfg)
    conv, err = solve(net, cfg)
    out = {"cfg": cfg, "conv": conv, "err": err, "node": {}, "term": {}, "pl": {}, "ql": {}, "bus": {}, "inp": {}}
    zero = {"p": 0, "q": 0}
    for n in NODES:
        tab, i = ROW[n]
        r = net.get("res_" + tab)
        out["node"][n] = {"p": _v(r, i, "p_mw"), "q": _v(r, i, "q_mvar"),
                          "vm": _v(r, i, "vm_pu") if (conv and r is not None and "vm_pu" in r) else NAN} if conv and r is not None and len(r) else dict(zero, vm=NAN)
    for br, ends in TERMS.items():
        tab, i = ROW[br]
        r = net.get("res_" + tab)
        for e in ends:
            key = "%s_%s" % (br, TNAME[e])
            out["term"][key] = {"p": _v(r, i, "p_%s_mw" % e), "q": _v(r, i, "q_%s_mvar" % e)} if conv and r is not None and len(r) else dict(zero)
        out["pl"][br] = _v(r, i, "pl_mw") if conv and r is not None and "pl_mw" in r else NAN
        out["ql"][br] = _v(r, i, "ql_mvar") if conv and r is not None and "ql_mvar" in r else NAN
    rb = net.res_bus
    for col, key in (("vm_pu", "vm"), ("va_degree", "va"), ("p_mw", "p"), ("q_mvar", "q")):
        out["bus"][key] = [_v(rb, b, col) for b in range(6)] if conv and len(rb) else [NAN] * 6
    # inputs of the response laws (from the element tables as the power flow saw them)
    inp = out["inp"]
    inp["e0"] = {"vm": fx(net.ext_grid.at[0, "vm_pu"]), "va": fx(net.ext_grid.at[0, "va_degree"]), "w": int(net.ext_grid.at[0, "slack_weight"])}
    for n in ("g0", "g1", "g2", "g3"):
        i = ROW[n][1]
        inp[n] = {"p": fx(net.gen.at[i, "p_mw"]), "sc": fx(net.gen.at[i, "scaling"]), "vm": fx(net.gen.at[i, "vm_pu"]),
                  "qmin": fx(net.gen.at[i, "min_q_mvar"]), "qmax": fx(net.gen.at[i, "max_q_mvar"]), "w": int(net.gen.at[i, "slack_weight"])}
    for n in ("sg0", "sg1", "ld0", "ld1", "ld2", "ld3", "st0"):
        tab, i = ROW[n]
        inp[n] = {"p": fx(net[tab].at[i, "p_mw"]), "q": fx(net[tab].at[i, "q_mvar"]), "sc": fx(net[tab].at[i, "scaling"])}
    for n in ("ld0", "ld1", "ld2", "ld3"):
        i = ROW[n][1]
        inp[n].update({"cz": int(net.load.at[i, "const_z_p_percent"]), "ci": int(net.load.at[i, "const_i_p_percent"])})
    sh_p, sh_q = float(net.shunt.at[0, "p_mw"]), float(net.shunt.at[0, "q_mvar"])
    if cfg.get("shpq") == "table":      # the table holds the bank's total at the step: per-step value = total / step
        sh_p, sh_q = 0.03 / 2, -0.7 / 2
    inp["sh0"] = {"p": fx(sh_p), "q": fx(sh_q), "step": int(net.shunt.at[0, "step"]),
                  "vn": int(round(net.shunt.at[0, "vn_kv"] * 10)), "vnbus": int(round(net.bus.at[1, "vn_kv"] * 10))}
    inp["stag"] = bool(stag)
    inp["xw0"] = {"p": fx(net.xward.at[0, "ps_mw"]), "w": int(net.xward.at[0, "slack_weight"])}
    return out


def enumerate_cfgs(seed, nrandom):
    wd = tempfile.mkdtemp(prefix="ppverif_bal_")
    try:
        s = open(os.path.join(SPEC_DIR, "BalanceNet.cfg")).read().replace("NRandom = 600", "NRandom = %d" % nrandom)
        open(os.path.join(wd, "BalanceNet.cfg"), "w").write(s)
        r = run_tlc("BalanceNet", "BalanceNet.cfg", workdir=wd, dump=True, seed=seed, timeout=1800)
    finally:
        shutil.rmtree(wd, ignore_errors=True)
    return r, [jsonable(s["cfg"]) for s in r.dump]
