"""C23 -- result-preserving toolbox transformations preserve power flow results (DESIGN 5; EquivDef.tla, Equiv.tla, EquivObs.tla).

TLC chooses transformation x target x base variant and computes the transformed abstract network and the correspondence of
observation keys; the harness applies the REAL toolbox function to the instantiated original (harness/equiv.py), TLC evaluates the correspondence."""
from ..equiv import run_prop


def run(tier, seed, replay=None):
    return run_prop("C23", tier, seed, replay=replay)
