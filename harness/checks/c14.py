"""C14 — contingency extremes and causes; C15 — parallel equals sequential (DESIGN §4, Contingency.tla)."""
import copy
import math
import os
import random
import time

from ..common import Verdict, pool_map, use_repo
from ..obs import tlc_obs
from ..tla import jsonable, run_tlc

_BASE = {}


def stub_eval(net, **kwargs):
    """contingency_evaluation_function: writes the model's numbers for the current outage into net.res_*"""
    import numpy as np
    import pandas as pd
    m = net["_verif_matrix"]
    ins = net.line.in_service.values
    n = len(ins)
    oos = m.get("oos", 99)
    out = [i for i in range(n) if not ins[i] and i != oos]
    seen = net.get("_verif_seen")
    if seen is not None:
        seen.append([bool(x) for x in ins])
    if len(out) > 1:
        raise RuntimeError("stub: more than one line out of service: %s" % out)
    c = out[0] if out else n
    if m.get("sleep"):
        time.sleep(m["sleep"].get(str(c), 0.0))
    if m.get("log"):
        with open(m["log"], "a") as f:
            f.write("%d %.6f %d\n" % (c, time.monotonic(), len(out)))
    if c == m["fail"]:
        if m.get("fkind") == "lfnc":
            from pandapower.powerflow import LoadflowNotConverged
            raise LoadflowNotConverged("stub: case %d does not converge" % c)
        raise RuntimeError("stub: case %d fails" % c)
    if c == n:
        load = [1.0 + e for e in range(n)]
    else:
        load = [float(m["res"][c][e]) for e in range(n)]
        load[c] = float("nan") if m["own"] == 0 else 0.0
    if oos < n:
        load[oos] = float("nan")
    net["res_line"] = pd.DataFrame({"loading_percent": load}, index=net.line.index)
    net["res_bus"] = pd.DataFrame({"vm_pu": [(95 + (2 * c) % 11 + b) / 100.0 for b in range(2)]}, index=net.bus.index)
    net["converged"] = True


def base_net(n=3):
    import pandapower as pp
    from ..templates import line
    if n != 3:
        key = "net%d" % n
        if key not in _BASE:
            net = copy.deepcopy(base_net(3))
            for _ in range(n - 3):
                line(pp, net, 0, 1, max_loading_percent=2.0)
            _BASE[key] = net
        return _BASE[key]
    if "net" not in _BASE:
        net = pp.create_empty_network()
        b0, b1 = pp.create_bus(net, 20.0), pp.create_bus(net, 20.0)
        pp.create_ext_grid(net, b0)
        for _ in range(3):
            line(pp, net, b0, b1, max_loading_percent=2.0)
        pp.create_load(net, b1, 0.1)
        _BASE["net"] = net
    return _BASE["net"]


def num(x):
    x = float(x)
    if math.isnan(x):
        return -1
    return int(round(x)) if abs(x - round(x)) < 1e-9 else int(round(x * 100))


def project(res, net, seen=None):
    import numpy as np
    n = len(net.line)
    L = res.get("line", {})
    B = res.get("bus", {})
    p = {"err": ""}
    p["keys"] = sorted("%s.%s" % (t, k) for t in res for k in res[t])
    p["max"] = [num(x) for x in L.get("max_loading_percent", [np.nan] * n)]
    p["min"] = [num(x) for x in L.get("min_loading_percent", [np.nan] * n)]
    ci = L.get("cause_index", [None] * n)
    ce = L.get("cause_element", [None] * n)
    p["cause"] = [int(x) if (x is not None and -1 < int(x) < n) else -2 for x in ci]
    p["cause_is_line"] = [bool(x == "line") for x in ce]
    p["overload"] = [bool(x) for x in L.get("causes_overloading", [False] * n)]
    p["n0"] = [num(x) for x in L.get("loading_percent", [np.nan] * n)]
    p["busmax"] = [num(x * 100) for x in B.get("max_vm_pu", [np.nan] * 2)]
    p["busmin"] = [num(x * 100) for x in B.get("min_vm_pu", [np.nan] * 2)]
    rl = net.res_line
    p["written_max"] = [num(x) for x in rl["max_loading_percent"].values] if "max_loading_percent" in rl else []
    p["written_min"] = [num(x) for x in rl["min_loading_percent"].values] if "min_loading_percent" in rl else []
    oos = net["_verif_matrix"].get("oos", 99)
    p["restored"] = all(bool(x) == (i != oos) for i, x in enumerate(net.line.in_service.values))
    p["seen_ok"] = True if seen is None else all(sum(1 for i, x in enumerate(s) if not x and i != oos) <= 1 for s in seen)
    return p


EMPTY = {"err": "", "keys": [], "max": [], "min": [], "cause": [], "cause_is_line": [], "overload": [], "n0": [], "busmax": [],
         "busmin": [], "written_max": [], "written_min": [], "restored": True, "seen_ok": True}


def observe(job):
    from pandapower.contingency import run_contingency
    from pandapower.contingency.contingency_parallel import run_contingency_parallel
    cfg = job["cfg"]
    out = {"cfg": cfg, "has_par": False, "nprocs": job.get("nprocs", 0), "par": dict(EMPTY)}
    cases = {"line": {"index": list(cfg["order"])}}
    net = copy.deepcopy(base_net(cfg["n"]))
    net["_verif_matrix"] = {"res": cfg["res"], "own": cfg["own"], "fail": cfg["fail"], "fkind": cfg["fkind"], "oos": cfg["oos"]}
    if cfg["oos"] < cfg["n"]:
        net.line.at[cfg["oos"], "in_service"] = False
    seen = []
    net["_verif_seen"] = seen
    try:
        res = run_contingency(net, cases, contingency_evaluation_function=stub_eval)
        out["seq"] = project(res, net, seen)
    except Exception as e:  # noqa
        out["seq"] = dict(EMPTY, err="%s: %s" % (type(e).__name__, str(e)[:100]),
                          restored=all(bool(x) == (i != cfg["oos"]) for i, x in enumerate(net.line.in_service.values)))
    if job.get("nprocs", 0) >= 1:
        out["has_par"] = True
        net2 = copy.deepcopy(base_net(cfg["n"]))
        log = "/tmp/ppverif_c15_%d_%d.log" % (os.getpid(), job["id"])
        if cfg["oos"] < cfg["n"]:
            net2.line.at[cfg["oos"], "in_service"] = False
        net2["_verif_matrix"] = {"res": cfg["res"], "own": cfg["own"], "fail": cfg["fail"], "fkind": cfg["fkind"], "oos": cfg["oos"], "log": log,
                                 "sleep": {str(c): 0.012 * r for r, c in enumerate(job["completion"])}}
        try:
            res2 = run_contingency_parallel(net2, cases, contingency_evaluation_function=stub_eval, n_procs=job["nprocs"])
            out["par"] = project(res2, net2)
        except Exception as e:  # noqa
            out["par"] = dict(EMPTY, err="%s: %s" % (type(e).__name__, str(e)[:100]))
        try:
            recs = [l.split() for l in open(log)]
            stamps = sorted((float(t), int(c)) for c, t, k in recs)
            out["completed_in"] = [c for _, c in stamps if c != cfg["n"]]
            out["par"]["seen_ok"] = all(int(k) <= 1 for c, t, k in recs)     # every case saw at most its own outage
            os.remove(log)
        except Exception:  # noqa
            out["completed_in"] = []
    return out


def enumerate_cfgs(v, nprocs=2, schedules=False):
    """model-check Contingency.tla (all configurations x all worker schedules); returns (result, configurations, schedules)"""
    import os as _os, shutil, tempfile
    from ..tla import SPEC_DIR
    wd = tempfile.mkdtemp(prefix="ppverif_c14_")
    try:
        for f in ("Contingency.cfg", "ContingencyInit.cfg"):
            cfg = open(_os.path.join(SPEC_DIR, f)).read().replace("NProcs = 2", "NProcs = %d" % nprocs)
            open(_os.path.join(wd, f), "w").write(cfg)
        # the full state graph is only parsed where it is needed: the terminal states carry the completion orders
        r = run_tlc("Contingency", "Contingency.cfg", workdir=wd, dump=schedules, dump_filter='phase = "aggregated"', timeout=3000)
        sched = r.dump or []
        ri = run_tlc("Contingency", "ContingencyInit.cfg", workdir=wd, dump=True, timeout=3000)
    finally:
        shutil.rmtree(wd, ignore_errors=True)
    for name, st, raw in r.violations:
        v.divergence("model-level: %s" % name, None)
    return r, [jsonable(s["cfg"]) for s in ri.dump], sched


def key_of(name, c):
    cfg = c["cfg"]
    first = cfg["order"][0]
    return "%s|order_len=%d|own=%s|fail=%s" % (name, len(cfg["order"]), "nan" if cfg["own"] == 0 else "zero",
                                                "none" if cfg["fail"] == 99 else "case")


def run(tier, seed, replay=None, prop="C14"):
    v = Verdict(prop, tier, seed, "model_checking")
    use_repo()
    rnd = random.Random(seed)
    if replay:
        jobs = [replay["case"]["job"]]
        states = trans = 1
        scheds = []
    else:
        r, cfgs, sched = enumerate_cfgs(v, 2 if tier == "quick" else 3, schedules=(prop == "C15"))
        states, trans = r.distinct, r.transitions
        scheds = list({(repr(jsonable(s["cfg"])), tuple(s["order_done"])) for s in sched})
        if prop == "C14" and tier == "quick":       # quick: every 10-line configuration, a seeded half of the 3-line ones
            small = [c for c in cfgs if c["n"] == 3]
            cfgs = rnd.sample(small, len(small) // 2) + [c for c in cfgs if c["n"] > 3]
        jobs = [{"cfg": c, "id": k} for k, c in enumerate(cfgs)]
        if prop == "C15":
            # every worker count, completion orders taken from the schedules TLC explored
            by_cfg = {}
            for cr, od in scheds:
                by_cfg.setdefault(cr, []).append(list(od))
            n = 120 if tier == "quick" else 900
            wide = [j for j in jobs if j["cfg"]["n"] > 3]          # chunked dispatch: always replayed
            small = [j for j in jobs if j["cfg"]["n"] == 3]
            pick = rnd.sample(small, min(n, len(small))) + wide
            jobs = []
            for k, j in enumerate(pick):
                ods = by_cfg.get(repr(j["cfg"]), [list(j["cfg"]["order"])])
                jobs.append({"cfg": j["cfg"], "id": k, "nprocs": (1 + k % 3) if j["cfg"]["n"] == 3 else (2 if k % 3 else 3),
                             "completion": rnd.choice(ods)})
    cases = pool_map(observe, jobs, procs=8 if prop == "C15" else 16)
    for c, j in zip(cases, jobs):
        c["job"] = j
    cfgfile = "ContingencyObs.cfg" if prop == "C14" else "ContingencyPar.cfg"
    fails, st = tlc_obs("ContingencyObs", cfgfile, cases, chunk=3000)
    for name, i in fails:
        c = cases[i]
        v.violation("%s|%s" % (prop, key_of(name, c)) + ("|nprocs=%d" % c["nprocs"] if prop == "C15" else ""),
                    "%s: cfg=%s seq=%s%s" % (name, c["cfg"], {k: c["seq"][k] for k in ("max", "min", "cause", "overload", "err")},
                                              " par=%s" % {k: c["par"][k] for k in ("max", "min", "cause", "overload", "err")}
                                              if c["has_par"] else ""), {"job": c["job"]})
    if prop == "C14":
        nontriv = sum(1 for c in cases if c["cfg"]["fail"] != 99 or any(x == 3 for row in c["cfg"]["res"] for x in row))
        rule = ("every configuration of Contingency.tla (9 case orders x 64 outcome matrices x own-outage value NaN/0 x failing "
                "case none/0/1/2) executed through run_contingency with a stub evaluation function; non-trivial = an overload "
                "or a failing case in the matrix")
    else:
        nontriv = sum(1 for c in cases if c["nprocs"] >= 2 and c.get("completed_in") and c["completed_in"] != list(c["cfg"]["order"])[:len(c["completed_in"])])
        rule = ("seeded sample of the configurations, each run through run_contingency_parallel with n_procs in {1,2,3} and "
                "per-task delays that realise a completion order taken from the schedules TLC explored; non-trivial = "
                "n_procs >= 2 and an observed completion order different from task order")
    v.coverage = {
        "states": states + st["states"], "transitions": trans + st["generated"],
        "traces_validated_against_impl": len(cases), "exhaustive": prop == "C14" and tier == "thorough", "evaluations": len(cases),
        "distinct_nontrivial": nontriv, "rule": rule, "schedules_in_model": len(scheds),
        "samples": [{k: c[k] for k in ("cfg", "seq", "nprocs")} for c in (cases[0], cases[len(cases) // 2], cases[-1])],
    }
    v.assumptions = ["three parallel lines, loading values {1, 3} %, limit 2 %; bus voltages a fixed function of the case",
                     "evaluation function is a stub; the real runpp path is exercised by C08 (contingency kind)"]
    return v.finish()
