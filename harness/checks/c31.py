"""C31 — tabular tap dependency uses the transformer's own row (DESIGN §4, TapTable.tla)."""
import copy

from ..common import Verdict, fx, pool_map, use_repo
from ..obs import tlc_obs
from ..tla import jsonable, run_tlc

_BASE = {}
SIDES = {1: "hv", 2: "hv", 3: "lv"}


def base_net():
    import pandapower as pp
    from ..templates import char_table, line
    if "net" in _BASE:
        return _BASE["net"]
    net = pp.create_empty_network()
    b0 = pp.create_bus(net, 20.0)
    b1 = pp.create_bus(net, 20.0)
    pp.create_ext_grid(net, b0, vm_pu=1.02)
    line(pp, net, b0, b1, km=3.0)
    for t in (1, 2, 3):
        lv = pp.create_bus(net, 0.4)
        pp.create_transformer_from_parameters(
            net, b1, lv, sn_mva=0.63, vn_hv_kv=20.0, vn_lv_kv=0.4, vkr_percent=1.1, vk_percent=5.0 + t, pfe_kw=0.6,
            i0_percent=0.2, shift_degree=0.0, tap_side=SIDES[t], tap_neutral=0, tap_min=-2, tap_max=2,
            tap_step_percent=1.5, tap_pos=0, tap_changer_type="Ratio")
        pp.create_load(net, lv, 0.25 + 0.05 * t, 0.05)
    net["trafo_characteristic_table"] = char_table({0: [-2, -1, 0, 1, 2], 1: [-2, -1, 0, 1, 2]})
    net.trafo["id_characteristic_table"] = net.trafo["id_characteristic_table"].astype("Int64")
    net.trafo["tap_dependency_table"] = False
    _BASE["net"] = net
    return net


def project(net, ok):
    if not ok:
        return {"conv": False, "vm": [], "va": [], "p_hv": [], "q_hv": [], "p_lv": [], "q_lv": []}
    return {"conv": True, "vm": [fx(x) for x in net.res_bus.vm_pu.values], "va": [fx(x) for x in net.res_bus.va_degree.values],
            "p_hv": [fx(x) for x in net.res_trafo.p_hv_mw.values], "q_hv": [fx(x) for x in net.res_trafo.q_hv_mvar.values],
            "p_lv": [fx(x) for x in net.res_trafo.p_lv_mw.values], "q_lv": [fx(x) for x in net.res_trafo.q_lv_mvar.values]}


def solve(net):
    import pandapower as pp
    try:
        pp.runpp(net, tolerance_mva=1e-9, calculate_voltage_angles=True)
        return bool(net.converged)
    except Exception:  # noqa
        return False


def observe(case):
    from ..netstate import value_diff, value_snapshot
    cfg, eff = case["cfg"], case["eff"]
    a = copy.deepcopy(base_net())
    b = copy.deepcopy(base_net())
    tab = a.trafo_characteristic_table
    for t in (1, 2, 3):
        c = cfg[t - 1]
        i = t - 1
        a.trafo.at[i, "tap_pos"] = c["pos"] - 2
        a.trafo.at[i, "tap_dependency_table"] = bool(c["dep"])
        a.trafo.at[i, "id_characteristic_table"] = c["id"]
        kind, rid, rpos = eff[t - 1]
        b.trafo.at[i, "id_characteristic_table"] = c["id"]
        if kind == "own":
            b.trafo.at[i, "tap_pos"] = c["pos"] - 2
        else:   # the spec-chosen row entered directly
            row = tab[(tab.id_characteristic == rid) & (tab.step == rpos - 2)].iloc[0]
            side = SIDES[t]
            b.trafo.at[i, "tap_pos"] = 0
            b.trafo.at[i, "vn_%s_kv" % side] = float(b.trafo.at[i, "vn_%s_kv" % side]) * float(row.voltage_ratio)
            b.trafo.at[i, "shift_degree"] = float(b.trafo.at[i, "shift_degree"]) + (1 if side == "hv" else -1) * float(row.angle_deg)
            b.trafo.at[i, "vk_percent"] = float(row.vk_percent)
            b.trafo.at[i, "vkr_percent"] = float(row.vkr_percent)
    s0 = value_snapshot(a)
    pa = project(a, solve(a))
    changed = value_diff(s0, value_snapshot(a))
    pb = project(b, solve(b))
    return {"cfg": cfg, "eff": eff, "a": pa, "b": pb, "changed": changed}


def run(tier, seed, replay=None):
    v = Verdict("C31", tier, seed, "model_checking")
    use_repo()
    if replay:
        todo = [{"cfg": replay["case"]["cfg"], "eff": replay["case"]["eff"]}]
        states = trans = 1
    else:
        import os, re, shutil, tempfile
        from ..tla import SPEC_DIR
        wd = tempfile.mkdtemp(prefix="ppverif_c31_")
        try:
            cfg = open(os.path.join(SPEC_DIR, "TapTable.cfg")).read()
            if tier == "thorough":
                cfg = cfg.replace("Positions = {1, 2, 3}", "Positions = {0, 1, 2, 3, 4}")
            open(os.path.join(wd, "TapTable.cfg"), "w").write(cfg)
            r = run_tlc("TapTable", "TapTable.cfg", workdir=wd, dump=True)
        finally:
            shutil.rmtree(wd, ignore_errors=True)
        for name, st, raw in r.violations:
            v.divergence("model-level: %s" % name, None)
        todo = [jsonable({"cfg": s["cfg"], "eff": s["eff"]}) for s in r.dump]
        states, trans = r.distinct, r.transitions
    cases = pool_map(observe, todo)
    fails, st = tlc_obs("TapTableObs", "TapTableObs.cfg", cases)
    for name, i in fails:
        c = cases[i]
        dep = [t for t in (0, 1, 2) if c["cfg"][t]["dep"]]
        shared = any(c["cfg"][x]["id"] == c["cfg"][y]["id"] and c["cfg"][x]["pos"] != c["cfg"][y]["pos"]
                     for x in dep for y in dep if x < y)
        key = "C31|%s|%s" % (name, "shared_id_different_steps" if shared else "no_shared_id_conflict")
        v.violation(key, "%s: cfg=%s" % (name, c["cfg"]), c)
    nontriv = sum(1 for c in cases if sum(c["cfg"][t]["dep"] for t in (0, 1, 2)) >= 2)
    v.coverage = {
        "states": states + st["states"], "transitions": trans + st["generated"],
        "traces_validated_against_impl": len(cases), "exhaustive": True, "evaluations": len(cases),
        "distinct_nontrivial": nontriv,
        "rule": "every assignment of (tap_dependency_table, characteristic id, tap_pos) to three 2W transformers (tap sides "
                "hv, hv, lv); net with the table vs net with the spec-chosen row entered directly; non-trivial = >=2 "
                "table-dependent transformers",
        "samples": [cases[k] for k in range(3, len(cases), max(1, len(cases) // 3))][:3],
    }
    v.assumptions = ["2W transformers only (trafo3w table columns not enumerated)", "row values distinct per (id, step) by construction"]
    return v.finish()
