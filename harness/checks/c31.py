"""C31 — tabular tap dependency uses the transformer's own row (DESIGN §4, TapTable.tla / TapTableDef.tla).

Two model families, both enumerated by TLC and instantiated here:
 * "w2"  three 2W transformers (TapTable.tla Init):   A = table, B = spec-chosen row entered directly;
 * "w3"  a three-winding transformer W plus a second trafo3w O3 / a 2W transformer O2 that may share W's
         characteristic id at a different step (TapTable.tla Init3): the table rows are filled from the sources
         the spec assigns (TapTableDef.Src3), B is the reference the spec names (TapTableDef.RefW).
TLC (TapTableObs.tla) compares A and B; Python only builds the networks and projects the results.
"""
import cmath
import copy
import math
import os

from ..common import Verdict, fx, pool_map, use_repo
from ..obs import tlc_obs
from ..tla import MachineryError, jsonable, run_tlc

PROCS = int(os.environ.get("VERIF_PROCS", "16") or 16)
_BASE = {}
SIDES = {1: "hv", 2: "hv", 3: "lv"}


# ---- family w2: three two-winding transformers ---------------------------------------------------------------
def base_net():
    import pandapower as pp
    from ..templates import char_table, line
    if "net" in _BASE:
        return _BASE["net"]
    net = pp.create_empty_network()
    b0 = pp.create_bus(net, 20.0)
    b1 = pp.create_bus(net, 20.0)
    pp.create_ext_grid(net, b0, vm_pu=1.02)
    line(pp, net, b0, b1, km=3.0)
    for t in (1, 2, 3):
        lv = pp.create_bus(net, 0.4)
        pp.create_transformer_from_parameters(
            net, b1, lv, sn_mva=0.63, vn_hv_kv=20.0, vn_lv_kv=0.4, vkr_percent=1.1, vk_percent=5.0 + t, pfe_kw=0.6,
            i0_percent=0.2, shift_degree=0.0, tap_side=SIDES[t], tap_neutral=0, tap_min=-2, tap_max=2,
            tap_step_percent=1.5, tap_pos=0, tap_changer_type="Ratio")
        pp.create_load(net, lv, 0.25 + 0.05 * t, 0.05)
    net["trafo_characteristic_table"] = char_table({0: [-2, -1, 0, 1, 2], 1: [-2, -1, 0, 1, 2]})
    net.trafo["id_characteristic_table"] = net.trafo["id_characteristic_table"].astype("Int64")
    net.trafo["tap_dependency_table"] = False
    _BASE["net"] = net
    return net


def project(net, ok):
    if not ok:
        return {"conv": False, "vm": [], "va": [], "p_hv": [], "q_hv": [], "p_lv": [], "q_lv": []}
    return {"conv": True, "vm": [fx(x) for x in net.res_bus.vm_pu.values], "va": [fx(x) for x in net.res_bus.va_degree.values],
            "p_hv": [fx(x) for x in net.res_trafo.p_hv_mw.values], "q_hv": [fx(x) for x in net.res_trafo.q_hv_mvar.values],
            "p_lv": [fx(x) for x in net.res_trafo.p_lv_mw.values], "q_lv": [fx(x) for x in net.res_trafo.q_lv_mvar.values]}


def solve(net):
    import pandapower as pp
    try:
        pp.runpp(net, tolerance_mva=1e-9, calculate_voltage_angles=True)
        return bool(net.converged)
    except Exception:  # noqa
        return False


def observe_w2(case):
    from ..netstate import value_diff, value_snapshot
    cfg, eff = case["cfg"], case["eff"]
    a = copy.deepcopy(base_net())
    b = copy.deepcopy(base_net())
    tab = a.trafo_characteristic_table
    for t in (1, 2, 3):
        c = cfg[t - 1]
        i = t - 1
        a.trafo.at[i, "tap_pos"] = c["pos"] - 2
        a.trafo.at[i, "tap_dependency_table"] = bool(c["dep"])
        a.trafo.at[i, "id_characteristic_table"] = c["id"]
        kind, rid, rpos = eff[t - 1]
        b.trafo.at[i, "id_characteristic_table"] = c["id"]
        if kind == "own":
            b.trafo.at[i, "tap_pos"] = c["pos"] - 2
        else:   # the spec-chosen row entered directly
            row = tab[(tab.id_characteristic == rid) & (tab.step == rpos - 2)].iloc[0]
            side = SIDES[t]
            b.trafo.at[i, "tap_pos"] = 0
            b.trafo.at[i, "vn_%s_kv" % side] = float(b.trafo.at[i, "vn_%s_kv" % side]) * float(row.voltage_ratio)
            b.trafo.at[i, "shift_degree"] = float(b.trafo.at[i, "shift_degree"]) + (1 if side == "hv" else -1) * float(row.angle_deg)
            b.trafo.at[i, "vk_percent"] = float(row.vk_percent)
            b.trafo.at[i, "vkr_percent"] = float(row.vkr_percent)
    s0 = value_snapshot(a)
    pa = project(a, solve(a))
    changed = value_diff(s0, value_snapshot(a))
    pb = project(b, solve(b))
    return {"fam": "w2", "cfg": cfg, "eff": eff, "a": pa, "b": pb, "changed": changed}


# ---- family w3: three-winding transformer W, second trafo3w O3, 2W transformer O2 ------------------------------
NEUTRAL = 1                      # tap_neutral of W, O3, O2;  model position p <-> tap_pos = p - 1  (TapTableDef: Neutral = 2)
TYPE_STEP = {"Ratio": (1.5, 0.0), "Symmetrical": (1.2, 60.0), "Ideal": (0.0, 2.0)}   # (tap_step_percent, tap_step_degree) of W
S3 = ("hv", "mv", "lv")
VK3 = ["vk_hv_percent", "vk_mv_percent", "vk_lv_percent", "vkr_hv_percent", "vkr_mv_percent", "vkr_lv_percent"]


def base_net3():
    import pandapower as pp
    if "net3" in _BASE:
        return _BASE["net3"]
    net = pp.create_empty_network()
    b0 = pp.create_bus(net, 110.0)
    b1 = pp.create_bus(net, 110.0)
    pp.create_ext_grid(net, b0, vm_pu=1.02)
    pp.create_line_from_parameters(net, b0, b1, 5.0, 0.06, 0.3, 9.0, 0.6)
    tap = dict(tap_neutral=NEUTRAL, tap_min=-3, tap_max=5, tap_pos=NEUTRAL)
    mv, lv = pp.create_bus(net, 20.0), pp.create_bus(net, 10.0)
    pp.create_transformer3w_from_parameters(          # W  (trafo3w 0)
        net, b1, mv, lv, vn_hv_kv=110., vn_mv_kv=20., vn_lv_kv=10., sn_hv_mva=40., sn_mv_mva=25., sn_lv_mva=15.,
        vk_hv_percent=10.5, vk_mv_percent=7.0, vk_lv_percent=6.0, vkr_hv_percent=0.5, vkr_mv_percent=0.4,
        vkr_lv_percent=0.45, pfe_kw=20., i0_percent=0.1, shift_mv_degree=0., shift_lv_degree=0., tap_side="hv",
        tap_step_percent=1.5, tap_step_degree=0., tap_at_star_point=False, tap_changer_type="Ratio", **tap)
    pp.create_load(net, mv, 12., 3.)
    pp.create_load(net, lv, 6., 1.5)
    mv2, lv2 = pp.create_bus(net, 20.0), pp.create_bus(net, 10.0)
    pp.create_transformer3w_from_parameters(          # O3 (trafo3w 1): tap at the mv terminal
        net, b1, mv2, lv2, vn_hv_kv=110., vn_mv_kv=21., vn_lv_kv=10.5, sn_hv_mva=31.5, sn_mv_mva=20., sn_lv_mva=12.,
        vk_hv_percent=12.0, vk_mv_percent=8.6, vk_lv_percent=7.6, vkr_hv_percent=0.6, vkr_mv_percent=0.5,
        vkr_lv_percent=0.55, pfe_kw=15., i0_percent=0.1, shift_mv_degree=0., shift_lv_degree=0., tap_side="mv",
        tap_step_percent=1.25, tap_step_degree=0., tap_at_star_point=False, tap_changer_type="Ratio", **tap)
    pp.create_load(net, mv2, 8., 2.)
    pp.create_load(net, lv2, 4., 1.)
    b2 = pp.create_bus(net, 20.0)
    pp.create_transformer_from_parameters(            # O2 (trafo 0): tap at hv
        net, b1, b2, sn_mva=25., vn_hv_kv=110., vn_lv_kv=20., vkr_percent=0.6, vk_percent=12.0, pfe_kw=14.,
        i0_percent=0.1, shift_degree=0.0, tap_side="hv", tap_step_percent=1.0, tap_step_degree=0.,
        tap_changer_type="Ratio", **tap)
    pp.create_load(net, b2, 9., 2.)
    for tb in ("trafo", "trafo3w"):
        net[tb]["id_characteristic_table"] = net[tb]["id_characteristic_table"].astype("Int64")
        net[tb]["tap_dependency_table"] = False
    _BASE["net3"] = net
    return net


def tap_model(typ, pct, deg, d):
    """(ratio, angle_deg) the non-tabular tap changer gives d steps away from neutral (TapTableDef, "w_own")."""
    if typ == "Ideal":
        return 1.0, deg * d
    z = 1 + pct / 100.0 * d * cmath.exp(1j * math.radians(deg))
    return abs(z), math.degrees(cmath.phase(z))


def junk_row(cid, d):
    r = {"voltage_ratio": 1.06 + 0.01 * d + 0.003 * cid, "angle_deg": 3.0 + 0.5 * d + 0.1 * cid}
    v = 0.3 * d + 0.75 * cid
    r.update(vk_percent=9.0 + v, vkr_percent=1.0 + v / 6, vk_hv_percent=13.5 + v, vk_mv_percent=9.5 + v, vk_lv_percent=8.5 + v,
             vkr_hv_percent=0.8 + v / 6, vkr_mv_percent=0.7 + v / 6, vkr_lv_percent=0.75 + v / 6)
    return r


def table3(net, cfg, eff):
    """trafo_characteristic_table: one row per eff.tab entry, numbers by the row's source (TapTableDef table rule)."""
    import pandas as pd
    w = net.trafo3w.loc[0]
    rows = []
    for e in eff["tab"]:
        cid, step = int(e["id"]), int(e["pos"]) - 1
        d = step - NEUTRAL
        r = junk_row(cid, d)
        if e["src"] == "w_own":
            r["voltage_ratio"], r["angle_deg"] = tap_model(w.tap_changer_type, w.tap_step_percent, w.tap_step_degree, d)
            for c in VK3:
                r[c] = float(w[c])
        elif e["src"] == "w_off":
            r["voltage_ratio"], r["angle_deg"] = 1.03 + 0.01 * d + 0.002 * cid, 0.8 + 0.3 * d + 0.1 * cid
            for k, c in enumerate(VK3):
                r[c] = float(w[c]) + (0.9 + 0.2 * d if k < 3 else 0.1 + 0.02 * d)
        elif e["src"] == "o_own":
            if cfg["o"]["kind"] == "t3w":
                o = net.trafo3w.loc[1]
                cols = VK3
            else:
                o = net.trafo.loc[0]
                cols = ["vk_percent", "vkr_percent"]
            r["voltage_ratio"], r["angle_deg"] = tap_model(o.tap_changer_type, o.tap_step_percent, o.tap_step_degree, d)
            for c in cols:
                r[c] = float(o[c])
        elif e["src"] != "junk":
            raise MachineryError("unknown row source %r" % (e["src"],))
        r.update(id_characteristic=cid, step=step)
        rows.append(r)
    return pd.DataFrame(rows)


def project3(net, ok):
    if not ok:
        return {"conv": False, "vm": [], "va": [], "p3": [], "q3": [], "p2": [], "q2": []}
    r3, r2 = net.res_trafo3w, net.res_trafo
    return {"conv": True, "vm": [fx(x) for x in net.res_bus.vm_pu.values], "va": [fx(x) for x in net.res_bus.va_degree.values],
            "p3": [fx(x) for s in S3 for x in r3["p_%s_mw" % s].values], "q3": [fx(x) for s in S3 for x in r3["q_%s_mvar" % s].values],
            "p2": [fx(x) for s in ("hv", "lv") for x in r2["p_%s_mw" % s].values],
            "q2": [fx(x) for s in ("hv", "lv") for x in r2["q_%s_mvar" % s].values]}


def observe_w3(case):
    from ..netstate import value_diff, value_snapshot
    cfg, eff = case["cfg"], case["eff"]
    w, o = cfg["w"], cfg["o"]
    a = copy.deepcopy(base_net3())
    t3 = a.trafo3w
    t3.at[0, "tap_side"] = w["side"]
    t3.at[0, "tap_at_star_point"] = bool(w["star"])
    t3.at[0, "tap_changer_type"] = w["type"]
    t3.at[0, "tap_step_percent"], t3.at[0, "tap_step_degree"] = TYPE_STEP[w["type"]]
    t3.at[0, "tap_pos"] = w["pos"] - 1
    t3.at[0, "tap_dependency_table"] = bool(w["dep"])
    t3.at[0, "id_characteristic_table"] = w["id"]
    # the other transformers: same characteristic id as W; the one the configuration selects is table dependent at o.pos,
    # the others use their own tap changer one step above neutral
    for tb, kind in ((a.trafo3w, "t3w"), (a.trafo, "t2w")):
        k = 1 if kind == "t3w" else 0
        tb.at[k, "id_characteristic_table"] = w["id"]
        sel = o["kind"] == kind
        tb.at[k, "tap_dependency_table"] = sel
        tb.at[k, "tap_pos"] = (o["pos"] - 1) if sel else NEUTRAL + 1
    a["trafo_characteristic_table"] = tab = table3(a, cfg, eff)
    b = copy.deepcopy(a)
    b.trafo3w["tap_dependency_table"] = False
    b.trafo["tap_dependency_table"] = False
    if eff["ref"] == "entered":          # W's row entered directly (terminal tap only, TapTableDef member "off")
        row = tab[(tab.id_characteristic == w["id"]) & (tab.step == w["pos"] - 1)].iloc[0]
        ratio, ang = float(row.voltage_ratio), float(row.angle_deg)
        if w["side"] == "hv":
            z = ratio * cmath.exp(1j * math.radians(ang)) - 1
            b.trafo3w.at[0, "tap_changer_type"] = "Ratio"
            b.trafo3w.at[0, "tap_pos"] = NEUTRAL + 1
            b.trafo3w.at[0, "tap_step_percent"] = 100 * abs(z)
            b.trafo3w.at[0, "tap_step_degree"] = math.degrees(cmath.phase(z)) if abs(z) > 0 else 0.0
        else:
            b.trafo3w.at[0, "tap_pos"] = NEUTRAL
            b.trafo3w.at[0, "vn_%s_kv" % w["side"]] = float(b.trafo3w.at[0, "vn_%s_kv" % w["side"]]) * ratio
            b.trafo3w.at[0, "shift_%s_degree" % w["side"]] = float(b.trafo3w.at[0, "shift_%s_degree" % w["side"]]) - ang
        for c in VK3:
            b.trafo3w.at[0, c] = float(row[c])
    elif eff["ref"] != "dep_off":
        raise MachineryError("unknown reference kind %r" % (eff["ref"],))
    rows = [{"id": int(r.id_characteristic), "pos": int(r.step) + 1, "ratio": fx(r.voltage_ratio), "angle": fx(r.angle_deg),
             "vk": [fx(r.vk_hv_percent), fx(r.vk_mv_percent), fx(r.vk_lv_percent), fx(r.vk_percent)]} for r in tab.itertuples()]
    s0 = value_snapshot(a)
    pa = project3(a, solve(a))
    changed = value_diff(s0, value_snapshot(a))
    corrupt = os.environ.get("VERIF_C31_CORRUPT", "")       # binding self-test (development only): corrupt one observed field
    if corrupt and pa["conv"] and w["dep"] and w["pos"] == 3 and o["kind"] == "t3w":
        if corrupt == "vm":
            pa["vm"][2] += 200
        elif corrupt == "flow":
            pa["q3"][0] += 2000
        elif corrupt == "changed":
            changed = changed + ["trafo3w.vk_hv_percent"]
    pb = project3(b, solve(b))
    return {"fam": "w3", "cfg": cfg, "eff": eff, "rows": rows, "a": pa, "b": pb, "changed": changed}


def observe(case):
    return observe_w3(case) if case.get("fam") == "w3" else observe_w2(case)


# ---- driver -----------------------------------------------------------------------------------------------------
def _model_runs(tier):
    """Both model families, the two TLC jobs side by side."""
    import shutil
    import tempfile
    from concurrent.futures import ThreadPoolExecutor
    from ..tla import SPEC_DIR
    wd = tempfile.mkdtemp(prefix="ppverif_c31_")
    try:
        jobs = []
        for name in ("TapTable.cfg", "TapTable3W.cfg"):
            cfg = open(os.path.join(SPEC_DIR, name)).read()
            if tier == "thorough":
                cfg = cfg.replace("Positions = {1, 2, 3}", "Positions = {0, 1, 2, 3, 4}")
            sub = os.path.join(wd, name[:-4])
            os.makedirs(sub)
            open(os.path.join(sub, name), "w").write(cfg)      # run_tlc does not overwrite files already in the workdir
            jobs.append((name, sub))
        w = max(2, min(8, PROCS // 2))
        with ThreadPoolExecutor(2) as ex:
            fs = [ex.submit(run_tlc, "TapTable", name, workdir=sub, dump=True, workers=w) for name, sub in jobs]
            return fs[0].result(), fs[1].result()
    finally:
        shutil.rmtree(wd, ignore_errors=True)


def _key(name, c):
    if c["fam"] == "w3":
        w, o = c["cfg"]["w"], c["cfg"]["o"]
        return "C31|%s|3w_%s_%s_%s" % (name, c["cfg"]["member"], "star_point" if w["star"] else "terminal",
                                       "alone" if o["kind"] == "none" else "shared_id_with_" + o["kind"])
    dep = [t for t in (0, 1, 2) if c["cfg"][t]["dep"]]
    shared = any(c["cfg"][x]["id"] == c["cfg"][y]["id"] and c["cfg"][x]["pos"] != c["cfg"][y]["pos"]
                 for x in dep for y in dep if x < y)
    return "C31|%s|%s" % (name, "shared_id_different_steps" if shared else "no_shared_id_conflict")


def run(tier, seed, replay=None):
    v = Verdict("C31", tier, seed, "model_checking")
    use_repo()
    if replay:
        rc = replay["case"]
        todo = [{"fam": rc.get("fam", "w2"), "cfg": rc["cfg"], "eff": rc["eff"]}]
        states = trans = 1
    else:
        r2, r3 = _model_runs(tier)
        for r in (r2, r3):
            for name, st, raw in r.violations:
                v.divergence("model-level: %s" % name, None)
        todo = [jsonable({"fam": "w2", "cfg": s["cfg"], "eff": s["eff"]}) for s in r2.dump]
        todo += [jsonable({"fam": "w3", "cfg": s["cfg"], "eff": s["eff"]}) for s in r3.dump]
        states, trans = r2.distinct + r3.distinct, r2.transitions + r3.transitions
    cases = pool_map(observe, todo, procs=PROCS)
    fails, st = tlc_obs("TapTableObs", "TapTableObs.cfg", cases, workers=PROCS)
    for name, i in fails:
        c = cases[i]
        if name in ("C31_3W_CaseFromSpec", "C31_3W_RowsDistinct"):
            raise MachineryError("%s failed: the harness did not build the case the spec describes: %s" % (name, c["cfg"]))
        v.violation(_key(name, c), "%s: cfg=%s" % (name, c["cfg"]), c)
    c2 = [c for c in cases if c["fam"] == "w2"]
    c3 = [c for c in cases if c["fam"] == "w3"]
    both3 = [c for c in c3 if c["a"]["conv"] and c["b"]["conv"]]
    nontriv = sum(1 for c in c2 if sum(c["cfg"][t]["dep"] for t in (0, 1, 2)) >= 2)
    nontriv3 = sum(1 for c in both3 if c["cfg"]["w"]["dep"] and (c["cfg"]["w"]["pos"] != 2 or c["cfg"]["member"] == "off"
                                                                   or c["cfg"]["o"]["kind"] != "none"))
    v.coverage = {
        "states": states + st["states"], "transitions": trans + st["generated"],
        "traces_validated_against_impl": len(cases), "exhaustive": True, "evaluations": len(cases),
        "distinct_nontrivial": nontriv + nontriv3,
        "rule": "w2: every assignment of (tap_dependency_table, characteristic id, tap_pos) to three 2W transformers (tap sides "
                "hv, hv, lv); net with the table vs net with the spec-chosen row entered directly; non-trivial = >=2 "
                "table-dependent transformers.  w3: every (dep, id, tap_pos, tap_side, tap_at_star_point, tap_changer_type) of a "
                "trafo3w x (no other / second trafo3w / 2W transformer sharing the id at a different step) x oracle member "
                "(lin: own row = own tap model, B = same net without table; off: own row off the tap model, B = row entered "
                "directly, terminal taps); non-trivial = both nets converged, W table dependent and (off the neutral step, or "
                "off-model row, or id shared)",
        "w2_cases": len(c2), "w3_cases": len(c3), "w3_both_converged": len(both3),
        "w3_not_converged": len(c3) - len(both3),
        "w3_lin_members": sum(1 for c in c3 if c["cfg"]["member"] == "lin"),
        "w3_off_members": sum(1 for c in c3 if c["cfg"]["member"] == "off"),
        "w3_star_point_dependent": sum(1 for c in both3 if c["cfg"]["w"]["star"] and c["cfg"]["w"]["dep"]),
        "w3_off_at_neutral": sum(1 for c in both3 if c["cfg"]["member"] == "off" and c["cfg"]["w"]["pos"] == 2),
        "w3_shared_with_t3w": sum(1 for c in both3 if c["cfg"]["o"]["kind"] == "t3w" and c["cfg"]["w"]["dep"]),
        "w3_shared_with_t2w": sum(1 for c in both3 if c["cfg"]["o"]["kind"] == "t2w" and c["cfg"]["w"]["dep"]),
        "samples": ([c2[k] for k in range(3, len(c2), max(1, len(c2) // 2))][:2] +
                    [c3[k] for k in range(7, len(c3), max(1, len(c3) // 2))][:2]),
    }
    v.assumptions = ["row values distinct per (id, step) by construction (w3: checked by TLC, C31_3W_RowsDistinct)",
                     "w3: an ideal phase shifter at the star point is not enumerated (the non-tabular reference is not meaningful "
                     "there); off-model rows only with the tap at a terminal",
                     "w3: tap2 / a second tap changer and tap_dependency_table on more than two transformers at once not enumerated"]
    return v.finish()
