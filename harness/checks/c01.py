"""C01 / C03 / C04 / C10 — power balance family (DESIGN §5; BalanceDef.tla, BalanceNet.tla, BalanceObs.tla).

TLC chooses the structure of every case (corner configurations + a seeded RandomSubset of the full product space), the
harness instantiates it on the template network and logs the result tables, TLC evaluates the property's relations."""
from ..balance import enumerate_cfgs, observe
from ..common import Verdict, pool_map, use_repo
from ..obs import tlc_obs

RULES = {
    "C01": "non-trivial = converged case with >= 2 element kinds on one bus, one of them voltage dependent (ZIP load with "
           "voltage_depend_loads, shunt, ward or xward)",
    "C03": "non-trivial = converged case with >= 3 optional branches in service (ring line, trafo3w, impedance, impedance switch, dcline)",
    "C04": "non-trivial = converged AC case with a ZIP load under voltage_depend_loads, a shunt, or enforced tight reactive limits "
           "(staggered_limit_cases: limits that become binding in successive passes of the enforcement)",
    "C10": "non-trivial = converged AC case with distributed_slack and >= 2 participants with positive weight",
}


def features(c):
    """structural feature class of a case (for the known-findings key only)"""
    cfg = c["cfg"]
    f = []
    # a voltage-dependent load sharing its bus (b1) with another constant-power injection or a generator
    if cfg["mode"] == "ac" and cfg["vdl"] and cfg["ld0"] and cfg["zip"] != "p" and any(cfg[n] for n in ("ld1", "sg1", "xw0", "g0", "g1")):
        f.append("zip_load_shares_bus")
    if cfg["d0"]:
        f.append("dcline")
    if cfg.get("alg", "nr") != "nr" and cfg["qtight"] and (cfg.get("g3") or cfg["d0"]) and any(cfg[n] for n in ("g0", "g1", "g2")):
        # PYPOWER algorithms + enforced limits + a PV machine at the ext_grid bus (gen g3 or the dcline's from-side generator)
        return "pypower_qlims_with_gen_at_slack_bus"
    return "+".join(f) if f else "plain"


def nontrivial(prop, c):
    cfg = c["cfg"]
    if not c["conv"]:
        return False
    if prop == "C01":
        b1 = sum(bool(cfg[n]) for n in ("g0", "sg1", "ld0", "ld1", "sh0", "xw0"))
        return b1 >= 2 and (cfg["sh0"] or cfg["xw0"] or (cfg["ld0"] and cfg["vdl"] and cfg["zip"] != "p"))
    if prop == "C03":
        return sum(bool(cfg[n]) for n in ("l2", "w0", "i0", "z0", "d0")) >= 3
    if prop == "C04":
        return cfg["mode"] == "ac" and ((cfg["ld0"] and cfg["vdl"] and cfg["zip"] != "p") or cfg["sh0"] or cfg["qtight"])
    return cfg["mode"] == "ac" and cfg["dslack"] and sum(
        1 for n, w in __import__("harness.balance", fromlist=["WEIGHTS"]).WEIGHTS[cfg["wts"]].items()
        if w > 0 and n != "xw0" and (n == "e0" or cfg[n])) >= 2


def run(tier, seed, replay=None, prop="C01"):
    v = Verdict(prop, tier, seed, "exploration")
    use_repo()
    if replay:
        cfgs = [replay["case"]["cfg"]]
        states = trans = 1
    else:
        r, cfgs = enumerate_cfgs(seed, 3000 if tier == "quick" else 40000)
        for name, st, raw in r.violations:
            v.divergence("model-level: %s" % name, None)
        states, trans = r.distinct, r.generated
        if prop == "C10":
            cfgs = [c for c in cfgs if c["dslack"]]
    cases = pool_map(observe, cfgs)
    fails, st = tlc_obs("BalanceObs", "BalanceObs%s.cfg" % prop, cases, chunk=4000)
    for name, i in fails:
        c = cases[i]
        on = sorted(k for k, val in c["cfg"].items() if val is True)
        v.violation("%s|%s|%s" % (prop, name, features(c)), "%s: on=%s opt=%s" % (name, on, {k: val for k, val in c["cfg"].items() if not isinstance(val, bool) or k in ("vdl", "qlims", "qtight", "dslack")}),
                    {"cfg": c["cfg"]})
    conv = [c for c in cases if c["conv"]]
    v.coverage = {
        "evaluations": len(cases), "distinct_nontrivial": len({repr(c["cfg"]) for c in cases if nontrivial(prop, c)}),
        "rule": "states of BalanceNet.tla: corner configurations (all on / all off / every single element toggled x 15 option sets) plus "
                "a TLC RandomSubset (seeded) of the full product of 22 element switches x 15 option dimensions, filtered by the spec's "
                "WellFormed; " + RULES[prop],
        "states": states + st["states"], "transitions": trans + st["generated"], "traces_validated_against_impl": len(cases),
        "converged": len(conv), "not_converged": len(cases) - len(conv), "errors": sorted({c["err"] for c in cases if c["err"]}),
        "dc_cases": sum(1 for c in cases if c["cfg"]["mode"] == "dc"),
        "staggered_limit_cases": sum(1 for c in cases if c["conv"] and c["inp"].get("stag")),
        "samples": [{"cfg": c["cfg"], "bus_vm": c["bus"]["vm"], "node_p": {k: x["p"] for k, x in c["node"].items()}} for c in cases[:2]],
    }
    v.assumptions = ["one template network (6 buses, 9 branches, 17 bus elements); parameters from a fixed level table",
                     "non-converged runs satisfy every relation vacuously and are counted",
                     "tolerances: 1 micro-unit per summed term + 3; response laws 40 ppm; reactive limit 30 micro-Mvar"]
    return v.finish()
