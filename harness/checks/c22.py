"""C22 — network edits never leave dangling references (DESIGN §4, NetEdit.tla / NetEditDef.tla)."""
import copy
import random

from ..common import Verdict, pool_map, use_repo
from ..obs import tlc_obs
from ..tla import jsonable, run_tlc

_BASE = {}
GROUP_ROW = {(0, "line"): 0, (0, "bus"): 1, (0, "switch"): 2, (0, "load"): 3, (1, "trafo"): 4, (1, "gen"): 5, (2, "sgen"): 6}
BUS_COLS = {"line": ["from_bus", "to_bus"], "trafo": ["hv_bus", "lv_bus"], "trafo3w": ["hv_bus", "mv_bus", "lv_bus"],
            "impedance": ["from_bus", "to_bus"], "dcline": ["from_bus", "to_bus"]}
NODE_TABLES = ["ext_grid", "gen", "load", "sgen", "shunt", "ward", "xward", "storage", "motor", "asymmetric_load",
               "asymmetric_sgen", "svc"]
SW_ET = {"b": "bus", "l": "line", "t": "trafo", "t3": "trafo3w"}
RES_TABLES = ["bus", "line", "trafo", "trafo3w", "ext_grid", "gen", "load", "sgen"]


def build_net():
    """N0 of NetEditDef.tla, with result tables filled by one power flow."""
    import pandapower as pp
    import pandapower.control as ct
    from ..templates import line, trafo, trafo3w
    net = pp.create_empty_network()
    for i, vn in enumerate([20.0, 20.0, 20.0, 0.4]):
        pp.create_bus(net, vn, index=i)
    line(pp, net, 0, 1)
    line(pp, net, 1, 2)
    trafo(pp, net, 2, 3, tap_side="hv", tap_neutral=0, tap_min=-2, tap_max=2, tap_step_percent=1.5, tap_pos=0,
          tap_changer_type="Ratio")
    trafo3w(pp, net, 0, 1, 3, tap_side="hv", tap_neutral=0, tap_min=-2, tap_max=2, tap_step_percent=1.5, tap_pos=0,
            tap_changer_type="Ratio")
    pp.create_ext_grid(net, 0)
    pp.create_gen(net, 1, p_mw=0.05, vm_pu=1.0)
    pp.create_load(net, 1, 0.1, 0.02)
    pp.create_load(net, 3, 0.05, 0.01)
    pp.create_sgen(net, 2, 0.03)
    pp.create_switch(net, 1, 2, et="b", closed=False)
    pp.create_switch(net, 1, 0, et="l")
    pp.create_switch(net, 2, 0, et="t")
    pp.create_switch(net, 1, 0, et="t3")
    pp.create_measurement(net, "v", "bus", 1.0, 0.01, element=1)
    pp.create_measurement(net, "p", "line", 0.1, 0.01, element=0, side="from")
    pp.create_measurement(net, "p", "trafo", 0.1, 0.01, element=0, side="hv")
    pp.create_measurement(net, "p", "trafo3w", 0.1, 0.01, element=0, side="hv")
    pp.create_poly_cost(net, 0, "gen", cp1_eur_per_mw=1.0)
    pp.create_poly_cost(net, 0, "ext_grid", cp1_eur_per_mw=2.0)
    pp.create_pwl_cost(net, 0, "sgen", [[0, 1, 1.0]])
    pp.create_group(net, ["line", "bus", "switch", "load"], [[0], [1], [1], [0, 1]], name="g0", index=0)
    pp.create_group(net, ["trafo", "gen"], [[0], [0]], name="g1", index=1)
    net.sgen.at[0, "name"] = "sg_a"
    pp.create_group(net, ["sgen"], [["sg_a"]], name="g2", index=2, reference_columns="name")
    ct.ConstControl(net, "load", "p_mw", element_index=[0], data_source=None, profile_name=None)
    ct.DiscreteTapControl(net, element_index=0, vm_lower_pu=0.98, vm_upper_pu=1.02, element="trafo")
    ct.DiscreteTapControl(net, element_index=0, vm_lower_pu=0.98, vm_upper_pu=1.02, side="mv", element="trafo3w")
    pp.runpp(net)
    return net


def project(net):
    """Mechanical projection: index sets and reference columns, nothing inferred."""
    import numpy as np
    import pandas as pd
    rows, refs, res = [], [], []

    def ref(ft, fi, col, tt, ti, kind="own"):
        refs.append({"ft": ft, "fi": int(fi), "col": col, "tt": tt, "ti": int(ti), "kind": kind})

    for b in net.bus.index:
        rows.append(["bus", int(b)])
    for t, cols in BUS_COLS.items():
        if t in net and len(net[t]):
            for i in net[t].index:
                rows.append([t, int(i)])
                for c in cols:
                    ref(t, i, c, "bus", net[t].at[i, c])
    for t in NODE_TABLES:
        if t in net and len(net[t]):
            for i in net[t].index:
                rows.append([t, int(i)])
                ref(t, i, "bus", "bus", net[t].at[i, "bus"])
    for i in net.switch.index:
        rows.append(["switch", int(i)])
        ref("switch", i, "bus", "bus", net.switch.at[i, "bus"])
        ref("switch", i, "element", SW_ET[net.switch.at[i, "et"]], net.switch.at[i, "element"])
    for i in net.measurement.index:
        rows.append(["measurement", int(i)])
        ref("measurement", i, "element", str(net.measurement.at[i, "element_type"]), net.measurement.at[i, "element"])
    for t in ("poly_cost", "pwl_cost"):
        for i in net[t].index:
            rows.append([t, int(i)])
            ref(t, i, "element", str(net[t].at[i, "et"]), net[t].at[i, "element"])
    if "group" in net and len(net.group):
        for pos in range(len(net.group)):
            gid = int(net.group.index[pos])
            et = str(net.group.element_type.iat[pos])
            rid = GROUP_ROW.get((gid, et), 100 + 10 * gid + pos)
            rows.append(["group", rid])
            refcol = net.group.reference_column.iat[pos]
            members = net.group.element_index.iat[pos]
            if refcol is None or (isinstance(refcol, float) and np.isnan(refcol)):
                for m in members:
                    ref("group", rid, "element_index", et, m, "member")
            else:       # reference-column group: a member is a value of net[et][refcol]; no row with that value = dangling
                for m in members:
                    hit = list(net[et].index[net[et][str(refcol)].values == m]) if et in net and str(refcol) in net[et] else []
                    for h in (hit or [-1]):
                        ref("group", rid, "element_index", et, h, "member")
    if "controller" in net and len(net.controller):
        for i in net.controller.index:
            rows.append(["controller", int(i)])
            obj = net.controller.at[i, "object"]
            et = getattr(obj, "element", None)
            idx = getattr(obj, "element_index", None)
            if et is not None and idx is not None:
                for m in (idx if isinstance(idx, (list, tuple, np.ndarray, pd.Index)) else [idx]):
                    ref("controller", i, "element_index", str(et), m)
    for t in RES_TABLES:
        rt = "res_" + t
        if rt in net and isinstance(net[rt], pd.DataFrame):
            for i in net[rt].index:
                res.append([t, int(i)])
    return {"rows": rows, "refs": refs, "res": res}


def exec_op(net, a):
    """returns the (possibly new) net"""
    import pandapower as pp
    import pandapower.toolbox as tb
    op, t, i = a["op"], a["t"], a["i"]
    if op == "drop":
        tb.drop_elements(net, t, [i])
    elif op == "reindex":
        if t == "bus":
            tb.reindex_buses(net, {int(b): int(b) + i for b in net.bus.index})
        else:
            old = list(net[t].index)
            tb.reindex_elements(net, t, new_indices=[int(x) + i for x in old], old_indices=old)
    elif op == "continuous":
        if t == "bus":
            tb.create_continuous_bus_index(net)
        else:
            tb.create_continuous_elements_index(net)
    elif op == "fuse":
        if i == 12:
            tb.fuse_buses(net, 1, [2])
        else:
            tb.fuse_buses(net, 0, [1])
    elif op == "select":
        net = tb.select_subnet(net, [0, 1, 2] if i == 12 else [2, 3], include_results=True)
    else:
        raise ValueError(op)
    return net


def observe(hist):
    if "net" not in _BASE:
        _BASE["net"] = build_net()
    net = copy.deepcopy(_BASE["net"])
    out = {"hist": hist, "states": [project(net)], "err": ""}
    for a in hist:
        try:
            net = exec_op(net, a)
        except Exception as e:  # noqa
            out["err"] = "%s(%s,%s): %s: %s" % (a["op"], a["t"], a["i"], type(e).__name__, str(e)[:80])
            out["states"].append(project(net))
            break
        out["states"].append(project(net))
    return out


def dangling(state):
    rows = {tuple(r) for r in state["rows"]}
    d = sorted({"%s.%s->%s" % (r["ft"], r["col"], r["tt"]) for r in state["refs"] if (r["tt"], r["ti"]) not in rows})
    rs = sorted({"res_%s" % t for t, i in state["res"] if (t, i) not in rows})
    return d + rs


def parse_hist_only(r):
    return [s for s in r.dump if s["hist"]]


def run(tier, seed, replay=None):
    v = Verdict("C22", tier, seed, "model_checking")
    use_repo()
    if replay:
        hists = [replay["case"]["hist"]]
        states = trans = 1
    else:
        import os, re, shutil, tempfile
        from ..tla import SPEC_DIR
        wd = tempfile.mkdtemp(prefix="ppverif_c22_")
        try:
            cfg = open(os.path.join(SPEC_DIR, "NetEdit.cfg")).read()
            if tier == "thorough":
                cfg = cfg.replace("MaxLen = 2", "MaxLen = 3")
            open(os.path.join(wd, "NetEdit.cfg"), "w").write(cfg)
            r = run_tlc("NetEdit", "NetEdit.cfg", workdir=wd, dump=True, timeout=3000)
        finally:
            shutil.rmtree(wd, ignore_errors=True)
        for name, st, raw in r.violations:
            v.divergence("model-level: %s" % name, None)
        hists = [jsonable(s["hist"]) for s in parse_hist_only(r)]
        states, trans = r.distinct, r.transitions
        # only maximal histories need replaying (every prefix state is logged on the way)
        allh = {repr(h) for h in hists}
        pref = {repr(h[:-1]) for h in hists if len(h) > 1}
        hists = [h for h in hists if repr(h) not in pref]
    cases = pool_map(observe, hists)
    fails, st = tlc_obs("NetEditObs", "NetEditObs.cfg", cases, chunk=400)
    seen = set()
    for name, i in fails:
        c = cases[i]
        # first logged state that dangles, for the structural key  op x referencing column
        for k, s in enumerate(c["states"]):
            d = dangling(s)
            if d:
                a = c["hist"][k - 1] if k > 0 else {"op": "initial", "t": "-", "i": 0}
                for x in d:
                    key = "C22|%s(%s)|%s" % (a["op"], a["t"], x)
                    if (key, i) not in seen:
                        seen.add((key, i))
                        v.violation(key, "%s after %s: dangling %s" % (name, [(b["op"], b["t"], b["i"]) for b in c["hist"][:k]], x),
                                    {"hist": c["hist"][:k]})
                break
        else:
            v.violation("C22|%s|unclassified" % name, "%s on %s" % (name, c["hist"]), {"hist": c["hist"]})
    conf, _ = tlc_obs("NetEditObs", "NetEditConf.cfg", cases, chunk=400)
    for name, i in conf[:200]:
        c = cases[i]
        v.divergence("%s: post-state differs from the constructive model after %s %s" % (
            name, [(b["op"], b["t"], b["i"]) for b in c["hist"]], c["err"]))
    nontriv = sum(1 for c in cases if len(c["hist"]) >= 2)
    v.coverage = {
        "states": states + st["states"], "transitions": trans + st["generated"],
        "traces_validated_against_impl": len(cases), "exhaustive": True, "evaluations": len(cases),
        "distinct_nontrivial": nontriv,
        "rule": "every maximal history of <=%d enabled operations of NetEditDef.tla!Ops (drop_elements on buses/branches/"
                "bus elements/switches, reindex_buses/reindex_elements, create_continuous_*_index, fuse_buses, select_subnet) "
                "replayed on a net with all four switch kinds, measurements, costs, groups and controllers; the projection "
                "after EVERY step is checked; non-trivial = >=2 operations" % (3 if tier == "thorough" else 2),
        "logged_states": sum(len(c["states"]) for c in cases),
        "ops_raising": sum(1 for c in cases if c["err"]),
        "conformance_divergences": len(conf),
        "samples": [{"hist": cases[k]["hist"], "final_rows": len(cases[k]["states"][-1]["rows"])}
                    for k in range(0, len(cases), max(1, len(cases) // 3))][:3],
    }
    v.assumptions = ["operation alphabet as in NetEditDef.tla!Ops; merge_nets/replace_* not in the alphabet yet",
                     "one reference-column group (sgen by name); characteristics referenced by controllers are not projected"]
    return v.finish()
