"""C30 — diagnostics are side-effect free and stateless (DESIGN §4, Diagnostic.tla)."""
import random

from ..common import Verdict, pool_map, use_repo
from ..obs import tlc_obs
from ..tla import jsonable, run_tlc

OSF = {"A": 0.5, "B": 0.25}
XK = {"A": 7}
_ST = {}


def _setup(real):
    """one-time per process: pristine copies of the module-level defaults, probe class, test net"""
    if _ST:
        return _ST
    import pandapower as pp
    from pandapower.diagnostic import diagnostic_functions as dfn
    from pandapower.diagnostic.diagnostic_helpers import DiagnosticFunction
    from ..templates import line, trafo

    log = []

    class Probe(DiagnosticFunction):
        def __init__(self, name):
            super().__init__()
            self.name = name

        def diagnostic(self, net, **kwargs):
            o = kwargs.get("overload_scaling_factor", "absent")
            x = kwargs.get("xkey", "absent")
            ot = "absent" if isinstance(o, str) else "dflt" if o == 0.001 else {0.5: "A", 0.25: "B"}.get(o, "?%r" % o)
            xt = "absent" if isinstance(x, str) else {7: "A"}.get(x, "?%r" % x)
            log.append([self.name, ot, xt])
            return None

        def report(self, error, results):
            pass

    net = pp.create_empty_network()
    b = [pp.create_bus(net, 20.0) for _ in range(3)] + [pp.create_bus(net, 0.4)]
    pp.create_ext_grid(net, b[0])
    line(pp, net, b[0], b[1]); line(pp, net, b[1], b[2])
    trafo(pp, net, b[2], b[3])
    pp.create_load(net, b[3], 0.1, 0.02); pp.create_load(net, b[1], 0.5, 0.1)
    pp.create_sgen(net, b[1], 0.1)
    pp.create_switch(net, b[1], 1, et="l")
    # a network the default functions have something to repair in: implausible impedances (xward with x = 0, a line with
    # zero impedance), a heavily overloaded feeder (the plain power flow does not converge), a wrongly rated bus
    import copy as _copy
    bad = _copy.deepcopy(net)
    pp.create_xward(bad, b[1], ps_mw=0.1, qs_mvar=0.0, pz_mw=0.0, qz_mvar=0.0, r_ohm=0.0, x_ohm=0.0, vm_pu=1.0)
    pp.create_line_from_parameters(bad, b[1], b[2], 1.0, 0.0, 0.0, 0.0, 0.5)
    pp.create_ward(bad, b[2], 0.05, 0.0, 0.0, 0.0)
    bad.load.loc[1, "p_mw"] = 400.0
    _ST.update(dfn=dfn, Probe=Probe, log=log, net=net, bad=bad,
               args0=dict(dfn.default_argument_values), fns0=list(dfn.default_diagnostic_functions))
    return _ST


def observe(job):
    hist, real = job["hist"], job.get("real", False)
    st = _setup(real)
    from pandapower.diagnostic import Diagnostic
    from ..netstate import snapshot, snap_diff
    dfn, Probe, log = st["dfn"], st["Probe"], st["log"]
    net = st["bad"] if job.get("netkind") == "troubled" else st["net"]
    # every history starts from pristine module state (a fresh interpreter, conceptually)
    dfn.default_argument_values.clear(); dfn.default_argument_values.update(st["args0"])
    dfn.default_diagnostic_functions[:] = (st["fns0"] if real else []) + [("d", Probe("d"), None)]
    inst = {}
    out = {"hist": hist, "calls": [], "net_changed": [], "err": ""}
    try:
        for a in hist:
            del log[:]
            changed = False
            if a["op"] == "new":
                inst[a["i"]] = Diagnostic(add_default_functions=a["dflt"])
            elif a["op"] == "reg":
                inst[a["i"]].register_function(Probe(a["fn"]), None, a["fn"])
            else:
                kw = {}
                if a["osf"] != "none":
                    kw["overload_scaling_factor"] = OSF[a["osf"]]
                if a["x"] != "none":
                    kw["xkey"] = XK[a["x"]]
                before = snapshot(net)
                inst[a["i"]].diagnose_network(net, report_style=None, **kw)
                changed = bool(snap_diff(before, snapshot(net)))
            out["calls"].append([list(c) for c in log])
            out["net_changed"].append(changed)
    except Exception as e:  # noqa
        out["err"] = "%s: %s" % (type(e).__name__, str(e)[:120])
        while len(out["calls"]) < len(hist):
            out["calls"].append([]); out["net_changed"].append(False)
    finally:
        dfn.default_argument_values.clear(); dfn.default_argument_values.update(st["args0"])
        dfn.default_diagnostic_functions[:] = st["fns0"]
    return out


def classify(c):
    """structural key of a failing history: which kind of leak explains it (for known_findings)"""
    h = c["hist"]
    last = max(k for k, a in enumerate(h) if a["op"] == "diag") if any(a["op"] == "diag" for a in h) else 0
    return "len%d" % len(h)


def run(tier, seed, replay=None):
    v = Verdict("C30", tier, seed, "model_checking")
    use_repo()
    real = tier == "thorough"
    if replay:
        hists = [replay["case"]["hist"]]
        states = trans = 1
    else:
        import os, re, shutil, tempfile
        from ..tla import SPEC_DIR
        wd = tempfile.mkdtemp(prefix="ppverif_c30_")
        try:
            r = run_tlc("Diagnostic", "Diagnostic.cfg", workdir=wd, dump=True)
        finally:
            shutil.rmtree(wd, ignore_errors=True)
        for name, st, raw in r.violations:
            v.divergence("model-level: %s" % name, None)
        hists = [jsonable(s["hist"]) for s in r.dump if s["hist"] and s["hist"][-1]["op"] == "diag"]
        states, trans = r.distinct, r.transitions
    jobs = [{"hist": h, "real": False} for h in hists]
    if replay and replay["case"].get("job"):
        jobs = [replay["case"]["job"]]
    if not replay:
        # the REAL default function set (it runs and repairs power flows on copies/backups of the tables): every two-step
        # history "new with defaults; diagnose" on the plain and on a troubled network - quick and thorough
        short = [h for h in hists if len(h) == 2 and h[0]["op"] == "new" and h[0]["dflt"]]
        jobs += [{"hist": h, "real": True, "netkind": k} for h in short for k in ("plain", "troubled")]
    if real and not replay:
        rnd = random.Random(seed)
        jobs += [{"hist": h, "real": True, "netkind": rnd.choice(["plain", "troubled"])} for h in rnd.sample(hists, min(160, len(hists)))]
    cases = pool_map(observe, jobs)
    for c, j in zip(cases, jobs):
        c["job"] = j
    fails, st = tlc_obs("DiagnosticObs", "DiagnosticObs.cfg", cases)
    for name, i in fails:
        c = cases[i]
        v.violation("C30|%s%s" % (name, "|real_defaults:" + c["job"].get("netkind", "plain") if c["job"].get("real") else ""),
                    "%s fails after history %s: probes saw %s%s" % (
            name, [tuple(a.values()) for a in c["hist"]], c["calls"][-1], " err=" + c["err"] if c["err"] else ""), c)
    nontriv = sum(1 for c in cases if len({a["i"] for a in c["hist"]}) >= 2
                  and sum(a["op"] == "diag" for a in c["hist"]) >= 1)
    v.coverage = {
        "states": states + st["states"], "transitions": trans + st["generated"],
        "traces_validated_against_impl": len(cases), "exhaustive": True, "evaluations": len(cases),
        "distinct_nontrivial": nontriv,
        "rule": "every history of <=4 actions (new/register/diagnose over 2 instances, 2 probe functions, 2 option keys) "
                "ending in a diagnose call, replayed on real Diagnostic objects with recording DiagnosticFunctions; "
                "non-trivial = involves both instances; plus every two-step history with the REAL default function set on a plain "
                "and on a troubled network (implausible impedances, non-converging load); thorough adds a seeded sample of longer ones",
        "with_real_default_functions": sum(1 for j in jobs if j["real"]),
        "samples": [cases[k] for k in range(0, len(cases), max(1, len(cases) // 3))][:3],
    }
    v.assumptions = ["default diagnostic functions replaced by one recording stub in the exhaustive part (module state is "
                     "restored before every history)", "report generation (logging) not covered"]
    return v.finish()
