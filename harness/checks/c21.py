"""C21 — PYPOWER / MATPOWER conversion round trip preserves power flow results (DESIGN §5, Convert*.tla).

TLC enumerates the in-scope element sets of template T5 x route (Convert.tla); every dumped configuration is built as a
real pandapower net, solved, converted (to_ppc -> from_ppc, or to_mpc -> .mat file -> from_mpc), solved again; the
fixed-point results and the bus correspondence reported by to_ppc are handed to TLC (ConvertObs.tla), which decides
every clause.  Python only builds, calls and projects.
"""
import os
import random
import shutil
import tempfile

from ..common import Verdict, fx, pool_map, use_repo
from ..obs import tlc_obs
from ..tla import SPEC_DIR, jsonable, run_tlc

# level -> number table; mirrors LoadP / LoadQ / SgenP / SgenQ of ConvertDef.tla (MW / Mvar here, kW / kvar there)
LOADS = {"ld1": (1, 8.0, 2.0), "ld4": (4, 2.0, 1.0), "ld2": (3, 5.0, 1.0)}
SGEN = {"small": (3.0, 0.5), "equal": (8.0, 0.5), "large": (12.0, 0.5), "oos": (3.0, 0.5)}
LINES = {"l0": (0, 1, 10.0), "l1": (1, 2, 10.0), "l2": (0, 2, 15.0)}
PF = dict(tolerance_mva=1e-9, trafo_model="pi", calculate_voltage_angles=True)
CAP_THOROUGH = int(os.environ.get("VERIF_C21_CAP", "16000"))      # env override: development only
_BASE = {}


def build(cfg, jit=None):
    """Template T5 of ConvertDef.tla for one abstract configuration.  jit: optional factors {"p": f, "len": {...}, "vk": f}."""
    import copy
    import pandapower as pp
    j = jit or {}
    fp = j.get("p", 1.0)
    if "empty" not in _BASE:
        _BASE["empty"] = pp.create_empty_network()       # create_empty_network costs ~10x a deepcopy of its result
    net = copy.deepcopy(_BASE["empty"])
    for b, vn in enumerate([110.0, 110.0, 110.0, 20.0, 110.0]):
        pp.create_bus(net, vn, index=b, name="b%d" % b)
    net.bus.at[3, "in_service"] = bool(cfg["b3"])
    pp.create_ext_grid(net, 0, vm_pu=1.02, va_degree=0.0)
    for name in ("l0", "l1", "l2"):
        state = {"l0": "in", "l1": cfg["l1"], "l2": cfg["l2"]}[name]
        if state == "absent":
            continue
        a, b, km = LINES[name]
        pp.create_line_from_parameters(net, a, b, km * j.get("len", {}).get(name, 1.0), 0.06, 0.14, 10.0, 0.5, name=name,
                                       in_service=state == "in")
    if cfg["tr"] != "absent":
        pp.create_transformer_from_parameters(
            net, 2, 3, sn_mva=25.0, vn_hv_kv=110.0, vn_lv_kv=20.0, vkr_percent=0.5, vk_percent=10.0 * j.get("vk", 1.0),
            pfe_kw=14.0 if cfg["pfe"] == "pos" else 0.0, i0_percent=0.1, shift_degree=float(cfg["shift"]), tap_side="hv",
            tap_neutral=0, tap_min=-2, tap_max=2, tap_step_percent=1.5, tap_pos=1 if cfg["tap"] == "plus" else 0,
            tap_changer_type="Ratio", in_service=cfg["tr"] == "in", name="tr")
    for name, (bus, p, q) in LOADS.items():
        if name == "ld2" and cfg["ld2"] == "absent":
            continue
        pp.create_load(net, bus, p_mw=p * fp, q_mvar=q * fp, name=name, in_service=not (name == "ld2" and cfg["ld2"] == "oos"))
    if cfg["sgen"] != "absent":
        p, q = SGEN[cfg["sgen"]]
        pp.create_sgen(net, 1, p_mw=p * fp, q_mvar=q * fp, in_service=cfg["sgen"] != "oos", name="sgen")
    if cfg["gen"] != "absent":
        pp.create_gen(net, 2, p_mw=4.0 * fp, vm_pu=1.015, in_service=cfg["gen"] == "in", name="gen")
    if cfg["sh"] != "absent":
        pp.create_shunt(net, 2, q_mvar=-1.0 * fp, p_mw=0.1 * fp, in_service=cfg["sh"] == "in", name="sh")
    if cfg["swl"] != "absent":
        pp.create_switch(net, 0, int(net.line.index[net.line.name == "l2"][0]), et="l", closed=cfg["swl"] == "closed")
    if cfg["swb"] != "absent":
        pp.create_switch(net, 1, 4, et="b", closed=cfg["swb"] == "closed")
    return net


def jitter(cfg_id, seed):
    rnd = random.Random("%s/%s" % (seed, cfg_id))
    u = lambda: 1.0 + 0.2 * rnd.uniform(-1, 1)
    return {"p": u(), "len": {"l0": u(), "l1": u(), "l2": u()}, "vk": u()}


def _sum(col):
    import numpy as np
    return float(np.nansum(col.values)) if len(col) else 0.0


def project(net):
    return {"vm": [fx(x) for x in net.res_bus.vm_pu.values], "va": [fx(x) for x in net.res_bus.va_degree.values],
            "slack_p": fx(_sum(net.res_ext_grid.p_mw)), "slack_q": fx(_sum(net.res_ext_grid.q_mvar)),
            "loss": fx(_sum(net.res_line.pl_mw) + _sum(net.res_trafo.pl_mw) + _sum(net.res_impedance.pl_mw))}


INV = ("bus", "line", "trafo", "impedance", "ext_grid", "gen", "load", "sgen", "shunt")
NOCONV = {"nbus": 0, "vm": [], "va": [], "slack_p": 0, "slack_q": 0, "loss": 0, "inv": {k: 0 for k in INV}}


def observe(job):
    import pandapower as pp
    from pandapower.converter.matpower import from_mpc, to_mpc
    from pandapower.converter.pypower import from_ppc, to_ppc
    from pandapower.auxiliary import LoadflowNotConverged
    cfg = job["cfg"]
    out = {"cfg": cfg, "jit": job.get("jit") or {}, "corr": [-1] * 5, "conv": dict(NOCONV), "err": "",
           "corrupt": job.get("corrupt", "")}
    net = build(cfg, job.get("jit"))
    try:
        pp.runpp(net, **PF)
        ok = bool(net.converged)
    except LoadflowNotConverged:
        ok = False
    if not ok:
        out["orig"] = {"conv": False, "vm": [0] * 5, "va": [0] * 5, "slack_p": 0, "slack_q": 0, "loss": 0}
        out["outcome"] = "orig_not_converged"
        return out
    out["orig"] = dict(project(net), conv=True)
    stage = "to"
    tmp = None
    try:
        if cfg["route"] == "ppc":
            ppc = to_ppc(net, calculate_voltage_angles=True, trafo_model="pi")
            lookup = net._pd2ppc_lookups["bus"]
            stage = "from"
            net2 = from_ppc(ppc, f_hz=50)
        else:
            tmp = tempfile.mkdtemp(prefix="ppverif_c21_")
            fn = os.path.join(tmp, "case.mat")
            to_mpc(net, fn, calculate_voltage_angles=True, trafo_model="pi")
            lookup = net._pd2ppc_lookups["bus"]
            stage = "from"
            net2 = from_mpc(fn, f_hz=50)
        out["corr"] = [int(lookup[b]) if b < len(lookup) else -1 for b in range(5)]
        stage = "solve"
        pp.runpp(net2, **PF)
        if not net2.converged:
            raise LoadflowNotConverged("not converged")
        # converted buses are created under the case file's bus numbers 0..n-1 (from_ppc.py:82)
        net2.res_bus.sort_index(inplace=True)
        if list(net2.res_bus.index) != list(range(len(net2.bus))):
            out["outcome"] = "bus_numbers_not_consecutive"
            return out
        out["conv"] = dict(project(net2), nbus=int(len(net2.bus)), inv={k: int(len(net2[k])) for k in INV})
        out["outcome"] = "ok"
    except LoadflowNotConverged:
        out["outcome"] = "converted_not_converged"
    except Exception as e:  # noqa
        out["outcome"] = "%s_error" % stage
        out["err"] = "%s: %s" % (type(e).__name__, str(e)[:160])
    finally:
        if tmp:
            shutil.rmtree(tmp, ignore_errors=True)
    c = out["corrupt"]          # self-test of the binding only (VERIF_C21_CORRUPT / replay files never set it)
    if c and out["outcome"] == "ok":
        if c == "vm":
            out["conv"]["vm"][0] += 2000
        elif c == "loss":
            out["conv"]["loss"] += 500
        elif c == "slack":
            out["conv"]["slack_q"] += 500
        elif c == "corr":
            out["corr"][1] = -1
    return out


def model(tier):
    wd = tempfile.mkdtemp(prefix="ppverif_c21m_")
    try:
        cfg = open(os.path.join(SPEC_DIR, "Convert.cfg")).read().replace('TIER = "quick"', 'TIER = "%s"' % tier)
        open(os.path.join(wd, "Convert.cfg"), "w").write(cfg)
        return run_tlc("Convert", "Convert.cfg", workdir=wd, dump=True, timeout=3000, workers=8)
    finally:
        shutil.rmtree(wd, ignore_errors=True)


def run(tier, seed, replay=None):
    v = Verdict("C21", tier, seed, "exploration")
    use_repo()
    exhaustive = True
    if replay:
        jobs = [replay["case"]["job"]]
        states = trans = 1
        n_model = 1
    else:
        r = model(tier)
        for name, st, raw in r.violations:
            v.divergence("model-level: invariant %s violated" % name, jsonable(st))
        states, trans, n_model = r.distinct, r.transitions, len(r.dump)
        cfgs = sorted((jsonable(s["cfg"]) for s in r.dump), key=lambda c: repr(sorted(c.items())))
        if tier == "thorough" and len(cfgs) > CAP_THOROUGH:
            cfgs = random.Random(seed).sample(cfgs, CAP_THOROUGH)
            exhaustive = False
        # (quick is exhaustive over its smaller space; the seed only matters for thorough sampling / jitter)
        corrupt = os.environ.get("VERIF_C21_CORRUPT", "")
        jobs = []
        for k, c in enumerate(cfgs):
            cid = "".join("%s=%s;" % kv for kv in sorted(c.items()))
            j = {"cfg": c, "jit": jitter(cid, seed) if tier == "thorough" else None}
            if corrupt and k == 7:
                j["corrupt"] = corrupt
            jobs.append(j)
    cases = pool_map(observe, jobs, procs=int(os.environ.get("VERIF_PROCS", "16")))
    for c, j in zip(cases, jobs):
        c["job"] = {"cfg": j["cfg"], "jit": j.get("jit")}
    slim = [{k: c[k] for k in ("cfg", "orig", "outcome", "corr", "conv")} for c in cases]
    fails, st = tlc_obs("ConvertObs", "ConvertObs.cfg", slim, chunk=4000, workers=8)
    bad = sorted({i for _, i in fails})
    lost, onerow = set(), set()
    st2 = {"states": 0, "generated": 0}
    if bad:
        # feature classes of the failing cases, decided by TLC from the abstract configuration (ConvertTags.cfg)
        tf, st2 = tlc_obs("ConvertObs", "ConvertTags.cfg", [slim[i] for i in bad], workers=4)
        lost = {bad[k] for n_, k in tf if n_ == "Tag_NothingLost"}          # the route lost a field the power flow needs
        onerow = {bad[k] for n_, k in tf if n_ == "Tag_NoOneRowTable"}      # a one-row bus / branch table in the .mat file
    for name, i in fails:
        c = cases[i]
        feat = "lost=branch_g" if i in lost else "onerow_table" if i in onerow else "none"
        key = "C21|%s|route=%s|%s" % (name, c["cfg"]["route"], feat)
        if name == "C21_RoundTripCompletes":
            key += "|%s|%s" % (c["outcome"], c["err"].split(":")[0])
        v.violation(key, "%s: cfg=%s outcome=%s %s orig=%s conv=%s corr=%s" % (
            name, c["cfg"], c["outcome"], c["err"], {k: c["orig"][k] for k in ("slack_p", "slack_q", "loss")},
            {k: c["conv"][k] for k in ("slack_p", "slack_q", "loss")}, c["corr"]), {"job": c["job"]})
    conf, st3 = tlc_obs("ConvertObs", "ConvertConf.cfg", slim, chunk=4000, workers=8)
    for name, i in conf:
        c = cases[i]
        v.divergence("%s: cfg=%s corr=%s inv=%s outcome=%s" % (name, c["cfg"], c["corr"], c["conv"]["inv"], c["outcome"]))
    ok = [c for c in cases if c["outcome"] == "ok"]

    def nontrivial(c):
        g = c["cfg"]
        return (c["outcome"] == "ok" and (g["swb"] == "closed" or g["swl"] == "open" or "oos" in (g["l1"], g["l2"], g["tr"], g["gen"], g["ld2"], g["sh"], g["sgen"]) or not g["b3"])
                and (g["tr"] == "in" or g["gen"] == "in"))
    v.coverage = {
        "states": states + st["states"] + st2["states"] + st3["states"],
        "transitions": trans + st["generated"] + st2["generated"] + st3["generated"],
        "traces_validated_against_impl": len(cases), "evaluations": len(cases), "exhaustive": exhaustive,
        "model_states": n_model, "round_trips_ok": len(ok),
        "orig_not_converged": sum(c["outcome"] == "orig_not_converged" for c in cases),
        "by_route": {r_: sum(1 for c in ok if c["cfg"]["route"] == r_) for r_ in ("ppc", "mpc")},
        "with_unsupplied_bus": sum(1 for c in ok if any(x >= 2000000001 for x in c["orig"]["vm"])),
        "with_fused_buses": sum(1 for c in ok if c["cfg"]["swb"] == "closed"),
        "with_aux_bus": sum(1 for c in ok if c["cfg"]["swl"] == "open" and c["cfg"]["l2"] == "in"),
        "distinct_nontrivial": sum(1 for c in cases if nontrivial(c)),
        "rule": "every configuration Convert.tla enumerates for TIER=%s (element sets of template T5: second line, 2W pi-model "
                "transformer with tap/shift/iron-loss variants, gen, sgen level, second load, shunt, each absent / in / out of "
                "service, line switch, bus-bus switch, x route ppc|mpc)%s is built, solved, round-tripped and solved again; "
                "non-trivial = round trip completed, >=1 fused bus pair / open line switch / out-of-service element and an "
                "in-service transformer or PV gen" % (tier, "" if exhaustive else " (seeded sample of %d)" % CAP_THOROUGH),
        "samples": [{k: c[k] for k in ("cfg", "orig", "outcome", "corr", "conv")} for c in
                    (cases[0], cases[len(cases) // 2], cases[-1])],
    }
    v.assumptions = [
        "template T5 only (5 buses, 3 lines, one 2W transformer, 110/20 kV); to_ppc/to_mpc called with trafo_model='pi', "
        "calculate_voltage_angles=True, init='results'; both nets solved with runpp(tolerance_mva=1e-9, trafo_model='pi')",
        "bus correspondence = net._pd2ppc_lookups['bus'] after to_ppc (the lookup to_ppc leaves on the net); from_ppc numbers "
        "the converted buses by the case file's BUS_I",
        "an exception in to_*/from_* or a non-converging converted net, for a converging original, counts as a violation "
        "(C21_RoundTripCompletes): no network with the same results was yielded",
        "total losses = sum of pl_mw over res_line, res_trafo, res_impedance; slack power = sum over res_ext_grid",
    ]
    return v.finish()
