"""C17 — OPF minimises exactly the user-defined cost functions (DESIGN §5; shares Opf*.tla and the driver with C16).

Slice "cost" of Opf.tla: TLC enumerates cost kinds (none / linear / linear+c0 / quadratic / quadratic+c0 / pwl with 1-3
areas / with reactive cost) x element types x coefficient variants (at most MaxCosted costed elements), AC / DC, limit
levels, and derives (a) the classes in which the objective as transcribed from make_objective.py deviates from the user's
function (prediction only) and (b) for radial lossless DC cases the exact optimum by brute force over the integer dispatch
grid.  OpfObs.tla evaluates the user's cost functions at the reported powers in fixed point and compares with net.res_cost
and with the grid optimum.
The structural dimensions of the template are part of the slice: several dclines (the dcline cost row belongs to the last
one) operated forward / in reverse, net.sn_mva (the solver's per-unit base), a "ghost" (an out-of-service element whose
cost row stays in the table, first or at its place).  The sample covers every stratum of Opf.tla (req.stratum: AC/DC x
structural deviation x cost class = branch of make_objective.py / of the solver's cost handling).
"""
import json
import time

from ..common import Verdict, use_repo
from ..obs import tlc_obs
from ..tla import MachineryError
from .c16 import PROCS, enumerate_model, focus_counts, obs_cases, run_cases, sample_sizes, select

QUICK = {}
THOROUGH = {"VarSet": "{1, 2}", "OptSet": '{"default", "tight"}', "MeshSet": "{TRUE, FALSE}", "RateSet": '{"loose", "tight"}',
            "GridModelMax": "1000", "DclSet": '{"none", "f", "F", "r", "R", "fr", "rf", "frf"}', "SnSet": "{1, 10, 50}"}
INVERTED = ("load", "storage", "dcline")
NOOPT = 1000000000


def dev_key(c):
    d = sorted(c["req"]["dev"])
    return "+".join(d) if d else "no_predicted_deviation"


def nontrivial(c):
    """converged, and some cost row is more than a linear cost on a generator-like element"""
    k = c["cfg"]["kind"]
    return c["o"]["conv"] and any(k[e] not in ("none", "lin") or (k[e] != "none" and e in INVERTED) for e in k)


def run(tier, seed, replay=None):
    v = Verdict("C17", tier, seed, "exploration")
    use_repo()
    t0 = time.time()
    if replay:
        states = [{"cfg": replay["case"]["cfg"], "req": replay["case"]["req"]}]
        mstates = mtrans = 0
        n_model = n_strata = 1
    else:
        states, r = enumerate_model("OpfCost.cfg", QUICK if tier == "quick" else THOROUGH)
        for name, st, raw in r.violations:
            v.divergence("model-level: %s" % name, None)
        mstates, mtrans, n_model = r.distinct, r.generated, len(states)
        n_strata = len({json.dumps(s["req"]["stratum"], sort_keys=True) for s in states})
        states = select(states, tier, seed, *sample_sizes(tier, (250, 450)))
    t1 = time.time()
    cases = run_cases(v, states, tier, seed, replay)
    t2 = time.time()
    fails, st = tlc_obs("OpfObs", "OpfObsC17.cfg", obs_cases(cases), chunk=4000, workers=PROCS)
    failed = {}
    for name, i in fails:
        c = cases[i]
        if name.startswith("Harness_"):
            raise MachineryError("harness instantiation differs from Inst(cfg): cfg=%s rb=%s" % (c["cfg"], c["rb"]))
        if name.startswith("Conf_"):
            v.divergence("%s: the transcription of make_objective.py in OpfDef.tla (CodeRowP / CodeRowQ, predicted classes %s) "
                         "does not give this tree's res_cost" % (name, sorted(c["req"]["dev"])), c["cfg"])
            continue
        failed.setdefault(i, set()).add(name)
        kinds = {e: k for e, k in c["cfg"]["kind"].items() if k != "none"}
        v.violation("C17|%s|%s" % (name, dev_key(c)),
                    "%s: %s costs=%s res_cost=%.6f gridopt=%s cfg=%s" % (
                        name, "runopp" if c["cfg"]["ac"] else "rundcopp", kinds, c["o"]["cost"] / 1e6,
                        c["req"]["gridopt"] if c["req"]["gridknown"] else "n/a", json.dumps(c["cfg"], sort_keys=True)),
                    {"cfg": c["cfg"], "req": c["req"], "o": c["o"]})
    conv = [c for c in cases if c["o"]["conv"]]
    for i, c in enumerate(cases):
        if c["o"]["conv"] and c["req"]["gridknown"] and c["req"]["gridopt"] == NOOPT:
            v.divergence("OPF converged although the integer dispatch grid has no feasible point", c["cfg"])
        if c["o"]["err"] not in ("", "OPFNotConverged"):
            v.divergence("OPF raised %s" % c["o"]["err"], c["cfg"])
    decided = [c for c in conv if c["req"]["applicable"]]
    v.coverage = {
        "states": mstates + st["states"], "transitions": mtrans + st["generated"],
        "traces_validated_against_impl": len(cases), "evaluations": len(cases),
        "distinct_nontrivial": len({json.dumps(c["cfg"], sort_keys=True) for c in cases if nontrivial(c)}),
        "exhaustive": bool(not replay and len(cases) == n_model),
        "model_configurations": n_model, "converged": len(conv), "not_converged": len(cases) - len(conv),
        "converged_ac": sum(1 for c in conv if c["cfg"]["ac"]), "converged_dc": sum(1 for c in conv if not c["cfg"]["ac"]),
        "optimum_decided_exact": sum(1 for c in decided if c["req"]["exact"]),
        "optimum_decided_upper_bound": sum(1 for c in decided if not c["req"]["exact"]),
        "with_predicted_deviation": sum(1 for c in conv if c["req"]["dev"]),
        "grid_feasible_but_not_converged": sum(1 for c in cases if not c["o"]["conv"] and c["req"]["gridknown"] and c["req"]["gridopt"] != NOOPT),
        "cost_kinds_seen": sorted({"%s:%s" % (e, k) for c in conv for e, k in c["cfg"]["kind"].items() if k != "none"}),
        "converged_by_focus": focus_counts(conv), "strata_in_model": n_strata,
        "strata_sampled": len({json.dumps(c["req"]["stratum"], sort_keys=True) for c in cases}),
        "wall_model_s": round(t1 - t0, 1), "wall_impl_s": round(t2 - t1, 1),
        "rule": "configurations of Opf.tla (slice cost: every assignment of cost kinds to at most MaxCosted of the six element "
                "types x coefficient variant x controllable = all / only the costed elements x AC (loose limits, both solver "
                "option sets) / DC (p limit level x branch rating level) x dclines (one or several, forward / reverse, lossless / "
                "lossy) when costed x net.sn_mva x ghost = out-of-service sgen / load / storage keeping its cost row, first in the "
                "table or at its place; at most MaxDev of the structural dimensions leave the plain template); quick: seeded "
                "sample covering every stratum (req.stratum), thorough: all DC configurations and a seeded sample of 4000 AC ones; non-trivial = converged and a cost row that is not a plain linear cost on a generating "
                "element (c0, c2, pwl, reactive cost, or any cost on load / storage / dcline)",
        "samples": [{"cfg": c["cfg"], "req": c["req"], "o": {k: c["o"][k] for k in ("conv", "p", "q", "cost")}}
                    for c in (cases[0], cases[len(cases) // 2], cases[-1])],
    }
    v.assumptions = [
        "user-side sign convention as stated in OpfDef.tla: every element's cost is a function of the power in its own result "
        "table (load / storage: consumption, dcline: p_from_mw)",
        "pwl additive constant: first area's line through the origin (the code's choice; documentation leaves it open)",
        "NOT decided: optimality of AC OPF results, of meshed or lossy-dcline DC cases, and a lower bound for quadratic costs "
        "(independent optimum decided for radial lossless DC cases with integer data only; exact for linear / convex pwl "
        "costs, upper bound for convex quadratic costs)",
        "not generated (rejected or documented as unsupported by the code): pwl together with quadratic costs (ValueError), "
        "pwl with >1 area on load / storage / dcline (doc/opf/formulation.rst), reactive costs in DC or next to pwl rows, "
        "cost rows on IN-SERVICE non-controllable sgen / load / storage (not part of the optimisation, but with a power), a "
        "net without any cost row; cost rows of out-of-service elements only without constant term and only when the element "
        "is the only one of its kind (see proposed_fixes/C17_3: a lower-index out-of-service element's row lands on another "
        "generator)",
        "at most 2 costed elements per case; coefficient tables of OpfDef.tla (small integers)",
    ]
    return v.finish()
