"""C16 — OPF results are feasible operating points (DESIGN §5, Opf.tla / OpfDef.tla / OpfInst.tla / OpfObs.tla).

TLC enumerates the abstract configurations of the OPF template (which elements are controllable, which limit levels are
tight, AC / DC, solver options, the sequence of dclines -- none / one / several, each forward or reverse, lossless or
lossy --, transformer phase shift, net.sn_mva, an out-of-service element that keeps its cost row, cost profile) and
derives what is required of the result and the stratum of the configuration (Opf.tla req.stratum).  Every selected configuration is instantiated from Inst(cfg) -- serialised by TLC (OpfInst.tla), so the numbers
of the template live in the spec only --, run through runopp / rundcopp, the dispatch is replayed as a plain power flow,
and OpfObs.tla decides the clauses on the fixed-point observations.  This module also carries the driver shared with C17.
"""
import copy
import json
import math
import os
import random
import re
import shutil
import tempfile
import time

from ..common import Verdict, fx, get_pool, pool_map, use_repo
from ..obs import tlc_obs
from ..tla import MachineryError, jsonable, parse_state, run_tlc, SPEC_DIR

ET = ["ext_grid", "gen", "sgen", "load", "storage", "dcline"]
PROCS = int(os.environ.get("VERIF_PROCS", "16"))
TIGHT = dict(OPF_VIOLATION=1e-8, PDIPM_GRADTOL=1e-8, PDIPM_COMPTOL=1e-8, PDIPM_COSTTOL=1e-9)   # "tight" of OpfObs.tla
_BASE = {}


# ---- instantiation: Inst(cfg) -> pandapower net ------------------------------------------------------------------
def base_net(mesh):
    """Topology of OpfDef.tla; every limit / set point / cost and the dclines are written per case by build_net()."""
    key = bool(mesh)
    if key in _BASE:
        return _BASE[key]
    import pandapower as pp
    net = pp.create_empty_network()
    b = [pp.create_bus(net, 110.0)] + [pp.create_bus(net, 20.0) for _ in range(3)]
    pp.create_ext_grid(net, b[0], vm_pu=1.0, controllable=True)
    pp.create_transformer_from_parameters(net, b[0], b[1], sn_mva=20.0, vn_hv_kv=110.0, vn_lv_kv=20.0, vkr_percent=0.4,
                                          vk_percent=10.0, pfe_kw=10.0, i0_percent=0.05, shift_degree=0.0,
                                          max_loading_percent=100.0)
    imax = 20.0 / (math.sqrt(3) * 20.0)          # 20 MVA at 100 % (Sn in OpfDef)
    for a, c in ((1, 2), (2, 3)) + (((1, 3),) if mesh else ()):
        pp.create_line_from_parameters(net, b[a], b[c], 2.0, 0.12, 0.11, 10.0, imax, max_loading_percent=100.0)
    pp.create_load(net, b[2], 0.0, 0.0, name="base", controllable=False)
    pp.create_load(net, b[3], 0.0, 0.0, name="flex", controllable=False)
    pp.create_gen(net, b[2], p_mw=0.0, vm_pu=1.0, controllable=True)
    pp.create_sgen(net, b[3], p_mw=0.0, q_mvar=0.0, controllable=False)
    pp.create_storage(net, b[2], p_mw=0.0, max_e_mwh=100.0, q_mvar=0.0, controllable=False)
    _BASE[key] = net
    return net


ROW = {"ext_grid": 0, "gen": 0, "sgen": 0, "load": 1, "storage": 0}          # dcline cost row: inst["dcl_cost_row"]
ET_TAB = ["ext_grid", "gen", "sgen", "load", "storage"]


def build_net(inst):
    import pandapower as pp
    net = copy.deepcopy(base_net(inst["mesh"]))
    net.sn_mva = float(inst["sn_mva"])
    net.trafo["shift_degree"] = float(inst["shift_degree"])
    net.bus["min_vm_pu"] = inst["vmin"] / 1e6
    net.bus["max_vm_pu"] = inst["vmax"] / 1e6
    net.trafo["max_loading_percent"] = float(inst["maxload"]["T"])
    ml = [inst["maxload"]["A"], inst["maxload"]["B"]] + ([inst["maxload"]["C"]] if inst["mesh"] else [])
    net.line["max_loading_percent"] = [float(x) for x in ml]
    net.load.loc[0, ["p_mw", "q_mvar"]] = [float(inst["basep"]), float(inst["baseq"])]
    for ln in inst["lines"]:
        pp.create_dcline(net, ln["from"], ln["to"], p_mw=float(ln["pset"]), loss_percent=float(ln["loss_percent"]),
                         loss_mw=ln["loss_kw"] / 1000.0, vm_from_pu=ln["vmf"] / 1e6, vm_to_pu=ln["vmt"] / 1e6,
                         max_p_mw=float(ln["pmax"]), min_q_from_mvar=float(ln["qmin"]), max_q_from_mvar=float(ln["qmax"]),
                         min_q_to_mvar=float(ln["qmin"]), max_q_to_mvar=float(ln["qmax"]))
    for et in ET_TAB:
        e = inst["el"][et]
        r = ROW[et]
        tab = net[et]
        for col, k in (("min_p_mw", "pmin"), ("max_p_mw", "pmax"), ("min_q_mvar", "qmin"), ("max_q_mvar", "qmax")):
            if col not in tab.columns:
                tab[col] = float("nan")
            tab.loc[r, col] = float(e[k])
        tab.loc[r, "controllable"] = bool(e["ctrl"])
        tab.loc[r, "in_service"] = bool(e["ins"])
        if et in ("ext_grid", "gen"):
            tab.loc[r, "vm_pu"] = e["vset"] / 1e6
        if et != "ext_grid":
            tab.loc[r, "p_mw"] = float(e["pset"])
        if et in ("sgen", "load", "storage"):
            tab.loc[r, "q_mvar"] = float(e["qset"])
    for et in ET_TAB:
        net[et]["controllable"] = net[et]["controllable"].astype(bool)
        net[et]["in_service"] = net[et]["in_service"].astype(bool)
    for et in inst["order"]:
        c = inst["cost"][et]
        row = inst["dcl_cost_row"] if et == "dcline" else ROW[et]
        if c["kind"] == "poly":
            pp.create_poly_cost(net, row, et, cp1_eur_per_mw=float(c["c1"]), cp0_eur=float(c["c0"]),
                                cp2_eur_per_mw2=float(c["c2"]), cq1_eur_per_mvar=float(c["q1"]), cq0_eur=float(c["q0"]),
                                cq2_eur_per_mvar2=float(c["q2"]))
        elif c["kind"] == "pwl":
            pp.create_pwl_cost(net, row, et, [[float(x) for x in p] for p in c["pts"]])
    return net


def readback(net, inst):
    """What the element tables of the built net say (integers) -- compared with Inst(cfg) by TLC (Harness_Instantiated)."""
    ri = lambda x: int(round(float(x)))
    el, cost = {}, {}
    for et in ET_TAB:
        t = net[et].loc[ROW[et]]
        el[et] = [ri(t.min_p_mw), ri(t.max_p_mw), ri(t.min_q_mvar), ri(t.max_q_mvar), int(bool(t.controllable)),
                  int(bool(t.in_service))]
    for et in ET:
        cost[et] = {"kind": "none", "co": [0] * 6, "pts": []}
    dcl_row = 0
    for r in net.poly_cost.itertuples():
        cost[r.et] = {"kind": "poly", "co": [ri(r.cp2_eur_per_mw2), ri(r.cp1_eur_per_mw), ri(r.cp0_eur), ri(r.cq2_eur_per_mvar2),
                                              ri(r.cq1_eur_per_mvar), ri(r.cq0_eur)], "pts": []}
        if r.et == "dcline":
            dcl_row = int(r.element)
    for r in net.pwl_cost.itertuples():
        cost[r.et] = {"kind": "pwl", "co": [0] * 6, "pts": [[ri(x) for x in p] for p in r.points]}
        if r.et == "dcline":
            dcl_row = int(r.element)
    lines = [[int(d.from_bus), int(d.to_bus), ri(d.p_mw), ri(d.max_p_mw), ri(d.min_q_from_mvar), ri(d.max_q_to_mvar),
              ri(d.loss_percent), ri(d.loss_mw * 1000), ri(d.vm_from_pu * 1e6), ri(d.vm_to_pu * 1e6)]
             for d in net.dcline.itertuples()]
    ml = [ri(net.trafo.max_loading_percent.iloc[0])] + [ri(x) for x in net.line.max_loading_percent.values]
    ml += [0] * (4 - len(ml))
    return {"el": el, "cost": cost, "vband": [ri(net.bus.min_vm_pu.iloc[0] * 1e6), ri(net.bus.max_vm_pu.iloc[0] * 1e6)],
            "maxload": ml, "lines": lines, "order_poly": [str(x) for x in net.poly_cost.et.values],
            "order_pwl": [str(x) for x in net.pwl_cost.et.values], "dcl_cost_row": dcl_row,
            "shift": ri(net.trafo.shift_degree.iloc[0]), "sn": ri(net.sn_mva)}


# ---- observation --------------------------------------------------------------------------------------------------
EMPTY_PF = {"conv": False, "vm": [0] * 4, "va": [0] * 4, "egp": 0, "egq": 0, "genq": 0, "loading": [0] * 4, "dc": []}


def _loading(net):
    ld = [net.res_trafo.loading_percent.iloc[0]] + list(net.res_line.loading_percent.values)
    return [fx(x) for x in ld] + [0] * (4 - len(ld))


def project(net):
    p, q = {}, {}
    for et in ET_TAB:
        res = net["res_" + et]
        p[et], q[et] = fx(res.p_mw.loc[ROW[et]]), fx(res.q_mvar.loc[ROW[et]])
    dc = [{"pf": fx(r.p_from_mw), "pt": fx(r.p_to_mw), "qf": fx(r.q_from_mvar), "qt": fx(r.q_to_mvar)}
          for r in net.res_dcline.itertuples()]
    return {"vm": [fx(x) for x in net.res_bus.vm_pu.values], "va": [fx(x) for x in net.res_bus.va_degree.values],
            "p": p, "q": q, "basep": fx(net.res_load.p_mw.loc[0]), "baseq": fx(net.res_load.q_mvar.loc[0]),
            "genvm": fx(net.res_gen.vm_pu.iloc[0]), "dc": dc,
            "loading": _loading(net), "cost": fx(net.res_cost)}


def replay_pf(net, ac):
    """Plain power flow on a copy with the OPF dispatch written into the set point columns."""
    import pandapower as pp
    m = copy.deepcopy(net)
    for et in ("sgen", "load", "storage"):
        m[et]["p_mw"] = net["res_" + et].p_mw.values
        if ac:
            m[et]["q_mvar"] = net["res_" + et].q_mvar.values
    m.gen["p_mw"] = net.res_gen.p_mw.values
    eb = m.ext_grid.bus.values
    m.ext_grid["va_degree"] = net.res_bus.va_degree.values[eb]
    if ac:
        m.gen["vm_pu"] = net.res_gen.vm_pu.values
        m.ext_grid["vm_pu"] = net.res_bus.vm_pu.values[eb]
    if len(m.dcline):
        # the set point of a dcline is the power of its sending end, signed with the direction (doc/elements/dcline.rst)
        fwd = net.dcline.p_mw.values > 0
        m.dcline["p_mw"] = [pf if f else -pt for f, pf, pt in zip(fwd, net.res_dcline.p_from_mw.values, net.res_dcline.p_to_mw.values)]
        if ac:
            m.dcline["vm_from_pu"] = net.res_dcline.vm_from_pu.values
            m.dcline["vm_to_pu"] = net.res_dcline.vm_to_pu.values
    try:
        if ac:
            pp.runpp(m, calculate_voltage_angles=True, tolerance_mva=1e-9, init="flat")
        else:
            pp.rundcpp(m)
        if not m.converged:
            return dict(EMPTY_PF)
    except Exception:  # noqa
        return dict(EMPTY_PF)
    return {"conv": True, "vm": [fx(x) for x in m.res_bus.vm_pu.values], "va": [fx(x) for x in m.res_bus.va_degree.values],
            "egp": fx(m.res_ext_grid.p_mw.iloc[0]), "egq": fx(m.res_ext_grid.q_mvar.iloc[0]),
            "genq": fx(m.res_gen.q_mvar.iloc[0]), "loading": _loading(m),
            "dc": [{"pf": fx(r.p_from_mw), "pt": fx(r.p_to_mw), "qf": fx(r.q_from_mvar), "qt": fx(r.q_to_mvar)}
                   for r in m.res_dcline.itertuples()]}


def observe(job):
    """job = {"cfg", "req", "inst"} -> case for OpfObs.tla.  Mechanical: build, run, project."""
    import pandapower as pp
    inst = job["inst"]
    net = build_net(inst)
    rb = readback(net, inst)
    ac = bool(inst["ac"])
    o = {"conv": False, "err": "", "vm": [0] * 4, "va": [0] * 4, "p": {e: 0 for e in ET_TAB}, "q": {e: 0 for e in ET_TAB}, "basep": 0,
         "baseq": 0, "genvm": 0, "dc": [], "loading": [0] * 4, "cost": 0, "pf": dict(EMPTY_PF)}
    kw = dict(TIGHT) if inst["opts"] == "tight" else {}
    if ac:
        kw["init"] = inst["init"]
    try:
        (pp.runopp if ac else pp.rundcopp)(net, **kw)
        conv = bool(net.OPF_converged)
    except Exception as e:  # noqa
        conv = False
        o["err"] = type(e).__name__
    if conv:
        try:
            o.update(project(net))
            o["conv"] = True
            o["pf"] = replay_pf(net, ac)
        except OverflowError:
            o["conv"] = False
            o["err"] = "fixed_point_range"
    return {"cfg": job["cfg"], "req": job["req"], "o": o, "rb": rb}


# ---- TLC side -----------------------------------------------------------------------------------------------------
def enumerate_model(cfgname, subst, workers=PROCS):
    """Run Opf.tla with the given cfg (constants substituted per tier); return the derived states and TLC's counters."""
    wd = tempfile.mkdtemp(prefix="ppverif_opf_")
    try:
        txt = open(os.path.join(SPEC_DIR, cfgname)).read()
        for k, val in subst.items():
            txt, n = re.subn(r"^(\s*%s\s*=).*$" % k, lambda m: m.group(1) + " " + val, txt, flags=re.M)
            if n != 1:
                raise MachineryError("constant %s not found in %s" % (k, cfgname))
        open(os.path.join(wd, cfgname), "w").write(txt)
        dump = os.path.join(wd, "states")
        r = run_tlc("Opf", cfgname, workdir=wd, workers=workers, extra=("-dump", dump), timeout=3000)
        text = open(dump + ".dump").read()
    finally:
        shutil.rmtree(wd, ignore_errors=True)
    states = []
    for part in re.split(r"^State \d+:\s*$", text, flags=re.M)[1:]:
        if "done |-> TRUE" in part:          # the derived states; the pending half of the dump carries no information
            st = parse_state(part)
            states.append({"cfg": jsonable(st["cfg"]), "req": jsonable(st["req"])})
    if 2 * len(states) != r.distinct:
        raise MachineryError("Opf.tla: %d derived states in the dump, TLC reports %d distinct" % (len(states), r.distinct))
    return states, r


def instantiate(cfgs):
    """Inst(cfg) for every selected configuration, evaluated by TLC (OpfInst.tla)."""
    wd = tempfile.mkdtemp(prefix="ppverif_opfinst_")
    try:
        src, dst = os.path.join(wd, "cfgs.json"), os.path.join(wd, "inst.json")
        json.dump(cfgs, open(src, "w"))
        run_tlc("OpfInst", "OpfInst.cfg", workers=1, env={"OBS_FILE": src, "INST_FILE": dst}, timeout=1200)
        if not os.path.exists(dst):
            raise MachineryError("OpfInst.tla wrote no instantiation file")
        out = json.load(open(dst))
    finally:
        shutil.rmtree(wd, ignore_errors=True)
    if len(out) != len(cfgs):
        raise MachineryError("OpfInst.tla: %d instantiations for %d configurations" % (len(out), len(cfgs)))
    return out


def _stratified(pool, n, rnd):
    """n configurations of pool: two thirds by going round the strata of Opf.tla (req.stratum) taking one configuration
    per stratum and round -- so every stratum is sampled, however small --, the rest uniformly."""
    if len(pool) <= n:
        return list(pool)
    strata = {}
    for s in pool:
        strata.setdefault(json.dumps(s["req"]["stratum"], sort_keys=True), []).append(s)
    for k in strata:
        rnd.shuffle(strata[k])
    out, quota = [], (2 * n) // 3
    keys = sorted(strata)
    while len(out) < quota and any(strata[k] for k in keys):
        for k in keys:
            if strata[k] and len(out) < quota:
                out.append(strata[k].pop())
    rest = [s for k in keys for s in strata[k]]
    return out + rnd.sample(rest, min(n - len(out), len(rest)))


def select(states, tier, seed, n_ac, n_dc):
    """All configurations in the thorough tier; a seeded sample (by AC / DC, stratified by req.stratum) in the quick tier."""
    rnd = random.Random(seed)
    ac = [s for s in states if s["cfg"]["ac"]]
    dc = [s for s in states if not s["cfg"]["ac"]]
    key = lambda s: json.dumps(s["cfg"], sort_keys=True)
    ac.sort(key=key)
    dc.sort(key=key)
    return _stratified(ac, n_ac, rnd) + _stratified(dc, n_dc, rnd)


def sample_sizes(tier, quick):
    """(n_ac, n_dc): quick = seeded sample of that size, thorough = everything (VERIF_OPF_SAMPLE=ac,dc overrides: development)"""
    ov = os.environ.get("VERIF_OPF_SAMPLE")
    if ov:
        return tuple(int(x) for x in ov.split(","))
    return quick if tier == "quick" else (4000, 10 ** 6)      # thorough: every DC case, a seeded sample of 4000 AC cases


def at_limit(c, tol=1000):
    """coverage only: is some declared inequality limit active in this converged case?"""
    inst, o = c["inst"], c["o"]
    for et in ET_TAB:
        e = inst["el"][et]
        if e["present"] and (et == "ext_grid" or e["ctrl"]):
            if min(abs(o["p"][et] - e["pmin"] * 10 ** 6), abs(o["p"][et] - e["pmax"] * 10 ** 6)) <= tol:
                return True
    for ln, d in zip(inst["lines"], o["dc"]):
        if min(abs(d["pf"]), abs(abs(d["pf"]) - ln["pmax"] * 10 ** 6)) <= tol:
            return True
    if inst["ac"] and any(min(abs(x - inst["vmin"]), abs(x - inst["vmax"])) <= tol for x in o["vm"]):
        return True
    ml = [inst["maxload"][b] for b in ("T", "A", "B", "C")]
    return any(abs(x - m * 10 ** 6) <= 100 * tol for x, m in zip(o["loading"], ml) if x)


def run_cases(v, states, tier, seed, replay):
    """Instantiate, execute and observe the selected configurations; returns cases (with inst attached)."""
    insts = instantiate([s["cfg"] for s in states])
    jobs = [{"cfg": s["cfg"], "req": s["req"], "inst": i} for s, i in zip(states, insts)]
    if len(jobs) >= 64:
        get_pool(PROCS)            # an OPF case costs ~0.3 s: worth a full pool long before pool_map's own threshold
    cases = pool_map(observe, jobs, procs=PROCS, chunksize=4)
    for c, j in zip(cases, jobs):
        c["inst"] = j["inst"]
    return cases


def focus_counts(cases):
    out = {}
    for c in cases:
        for f in c["req"].get("focus", []):
            out[f] = out.get(f, 0) + 1
    return dict(sorted(out.items()))


def obs_cases(cases):
    return [{"cfg": c["cfg"], "o": c["o"], "rb": c["rb"]} for c in cases]


def feature(c):
    cfg = c["cfg"]
    dcl = "none" if cfg["dcl"] == "none" else "lossy" if any(ch in "FR" for ch in cfg["dcl"]) else "lossless"
    return "%s|dcline=%s" % ("ac" if cfg["ac"] else "dc", dcl)


QUICK = {}
# (sized so that the sequential enumeration of the initial states stays near ten minutes: 26k configurations)
THOROUGH = {"QlimSet": '{"tight"}', "VarSet": "{1, 3}", "Profiles": '{"lin", "quad", "pwl"}', "GridModelMax": "1000",
            "DclSet": '{"none", "f", "F", "r", "R", "fr", "rf", "ff", "frf"}', "ShiftSet": "{0, 30, 150, 330}",
            "GhostSet": '{"none", "sgen", "load", "storage"}',
            "CtrlSets": '{{}, {"gen"}, {"sgen"}, {"load"}, {"storage"}, {"gen", "storage"}, {"sgen", "load"}, '
                        '{"gen", "sgen", "load", "storage"}}'}


def run(tier, seed, replay=None):
    v = Verdict("C16", tier, seed, "exploration")
    use_repo()
    t0 = time.time()
    if replay:
        states = [{"cfg": replay["case"]["cfg"], "req": replay["case"]["req"]}]
        mstates = mtrans = 0
        n_model = n_strata = 1
    else:
        states, r = enumerate_model("Opf.cfg", QUICK if tier == "quick" else THOROUGH)
        for name, st, raw in r.violations:
            v.divergence("model-level: %s" % name, None)
        mstates, mtrans, n_model = r.distinct, r.generated, len(states)
        n_strata = len({json.dumps(s["req"]["stratum"], sort_keys=True) for s in states})
        states = select(states, tier, seed, *sample_sizes(tier, (300, 150)))
    t1 = time.time()
    cases = run_cases(v, states, tier, seed, replay)
    t2 = time.time()
    fails, st = tlc_obs("OpfObs", "OpfObsC16.cfg", obs_cases(cases), chunk=4000, workers=PROCS)
    for name, i in fails:
        c = cases[i]
        if name.startswith("Harness_"):
            raise MachineryError("harness instantiation differs from Inst(cfg): cfg=%s rb=%s" % (c["cfg"], c["rb"]))
        if name.startswith("Conf_"):
            v.divergence("%s: the transcription of the OPF dcline constraint in OpfDef.tla does not describe this tree" % name, c["cfg"])
            continue
        v.violation("C16|%s|%s" % (name, feature(c)), "%s: cfg=%s" % (name, json.dumps(c["cfg"], sort_keys=True)),
                    {"cfg": c["cfg"], "req": c["req"], "o": c["o"]})
    for c in cases:
        if c["o"]["err"] not in ("", "OPFNotConverged"):
            v.divergence("OPF raised %s" % c["o"]["err"], c["cfg"])
    conv = [c for c in cases if c["o"]["conv"]]
    nontriv = len({json.dumps(c["cfg"], sort_keys=True) for c in conv if at_limit(c)})
    v.coverage = {
        "states": mstates + st["states"], "transitions": mtrans + st["generated"],
        "traces_validated_against_impl": len(cases), "evaluations": len(cases), "distinct_nontrivial": nontriv,
        "exhaustive": bool(not replay and len(cases) == n_model),
        "model_configurations": n_model, "converged": len(conv), "not_converged": len(cases) - len(conv),
        "converged_ac": sum(1 for c in conv if c["cfg"]["ac"]), "converged_dc": sum(1 for c in conv if not c["cfg"]["ac"]),
        "with_noncontrollable_element": sum(1 for c in conv if not all(c["cfg"]["ctrl"].values())),
        "with_dcline": sum(1 for c in conv if c["cfg"]["dcl"] != "none"), "tight_options": sum(1 for c in conv if c["cfg"]["opts"] == "tight"),
        "converged_by_focus": focus_counts(conv), "strata_in_model": n_strata,
        "strata_sampled": len({json.dumps(c["req"]["stratum"], sort_keys=True) for c in cases}),
        "trafo_rating_active_lv_to_hv": sum(1 for c in conv if abs(c["o"]["loading"][0] - c["inst"]["maxload"]["T"] * 10 ** 6) <= 10 ** 5
                                            and c["o"]["p"]["ext_grid"] < 0),
        "wall_model_s": round(t1 - t0, 1), "wall_impl_s": round(t2 - t1, 1),
        "rule": "configurations of Opf.tla (slice feas: controllable sets x ext_grid controllable x AC/DC x solver options x mesh x "
                "voltage band x p/q limit level x branch rating level (all / only the transformer tight) x cost profile x variant x "
                "dclines none / one / several, forward / reverse, lossless / lossy x transformer phase shift x net.sn_mva x ghost "
                "(out-of-service storage with a cost row); at most MaxDev of the last four leave the plain template at a time); "
                "quick: seeded sample covering every stratum (req.stratum), thorough: all DC configurations and a seeded sample of 4000 AC ones; each run through runopp/rundcopp and replayed as runpp/rundcpp; "
                "non-trivial = converged and at least one declared limit (p of a controllable element, bus voltage, branch "
                "loading) active within 1e-3",
        "samples": [{"cfg": c["cfg"], "o": {k: c["o"][k] for k in ("conv", "vm", "p", "loading", "cost")}}
                    for c in (cases[0], cases[len(cases) // 2], cases[-1])],
    }
    v.assumptions = [
        "one template (4 buses, trafo + 2-3 lines, one element of each kind); integer MW limits and set points",
        "dcline reactive limits symmetric and equal at both ends (sign convention of min/max_q_from/to_mvar not documented)",
        "scaling = 1; all elements in service except the ghost (sgen / load / storage), no out-of-service dcline (the OPF "
        "raises with one); gen without own min_vm_pu / max_vm_pu columns",
        "the direction of a dcline is the sign of its set point p_mw and is kept by the OPF (auxiliary.py:1588-1597)",
        "non-converged OPF runs satisfy the property vacuously and are counted (coverage.not_converged)",
        "tolerances: 2e-4 (default options) / 5e-6 (tightened options) on limits, see OpfObs.tla",
    ]
    return v.finish()
