"""C19 — state estimation reproduces the true state from exact measurements (DESIGN §5, Estimation*.tla).

TLC enumerates the measurement-set structures (Estimation.tla: observable cores x redundancy / duplicate / order
actions) on the templates T4 and T3; every dumped state is instantiated: the rows of the spec's table are created one
by one with noise-free values of a converged power flow, estimate() / remove_bad_data() / chi2_analysis() are called,
and TLC (EstimationObs.tla) decides every clause on the fixed-point logs.  Python decides nothing."""
import copy
import json
import os
import random
import shutil
import tempfile

from ..common import Verdict, fx, pool_map, use_repo
from ..obs import tlc_obs
from ..tla import SPEC_DIR, jsonable, run_tlc

# level table (harness-owned, DESIGN 2.4): standard deviations of the created rows (duplicates: doubled)
STD = {"v": 0.001, "p": 0.001, "q": 0.001, "i": 0.0001}
FLOW_COLS = {"line": {"p_f": "p_from_mw", "q_f": "q_from_mvar", "p_t": "p_to_mw", "q_t": "q_to_mvar",
                      "i_f": "i_from_ka", "i_t": "i_to_ka"},
             "trafo": {"p_f": "p_hv_mw", "q_f": "q_hv_mvar", "p_t": "p_lv_mw", "q_t": "q_lv_mvar",
                       "i_f": "i_hv_ka", "i_t": "i_lv_ka"}}
ALTS = (("irwls", {}), ("lp", {}), ("wls_with_zero_constraint", {"zero_injection": "no_inj_bus"}))
LP_ON = ("none", "all_but_i", "all")
TLC_FIELDS = ("s", "wind", "pf", "est", "ref_ord", "ref_red", "bad", "z", "rows", "alts")
RATED = {"hv": 1000, "lv": 1000}
N_LEVELS = 4
_BASE = {}


def level_params(tpl, lvl, seed):
    """lvl 0 = nominal operating point; lvl >= 1 = seeded jitter of loads / slack voltage (thorough tier);
    the last level of T4 additionally uses a phase-shifting (Dy5) transformer: estimate() then initialises the angles
    with a DC power flow (ppc_conversion.py:77)."""
    if lvl == 0:
        return {"scale": [1.0, 1.0, 1.0, 1.0], "vm": 1.02, "shift": 0.0}
    rnd = random.Random("%s|%s|%s" % (tpl, lvl, seed))
    return {"scale": [round(rnd.uniform(0.4, 1.6), 3) for _ in range(4)], "vm": round(rnd.uniform(0.99, 1.04), 3),
            "shift": 150.0 if (tpl == "T4" and lvl == N_LEVELS) else 0.0}


def base_net(tpl, lvl, seed, wind=None):
    """Template of EstimationDef.tla with a converged power flow (the true state).  wind = the spec's Wind(s.wv): rated
    voltage of the transformer's hv / lv winding in per mille of the nominal voltage of the connected bus."""
    wind = wind or RATED
    key = (tpl, lvl, seed, int(wind["hv"]), int(wind["lv"]))
    tv = {"vn_hv": 20.0 * int(wind["hv"]) / 1000.0, "vn_lv": 0.4 * int(wind["lv"]) / 1000.0}
    if key in _BASE:
        return _BASE[key]
    import pandapower as pp
    from ..templates import line, trafo
    par = level_params(tpl, lvl, seed)
    sc = par["scale"]
    net = pp.create_empty_network()
    if tpl == "T4":
        for i, vn in enumerate([20.0, 20.0, 20.0, 0.4]):
            pp.create_bus(net, vn, index=i)
        line(pp, net, 0, 1, km=2.0)
        line(pp, net, 1, 2, km=3.0)
        line(pp, net, 0, 2, km=2.5)
        trafo(pp, net, 2, 3, shift_degree=par["shift"], **tv)
        pp.create_load(net, 1, 1.2 * sc[0], 0.3 * sc[1])
        pp.create_sgen(net, 1, 0.4 * sc[2], 0.05)
        pp.create_load(net, 3, 0.3 * sc[3], 0.08 * sc[3])      # bus 2 carries no injection (zero-injection bus)
    else:
        for i, vn in enumerate([20.0, 20.0, 0.4]):
            pp.create_bus(net, vn, index=i)
        line(pp, net, 0, 1, km=2.0)
        line(pp, net, 0, 1, km=3.5)
        trafo(pp, net, 1, 2, **tv)
        pp.create_load(net, 1, 0.8 * sc[0], 0.2 * sc[1])
        pp.create_load(net, 2, 0.3 * sc[2], 0.08 * sc[3])
    pp.create_ext_grid(net, 0, vm_pu=par["vm"])
    try:
        pp.runpp(net, tolerance_mva=1e-10, calculate_voltage_angles=True)
        ok = bool(net.converged)
    except Exception:  # noqa
        ok = False
    _BASE[key] = (net, ok)
    return _BASE[key]


def project(net, suffix):
    """bus voltages and branch flows of res_*<suffix> as fixed-point lists"""
    bus = net["res_bus" + suffix]
    out = {"vm": [fx(x) for x in bus.vm_pu.values], "va": [fx(x) for x in bus.va_degree.values]}
    for et in ("line", "trafo"):
        tab = net["res_%s%s" % (et, suffix)]
        out[et] = {k: [fx(x) for x in tab[c].values] for k, c in FLOW_COLS[et].items()}
    return out


EMPTY = {"vm": [], "va": [], "line": {k: [] for k in FLOW_COLS["line"]}, "trafo": {k: [] for k in FLOW_COLS["trafo"]}}


def row_value(net, r):
    if r["et"] == "bus":
        col = {"v": "vm_pu", "p": "p_mw", "q": "q_mvar"}[r["mt"]]
        return float(net.res_bus.at[r["el"], col])
    end = "f" if r["side"] in ("from", "hv") else "t"
    return float(net["res_" + r["et"]].at[r["el"], FLOW_COLS[r["et"]]["%s_%s" % (r["mt"], end)]])


def with_table(base, rows):
    """create the rows of the spec's table in the spec's order"""
    import pandapower as pp
    net = copy.deepcopy(base)
    for r in rows:
        pp.create_measurement(net, r["mt"], r["et"], row_value(base, r), STD[r["mt"]] * (2.0 if r["dup"] else 1.0),
                              r["el"], None if r["side"] == "none" else r["side"])
    return net


def read_wind(net):
    """rated winding voltages of the (only) transformer in per mille of the vn_kv of the buses it is connected to"""
    t = net.trafo.iloc[0]
    return {"hv": int(round(1000.0 * float(t.vn_hv_kv) / float(net.bus.at[int(t.hv_bus), "vn_kv"]))),
            "lv": int(round(1000.0 * float(t.vn_lv_kv) / float(net.bus.at[int(t.lv_bus), "vn_kv"])))}


def read_rows(net):
    out = []
    for _, m in net.measurement.iterrows():
        side = m["side"]
        out.append({"mt": str(m["measurement_type"]), "et": str(m["element_type"]), "el": int(m["element"]),
                    "side": "none" if (side is None or side != side) else str(side),
                    "dup": bool(round(float(m["std_dev"]) / STD[str(m["measurement_type"])]) == 2)})
    return out


class quiet_stderr:
    """the LP estimator's solver (SCIP) writes its numerical complaints to the C-level stderr"""

    def __enter__(self):
        self.saved = os.dup(2)
        self.null = os.open(os.devnull, os.O_WRONLY)
        os.dup2(self.null, 2)

    def __exit__(self, *a):
        os.dup2(self.saved, 2)
        os.close(self.null)
        os.close(self.saved)


def run_estimate(mnet, algorithm="wls", **kw):
    """one call of the public estimate() (inputs are not changed by it: C08); -> projected outcome"""
    from pandapower.estimation import estimate
    net = mnet
    out = {"ok": False, "exc": "none", "acc": True}
    try:
        res = estimate(net, algorithm=algorithm, init="flat", tolerance=1e-8, **kw)
        out["ok"] = bool(res["success"]) if isinstance(res, dict) else bool(res)
    except Exception as e:  # noqa  (UserWarning of check_observability, LinAlgError, ...)
        out["exc"] = type(e).__name__
        out["acc"] = False
    try:
        out.update(project(net, "_est") if out["ok"] else EMPTY)
    except Exception as e:  # noqa
        out.update(EMPTY)
        out["ok"] = False
        out["exc"] = "project:" + type(e).__name__
    return out


def z_layout(mnet):
    """pp_meas_indices and merged weights (4 sigma_row^2 / r_cov^2) of the estimator's measurement vector, built by the
    same conversion estimate() calls (state_estimation.py:244); conformance only, never a verdict"""
    try:
        import numpy as np
        from pandapower.estimation.ppc_conversion import pp2eppci
        _, _, eppci = pp2eppci(mnet, v_start=None, delta_start=None, calculate_voltage_angles=True,
                               zero_injection="aux_bus", algorithm="wls")
        idx = [int(x) for x in eppci.pp_meas_indices]
        rcov = np.asarray(eppci.r_cov, dtype=float)
        w4 = []
        for k, ix in enumerate(idx):
            m = mnet.measurement.loc[ix]
            mt = str(m["measurement_type"])
            sig = STD[mt]
            if mt in ("p", "q"):
                sig /= float(mnet.sn_mva)
            elif mt == "i":
                bus = int(mnet[m["element_type"]].at[int(m["element"]), "%s_bus" % m["side"]])
                sig /= float(mnet.sn_mva) / float(mnet.bus.at[bus, "vn_kv"]) / np.sqrt(3)
            w4.append(int(round(4.0 * (sig / rcov[k]) ** 2)))
        return {"avail": True, "idx": idx, "w4": w4}
    except Exception:  # noqa
        return {"avail": False, "idx": [], "w4": []}


def bad_data(mnet):
    from pandapower.estimation import chi2_analysis, remove_bad_data
    out = {"ran": True, "rn": 2, "removed": 0, "chi2": 3}
    net = mnet
    table = net.measurement.copy(deep=True)
    n0 = len(net.measurement)
    try:
        r = remove_bad_data(net, init="flat")
        out["rn"] = 1 if (r is not None and bool(r)) else 0
    except Exception as e:  # noqa
        out["rn_exc"] = type(e).__name__
    out["removed"] = n0 - len(net.measurement)
    net.measurement = table          # remove_bad_data edits the table in place: restore the spec's table
    try:
        c = chi2_analysis(net, init="flat")
        out["chi2"] = 2 if c is None else (1 if bool(c) else 0)
    except Exception as e:  # noqa
        out["chi2_exc"] = type(e).__name__
    return out


def est_only(job):
    base, ok = base_net(job["tpl"], job["lvl"], job["seed"], job.get("wind"))
    r = run_estimate(with_table(base, job["rows"]))
    r["has"] = True
    return r


def observe(job):
    """job = {tpl, lvl, seed, s, rows, observable, cls, alts} -> case without references"""
    base, ok = base_net(job["tpl"], job["lvl"], job["seed"], job.get("wind"))
    case = {"tpl": job["tpl"], "lvl": job["lvl"], "seed": job["seed"], "s": job["s"], "table": job["rows"], "cls": job["cls"],
            "wind": read_wind(base), "pf": dict(project(base, "") if ok else EMPTY, ok=ok)}
    mnet = with_table(base, job["rows"])
    case["rows"] = read_rows(mnet)
    case["est"] = run_estimate(mnet)
    case["z"] = z_layout(mnet)
    case["bad"] = bad_data(mnet) if job["observable"] else {"ran": False, "rn": 2, "removed": 0, "chi2": 3}
    case["alts"] = []
    if job["alts"] and job["observable"] and job["s"]["ord"] == "created" and job["s"]["dup"] == "none":
        for alg, kw in ALTS:
            if alg == "lp" and job["s"]["red"] not in LP_ON:      # the LP estimator is 5-10x slower than the others
                continue
            with quiet_stderr():
                r = run_estimate(mnet, algorithm=alg, **kw)
            r["alg"] = alg
            case["alts"].append(r)
    return case


NOREF = dict(EMPTY, has=False, ok=False, exc="none", acc=False)


def skey(tpl, lvl, s):
    return json.dumps([tpl, lvl, s], sort_keys=True)


def model_cfg(tier, tpl):
    cfg = open(os.path.join(SPEC_DIR, "Estimation.cfg")).read()
    cfg = cfg.replace('Tpl = "T4"', 'Tpl = "%s"' % tpl)
    if tier == "thorough":
        cfg = cfg.replace("MaxV = 1", "MaxV = 2").replace("Surplus = 0", "Surplus = 2")
        cfg = cfg.replace('Winds = {"rated", "both_off"}', 'Winds = {"rated", "hv_off", "lv_off", "both_off"}')
        cfg = cfg.replace('Reds = {"none", "v_all", "p_inj", "pq_to", "p_from_q_to", "i_from", "all_but_i", "all"}',
                          'Reds = {"none", "v_all", "p_inj", "q_inj", "pq_from", "pq_to", "p_from_q_to", "i_from", "i_to", "all_but_i", "all"}')
    if cfg.count("Surplus = 2") + cfg.count("Surplus = 0") != 1 or ("hv_off" in cfg) != (tier == "thorough") or ("q_inj" in cfg) != (tier == "thorough"):
        from ..tla import MachineryError
        raise MachineryError("Estimation.cfg no longer matches the substitutions of model_cfg()")
    return cfg


def enumerate_states(tier, tpl):
    wd = tempfile.mkdtemp(prefix="ppverif_c19_")
    try:
        with open(os.path.join(wd, "Estimation.cfg"), "w") as f:
            f.write(model_cfg(tier, tpl))
        r = run_tlc("Estimation", "Estimation.cfg", workdir=wd, dump=True, timeout=3000)
    finally:
        shutil.rmtree(wd, ignore_errors=True)
    return r


def run(tier, seed, replay=None):
    v = Verdict("C19", tier, seed, "exploration")
    use_repo()
    states = trans = 0
    cases = []
    if replay:
        c = replay["case"]
        c["s"].setdefault("wv", "rated")
        job = {"tpl": c["tpl"], "lvl": c["lvl"], "seed": c["seed"], "s": c["s"], "rows": c["table"], "wind": c.get("wind", RATED),
               "observable": bool(c["bad"]["ran"]), "cls": c["cls"], "alts": bool(c["alts"])}
        case = observe(job)
        for k in ("ref_ord", "ref_red"):
            case[k + "_table"] = c.get(k + "_table", [])
            case[k] = est_only(dict(job, rows=case[k + "_table"])) if c[k]["has"] else dict(NOREF)
        cases = [case]
        states = trans = 1
    else:
        jobs = []
        for tpl in ("T4", "T3"):
            r = enumerate_states(tier, tpl)
            for name, st, raw in r.violations:
                v.divergence("model-level (%s): %s violated" % (tpl, name), None)
            states += r.distinct
            trans += r.transitions
            for st in r.dump:
                s = jsonable(st["s"])
                lvl = 0
                if tier == "thorough":     # one seeded operating point per core (all variants of a core share it)
                    lvl = 1 + random.Random("%s|%s" % (seed, json.dumps(s["core"], sort_keys=True))).randrange(N_LEVELS)
                jobs.append({"tpl": tpl, "lvl": lvl, "seed": seed, "s": s, "rows": jsonable(st["out"]["rows"]),
                             "wind": jsonable(st["out"]["wind"]),
                             "observable": bool(st["out"]["observable"]), "alts": tier == "thorough",
                             "cls": {"critical": not st["out"]["nocritical"], "df": int(st["out"]["df"])}})
        cases = pool_map(observe, jobs, procs=int(os.environ.get("VERIF_C19_PROCS", "16")))
        by = {skey(c["tpl"], c["lvl"], c["s"]): c for c in cases}
        for c in cases:       # the pairs of runs defined by the model's actions
            s = c["s"]
            o = by.get(skey(c["tpl"], c["lvl"], dict(s, ord="created"))) if s["ord"] != "created" else None
            d = by.get(skey(c["tpl"], c["lvl"], dict(s, red="none", dup="none"))) if (s["red"] != "none" or s["dup"] != "none") else None
            for k, ref in (("ref_ord", o), ("ref_red", d)):
                c[k] = dict(ref["est"], has=True) if ref is not None else dict(NOREF)
                c[k + "_table"] = ref["table"] if ref is not None else []
    if os.environ.get("VERIF_C19_CASES"):      # development aid: keep the observations of this run
        with open(os.environ["VERIF_C19_CASES"], "w") as fh:
            json.dump(cases, fh)
    fails, conf = [], []
    ost = {"states": 0, "generated": 0}
    for tpl in ("T4", "T3"):
        part = [k for k, c in enumerate(cases) if c["tpl"] == tpl]
        if not part:
            continue
        slim = [{k2: cases[k][k2] for k2 in TLC_FIELDS} for k in part]     # the rest is kept for replay files only
        f, st = tlc_obs("EstimationObs", "EstimationObs%s.cfg" % tpl, slim, chunk=4000)
        fails += [(n, part[k]) for n, k in f]
        g, st2 = tlc_obs("EstimationObs", "EstimationConf%s.cfg" % tpl, slim, chunk=4000)
        conf += [(n, part[k]) for n, k in g]
        ost["states"] += st["states"] + st2["states"]
        ost["generated"] += st["generated"] + st2["generated"]
    for name, k in fails:
        c = cases[k]
        s = c["s"]
        feat = "red=%s,dup=%s,ord=%s" % (s["red"], s["dup"], s["ord"])
        if s.get("wv", "rated") != "rated":       # level of the network, part of the class
            feat += ",wind=%s" % s["wv"]
        if name == "C19_AltAlgorithms":
            feat = "alg=%s" % "+".join(a["alg"] for a in c["alts"] if a["acc"] and a["ok"] and a["alg"] != "lp")
        elif name in ("C19_NoBadDataRemoved", "C19_RnTestPasses"):      # classes computed by the spec (out.nocritical, out.df)
            feat = "critical_measurement" if c["cls"]["critical"] else "no_critical_measurement"
        elif name == "C19_NoBadDataChi2":
            feat = "no_degree_of_freedom" if c["cls"]["df"] <= 0 else "df>=1"
        v.violation("C19|%s|%s" % (name, feat), "%s: structure %s level %d: est=%s bad=%s" % (
            name, s, c["lvl"], {"ok": c["est"]["ok"], "exc": c["est"]["exc"]}, c["bad"]), c)
    for name, k in conf:
        c = cases[k]
        v.divergence("%s: structure %s (tpl %s): est.exc=%s z=%s alts=%s" % (
            name, c["s"], c["tpl"], c["est"]["exc"], c["z"], [(a["alg"], a["acc"], a["ok"], a["exc"]) for a in c["alts"]]))
    req = [c for c in cases if c["bad"]["ran"] and c["pf"]["ok"]]
    # vacuity guard: the antecedents of every clause must occur in the run -- unless TLC already reported a violation that is
    # not a known finding (an implementation that e.g. refuses every set makes the run "vacuous" BY violating C19_Success)
    if not replay and not any(x["key"] not in v.known for x in v.violations):
        from ..tla import MachineryError
        n_ok = sum(c["est"]["ok"] for c in req)
        if not (n_ok and any(c["ref_ord"]["has"] and c["ref_ord"]["ok"] for c in req) and any(c["ref_red"]["has"] and c["ref_red"]["ok"] for c in req)
                and any(not c["cls"]["critical"] for c in req) and any(c["cls"]["df"] >= 1 for c in req)
                and any(c["s"]["wv"] != "rated" and c["est"]["ok"] for c in req)):
            raise MachineryError("C19 run is vacuous: %d required cases, %d successful estimates" % (len(req), n_ok))
    alt_counts = {}
    for c in cases:
        for a in c["alts"]:
            t = alt_counts.setdefault(a["alg"], {"accepted_ok": 0, "accepted_failed": 0, "refused": 0})
            t["accepted_ok" if (a["acc"] and a["ok"]) else "accepted_failed" if a["acc"] else "refused"] += 1
    v.coverage = {
        "states": states + ost["states"], "transitions": trans + ost["generated"],
        "traces_validated_against_impl": len(cases), "evaluations": len(cases), "exhaustive": True,
        "distinct_nontrivial": len({skey(c["tpl"], c["lvl"], c["s"]) for c in req if c["est"]["ok"] and
                                    (c["s"]["red"] != "none" or c["s"]["dup"] != "none" or c["s"]["ord"] != "created")}),
        "offnominal_winding_cases": sum(1 for c in req if c["s"].get("wv", "rated") != "rated"),
        "offnominal_winding_estimate_ok": sum(1 for c in req if c["s"].get("wv", "rated") != "rated" and c["est"]["ok"]),
        "rule": "every state of Estimation.tla (observable cores of templates T4/T3 x one user action per dimension up to "
                "Depth) is created row by row and estimated; non-trivial = observable, estimate succeeded, and the table "
                "differs from its core by redundancy, duplicates or order (so an invariance pair exists)",
        "model_states": states, "required_cases": len(req), "estimate_ok": sum(c["est"]["ok"] for c in req),
        "refused_by_count_check": sum(c["est"]["exc"] == "UserWarning" for c in cases),
        "order_pairs": sum(1 for c in req if c["ref_ord"]["has"]), "redundancy_pairs": sum(1 for c in req if c["ref_red"]["has"]),
        "bad_data_runs": len(req), "rn_test_true": sum(c["bad"]["rn"] == 1 for c in req),
        "rn_test_false_or_raised": sum(c["bad"]["rn"] != 1 for c in req),
        "cases_without_critical_measurement": sum(not c["cls"]["critical"] for c in req),
        "cases_with_chi2_df_ge_1": sum(c["cls"]["df"] >= 1 for c in req),
        "cases_with_rows_removed": sum(c["bad"]["removed"] > 0 for c in req),
        "chi2_not_detected": sum(c["bad"]["chi2"] == 0 for c in req), "chi2_detected_or_none": sum(c["bad"]["chi2"] != 0 for c in req),
        "z_layout_available": sum(c["z"]["avail"] for c in cases), "alt_algorithms": alt_counts,
        "levels": sorted({c["lvl"] for c in cases}),
        "samples": [{k: c[k] for k in ("tpl", "lvl", "s", "est", "bad", "z")} for c in cases[3::max(1, len(cases) // 3)]][:3],
    }
    v.assumptions = [
        "templates T4 (ring of 3 lines + transformer) and T3 (2 parallel lines + transformer), one ext_grid, no shunts/switches",
        "off-nominal rated winding voltages of the transformer (spec: Wind, +2.5 % hv / +5 % lv of the bus vn_kv) are instantiated "
        "for the sets that contain a current magnitude at a transformer side (spec action Rewind); 3-winding transformers not in the templates",
        "observability = the spec's conservative sufficient predicate (one v + injection pairs at all buses but one, or "
        "one v + flow pairs on a spanning tree); other observable sets (e.g. mixed, current-only) are not required",
        "remove_bad_data must delete no row and chi2_analysis must not report bad data on every observable set; the return "
        "value True of remove_bad_data is required only for sets without a critical measurement (spec: NoCritical)",
        "other algorithms (thorough): irwls and wls_with_zero_constraint must agree with the power flow when they accept the "
        "set and report success; lp agreement is conformance only (an exact set can have a second exact root, e.g. the "
        "low-voltage root behind a far-end flow pair); refusals and non-convergence are counted (coverage.alt_algorithms)",
        "estimate(init='flat', tolerance=1e-8); remove_bad_data / chi2_analysis with their defaults",
        "trafo/line loading_percent not compared (estimation uses trafo_loading='power')",
    ]
    return v.finish()
