"""C12 — time-series results equal a fresh power flow at every step (DESIGN §4, Recycle*.tla).

Every configuration of Recycle.tla (ConstControl write targets x requested outputs x request form x switch scenario) is run
through the real run_timeseries for three steps; the same writes are applied step by step to a controller-free copy followed
by a fresh runpp.  TLC compares every recorded value with the fresh result, decides "recorded instead of failing", and checks
the controllers' recycle flags and the batch decision against the spec's decision tables.
"""
import copy
import random

from ..common import Verdict, fx, pool_map, use_repo
from ..obs import tlc_obs
from ..tla import jsonable, run_tlc

_BASE = {}
STEPS = 3
# level tables: profile values per write target (documented next to Recycle.tla's Writes)
PROFILE = {
    ("load", "p_mw"): [2.0, 4.0, 6.0], ("load", "q_mvar"): [0.5, 1.5, 2.5], ("load", "scaling"): [0.5, 1.0, 1.5],
    ("sgen", "p_mw"): [0.5, 1.5, 2.5], ("sgen", "scaling"): [0.2, 1.0, 1.8], ("storage", "p_mw"): [-0.5, 0.3, 0.9],
    ("gen", "p_mw"): [1.0, 2.0, 3.0], ("gen", "vm_pu"): [0.99, 1.0, 1.02], ("ext_grid", "vm_pu"): [0.98, 1.0, 1.03],
    ("ext_grid", "va_degree"): [0.0, 5.0, -5.0], ("trafo", "tap_pos"): [-2, 0, 3], ("line", "r_ohm_per_km"): [0.06, 0.3, 0.6],
    ("line", "length_km"): [1.0, 3.0, 5.0], ("line", "c_nf_per_km"): [10.0, 100.0, 300.0],
}


def base_net():
    """110 kV grid - two parallel transformers - 20 kV feeder b1-b2-b3 with a spare line b1-b3; every write target exists."""
    import pandapower as pp
    if "net" in _BASE:
        return _BASE["net"]
    net = pp.create_empty_network()
    b = [pp.create_bus(net, v) for v in (110., 20., 20., 20.)]
    pp.create_ext_grid(net, b[0], vm_pu=1.01)
    for _ in range(2):
        pp.create_transformer_from_parameters(net, b[0], b[1], sn_mva=25., vn_hv_kv=110., vn_lv_kv=20., vkr_percent=0.4,
                                              vk_percent=12., pfe_kw=10., i0_percent=0.05, tap_side="hv", tap_neutral=0, tap_min=-9,
                                              tap_max=9, tap_step_percent=1.5, tap_pos=0, tap_changer_type="Ratio")
    pp.create_line_from_parameters(net, b[1], b[2], 3.0, 0.12, 0.11, 10., 0.6)
    pp.create_line_from_parameters(net, b[2], b[3], 2.0, 0.12, 0.11, 10., 0.6)
    pp.create_line_from_parameters(net, b[1], b[3], 4.0, 0.12, 0.11, 10., 0.6)
    pp.create_load(net, b[2], 4.0, 1.0)
    pp.create_load(net, b[3], 1.0, 0.2)
    pp.create_sgen(net, b[2], 1.0, 0.1)
    pp.create_storage(net, b[3], 0.5, 1.0)
    pp.create_gen(net, b[3], 2.0, vm_pu=1.0)
    pp.create_switch(net, b[1], 1, et="t", closed=True)      # LV side of the second transformer
    pp.create_switch(net, b[3], 2, et="l", closed=True)      # far end of the spare line
    net.trafo["tap_pos"] = net.trafo["tap_pos"].astype(float)
    _BASE["net"] = net
    return net


def prepare(cfg):
    net = copy.deepcopy(base_net())
    net.switch.at[0, "closed"] = cfg["sw"] != "open_trafo_switch"
    net.switch.at[1, "closed"] = cfg["sw"] != "open_line_switch"
    return net


def rows(df, col):
    import numpy as np
    return [fx(x) for x in np.asarray(df[col].values, dtype=float)]


def observe(cfg):
    import numpy as np
    import pandas as pd
    import pandapower as pp
    from pandapower.control import ConstControl
    from pandapower.timeseries import DFData, OutputWriter, run_timeseries
    W = [tuple(w) for w in cfg["W"]]
    O = [tuple(o) for o in cfg["O"]]
    out = {"cfg": cfg, "err": "", "rec": [], "flags": [], "batch": False}
    # ---- reference: the step's writes on a controller-free copy, fresh power flow ----
    ref = prepare(cfg)
    opt = {"neglect_open_switch_branches": True} if cfg.get("nosb") else {}
    rev = cfg["form"] == "logvar_rev"
    refvals = {o: [] for o in O}
    ref_ok = True
    for t in range(STEPS):
        for (e, v) in W:
            ref[e].at[0, v] = PROFILE[(e, v)][t]
        try:
            pp.runpp(ref, tolerance_mva=1e-10, **opt)
            for (tab, var) in O:
                vals = rows(ref[tab], var)
                refvals[(tab, var)].append(vals[::-1] if rev else vals)
        except Exception:  # noqa
            ref_ok = False
            break
    # ---- implementation: run_timeseries ----
    net = prepare(cfg)
    ds = DFData(pd.DataFrame({"%s.%s" % w: PROFILE[w] for w in W}))
    for (e, v) in W:
        ConstControl(net, e, v, element_index=0, data_source=ds, profile_name="%s.%s" % (e, v))
    if cfg["form"] == "ctor":
        ow = OutputWriter(net, time_steps=range(STEPS), output_path=None, log_variables=[tuple(o) for o in O])
    else:
        ow = OutputWriter(net, time_steps=range(STEPS), output_path=None, log_variables=[])
        for (tab, var) in O:
            if rev:
                ow.log_variable(tab, var, index=list(net[tab[4:]].index)[::-1])
            else:
                ow.log_variable(tab, var)
    for k in range(len(W)):
        r = net.controller.recycle.iat[k]
        out["flags"].append({"isdict": isinstance(r, dict), "bus_pq": bool(isinstance(r, dict) and r.get("bus_pq")),
                             "gen": bool(isinstance(r, dict) and r.get("gen")), "trafo": bool(isinstance(r, dict) and r.get("trafo"))})
    seen = {}
    import pandapower.timeseries.run_time_series as rts
    orig = rts.get_recycle_settings

    def spy(n, **kw):                      # public helper, wrapped only to READ the decision it returns
        r = orig(n, **kw)
        seen["recycle"] = copy.deepcopy(r) if isinstance(r, dict) else r
        return r
    rts.get_recycle_settings = spy
    try:
        run_timeseries(net, time_steps=range(STEPS), verbose=False, tolerance_mva=1e-10, **opt)
    except Exception as e:  # noqa
        out["err"] = type(e).__name__
    finally:
        rts.get_recycle_settings = orig
    ro = seen.get("recycle")
    out["batch"] = bool(isinstance(ro, dict) and isinstance(ro.get("batch_read"), list) and len(ro["batch_read"]) > 0)
    out["ref_ok"] = ref_ok
    for (tab, var) in O:
        key = "%s.%s" % (tab, var)
        rec = {"present": False, "vals": [], "ref": refvals[(tab, var)] if ref_ok else []}
        df = ow.output.get(key) if out["err"] == "" else None
        if df is not None and hasattr(df, "values") and df.shape[0] == STEPS:
            rec["present"] = True
            rec["vals"] = [[fx(x) for x in np.asarray(df.values[t], dtype=float)] for t in range(STEPS)]
        out["rec"].append(rec)
    return out


def key_of(name, c):
    cfg = c["cfg"]
    els = sorted({w[0] for w in cfg["W"]})
    tabs = sorted({o[0] for o in cfg["O"]})
    if c.get("batch") and cfg.get("nosb"):
        # structural class: the batch reader together with neglect_open_switch_branches (independent of what is written / read)
        return "C12|%s|batch_read+neglect_open_switch_branches" % name
    return "C12|%s|write=%s|out=%s|%s|%s%s" % (name, "+".join(els), "+".join(tabs), cfg["form"], cfg["sw"], "|nosb" if cfg.get("nosb") else "")


def run(tier, seed, replay=None):
    v = Verdict("C12", tier, seed, "model_checking")
    use_repo()
    rnd = random.Random(seed)
    if replay:
        todo = [replay["case"]["cfg"]]
        states = trans = 1
    else:
        import os
        import shutil
        import tempfile
        from ..tla import SPEC_DIR
        wd = tempfile.mkdtemp(prefix="ppverif_c12_")
        try:
            for f in ("Recycle.cfg", "RecycleInit.cfg"):
                s = open(os.path.join(SPEC_DIR, f)).read()
                if tier == "thorough":
                    s = s.replace("MaxO = 1", "MaxO = 2")
                open(os.path.join(wd, f), "w").write(s)
            r = run_tlc("Recycle", "Recycle.cfg", workdir=wd, timeout=3000)
            ri = run_tlc("Recycle", "RecycleInit.cfg", workdir=wd, dump=True, timeout=3000)
        finally:
            shutil.rmtree(wd, ignore_errors=True)
        for name, st, raw in r.violations:
            v.divergence("model-level: %s" % name, None)
        states, trans = r.distinct, r.transitions
        cfgs = [jsonable(s["cfg"]) for s in ri.dump]
        single = [c for c in cfgs if len(c["W"]) == 1 and len(c["O"]) == 1]
        rest = [c for c in cfgs if not (len(c["W"]) == 1 and len(c["O"]) == 1)]
        todo = single + rnd.sample(rest, min(len(rest), 700 if tier == "quick" else 6000))
    cases = pool_map(observe, todo)
    usable = [c for c in cases if c["ref_ok"]]
    fails, st = tlc_obs("RecycleObs", "RecycleObs.cfg", usable, chunk=2500)
    for name, i in fails:
        c = usable[i]
        what = "%s: cfg=%s err=%s batch=%s flags=%s" % (name, c["cfg"], c["err"], c["batch"], c["flags"])
        if name.startswith("DIV_"):
            v.divergence(what, None)
        else:
            v.violation(key_of(name, c), what, {"cfg": c["cfg"]})
    nontriv = len({repr(c["cfg"]) for c in usable if c["err"] == "" and any(
        rec["present"] and any(rec["vals"][t] != rec["vals"][0] for t in range(1, len(rec["vals"]))) for rec in c["rec"])})
    v.coverage = {
        "states": states + st["states"], "transitions": trans + st["generated"],
        "traces_validated_against_impl": len(usable), "evaluations": len(cases), "distinct_nontrivial": nontriv,
        "exhaustive": False,
        "rule": "configurations of Recycle.tla: 1-2 ConstControl targets of 14 (element, variable) pairs x requested result "
                "variables (12) x request form (constructor 2-tuples / log_variable / log_variable with a reversed index list) x switch "
                "scenario (none / open transformer switch / open line switch) x neglect_open_switch_branches; all single-target single-output configurations plus a seeded sample of the rest; "
                "non-trivial = the recorded variable changes over the three steps",
        "reference_not_converged": len(cases) - len(usable),
        "batch_read_cases": sum(1 for c in usable if c["batch"]),
        "raised": sum(1 for c in usable if c["err"]),
        "samples": [{"cfg": c["cfg"], "batch": c["batch"], "rec": c["rec"][0]} for c in (usable[0], usable[-1])],
    }
    v.assumptions = ["one ConstControl per target, element index 0, three time steps, DFData profiles from a fixed level table",
                     "tolerances 30 micro-units + 50 ppm between time-series value and fresh power flow (tolerance_mva=1e-10)",
                     "controller in_service / element in_service profiles are outside the property's list and not enumerated"]
    return v.finish()
