"""C29 — protection devices: fuses and overcurrent relays (DESIGN §4/§5, Protection.tla / ProtectionObs.tla).

TLC (Protection.tla) enumerates device configurations over integer levels and the histories of the device life cycle;
this driver builds each configuration as a real Fuse / OCRelay on a two-line radial feeder through the public API,
replays every history (currents are fed by writing the result table the device reads) and hands the projected
observations back to TLC (ProtectionObs.tla), which decides every clause.

Unit table (binary exact, so that comparisons of levels are comparisons of the floats the code sees):
    current level L -> L/64 kA (= L*15.625 A);  time level T -> T/8 s;  fuse melting-time level k -> 0.125*4^(k-1) s
Logged fixed point: currents in micro-kA (fx scale 1e6), times in units of 10 us (fx scale 1e5).
"""
import copy
import json
import os
import random
import shutil
import tempfile

from ..common import Verdict, fx, pool_map, use_repo
from ..obs import tlc_obs
from ..tla import MachineryError, SPEC_DIR, jsonable, run_tlc

U_I = 1.0 / 64.0        # kA per current level
U_A = 15.625            # A per current level
U_T = 0.125             # s per time level
TSCALE = 1e5
SHIFT = {"avg": 0, "min": 2, "total": 4}       # ProtectionDef!Shift
_BASE = {}


def ylev(k):
    return 0.125 * 4.0 ** (k - 1)


# ---- the real network --------------------------------------------------------------------------------------------
def base_net():
    """ext grid - bus0 -line0- bus1 -line1- bus2 - load; line switch k at the feeding end of line k; result tables of a
    real power flow and a real short-circuit calculation (the devices read res_switch / res_switch_sc)."""
    if "net" in _BASE:
        return _BASE["net"]
    import pandapower as pp
    from pandapower.shortcircuit.calc_sc import calc_sc
    net = pp.create_empty_network()
    pp.create_buses(net, 3, 20.0, geodata=[(0, 0), (0, -1), (0, -2)])
    pp.create_ext_grid(net, 0, vm_pu=1.0, s_sc_max_mva=100, s_sc_min_mva=50, rx_max=0.1, rx_min=0.1)
    pp.create_lines(net, [0, 1], [1, 2], length_km=[2.0, 3.0], std_type="NAYY 4x50 SE")
    net.line["endtemp_degree"] = 250
    pp.create_switches(net, buses=[0, 1], elements=[0, 1], et="l", type="CB")
    pp.create_load(net, 2, p_mw=1.0, q_mvar=0.2)
    pp.runpp(net)
    calc_sc(net, bus=2, branch_results=True)
    if "i_ka" not in net.res_switch or "ikss_ka" not in net.res_switch_sc or len(net.res_switch) != 2:
        raise MachineryError("C29: base net has no switch result tables")
    _BASE["net"] = net
    return net


def ikss_line(sw):
    """fault current through line `sw` for a fault at 95 % of it — what the relay's constructor computes for I>> on the
    automatic route (ocrelay.py:121-137), obtained here by the same public functions"""
    k = ("ik", sw)
    if k not in _BASE:
        from pandapower.protection.utility_functions import create_sc_bus
        from pandapower.shortcircuit.calc_sc import calc_sc
        ns = create_sc_bus(copy.deepcopy(base_net()), sw, 0.95)
        calc_sc(ns, bus=max(ns.bus.index), branch_results=True)
        _BASE[k] = float(ns.res_line_sc.ikss_ka.iloc[sw])
    return _BASE[k]


def build_relay(cfg):
    """-> (net, device, thr) with thr = the configured pick-up floats by the documented formulas"""
    import pandas as pd
    from pandapower.protection.protection_devices.ocrelay import OCRelay
    net = copy.deepcopy(base_net())
    kind, sw = cfg["kind"], cfg["sw"]
    oth = 1 - sw
    use_s, use_dt = kind in ("IDMT", "IDTOC"), kind in ("DTOC", "IDTOC")
    thr, kw = {}, {}
    if cfg["proute"] == "manual":
        cols = {"switch_id": [0, 1]}
        for name, col, on in (("Igg", "I_gg", use_dt), ("Ig", "I_g", use_dt), ("Is", "I_s", use_s)):
            if on:
                vals = [0.0, 0.0]
                vals[sw] = cfg[name] * U_I
                vals[oth] = (cfg[name] + 5) * U_I          # the other switch's row must not be used
                cols[col] = vals
                thr[name] = cfg[name] * U_I
        kw["pickup_current_manual"] = pd.DataFrame(cols)
    else:
        if use_dt:
            of, ct = 1.25, 1.2
            rating = cfg["Ig"] * U_I / (of * ct)
            thr["Ig"] = rating * of * ct                                  # ocrelay.py:136
            ik = ikss_line(sw)
            sf = cfg["Igg"] * U_I / ik
            thr["Igg"] = ik * sf                                          # ocrelay.py:137
            kw.update(overload_factor=of, ct_current_factor=ct, safety_factor=sf)
            if use_s:
                iof = cfg["Is"] * U_I / rating
                thr["Is"] = rating * iof                                  # ocrelay.py:159
                kw["inverse_overload_factor"] = iof
        else:
            iof = 1.2
            rating = cfg["Is"] * U_I / iof
            thr["Is"] = rating * iof                                      # ocrelay.py:147
            kw["inverse_overload_factor"] = iof
        net.line.at[sw, "max_i_ka"] = rating
        net.line.at[oth, "max_i_ka"] = rating * 1.7
    if cfg["troute"] == "frame":
        if kind == "DTOC":
            a, b = [0.0, 0.0], [0.0, 0.0]
            a[sw], b[sw] = cfg["Tgg"] * U_T, cfg["Tg"] * U_T
            a[oth], b[oth] = (cfg["Tgg"] + 5) * U_T, (cfg["Tg"] + 7) * U_T
            ts = pd.DataFrame({"switch_id": [0, 1], "t_gg": a, "t_g": b})
        else:
            a, b = [0.0, 0.0], [0.0, 0.0]
            a[sw], b[sw] = cfg["Tms"] * U_T, cfg["Tgrade"] * U_T
            a[oth], b[oth] = (cfg["Tms"] + 5) * U_T, (cfg["Tgrade"] + 7) * U_T
            ts = pd.DataFrame({"switch_id": [0, 1], "tms": a, "t_grade": b})
    else:
        if kind == "DTOC":
            ts = [cfg["Tgg"] * U_T, cfg["Tg"] * U_T, cfg["Tdiff"] * U_T]
        elif kind == "IDMT":
            ts = [cfg["Tms"] * U_T, cfg["Tgrade"] * U_T]
        else:
            ts = [cfg["Tgg"] * U_T, cfg["Tg"] * U_T, cfg["Tdiff"] * U_T, cfg["Tms"] * U_T, cfg["Tgrade"] * U_T]
    if use_s:
        kw["curve_type"] = cfg["curve"]
    dev = OCRelay(net, switch_index=sw, oc_relay_type=kind, time_settings=ts, **kw)
    return net, dev, thr


def build_fuse(cfg):
    from pandapower.control.util.characteristic import Characteristic
    from pandapower.protection.protection_devices.fuse import Fuse
    from pandapower.std_types import create_std_type
    net = copy.deepcopy(base_net())
    sw = cfg["sw"]

    def other():      # some unrelated characteristic living in net.characteristic (e.g. of a controller)
        Characteristic(net, x_values=[0.0, 1000.0], y_values=[5.0, 50.0])

    def data(k):
        return [float((L + SHIFT[k]) * U_A) for L in cfg["x"]], [ylev(k_) for k_ in cfg["y"]]

    for _ in range(cfg["before"]):
        other()
    if cfg["froute"] == "direct":
        dev = Fuse(net, switch_index=sw, rated_i_a=63)
        x, y = data("avg")
        dev.create_characteristic(net, x, y)
    else:
        st = {"fuse_type": "verif", "i_rated_a": 63.0}
        for k, tag in (("avg", "a"), ("min", "m"), ("total", "t")):
            x, y = data(k) if tag in cfg["sets"] else (0, 0)
            st["x_" + k], st["t_" + k] = x, y
        create_std_type(net, st, name="verif", element="fuse")
        dev = Fuse(net, switch_index=sw, fuse_type="verif", curve_select=cfg["sel"])
    for _ in range(cfg["after"]):
        other()
    return net, dev, {}


def _num(x, scale):
    return 0 if x is None else fx(x, scale)


def settings(cfg, dev, thr):
    if cfg["kind"] == "FUSE":
        stored = {"istart": _num(None if dev.i_start_a is None else dev.i_start_a / 1000.0, 1e6),
                  "istop": _num(None if dev.i_stop_a is None else dev.i_stop_a / 1000.0, 1e6)}
        same = {"istart": True, "istop": True}
        return stored, same
    stored = {"Is": _num(dev.I_s, 1e6), "Ig": _num(dev.I_g, 1e6), "Igg": _num(dev.I_gg, 1e6),
              "Tgg": _num(dev.t_gg, TSCALE), "Tg": _num(dev.t_g, TSCALE), "Tms": _num(dev.tms, TSCALE),
              "Tgrade": _num(dev.t_grade, TSCALE)}
    attr = {"Is": dev.I_s, "Ig": dev.I_g, "Igg": dev.I_gg}
    same = {n: bool(n not in thr or attr[n] == thr[n]) for n in ("Is", "Ig", "Igg")}
    return stored, same


NOOBS = {"rows": 0, "trip": False, "t": 0, "val": 0, "fed": 0, "par": "", "ptype": "", "swid": 0}


def jitter(seed, cfg, lvl):
    """seeded offset in (-0.4, 0.4) levels for a non-threshold current level; the same level of one configuration
    always gets the same offset (equal levels must give equal times)"""
    return random.Random("%s|%s|%d" % (seed, json.dumps(cfg, sort_keys=True), lvl)).uniform(-0.4, 0.4)


def run_history(cfg, net, dev, thr, hist, jseed=None):
    from pandapower.protection.run_protection import calculate_protection_times
    sw = cfg["sw"]
    at_thr = {cfg[n]: f for n, f in thr.items()}     # a current level that IS a threshold is fed as that very float
    obs = []
    for a in hist:
        o = dict(NOOBS)
        o["ok"] = True
        try:
            if a["op"] == "reset":
                dev.reset_device()
            elif a["op"] == "apply":
                dev.status_to_net(net)
            elif a["op"] == "describe":
                str(dev)
            elif a["op"] == "eval":
                f_i = at_thr.get(a["I"], a["I"] * U_I)
                if jseed is not None and not a["at"]:
                    f_i = (a["I"] + jitter(jseed, cfg, a["I"])) * U_I
                f_j = a["J"] * U_I
                net.res_switch_sc["ikss_ka"] = f_j
                net.res_switch["i_ka"] = f_j
                if cfg["scen"] == "sc":
                    net.res_switch_sc.at[sw, "ikss_ka"] = f_i
                else:
                    net.res_switch.at[sw, "i_ka"] = f_i
                o["fed"] = fx(f_i)
                df = calculate_protection_times(net, scenario=cfg["scen"])
                o["rows"] = int(len(df))
                if len(df) >= 1:
                    r = df.iloc[0]
                    o.update(trip=bool(r["trip_melt"]), t=fx(r["trip_melt_time_s"], TSCALE),
                             val=fx(r["activation_parameter_value"]), par=str(r["activation_parameter"]),
                             ptype=str(r["protection_type"]), swid=int(r["switch_id"]))
            else:
                raise MachineryError("C29: unknown op %r" % (a,))
        except MachineryError:
            raise
        except OverflowError:
            raise MachineryError("C29: value outside the fixed-point range in %s / %s" % (cfg, hist))
        except Exception as e:  # noqa
            o["ok"] = False
            o["err"] = "%s: %s" % (type(e).__name__, str(e)[:100])
        o["tripped"] = bool(dev.has_tripped())
        o["closed"] = bool(net.switch.closed.at[sw])
        o["oclosed"] = bool(net.switch.closed.at[1 - sw])
        o.setdefault("err", "")
        obs.append(o)
    return {"hist": hist, "obs": obs}


def observe(job):
    """one configuration, all its histories -> list of cases (one per history if job['split'] else one for all)"""
    cfg, hists = job["cfg"], job["hists"]
    jseed = job.get("jitter")
    head = {"cfg": cfg, "built": False, "berr": "", "stored": {}, "same": {}, "runs": [], "jitter": jseed is not None}
    zero = ({"istart": 0, "istop": 0}, {"istart": True, "istop": True}) if cfg["kind"] == "FUSE" else \
        ({n: 0 for n in ("Is", "Ig", "Igg", "Tgg", "Tg", "Tms", "Tgrade")}, {n: True for n in ("Is", "Ig", "Igg")})
    head["stored"], head["same"] = zero
    try:
        net, dev, thr = (build_fuse if cfg["kind"] == "FUSE" else build_relay)(cfg)
    except MachineryError:
        raise
    except Exception as e:  # noqa   the constructor refused (or failed on) the configuration
        head["berr"] = "%s: %s" % (type(e).__name__, str(e)[:100])
        return [head]
    head["built"] = True
    head["stored"], head["same"] = settings(cfg, dev, thr)
    saved = dict(dev.__dict__)
    runs = []
    for h in hists:
        dev.__dict__.clear()
        dev.__dict__.update(saved)                      # every history starts from the freshly built device
        net.switch["closed"] = True
        runs.append(run_history(cfg, net, dev, thr, h, jseed))
    if job.get("split"):
        return [dict(head, runs=[r]) for r in runs] or [head]
    return [dict(head, runs=runs)]


# ---- model runs ----------------------------------------------------------------------------------------------------
THOROUGH_A = {"ILevels = {8, 16, 24}": "ILevels = {8, 16, 24, 32}", "TLevels = {1, 3}": "TLevels = {1, 2, 4}",
              "DLevels = {2}": "DLevels = {1, 2}", "MLevels = {1}": "MLevels = {1, 2}", "Envs = {0, 11}": "Envs = {0, 1, 10, 11}",
              'StdSets = {{"a"}, {"m", "t"}, {"t"}}': 'StdSets = {{"a"}, {"m", "t"}, {"a", "m", "t"}, {"m"}, {"t"}}',
              "NPoints = {3}": "NPoints = {3, 4}", "XLevels = {8, 16, 24}": "XLevels = {8, 16, 24, 32}"}
THOROUGH_B = {"Depth = 2": "Depth = 3", "Places = {0, 1, 10}": "Places = {0, 1, 10, 20}"}


def model(cfgname, subst):
    """run Protection.tla with (a substituted copy of) spec/<cfgname>; group the dumped full-depth histories by configuration"""
    wd = tempfile.mkdtemp(prefix="ppverif_c29_")
    try:
        txt = open(os.path.join(SPEC_DIR, cfgname)).read()
        for a, b in subst.items():
            if a not in txt:
                raise MachineryError("C29: constant %r not found in %s" % (a, cfgname))
            txt = txt.replace(a, b)
        open(os.path.join(wd, cfgname), "w").write(txt)
        r = run_tlc("Protection", cfgname, workdir=wd, dump=True)
    finally:
        shutil.rmtree(wd, ignore_errors=True)
    depth = max(len(s["hist"]) for s in r.dump)
    groups, order = {}, []
    for s in r.dump:
        cfg = jsonable(s["cfg"])
        k = json.dumps(cfg, sort_keys=True)
        if k not in groups:
            groups[k] = {"cfg": cfg, "hists": []}
            order.append(k)
        if len(s["hist"]) == depth:
            groups[k]["hists"].append(jsonable(s["hist"]))
    return r, [groups[k] for k in order], depth


def life(case):
    """structural feature of a history set: does str(device) precede an evaluation"""
    for r in case["runs"]:
        seen = False
        for a in r["hist"]:
            if a["op"] == "describe":
                seen = True
            elif a["op"] == "eval" and seen:
                return "after_str"
    return "plain"


def feature(cfg):
    return "route=%s" % cfg["froute"] if cfg["kind"] == "FUSE" else "pickup=%s" % cfg["proute"]


def run(tier, seed, replay=None):
    import time
    v = Verdict("C29", tier, seed, "model_checking")
    use_repo()
    states = trans = 0
    t0 = time.time()
    phase = {}
    if replay:
        c = replay["case"]
        jobs = [{"cfg": c["cfg"], "hists": [r["hist"] for r in c["runs"]], "split": False,
                 "jitter": replay.get("seed", seed) if c.get("jitter") else None}]
        nA = nB = 0
    else:
        rA, gA, dA = model("Protection.cfg", THOROUGH_A if tier == "thorough" else {})
        rB, gB, dB = model("ProtectionLife.cfg", THOROUGH_B if tier == "thorough" else {})
        for r in (rA, rB):
            for name, st, raw in r.violations:
                v.divergence("model-level: %s" % name, None)
            states += r.distinct
            trans += r.transitions
        for g in gA:
            g["split"] = False
        for g in gB:
            g["split"] = True
        for g in gA + gB:
            g["jitter"] = seed if tier == "thorough" else None
        jobs = gA + gB
        nA, nB = len(gA), len(gB)
        rnd = random.Random(seed)
        rnd.shuffle(jobs)           # balance the pool; the set of jobs does not depend on the seed
    phase["model_s"] = round(time.time() - t0, 1)
    t0 = time.time()
    if len(jobs) >= 400:
        from ..common import get_pool
        get_pool(12)                # pool_map would size the pool by len(jobs) // 200; a job here is a whole configuration
    cases = [c for cs in pool_map(observe, jobs, chunksize=4) for c in cs]
    phase["replay_s"] = round(time.time() - t0, 1)
    t0 = time.time()
    fails, st = tlc_obs("ProtectionObs", "ProtectionObs.cfg", cases, chunk=10000)
    phase["obs_s"] = round(time.time() - t0, 1)
    div = {}
    for name, i in fails:
        c = cases[i]
        errs = sorted({o["err"] for r in c["runs"] for o in r["obs"] if o["err"]} | ({c["berr"]} if c["berr"] else set()))
        hs = [[(a["op"], a["I"]) if a["op"] == "eval" else a["op"] for a in r["hist"]] for r in c["runs"]]
        if len(hs) > 1:      # a sweep case: every single action on the fresh device
            hs = "single actions; eval at levels %s" % sorted(h[0][1] for h in hs if h and isinstance(h[0], tuple))
        what = "%s: cfg=%s histories=%s%s" % (name, c["cfg"], hs, (" errors=%s" % errs[:2]) if errs else "")
        if name.startswith("Bind_"):
            k = "%s|%s|%s" % (name, c["cfg"]["kind"], feature(c["cfg"]))
            div.setdefault(k, [0, what])[0] += 1
            continue
        v.violation("C29|%s|%s|%s|%s" % (name, c["cfg"]["kind"], feature(c["cfg"]), life(c)), what[:900], c)
    for k, (n, what) in sorted(div.items()):
        v.divergence("%s (%d cases) e.g. %s" % (k, n, what[:500]), None)
    # ---- coverage (measured on the observations) ----
    n_hist = sum(len(c["runs"]) for c in cases)
    evals = [(json.dumps(c["cfg"], sort_keys=True), a["I"], o) for c in cases for r in c["runs"]
             for a, o in zip(r["hist"], r["obs"]) if a["op"] == "eval" and o["ok"]]
    by = {}
    for k, lvl, o in evals:
        by.setdefault(k, {})[lvl] = (o["trip"], o["t"])
    crossings = sum(1 for k, d in by.items() for lvl in d if lvl + 1 in d and d[lvl] != d[lvl + 1])
    PINF = 2000000002
    v.coverage = {
        "states": states + st["states"], "transitions": trans + st["generated"],
        "traces_validated_against_impl": n_hist, "evaluations": len(evals), "exhaustive": True,
        "distinct_nontrivial": crossings,
        "rule": "every configuration of Protection.cfg (relay kind x pick-up route x time route x switch/scenario x all "
                "gradings I_s<I_g<I_gg, t>> <= t> over the level sets x curve; fuse route x std-type data sets x "
                "curve_select x placement in net.characteristic x all monotone point sets over the level sets) with every single action, "
                "and every history of ProtectionLife.cfg (depth %s), replayed on real devices; non-trivial = distinct "
                "(configuration, adjacent current levels L, L+1) whose observed (trip, time) differ, i.e. a stage "
                "boundary actually crossed" % (dB if not replay else "-"),
        "configs_sweep": nA, "configs_life": nB, "devices_built": sum(1 for c in cases if c["built"]) if replay else
        len({json.dumps(c["cfg"], sort_keys=True) for c in cases if c["built"]}),
        "configs_refused": len({json.dumps(c["cfg"], sort_keys=True) for c in cases if not c["built"]}),
        "evals_trip": sum(1 for e in evals if e[2]["trip"]), "evals_no_trip": sum(1 for e in evals if not e[2]["trip"]),
        "evals_time_inf": sum(1 for e in evals if e[2]["t"] == PINF), "evals_time_zero": sum(1 for e in evals if e[2]["t"] == 0),
        "histories_after_str": sum(1 for c in cases if len(c["runs"]) == 1 and life(c) == "after_str"),
        "actions_raising": sum(1 for c in cases for r in c["runs"] for o in r["obs"] if not o["ok"]),
        "thresholds_not_bit_identical": sum(1 for c in cases for n, s in c["same"].items() if not s),
        "phase_wall_s": phase,
        "samples": [cases[k] for k in range(0, len(cases), max(1, len(cases) // 3))][:3],
    }
    v.assumptions = [
        "currents are fed by overwriting ikss_ka / i_ka of the real result tables res_switch_sc / res_switch (the property "
        "is about the device's function of the current it reads); the other table and the other switch's row hold a "
        "decoy current on the opposite side of the pick-up",
        "one device per net, two-line radial feeder with one external grid; relays on line switches only",
        "thorough tier: non-threshold current levels are fed with a seeded offset of at most 0.4 level (6.25 A)",
        "every history starts from the freshly built device (attribute dict and switch states restored between histories)",
        "inverse-time and melting-curve values are decided as ordering / bracketing relations only (exact values of the "
        "integer-exponent IDMT curves are checked as a binding diagnostic)",
    ]
    return v.finish()
