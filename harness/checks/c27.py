"""C27 — group operations behave as set operations on group membership (DESIGN §4, Groups.tla)."""
import copy

from ..common import Verdict, fx, pool_map, use_repo
from ..obs import tlc_obs
from ..tla import jsonable, run_tlc

_BASE = {}
NAME = {"load": "n%d", "sgen": "m%d"}
TYPES = ("load", "sgen")


def build_net():
    import pandapower as pp
    from ..templates import line
    net = pp.create_empty_network()
    b0 = pp.create_bus(net, 110.0)
    b1 = pp.create_bus(net, 110.0)
    pp.create_ext_grid(net, b0)
    line(pp, net, b0, b1, km=1.0)
    for i, p in enumerate((1.0, 2.0, 4.0)):
        pp.create_load(net, b0, p, 0.0, name=NAME["load"] % i, index=i)
    for i, p in enumerate((8.0, 16.0)):
        pp.create_sgen(net, b0, p, 0.0, name=NAME["sgen"] % i, index=i)
    pp.create_load(net, b1, 0.5, 0.1, name="other", index=3)          # never grouped
    return net


def exec_op(net, a, shift):
    import pandapower as pp
    import pandapower.toolbox as tb
    op, g, t, s = a["op"], a["g"], a["t"], sorted(a["s"])
    byname = g == 1
    vals = [NAME[t] % i for i in s] if byname else [i + shift[t] for i in s]
    if op == "create":
        pp.create_group(net, [t], [vals], name="g%d" % g, index=g, reference_columns="name" if byname else None)
    elif op == "attach":
        pp.attach_to_group(net, g, [t], [vals], reference_columns="name" if byname else None)
    elif op == "detach":
        pp.detach_from_group(net, g, t, [i + shift[t] for i in s])     # always takes element indices
    elif op == "drop_el":
        tb.drop_elements(net, t, [i + shift[t] for i in s])
    elif op == "reindex":
        old = list(net[t].index)
        tb.reindex_elements(net, t, new_indices=[i + 1 for i in old], old_indices=old)      # overlapping old / new indices
        shift[t] = 1
    elif op == "drop_group":
        pp.drop_group(net, g)
    elif op == "set_oos":
        pp.set_group_out_of_service(net, g)
    elif op == "set_is":
        pp.set_group_in_service(net, g)
    else:
        raise ValueError(op)


def _int(x):
    try:
        return int(x)
    except Exception:  # noqa  (a non-integer index is an observation TLC will reject, not a harness failure)
        return -99


def snapshot(net):
    import pandapower as pp
    o = {"members": [], "rows": [], "ins": {}, "resp": []}
    try:
        pp.runpp(net)
        ok = True
    except Exception:  # noqa
        ok = False
    for g in (0, 1):
        has = "group" in net and g in net.group.index
        mem = {}
        for t in TYPES:
            try:
                mem[t] = sorted(_int(x) for x in pp.group_element_index(net, g, t)) if has else []
            except Exception:  # noqa  -- the accessor itself fails: logged as an impossible member, rejected by TLC
                mem[t] = [-98]
        o["members"].append(mem)
        o["rows"].append({t: bool(has and (net.group.loc[[g], "element_type"] == t).any()) for t in TYPES})
        try:
            o["resp"].append(fx(pp.group_res_p_mw(net, g)) if (has and ok) else 0)
        except Exception:  # noqa
            o["resp"].append(-98)
    for t in TYPES:
        o["ins"][t] = sorted(_int(i) for i in net[t].index[net[t].in_service.values] if not (t == "load" and net.load.at[i, "name"] == "other"))
    return o


def observe(hist):
    if "net" not in _BASE:
        _BASE["net"] = build_net()
    net = copy.deepcopy(_BASE["net"])
    shift = {"load": 0, "sgen": 0}
    out = {"hist": hist, "obs": [], "err": ""}
    for a in hist:
        try:
            exec_op(net, a, shift)
        except Exception as e:  # noqa
            out["err"] = "%s g%s %s %s: %s: %s" % (a["op"], a["g"], a["t"], a["s"], type(e).__name__, str(e)[:80])
        out["obs"].append(snapshot(net))
        if out["err"]:
            break
    while len(out["obs"]) < len(hist):
        out["obs"].append(out["obs"][-1])
    return out


def run(tier, seed, replay=None):
    v = Verdict("C27", tier, seed, "model_checking")
    use_repo()
    if replay:
        hists = [replay["case"]["hist"]]
        states = trans = 1
    else:
        import os, shutil, tempfile
        from ..tla import SPEC_DIR
        wd = tempfile.mkdtemp(prefix="ppverif_c27_")
        try:
            cfg = open(os.path.join(SPEC_DIR, "Groups.cfg")).read()
            if tier == "thorough":
                cfg = cfg.replace("MaxLen = 3", "MaxLen = 4")
            open(os.path.join(wd, "Groups.cfg"), "w").write(cfg)
            r = run_tlc("Groups", "Groups.cfg", workdir=wd, dump=True, timeout=3000)
        finally:
            shutil.rmtree(wd, ignore_errors=True)
        for name, st, raw in r.violations:
            v.divergence("model-level: %s" % name, None)
        hists = [jsonable(s["hist"]) for s in r.dump if s["hist"]]
        states, trans = r.distinct, r.transitions
        pref = {repr(h[:-1]) for h in hists if len(h) > 1}
        hists = [h for h in hists if repr(h) not in pref]       # maximal histories; prefixes are logged on the way
    cases = pool_map(observe, hists)
    fails, st = tlc_obs("GroupsObs", "GroupsObs.cfg", cases, chunk=3000)
    for name, i in fails:
        c = cases[i]
        ops = [a["op"] + ("@name" if a["g"] == 1 and a["op"] in ("create", "attach", "detach") else "") for a in c["hist"]]
        v.violation("C27|%s|%s" % (name, ">".join(ops)), "%s after %s %s" % (
            name, [(a["op"], a["g"], a["t"], a["s"]) for a in c["hist"]], c["err"]), {"hist": c["hist"]})
    nontriv = sum(1 for c in cases if len({a["g"] for a in c["hist"]}) >= 2 or any(a["op"] in ("drop_el", "reindex") for a in c["hist"]))
    v.coverage = {
        "states": states + st["states"], "transitions": trans + st["generated"],
        "traces_validated_against_impl": len(cases), "exhaustive": True, "evaluations": len(cases),
        "distinct_nontrivial": nontriv,
        "rule": "every maximal history of <=%d enabled group/element operations (create/attach/detach on an index group and "
                "a reference-column group, drop_elements, reindex_elements, drop_group, set_group_in/out_of_service) replayed; "
                "members, group rows, in_service sets and group_res_p_mw logged after every step; non-trivial = both groups "
                "involved or an element drop/reindex" % (4 if tier == "thorough" else 3),
        "logged_states": sum(len(c["obs"]) for c in cases),
        "samples": [{"hist": cases[k]["hist"], "last_obs": cases[k]["obs"][-1]} for k in range(0, len(cases), max(1, len(cases) // 3))][:3],
    }
    v.assumptions = ["two element types (load, sgen), two groups (index-based and name-based), member sets from GroupsDef!Sel"]
    return v.finish()
