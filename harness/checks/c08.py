"""C08 — calculations never corrupt the network, even when they fail (DESIGN §4, CalcPipeline.tla)."""
import copy

from ..common import Verdict, pool_map, use_repo
from ..tla import jsonable, run_tlc, MachineryError

_BASE = {}


def _call(kind, net):
    import pandapower as pp
    if kind == "runpp":
        pp.runpp(net)
    elif kind == "rundcpp":
        pp.rundcpp(net)
    elif kind == "runopp":
        pp.runopp(net)
    elif kind == "rundcopp":
        pp.rundcopp(net)
    elif kind == "runpp3ph":
        from pandapower.pf.runpp_3ph import runpp_3ph
        runpp_3ph(net)
    elif kind in ("sc3ph", "sc2ph", "sc1ph"):
        import pandapower.shortcircuit as sc
        sc.calc_sc(net, fault=kind[2:], case="max")
    elif kind == "contingency":
        from pandapower.contingency import run_contingency
        run_contingency(net, {"line": {"index": [0, 1]}})
    elif kind == "estimate":
        from pandapower.estimation import estimate
        estimate(net, init="flat", fuse_buses_with_bb_switch="all" if len(net.gen) else [])
    else:
        raise ValueError(kind)


def observe(test):
    """Run one (kind, features, crash point) test on the real code; pure mechanical projection."""
    from pandapower import _verif
    from ..netstate import rows, value_diff, value_snapshot
    from ..templates import build_calc_net
    feats = tuple(sorted(test["feats"]))
    if feats not in _BASE:
        _BASE[feats] = build_calc_net(feats)
    net = copy.deepcopy(_BASE[feats])
    crash = test["crash"]
    nat = None
    if crash["when"] == "during":
        nat = "no_slack" if crash["stage"].endswith("pd2ppc") else "not_converged"
        if nat == "no_slack":
            net.ext_grid["in_service"] = False
        else:
            net.load["p_mw"] *= 2000.0
    r0, s0 = rows(net), value_snapshot(net)
    _verif.reset()
    if crash["when"] == "after":
        if crash.get("exc", "injected") == "lfnc":
            from pandapower.powerflow import LoadflowNotConverged
            _verif.armed[crash["stage"]] = (crash["hit"], LoadflowNotConverged("injected at %s" % crash["stage"]))
        else:
            _verif.armed[crash["stage"]] = crash["hit"]
    out = {"test": test, "err": ""}
    try:
        _call(test["kind"], net)
        out["outcome"] = "returned"
    except _verif.VerifInjectedError:
        out["outcome"] = "raised"
    except Exception as e:  # noqa
        out["outcome"] = "raised"
        out["err"] = "%s: %s" % (type(e).__name__, str(e)[:100])
    ev = [e if isinstance(e, str) else e[0] for e in _verif.events]
    _verif.reset()
    # the spec's outer contingency stages have no hook; synthesise them from the inner "pf.add_aux" boundaries
    if test["kind"] == "contingency":
        ev2, k = [], 0
        names = ["cont.case1", "cont.case2", "cont.n0"]
        for e in ev:
            if e == "pf.add_aux" and k < 3:
                ev2.append(names[k]); k += 1
            ev2.append(e)
        if out["outcome"] == "returned":
            ev2.append("cont.done")
        ev = ev2
    if test["kind"] == "estimate":
        ev = ["se.done"] if out["outcome"] == "returned" else []
    out["events"] = ev
    r1, s1 = rows(net), value_snapshot(net)
    out["row_delta"] = ["%s%+d" % (k, r1.get(k, 0) - r0.get(k, 0)) for k in sorted(set(r0) | set(r1))
                        if r1.get(k, 0) != r0.get(k, 0)]
    out["changed"] = [k for k in value_diff(s0, s1) if r1.get(k.split(".")[0], 0) == r0.get(k.split(".")[0], 0)]
    return out


def tlc_traces(cfg, cases):
    import json, os, shutil, tempfile
    wd = tempfile.mkdtemp(prefix="ppverif_c08_")
    try:
        path = os.path.join(wd, "obs.json")
        with open(path, "w") as f:
            json.dump(cases, f)
        r = run_tlc("CalcPipelineTrace", cfg, workdir=wd, env={"OBS_FILE": path})
    finally:
        shutil.rmtree(wd, ignore_errors=True)
    fails = set()
    for name, beh, raw in r.violations:
        good = [b for b in beh if isinstance(b, dict) and "i" in b] if isinstance(beh, list) else []
        if not good:
            raise MachineryError("cannot map %s to a case: %s" % (name, raw[:400]))
        st = good[-1]
        fails.add((name, st["i"] - 1))
    return sorted(fails), r


def key_of(c, name):
    t = c["test"]
    cr = t["crash"]
    where = "ok" if cr["when"] == "never" else "%s:%s%s%s" % (cr["when"], cr["stage"], "#%d" % cr["hit"] if cr["hit"] > 1 else "",
                                                              "!lfnc" if cr.get("exc") == "lfnc" else "")
    what = ",".join(c["row_delta"]) if name == "C08_NoRowsAddedOrRemoved" else "values:" + ",".join(c["changed"])
    return "C08|%s|%s|%s|%s" % (t["kind"], "+".join(sorted(t["feats"])) or "plain", where, what)


def run(tier, seed, replay=None):
    v = Verdict("C08", tier, seed, "fault_enumeration")
    use_repo()
    if replay:
        tests = [replay["case"]["test"]]
        states = trans = 1
    else:
        r = run_tlc("CalcPipeline", "CalcPipeline.cfg", dump=True, cont=False)
        for name, st, raw in r.violations:
            v.divergence("model-level: %s" % name, None)
        tests = [jsonable(s["test"]) for s in r.dump if s["outcome"] == "running" and s["events"] == ()]
        states, trans = r.distinct, r.transitions
    tests = list({repr(t): t for t in tests}.values())
    tests.sort(key=lambda t: (t["kind"], t["feats"], t["crash"]["stage"], t["crash"]["hit"]))
    cases = pool_map(observe, tests)
    fails, r1 = tlc_traces("CalcPipelineTrace.cfg", cases)
    for name, i in fails:
        c = cases[i]
        v.violation(key_of(c, name), "%s: %s -> outcome %s%s; rows %s; changed tables %s" % (
            name, c["test"], c["outcome"], " (" + c["err"] + ")" if c["err"] else "", c["row_delta"], c["changed"]), c)
    conf, r2 = tlc_traces("CalcPipelineConf.cfg", cases)
    for name, i in conf:
        c = cases[i]
        v.divergence("%s: %s recorded events %s outcome %s %s" % (name, c["test"], c["events"], c["outcome"], c["err"]))
    nontriv = sum(1 for c in cases if c["test"]["crash"]["when"] != "never"
                  and ("dcline" in c["test"]["feats"] or "taptable" in c["test"]["feats"] or "ideal" in c["test"]["feats"]))
    v.coverage = {
        "evaluations": len(cases), "distinct_nontrivial": nontriv, "exhaustive": True,
        "rule": "one implementation test per (calculation kind x feature subset {dcline, taptable, usergens, ideal} x crash point) "
                "triple enumerated by TLC from CalcPipeline.tla: injected raise (a foreign exception or LoadflowNotConverged) after every hook "
                "stage (and at the 1st/2nd/3rd "
                "inner power flow of a contingency analysis), natural failures (no slack, non-convergence), and the normal "
                "path; non-trivial = a crash point on a net with auxiliary/temporary state (dcline or tap table)",
        "states": states + r1.distinct, "transitions": trans + r1.transitions,
        "traces_validated_against_impl": len(cases),
        "conformance_divergences": len(conf),
        "raised": sum(c["outcome"] == "raised" for c in cases),
        "samples": [cases[k] for k in range(0, len(cases), max(1, len(cases) // 3))][:3],
    }
    v.assumptions = ["crash points are the hook stages of pandapower/_verif.py plus two natural failures; exceptions inside a "
                     "stage other than those are not enumerated", "state estimation is a calculation kind without crash points (no hooks inside estimate()); b2b_vsc nets "
                     "not covered", "element tables compared by digest of index/columns/dtypes/values"]
    return v.finish()
