"""C32 — characteristics interpolate through their support points, preserve shape, survive serialisation
(DESIGN §5, spec/Curve.tla + CurveDef.tla + CurveObs.tla).

TLC enumerates class x interpolation kind x fill option x container x data shape x history of
{call, serialisation route}; every dumped state is instantiated on the real classes here: construct, replay the
history on the net that holds the object, evaluate at the abscissae CurveDef!AbscSeq chooses, log fixed-point values.
CurveObs.tla (TLC) computes the required values from the logged support data and decides every clause."""
import copy
import os
import random
import tempfile
import time

from ..common import NAN, NINF, PINF, Verdict, fx, get_pool, pool_map, use_repo
from ..obs import tlc_obs
from ..tla import MachineryError, SPEC_DIR, jsonable, run_tlc

NOMINAL = {"ux": 1000, "uy": 1000, "ox": 0, "oy": 0}      # milli-units: x = ox + ux * X, y = oy + uy * Y
GROUP = 120                                              # objects per net (serialisation cost is per net)
_W = {}


def data_of(cfg, jit):
    """Support data of a Curve.tla configuration in micro-units (mirrors Curve!XsOf / YsOf, scaled by the units)."""
    n = len(cfg["dx"]) + 1
    X, Y = [cfg["x1"]], [n if cfg["cls"] == "log" else 0]
    for k in range(n - 1):
        X.append(X[-1] + cfg["dx"][k])
        Y.append(Y[-1] + cfg["dy"][k])
    xs = [1000 * (jit["ox"] + jit["ux"] * v) for v in X]
    ys = [1000 * (jit["oy"] + jit["uy"] * v) for v in Y]
    return xs, ys


def abscissae(xs, islog):
    """CurveDef!AbscSeq in integer micro-units (TLC checks the result against the spec: Obs_CaseMatchesModel)."""
    n = len(xs)
    out = list(xs)
    for i in range(n - 1):
        for k in (1, 2, 3):
            out.append(xs[i] + (k * (xs[i + 1] - xs[i])) // 4)
    out.append(xs[0] // 2 if islog else xs[0] - (xs[1] - xs[0]) // 2)
    out.append(xs[-1] + (xs[-1] - xs[-2]) // 2)
    return out


def num(u, as_int):
    return u // 1000000 if as_int else u / 1e6


def sfx(v):
    """float -> micro-units; values beyond the fixed-point range count as +-inf (never compared numerically)."""
    try:
        return fx(v)
    except OverflowError:
        return PINF if float(v) > 0 else NINF


def construct(net, cfg, xs, ys, jit):
    import numpy as np
    from pandapower.control.util.characteristic import Characteristic, LogSplineCharacteristic, SplineCharacteristic
    as_int = jit == NOMINAL            # nominal data are integers and are passed as such (int lists / int64 arrays)
    xv = [num(u, as_int) for u in xs]
    yv = [num(u, as_int) for u in ys]
    klass = {"char": Characteristic, "spline": SplineCharacteristic, "log": LogSplineCharacteristic}[cfg["cls"]]
    kw = {}
    if cfg["cls"] != "char":
        if cfg["ik"] == "pchip":
            kw["interpolator_kind"] = "Pchip"
            if cfg["fill"] == "noextrap":
                kw["extrapolate"] = False
        else:
            kw["kind"] = cfg["ik"]
            if cfg["fill"] == "ends":
                kw["fill_value"] = (yv[0], yv[-1])
    if cfg["cont"] == "points":
        return klass.from_points(net, list(zip(xv, yv)), **kw)
    if cfg["cont"] == "array":
        return klass(net, np.array(xv), np.array(yv), **kw)
    return klass(net, list(xv), list(yv), **kw)


def evaluate(obj, ax):
    import numpy as np
    pts = [a / 1e6 for a in ax]
    try:
        ev = [sfx(obj(p)) for p in pts]
        evv = [sfx(v) for v in np.asarray(obj(np.array(pts)), dtype=float).ravel()]
        if len(evv) != len(pts):
            return True, [NAN] * len(pts), [NAN] * len(pts)
        return False, ev, evv
    except Exception:  # noqa
        return True, [NAN] * len(pts), [NAN] * len(pts)


def _empty():
    import pandapower as pp
    if "net" not in _W:
        _W["net"] = pp.create_empty_network()
    return copy.deepcopy(_W["net"])


def apply_op(net, op, idxs):
    import pandapower as pp
    if op == "E":
        for k, ax in idxs:
            net.characteristic.object.at[k](ax[0] / 1e6)
    elif op == "netjson":
        net = pp.from_json_string(pp.to_json(net))
    elif op == "objjson":
        for k, _ in idxs:
            o = net.characteristic.object.at[k]
            net.characteristic.object.at[k] = type(o).from_json(o.to_json())
    elif op == "deepcopy":
        net = copy.deepcopy(net)
    elif op == "pickle":
        fd, fn = tempfile.mkstemp(suffix=".p", prefix="ppverif_c32_")
        os.close(fd)
        try:
            pp.to_pickle(net, fn)
            net = pp.from_pickle(fn)
        finally:
            os.remove(fn)
    else:
        raise MachineryError("unknown op %r" % op)
    return net


def observe_group(g):
    """All cases of a group share the history `ops`; their objects live in one net that is moved through it."""
    ops, todo = g["ops"], g["cases"]
    net, refnet = _empty(), _empty()
    out, live = [], []
    for c in todo:
        cfg, jit = c["cfg"], c["jit"]
        xs, ys = data_of(cfg, jit)
        ax = abscissae(xs, cfg["cls"] == "log")
        r = {"cfg": cfg, "ops": ops, "cache": c["cache"], "jit": jit, "xs": xs, "ys": ys, "ax": ax, "constructed": True,
             "ser_raised": False, "raised": False, "ref_raised": False, "cache_obs": False,
             "ev": [NAN] * len(ax), "evv": [NAN] * len(ax), "ref": [NAN] * len(ax)}
        out.append(r)
        try:
            obj = construct(net, cfg, xs, ys, jit)
            twin = construct(refnet, cfg, xs, ys, jit)
        except Exception:  # noqa
            r["constructed"] = False
            continue
        r["ref_raised"], r["ref"], _ = evaluate(twin, ax)
        live.append((r, int(obj.index)))
    try:
        for op in ops:
            net = apply_op(net, op, [(k, r["ax"]) for r, k in live])
    except Exception:  # noqa
        if len(todo) == 1:
            for r, _ in live:
                r["ser_raised"] = True
            return out
        res = []                     # isolate the failing object(s): one net per case
        for c in todo:
            res.extend(observe_group({"ops": ops, "cases": [c]}))
        return res
    for r, k in live:
        obj = net.characteristic.object.at[k]
        r["cache_obs"] = "_interpolator" in vars(obj)
        r["raised"], r["ev"], r["evv"] = evaluate(obj, r["ax"])
    return out


def jitter(rng, cfg):
    """Seeded units (thorough tier): multiples of 0.001 so that all quarter points stay exact in micro-units."""
    log = cfg["cls"] == "log"
    return {"ux": 4 * rng.randint(60, 700), "uy": 4 * rng.randint(60, 700),
            "ox": 4 * rng.randint(0 if log else -2000, 2000), "oy": 4 * rng.randint(0 if log else -2000, 2000)}


def feature(c):
    routes = sorted(set(o for o in c["ops"] if o != "E"))
    return "cls=%s,ik=%s,fill=%s|routes=%s" % (c["cfg"]["cls"], c["cfg"]["ik"], c["cfg"]["fill"], "+".join(routes) or "none")


def run(tier, seed, replay=None):
    v = Verdict("C32", tier, seed, "exploration")
    use_repo()
    rng = random.Random(seed)
    phases, t0 = {}, time.time()
    if replay:
        rc = replay["case"]
        todo = [{"cfg": rc["cfg"], "ops": list(rc["ops"]), "cache": rc["cache"], "jit": rc["jit"]}]
        states = trans = 1
    else:
        import shutil
        wd = tempfile.mkdtemp(prefix="ppverif_c32_")
        try:
            cfg = open(os.path.join(SPEC_DIR, "Curve.cfg")).read()
            if tier == "thorough":
                for a, b in (("NSet = {2, 3, 4}", "NSet = {2, 3, 4, 5}"), ("X1Set = {3}", "X1Set = {1, 3}"),
                             ('Interp = {"linear", "quadratic", "cubic", "previous", "pchip"}',
                              'Interp = {"linear", "slinear", "quadratic", "cubic", "nearest", "previous", "next", "zero", "pchip"}'),
                             ('Conts = {"list", "array"}', 'Conts = {"list", "array", "points"}'),
                             ("MaxSer = 1", "MaxSer = 2")):
                    if a not in cfg:
                        raise MachineryError("Curve.cfg: cannot find %r" % a)
                    cfg = cfg.replace(a, b)
            open(os.path.join(wd, "Curve.cfg"), "w").write(cfg)
            r = run_tlc("Curve", "Curve.cfg", workdir=wd, dump=True)
        finally:
            shutil.rmtree(wd, ignore_errors=True)
        for name, st, raw in r.violations:
            v.divergence("model-level: %s" % name, jsonable(st) if st else None)
        todo = []
        for s in r.dump:
            c = jsonable({"cfg": s["cfg"], "ops": s["ops"], "cache": s["cache"]})
            c["jit"] = dict(NOMINAL)
            todo.append(c)
            if tier == "thorough" and not c["ops"] and rng.random() < 0.34:     # seeded replicas with other units / offsets
                d = dict(c)
                d["jit"] = jitter(rng, c["cfg"])
                todo.append(d)
        states, trans = r.distinct, r.transitions
    phases["tlc_model_s"] = round(time.time() - t0, 1)
    t0 = time.time()
    groups = {}
    for c in todo:
        groups.setdefault(tuple(c["ops"]), []).append(c)
    items = []
    for ops, cs in sorted(groups.items()):
        for lo in range(0, len(cs), GROUP):
            items.append({"ops": list(ops), "cases": cs[lo:lo + GROUP]})
    if len(items) > 8:
        get_pool(16)
    cases = [c for part in pool_map(observe_group, items, chunksize=1) for c in part]
    phases["implementation_s"] = round(time.time() - t0, 1)
    t0 = time.time()
    fails, st = tlc_obs("CurveObs", "CurveObs.cfg", cases)
    phases["tlc_obs_s"] = round(time.time() - t0, 1)
    for name, i in fails:
        c = cases[i]
        if name.startswith("Obs_"):
            raise MachineryError("case does not match the model (%s): %s" % (name, c))
        if name.startswith("Model_"):
            v.divergence("%s: %s ops=%s" % (name, c["cfg"], c["ops"]), c)
            continue
        v.violation("C32|%s|%s" % (name, feature(c)), "%s: cfg=%s ops=%s jit=%s" % (name, c["cfg"], c["ops"], c["jit"]), c)

    def done(c):
        return c["constructed"] and not c["ser_raised"] and not c["raised"]

    def mono(c):
        d = [b - a for a, b in zip(c["ys"], c["ys"][1:])]
        return all(x >= 0 for x in d) or all(x <= 0 for x in d)
    shape_kinds = ("linear", "slinear", "nearest", "previous", "next", "zero", "pchip")
    encl = [c for c in cases if done(c) and mono(c) and (c["cfg"]["cls"] == "char" or c["cfg"]["ik"] in shape_kinds)]
    ser = [c for c in cases if done(c) and any(o != "E" for o in c["ops"])]
    nontriv = set()
    for c in cases:
        if done(c) and (len(c["xs"]) >= 3 or any(o != "E" for o in c["ops"])):
            nontriv.add((str(sorted(c["cfg"].items())), tuple(c["ops"]), str(sorted(c["jit"].items()))))
    v.coverage = {
        "states": states + st["states"], "transitions": trans + st["generated"],
        "traces_validated_against_impl": len(cases), "evaluations": len(cases), "exhaustive": replay is None,
        "distinct_nontrivial": len(nontriv),
        "rule": "every state of Curve.tla (class x interpolation kind x fill option x container x data shape "
                "[x1, dx in DXSet^(n-1), dy in {-1,0,1}^(n-1)] x history of {call, serialisation routes}) is built on the "
                "real classes and evaluated at n support points, 3 interior quarter points per interval and one point on "
                "each side of the range; thorough adds a replica with seeded units/offsets for a seeded third of the history-free states; non-trivial = "
                "evaluated successfully and (>= 3 support points or at least one serialisation in the history)",
        "completed": sum(1 for c in cases if done(c)),
        "unsupported_raised_at_evaluation": sum(1 for c in cases if c["raised"]),
        "enclosure_antecedent_true": len(encl), "with_serialisation": len(ser),
        "with_cached_interpolator_carried": sum(1 for c in cases if done(c) and c["cache_obs"]),
        "nan_values_compared": sum(1 for c in cases for x in c["ev"] if x == NAN and done(c)),
        "values_checked": sum(len(c["ev"]) * 2 for c in cases if done(c)),
        "phase_wall_s": phases,
        "samples": [cases[k] for k in sorted({len(cases) // 7, len(cases) // 2, len(cases) - 1})][:3],
    }
    v.assumptions = [
        "x strictly increasing, log variant with positive x and y (documented requirement of LogSplineCharacteristic)",
        "shape preservation is required only for globally monotone y data and the kinds CurveDef!ShapePreserving lists",
        "quadratic with 2 and cubic with < 4 points are scipy limits: counted, not flagged",
        "attributes are not reassigned after construction (the cached interpolator would go stale; outside the statement)",
    ]
    return v.finish()
