"""C15 — parallel contingency analysis equals the sequential analysis (shares Contingency.tla with C14)."""
from .c14 import run as _run, observe, stub_eval  # noqa


def run(tier, seed, replay=None):
    return _run(tier, seed, replay=replay, prop="C15")
