"""C28 — grid equivalents reproduce the internal operating point (DESIGN §5, GridEq*.tla).

TLC enumerates the calls get_equivalent(net, eq_type, boundary, internal seeds) on template Tmesh7 x network variants
(GridEq.tla); every dumped configuration is executed on the real code: solve the original, snapshot its input tables,
call get_equivalent, solve the returned net, read the voltages of the buses that kept their name.  TLC (GridEqObs.tla)
decides every clause from the fixed-point voltages, the digests' diff and the abstract configuration.
"""
import copy
import os
import random
import shutil
import tempfile

from ..common import Verdict, fx, pool_map, use_repo
from ..obs import tlc_obs
from ..tla import SPEC_DIR, jsonable, run_tlc

# wiring of GridEqDef.tla (Lines, LoadBuses, SgenBuses, GenBuses); lengths / powers are the harness' level table
LINES = [(0, 1, 10.0), (1, 2, 12.0), (0, 2, 15.0), (3, 4, 10.0), (4, 5, 12.0), (3, 5, 9.0), (1, 3, 20.0), (2, 4, 18.0), (2, 6, 8.0)]
LOADS = [(1, 8.0), (2, 6.0), (3, 10.0), (4, 5.0), (5, 7.0), (6, 3.0)]
GENS = [(4, 6.0, 1.01), (1, 4.0, 1.015)]
PF = dict(tolerance_mva=1e-9, calculate_voltage_angles=True)
CAP_THOROUGH = int(os.environ.get("VERIF_C28_CAP", "12000"))      # env override: development only
_BASE = {}


def build(cfg, jit=None):
    import pandapower as pp
    j = jit or {}
    fp = j.get("p", 1.0)
    if "empty" not in _BASE:
        _BASE["empty"] = pp.create_empty_network()
    net = copy.deepcopy(_BASE["empty"])
    for b in range(7):
        pp.create_bus(net, 110.0, name="bus %d" % b, index=b)
    pp.create_ext_grid(net, int(cfg["slack"]), vm_pu=1.02, va_degree=0.0)
    for k, (a, b, km) in enumerate(LINES):
        pp.create_line_from_parameters(net, a, b, km * j.get("len", [1.0] * 9)[k], 0.06, 0.14, 10.0, 0.5, name="l%d" % k,
                                       in_service=bool(cfg["spur"]) or (a, b) != (2, 6))
    for b, p in LOADS:
        pp.create_load(net, b, p * fp, 0.25 * p * fp, name="load %d" % b)
    pp.create_sgen(net, 3, p_mw=3.0 * fp, q_mvar=0.5 * fp, name="sgen 3")
    if cfg["gens"]:
        for b, p, vm in GENS:
            pp.create_gen(net, b, p_mw=p * fp, vm_pu=vm, name="gen %d" % b)
    elif cfg.get("ghost"):
        for b, p, vm in GENS:                                # switched-off units; set point far from the solved voltage
            pp.create_gen(net, b, p_mw=p * fp, vm_pu=vm + 0.04, name="gen %d" % b, in_service=False)
    return net


def jitter(cid, seed):
    rnd = random.Random("%s/%s" % (seed, cid))
    u = lambda: 1.0 + 0.2 * rnd.uniform(-1, 1)
    return {"p": u(), "len": [u() for _ in range(9)]}


NOEQ = {"present": [False] * 7, "vm": [0] * 7, "va": [0] * 7}
NOGROUPS = {"int": [], "bnd": [], "ext": []}


def observe(job):
    import pandapower as pp
    from pandapower.auxiliary import LoadflowNotConverged
    from pandapower.grid_equivalents import get_equivalent
    from ..netstate import value_diff, value_snapshot
    cfg = job["cfg"]
    out = {"cfg": cfg, "eq": dict(NOEQ), "groups": dict(NOGROUPS), "changed": [], "err": "", "init": "",
           "corrupt": job.get("corrupt", "")}
    net = build(cfg, job.get("jit"))
    try:
        pp.runpp(net, **PF)
        ok = bool(net.converged)
    except LoadflowNotConverged:
        ok = False
    if not ok:
        out["orig"] = {"conv": False, "vm": [0] * 7, "va": [0] * 7}
        out["outcome"] = "orig_not_converged"
        return out
    out["orig"] = {"conv": True, "vm": [fx(x) for x in net.res_bus.vm_pu.values], "va": [fx(x) for x in net.res_bus.va_degree.values]}
    before = value_snapshot(net)
    ne = None
    try:
        ne = get_equivalent(net, cfg["eq"], list(cfg["bnd"]), list(cfg["seed"]), calculate_voltage_angles=True)
        out["outcome"] = "none" if ne is None else "returned"
    except LoadflowNotConverged as e:
        # one of get_equivalent's own power flows on the intermediate / equivalent network did not converge: counted like
        # a non-converging equivalent (rule: non-converged cases are vacuous), not flagged
        out["err"] = "LoadflowNotConverged inside get_equivalent: %s" % str(e)[:80]
        out["outcome"] = "eq_not_converged"
    except ValueError as e:
        out["err"] = "ValueError: %s" % str(e)[:120]
        out["outcome"] = "rejected" if "do not allow unsupplied boundary" in str(e) else "error"
    except Exception as e:  # noqa
        import traceback
        tb = traceback.extract_tb(e.__traceback__)[-1]
        out["err"] = "%s: %s @%s:%d" % (type(e).__name__, str(e)[:120], os.path.basename(tb.filename), tb.lineno)
        out["outcome"] = "error"
    out["changed"] = value_diff(before, value_snapshot(net))
    if out["outcome"] != "returned":
        return out
    try:
        bl = ne.bus_lookups
        out["groups"] = {"int": sorted(int(b) for b in bl["origin_all_internal_buses"]),
                         "bnd": sorted(int(b) for b in bl["boundary_buses_inclusive_bswitch"]),
                         "ext": sorted(int(b) for b in bl["bus_lookup_pd"]["e_area_buses"])}
    except Exception:  # noqa
        pass
    conv = False
    # REI equivalents hold impedances of ~1e-8 p.u.: a mismatch of 1e-9 MVA can be below what double precision resolves,
    # and a dc start may fail where a flat start works -> fall back to the library's default tolerance, then to a flat start
    for init, tol in (("auto", 1e-9), ("auto", 1e-8), ("flat", 1e-8)):
        try:
            pp.runpp(ne, init=init, tolerance_mva=tol, calculate_voltage_angles=True)
            conv = bool(ne.converged)
        except LoadflowNotConverged:
            conv = False
        except Exception as e:  # noqa
            out["err"] = "%s: %s" % (type(e).__name__, str(e)[:120])
            out["outcome"] = "error"
            return out
        if conv:
            out["init"] = "%s/%g" % (init, tol)
            break
    if not conv:
        out["outcome"] = "eq_not_converged"
        return out
    names = [str(n) for n in ne.bus.name.values]
    eq = {"present": [], "vm": [], "va": []}
    for b in range(7):
        nm = "bus %d" % b
        if names.count(nm) == 1:
            idx = ne.bus.index[names.index(nm)]
            eq["present"].append(True)
            eq["vm"].append(fx(ne.res_bus.vm_pu.at[idx]))
            eq["va"].append(fx(ne.res_bus.va_degree.at[idx]))
        else:
            eq["present"].append(False)
            eq["vm"].append(0)
            eq["va"].append(0)
    out["eq"] = eq
    out["outcome"] = "ok"
    c = out["corrupt"]            # self-test of the binding only
    if c == "vm":
        k = eq["present"].index(True)
        eq["vm"][k] += 1500
    elif c == "changed":
        out["changed"] = ["load.p_mw"]
    elif c == "missing":
        eq["present"][eq["present"].index(True)] = False
    return out


def model(tier):
    wd = tempfile.mkdtemp(prefix="ppverif_c28m_")
    try:
        cfg = open(os.path.join(SPEC_DIR, "GridEq.cfg")).read().replace('TIER = "quick"', 'TIER = "%s"' % tier)
        open(os.path.join(wd, "GridEq.cfg"), "w").write(cfg)
        return run_tlc("GridEq", "GridEq.cfg", workdir=wd, dump=True, timeout=3000, workers=8)
    finally:
        shutil.rmtree(wd, ignore_errors=True)


SLIM = ("cfg", "orig", "outcome", "eq", "groups", "changed")


def run(tier, seed, replay=None):
    v = Verdict("C28", tier, seed, "exploration")
    use_repo()
    exhaustive = True
    model_out = {}
    if replay:
        jobs = [replay["case"]["job"]]
        jobs[0]["cfg"].setdefault("ghost", False)          # replay files written before the field existed
        states = trans = n_model = 1
    else:
        r = model(tier)
        for name, st, raw in r.violations:
            v.divergence("model-level: invariant %s violated" % name, jsonable(st))
        states, trans, n_model = r.distinct, r.transitions, len(r.dump)
        dump = sorted(((jsonable(s["cfg"]), jsonable(s["out"])) for s in r.dump), key=lambda x: repr(sorted(x[0].items())))
        if tier == "thorough" and len(dump) > CAP_THOROUGH:
            # "none" configurations (nothing external) cost nothing and say little: keep a tenth of them, then cap
            rnd = random.Random(seed)
            dump = [d for d in dump if d[1]["expected"] != "none" or rnd.random() < 0.1]
            if len(dump) > CAP_THOROUGH:
                dump = rnd.sample(dump, CAP_THOROUGH)
            exhaustive = False
        corrupt = os.environ.get("VERIF_C28_CORRUPT", "")
        jobs = []
        for k, (c, o) in enumerate(dump):
            cid = "".join("%s=%s;" % kv for kv in sorted(c.items()))
            j = {"cfg": c, "jit": jitter(cid, seed) if tier == "thorough" else None}
            model_out[k] = o
            jobs.append(j)
        if corrupt:
            k = next(k for k, (c, o) in enumerate(dump) if o["expected"] == "equiv" and o["rei_regular"] and o["xward_coupled"])
            jobs[k]["corrupt"] = corrupt
    cases = pool_map(observe, jobs, procs=int(os.environ.get("VERIF_PROCS", "16")))
    for c, j in zip(cases, jobs):
        c["job"] = {"cfg": j["cfg"], "jit": j.get("jit")}
    slim = [{k: c[k] for k in SLIM} for c in cases]
    fails, st = tlc_obs("GridEqObs", "GridEqObs.cfg", slim, chunk=4000, workers=8)
    # feature classes (decided by TLC) of the cases that fail or do not converge -> structural finding keys
    look = sorted({i for _, i in fails} | {i for i, c in enumerate(cases) if c["outcome"] == "eq_not_converged"})
    tags = {i: {"rei_regular": True, "xward_coupled": True, "ext_connected": True} for i in look}
    st2 = {"states": 0, "generated": 0}
    if look:
        tf, st2 = tlc_obs("GridEqObs", "GridEqTags.cfg", [slim[i] for i in look], workers=4)
        for name, k in tf:
            tags[look[k]][{"Tag_ReiRegular": "rei_regular", "Tag_XwardCoupled": "xward_coupled", "Tag_ExtConnected": "ext_connected"}[name]] = False

    def feature(i):
        c, t = cases[i], tags[i]
        if c["cfg"]["eq"] == "rei":
            return "regular_rei_stars" if t["rei_regular"] else "two_rei_stars_on_one_external_bus"
        if c["cfg"]["eq"] == "xward":
            return "coupled" if t["xward_coupled"] else "retained_part_coupled_only_through_external_pv_buses"
        return "ward"
    for name, i in fails:
        c = cases[i]
        key = "C28|%s|eq=%s|%s" % (name, c["cfg"]["eq"], feature(i))
        if name == "C28_EquivalentReturned":
            key += "|%s|%s" % (c["outcome"], c["err"].split(":")[0])
        if name == "C28_OriginalUnchanged":
            key = "C28|%s|eq=%s|%s" % (name, c["cfg"]["eq"], ",".join(c["changed"])[:80])
        worst = max([abs(a - b) for a, b, p in zip(c["orig"]["vm"] + c["orig"]["va"], c["eq"]["vm"] + c["eq"]["va"], c["eq"]["present"] * 2)
                     if p and a < 2000000000] or [0])
        v.violation(key, "%s: cfg=%s outcome=%s %s groups=%s max|dv|=%d micro-units changed=%s" % (
            name, c["cfg"], c["outcome"], c["err"], c["groups"], worst, c["changed"]), {"job": c["job"]})
    conf, st3 = tlc_obs("GridEqObs", "GridEqConf.cfg", slim, chunk=4000, workers=8)
    for name, i in conf:
        c = cases[i]
        v.divergence("%s: cfg=%s outcome=%s %s groups=%s present=%s" % (name, c["cfg"], c["outcome"], c["err"], c["groups"], c["eq"]["present"]))
    ok = [c for c in cases if c["outcome"] == "ok"]
    notconv = [i for i, c in enumerate(cases) if c["outcome"] == "eq_not_converged"]
    v.coverage = {
        "states": states + st["states"] + st2["states"] + st3["states"],
        "transitions": trans + st["generated"] + st2["generated"] + st3["generated"],
        "traces_validated_against_impl": len(cases), "evaluations": len(cases), "exhaustive": exhaustive,
        "model_states": n_model, "equivalents_solved": len(ok),
        "by_outcome": {o: sum(1 for c in cases if c["outcome"] == o) for o in sorted({c["outcome"] for c in cases})},
        "by_eq_type_solved": {e: sum(1 for c in ok if c["cfg"]["eq"] == e) for e in ("ward", "xward", "rei")},
        "eq_not_converged_by_feature": {f: sum(1 for i in notconv if feature(i) == f) for f in sorted({feature(i) for i in notconv})},
        "solved_with_fallback_start_or_tolerance": sum(1 for c in ok if c["init"] != "auto/1e-09"),
        "slack_moved_to_boundary": sum(1 for c in ok if c["cfg"]["slack"] not in c["cfg"]["bnd"] and c["cfg"]["slack"] in c["groups"]["bnd"]),
        "external_with_pv_gens": sum(1 for c in ok if c["cfg"]["gens"] and set(c["groups"]["ext"]) & {1, 4}),
        "external_disconnected": sum(1 for k, c in enumerate(cases) if c["outcome"] == "ok" and model_out.get(k, {}).get("ext_connected") is False),
        "distinct_nontrivial": len({repr(sorted(c["cfg"].items())) for c in ok if len(c["groups"]["ext"]) >= 2 and len(c["groups"]["int"]) >= 1}),
        "rule": "every call get_equivalent(net, eq, boundary, seeds) that GridEq.tla enumerates for TIER=%s (non-empty boundary of "
                "<= %d buses, %s internal seed buses outside it, eq in ward/xward/rei, network variants slack at 0/5, with/without "
                "PV gens%s)%s is executed; non-trivial = an equivalent was returned and solved, >=2 external buses replaced and >=1 "
                "internal bus kept" % (tier, 3 if tier == "quick" else 4, "1" if tier == "quick" else "1-3",
                                        "" if tier == "quick" else ", spur out of service",
                                        "" if exhaustive else " (seeded sample: all but 10%% of the nothing-external calls dropped, cap %d)" % CAP_THOROUGH),
        "samples": [{k: c[k] for k in SLIM} for c in (cases[0], (ok or cases)[len(ok) // 2], cases[-1])],
    }
    v.assumptions = [
        "template Tmesh7 only (7 buses at 110 kV, two rings, two tie lines, one spur; loads, one sgen, optional PV gens)",
        "buses of the equivalent are identified with original buses by their name (the convention of pandapower's own tests)",
        "get_equivalent(..., calculate_voltage_angles=True), defaults otherwise; equivalent solved with runpp(tolerance_mva=1e-9, "
        "calculate_voltage_angles=True), falling back to tolerance_mva=1e-8 and then a flat start; an equivalent that still does not converge "
        "is counted, not flagged",
        "an exception other than the documented ValueError for unsupplied boundary buses counts as a violation "
        "(C28_EquivalentReturned) when the boundary is valid and something external exists",
        "original unchanged = harness.netstate.value_snapshot/value_diff over every input table of the net passed in",
    ]
    return v.finish()
