"""C26 — topology graphs represent exactly the energising connections (DESIGN §4, with C07)."""
import os
import random
import shutil
import tempfile

from ..common import Verdict, pool_map, use_repo
from ..obs import tlc_obs
from ..templates import T4_FLAGS, apply_T4, build_T4
from ..tla import SPEC_DIR, jsonable, run_tlc
from .c07 import cfg_text

QUICK_FREE = ["s0", "s1", "s3", "s5", "l0", "l3", "w1", "b2"]
_NET = None


def observe(case):
    import networkx as nx  # noqa
    import pandapower.topology as top
    global _NET
    if _NET is None:
        _NET = build_T4()
    net = _NET
    f, o = case["f"], case["o"]
    apply_T4(net, f)
    kw = dict(respect_switches=o["rs"], include_out_of_service=o["oos"], include_lines="line" in o["inc"],
              include_trafos="trafo" in o["inc"], include_trafo3ws="trafo3w" in o["inc"],
              include_switches="switch" in o["inc"], nogobuses=set(o["nogo"]) or None,
              notravbuses=set(o["notrav"]) or None)
    obs = {"f": f, "o": o, "err": ""}
    try:
        mg = top.create_nxgraph(net, **kw)
    except Exception as e:  # noqa  -- decided by C26_NoError in TLC
        obs.update({"err": type(e).__name__, "nodes": [], "adj": [], "comps": [], "dist": [], "dist_err": True,
                    "wdist": [], "wdist_err": True})
        return obs
    obs["nodes"] = sorted(int(n) for n in mg.nodes())
    adj = set()
    for u, nb in mg._adj.items():
        for v2, keys in nb.items():
            for key in keys:
                adj.add((int(u), int(v2), str(key[0]), int(key[1])))
    obs["adj"] = sorted(adj)
    comps = list(top.connected_components(mg, notravbuses=set(o["notrav"])))
    obs["comps"] = sorted(sorted(int(b) for b in c) for c in comps)
    try:
        d = top.calc_distance_to_bus(net, 0, respect_switches=o["rs"], nogobuses=set(o["nogo"]) or None,
                                     notravbuses=set(o["notrav"]) or None, weight=None)
        obs["dist"] = sorted([int(b), int(x)] for b, x in d.items())
        obs["dist_err"] = False
    except Exception:  # source bus not in the graph
        obs["dist"] = []
        obs["dist_err"] = True
    try:
        d = top.calc_distance_to_bus(net, 0, respect_switches=o["rs"], nogobuses=set(o["nogo"]) or None,
                                     notravbuses=set(o["notrav"]) or None, weight="weight")
        obs["wdist"] = sorted([int(b), int(round(float(x) * 1000))] for b, x in d.items())
        obs["wdist_err"] = False
    except Exception:  # source bus not in the graph
        obs["wdist"] = []
        obs["wdist_err"] = True
    return obs


def run(tier, seed, replay=None):
    v = Verdict("C26", tier, seed, "model_checking")
    use_repo()
    rnd = random.Random(seed)
    if tier == "quick":
        free = list(QUICK_FREE) if seed == 0 else rnd.sample([x for x in T4_FLAGS if x not in ("e0", "e1", "g0", "g1", "z0")], 8)
    else:
        free = [x for x in T4_FLAGS if x not in ("e0", "e1", "g0", "g1", "z0")]
        for x in rnd.sample(free, 2):
            free.remove(x)
    pin_true = sorted(set(T4_FLAGS) - set(free))
    if replay:
        todo = [{"f": replay["case"]["f"], "o": replay["case"]["o"]}]
        states = trans = 1
    else:
        wd = tempfile.mkdtemp(prefix="ppverif_c26_")
        try:
            with open(os.path.join(SPEC_DIR, "TopoC26.cfg")) as fh:
                base = fh.read()
            with open(os.path.join(wd, "TopoC26.cfg"), "w") as fh:
                fh.write(cfg_text(base, pin_true, [], ball=2 if tier == "quick" else 3))
            r = run_tlc("TopoC26", "TopoC26.cfg", workdir=wd, dump=True, timeout=3000)
        finally:
            shutil.rmtree(wd, ignore_errors=True)
        for name, st, raw in r.violations:
            v.divergence("model-level: invariant %s violated" % name, jsonable(st))
        todo = [jsonable({"f": s["f"], "o": s["o"]}) for s in r.dump]
        states, trans = r.distinct, r.transitions
    cases = pool_map(observe, todo)
    fails, st = tlc_obs("TopoC26Obs", "TopoC26Obs.cfg", cases)
    for name, i in fails:
        c = cases[i]
        if c["err"] and name != "C26_NoError":
            continue        # nothing was returned; the error itself is the violation
        v.violation("C26|%s%s" % (name, "|" + c["err"] if c["err"] else ""), "%s fails: open/out=%s opts=%s" % (
            name, "".join(k for k in T4_FLAGS if not c["f"][k]) or "-", c["o"]), c)
    nontriv = len({(tuple(map(tuple, c["adj"])), str(c["o"])) for c in cases
                   if c["adj"] and (c["o"] != {"rs": True, "oos": False, "nogo": [], "notrav": [],
                                                "inc": ["line", "switch", "trafo", "trafo3w"]})
                   and any(not c["f"][k] for k in c["f"])})
    v.coverage = {
        "states": states + st["states"], "transitions": trans + st["generated"],
        "traces_validated_against_impl": len(cases), "exhaustive": True, "evaluations": len(cases),
        "distinct_nontrivial": nontriv,
        "rule": "every (configuration within 2 [thorough: 3] flag flips of the base point, option record) of template T4 is replayed on "
                "create_nxgraph / connected_components / calc_distance_to_bus; non-trivial = distinct (graph, options) "
                "with non-default options, a non-empty graph and >=1 flag off",
        "model_states": states, "samples": [cases[k] for k in range(0, len(cases), max(1, len(cases) // 3))][:3],
    }
    v.assumptions = ["template T4; options rs/oos/include_*/nogobuses {1}/notravbuses {2}; MultiGraph, networkx library",
                     "notravbuses semantics taken as implemented: edges pointing away from a notrav bus are removed"]
    return v.finish()
