"""C05 -- power flow results are invariant under equivalent re-representations (DESIGN 5; EquivDef.tla, Equiv.tla, EquivObs.tla).

TLC chooses transformation x target x base variant and computes the transformed abstract network and the correspondence of
observation keys; the harness instantiates both networks (harness/equiv.py), TLC evaluates the correspondence."""
from ..equiv import run_prop


def run(tier, seed, replay=None):
    return run_prop("C05", tier, seed, replay=replay)
