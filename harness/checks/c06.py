"""C06 — all power flow algorithms and back-ends agree on the solution (DESIGN §5, Solvers*.tla).

TLC enumerates network classes x calculate_voltage_angles x solver configurations (spec/Solvers.tla, dumped); every
dumped Solve step is executed on the real code (S->I): the class is instantiated on a template net, runpp is called with
the arguments of the step's plan, and outcome / resolved options / call trace / result tables are recorded.
spec/SolversObs.tla (TLC) decides the property clauses and the conformance of the model on those records.
Python only drives: it never compares results.
"""
import contextlib
import copy
import io
import os
import random
import time

from ..common import NINF, PINF, Verdict, digest, fx, pool_map, use_repo
from ..obs import tlc_obs
from ..tla import MachineryError, jsonable, run_tlc

PROCS = int(os.environ.get("VERIF_PROCS", "16") or 16)

# ---- level tables (fixed next to the spec constants of SolversDef.tla) -----------------------------------------
LOAD_MW = {"light": 0.1, "moderate": 0.4}          # per 20 kV bus, x (1 + 0.1 j) for template bus j; q = 0.25 p
LV_FACTOR = 0.25                                   # load on the 0.4 kV bus behind the transformer(s)
LINE_KM = {"a": 2.0, "b": 1.5, "d": 2.5, "c": 1.0, "e": 1.8}
SHIFT = {"none": 0.0, "t0": 0.0, "t150": 150.0}
VM_SLACK, VM_PV, P_PV = 1.02, 1.02, 0.3
LINES = ["a", "b", "d", "c", "e"]                  # row order of net.line per island
LINE_ENDS = {"a": (0, 1), "b": (1, 2), "d": (0, 2), "c": (2, 3), "e": (1, 3)}
TRAFOS = ["c", "e"]                                # row order of net.trafo per island (hv = LINE_ENDS[x][0])

_TPL = {}
_BASE = {}
_TRACE = []
_INSTR = {"done": False, "ok": False}


def template(k):
    """Super-template with k islands: every optional element of the class space exists; a class is selected by flags."""
    import pandapower as pp
    from ..templates import line, trafo
    if k in _TPL:
        return _TPL[k]
    net = pp.create_empty_network()
    for isl in range(k):
        b = [pp.create_bus(net, 20.0, name="i%d_b%d" % (isl, j)) for j in range(4)]
        for x in LINES:
            f, t = LINE_ENDS[x]
            line(pp, net, b[f], b[t], km=LINE_KM[x], name="i%d_%s" % (isl, x))
        for x, sn in zip(TRAFOS, (1.0, 0.63)):
            f, t = LINE_ENDS[x]
            trafo(pp, net, b[f], b[t], sn=sn, name="i%d_%s" % (isl, x))
        pp.create_ext_grid(net, b[0], vm_pu=VM_SLACK)
        pp.create_ext_grid(net, b[1], vm_pu=VM_SLACK)
        pp.create_ext_grid(net, b[2], vm_pu=VM_SLACK)          # the extra slack ("xs")
        pp.create_gen(net, b[0], p_mw=0.0, vm_pu=VM_SLACK, slack=True)
        pp.create_gen(net, b[1], p_mw=0.0, vm_pu=VM_SLACK, slack=True)
        pp.create_gen(net, b[2], p_mw=P_PV, vm_pu=VM_PV)
        for j in range(4):
            pp.create_load(net, b[j], p_mw=0.1, q_mvar=0.025)
    _TPL[k] = net
    return net


def configure(c, jit):
    """deep copy of the template with the flags / levels of class c (list of island descriptors)."""
    import numpy as np
    net = copy.deepcopy(template(len(c)))
    rnd = random.Random(jit) if jit >= 0 else None
    j = (lambda: 1.0 + 0.2 * (2 * rnd.random() - 1)) if rnd else (lambda: 1.0)
    line_is, trafo_is, eg_is, gen_is = [], [], [], []
    for isl, d in enumerate(c):
        lv = d["trafo"] != "none"
        loops = {"radial": 0, "loop1": 1, "loop2": 2}[d["topo"]]
        present = {"a": True, "b": True, "d": loops >= 1, "c": True, "e": loops >= 2}
        for x in LINES:
            line_is.append(present[x] and not (lv and x in TRAFOS))
            net.line.at[5 * isl + LINES.index(x), "length_km"] = LINE_KM[x] * j()
        for x in TRAFOS:
            trafo_is.append(present[x] and lv)
            net.trafo.at[2 * isl + TRAFOS.index(x), "shift_degree"] = SHIFT[d["trafo"]]
        net.bus.at[4 * isl + 3, "vn_kv"] = 0.4 if lv else 20.0
        eg_is += [d["slack"] == "ext_grid" and d["spos"] == 0, d["slack"] == "ext_grid" and d["spos"] == 1, bool(d["xs"])]
        gen_is += [d["slack"] == "gen" and d["spos"] == 0, d["slack"] == "gen" and d["spos"] == 1, bool(d["pv"])]
        net.gen.at[3 * isl + 2, "p_mw"] = P_PV * j()
        for b in range(4):
            p = LOAD_MW[d["load"]] * (1 + 0.1 * b) * (LV_FACTOR if (b == 3 and lv) else 1.0) * j()
            net.load.at[4 * isl + b, "p_mw"] = p
            net.load.at[4 * isl + b, "q_mvar"] = 0.25 * p * j()
    net.line["in_service"] = np.array(line_is, dtype=bool)
    net.trafo["in_service"] = np.array(trafo_is, dtype=bool)
    net.ext_grid["in_service"] = np.array(eg_is, dtype=bool)
    net.gen["in_service"] = np.array(gen_is, dtype=bool)
    return net


def instrument():
    """Record which kernels a run enters (module attributes wrapped in this process only; nothing in /repo is edited).
    If a name is gone the trace is switched off (runs report traced = False) instead of guessing."""
    if _INSTR["done"]:
        return _INSTR["ok"]
    _INSTR["done"] = True
    import importlib
    table = [("pandapower.powerflow", "_run_newton_raphson_pf", "run_newton"),
             ("pandapower.powerflow", "_runpf_pypower", "run_pypower"),
             ("pandapower.powerflow", "_run_bfswpf", "run_bfsw"),
             ("pandapower.powerflow", "_bypass_pf_and_set_results", "bypass"),
             ("pandapower.pf.run_newton_raphson_pf", "_run_dc_pf", "dcpf"),
             ("pandapower.pf.runpf_pypower", "_run_dc_pf", "dcpf"),
             ("pandapower.pf.run_newton_raphson_pf", "newtonpf", "newtonpf"),
             ("pandapower.pf.run_newton_raphson_pf", "newton_ls", "newton_ls"),
             ("pandapower.pf.run_newton_raphson_pf", "pf_solution_single_slack", "pfsoln_single_slack"),
             ("pandapower.pf.run_newton_raphson_pf", "pfsoln_numba", "pfsoln_numba"),
             ("pandapower.pf.run_newton_raphson_pf", "pfsoln_pypower", "pfsoln_pypower"),
             ("pandapower.pf.runpf_pypower", "fdpf", "fdpf"),
             ("pandapower.pf.runpf_pypower", "gausspf", "gausspf"),
             ("pandapower.pf.runpf_pypower", "pfsoln", "pfsoln_pypower"),
             ("pandapower.pf.run_bfswpf", "_make_bibc_bcbv", "make_bibc_bcbv"),
             ("pandapower.pf.run_bfswpf", "_bfswpf", "bfswpf"),
             ("pandapower.pf.run_bfswpf", "pfsoln", "pfsoln_pypower")]
    todo = []
    for modname, attr, label in table:
        try:
            mod = importlib.import_module(modname)
            fn = getattr(mod, attr)
        except Exception:  # noqa
            return False
        if not callable(fn):
            return False
        todo.append((mod, attr, fn, label))

    def wrap(fn, label):
        def inner(*a, **kw):
            _TRACE.append(label)
            return fn(*a, **kw)
        return inner
    for mod, attr, fn, label in todo:
        setattr(mod, attr, wrap(fn, label))
    _INSTR["ok"] = True
    return True


def fxs(x):
    try:
        return fx(x)
    except OverflowError:
        return PINF if x > 0 else NINF


def kwargs_of(req, cva):
    """runpp arguments of one plan.req record of the specification (SolversDef!SolverCfg)."""
    kw = dict(algorithm=req["alg"], init=req["init"], max_iteration=int(req["maxit"]), tolerance_mva=1e-9,
              calculate_voltage_angles=bool(cva), numba=bool(req["numba"]))
    if req["ls2g"] != "auto":
        kw["lightsim2grid"] = req["ls2g"] == "on"
    if req["alg"] == "bfsw":        # tightest setting of the sweep's inner PV loop (run_bfswpf.py:236-244)
        kw.update(tolerance_mva_pv=1e-9, max_iter_pv=200)
    return kw


def one_run(net, req, cva, traced):
    import pandapower as pp
    from pandapower.auxiliary import LoadflowNotConverged
    before = net.get("_options", None)
    del _TRACE[:]
    etype = ""
    try:
        with contextlib.redirect_stdout(io.StringIO()):
            pp.runpp(net, **kwargs_of(req, cva))
        out = "ok" if bool(net.converged) else "not_converged"
    except LoadflowNotConverged:
        out = "not_converged"
    except Exception as e:  # noqa
        out, etype = "error", type(e).__name__
    calls = list(_TRACE)
    o = net.get("_options", None)
    seen = isinstance(o, dict) and o is not before and "algorithm" in o
    opts = {"alg": "-", "init_vm": "-", "init_va": "-", "maxit": 0, "numba": False, "ls2g": False}
    if seen:
        ivm, iva = o.get("init_vm_pu"), o.get("init_va_degree")
        opts = {"alg": str(o.get("algorithm")), "init_vm": ivm if isinstance(ivm, str) else "mean",
                "init_va": iva if isinstance(iva, str) else "values", "maxit": int(o.get("max_iteration") or 0),
                "numba": bool(o.get("numba")), "ls2g": bool(o.get("lightsim2grid"))}
    r = {"out": out, "etype": etype, "seen": bool(seen), "opts": opts, "traced": bool(traced), "calls": calls}
    cols = {"vm": ("res_bus", "vm_pu"), "va": ("res_bus", "va_degree"), "pl": ("res_line", "p_from_mw"),
            "ql": ("res_line", "q_from_mvar"), "pt": ("res_line", "p_to_mw"), "qt": ("res_line", "q_to_mvar"),
            "ph": ("res_trafo", "p_hv_mw"), "qh": ("res_trafo", "q_hv_mvar"), "pe": ("res_ext_grid", "p_mw"),
            "qe": ("res_ext_grid", "q_mvar"), "pg": ("res_gen", "p_mw"), "qg": ("res_gen", "q_mvar")}
    for k, (tab, col) in cols.items():
        r[k] = [fxs(x) for x in net[tab][col].values] if out == "ok" else []
    return r


def observe(item):
    """One Solve step of the model on the real code.  item = {c, cva, jit, s, req, res0, pre}: pre = plan.req of the runs
    that precede it on the same net object (the reference run when res0)."""
    use_repo()
    traced = instrument()
    key = digest([item["c"], item["jit"]])
    if key not in _BASE:
        _BASE.clear()
        _BASE[key] = configure(item["c"], item["jit"])
    net = copy.deepcopy(_BASE[key])
    for q in item["pre"]:
        pr = one_run(net, q, item["cva"], traced)
        if pr["out"] != "ok":
            # the behaviour of the model continues only after a converged reference run
            return {"s": item["s"], "req": item["req"], "res0": bool(item["res0"]), "out": "not_converged", "etype": "",
                    "seen": False, "opts": {"alg": "-", "init_vm": "-", "init_va": "-", "maxit": 0, "numba": False, "ls2g": False},
                    "traced": False, "calls": [], **{k: [] for k in ("vm", "va", "pl", "ql", "pt", "qt", "ph", "qh", "pe", "qe", "pg", "qg")}}
    r = one_run(net, item["req"], item["cva"], traced)
    r.update({"s": item["s"], "req": item["req"], "res0": bool(item["res0"])})
    return r


def items_of(case):
    ref = case["runs"].get("nr", {}).get("req")
    out = []
    for s in sorted(case["runs"]):
        q = case["runs"][s]
        out.append({"c": case["c"], "cva": case["cva"], "jit": case["jit"], "s": s, "req": q["req"], "res0": q["res0"],
                    "pre": [ref] if q["res0"] else []})
    return out


def thorough_cfg(text):
    rep = {'TrafoKinds = {"none", "t150"}': 'TrafoKinds = {"none", "t0", "t150"}',
           'Loads = {"moderate"}': 'Loads = {"light", "moderate"}',
           'PVsA = {FALSE}': 'PVsA = {FALSE, TRUE}',
           'TrafoKindsA = {"none"}': 'TrafoKindsA = {"none", "t150"}',
           'PV2s = {FALSE}': 'PV2s = {FALSE, TRUE}',
           'TrafoKinds2 = {"t150"}': 'TrafoKinds2 = {"t0", "t150"}'}
    for a, b in rep.items():
        if a not in text:
            raise MachineryError("Solvers.cfg: constant line %r not found" % a)
        text = text.replace(a, b)
    return text


def model_cases(tier, seed, v):
    """Run the model, group the dumped Solve steps by (class, cva).  Returns (cases, states, transitions, extra)."""
    import shutil
    import tempfile
    from ..tla import SPEC_DIR
    wd = tempfile.mkdtemp(prefix="ppverif_c06_")
    try:
        cfg = open(os.path.join(SPEC_DIR, "Solvers.cfg")).read()
        if tier == "thorough":
            cfg = thorough_cfg(cfg)
        open(os.path.join(wd, "Solvers.cfg"), "w").write(cfg)
        r = run_tlc("Solvers", "Solvers.cfg", workdir=wd, dump=True, workers=PROCS)
        for name, st, raw in r.violations:
            v.divergence("model-level invariant %s violated" % name, None)
        d = run_tlc("Solvers", "SolversDesign.cfg", workdir=wd, workers=2, cont=False)
        # model-level counterexample of the design requirement D_BfswSound: informative only (DESIGN 1: a counterexample of
        # the model is never reported by itself; the replay of every class below is what decides)
        design = []
        for name, st, raw in d.violations:
            last = st[-1] if isinstance(st, list) and st else st
            design.append({"invariant": name, "net": jsonable(last["net"]) if isinstance(last, dict) and "net" in last else None})
    finally:
        shutil.rmtree(wd, ignore_errors=True)
    cases = {}
    for st in r.dump:
        net, step = st["net"], st["step"]
        k = digest(jsonable([net["c"], net["cva"]]))
        c = cases.setdefault(k, {"c": jsonable(list(net["c"])), "cva": bool(net["cva"]), "jit": -1, "feat": None, "runs": {}})
        if step["kind"] == "classify":
            c["feat"] = jsonable(step["feat"])
        elif step["kind"] == "solve":
            c["runs"][step["s"]] = {"req": jsonable(step["plan"]["req"]), "res0": bool(step["res0"])}
    out = [cases[k] for k in sorted(cases)]
    for c in out:
        if c["feat"] is None or "nr" not in c["runs"]:
            raise MachineryError("dump of Solvers.tla incomplete for class %s" % (c["c"],))
        if tier == "thorough":
            c["jit"] = (seed * 1000003 + int(digest([c["c"], c["cva"]]), 16)) % (2 ** 31)
    return out, r.distinct + d.distinct, r.transitions + d.transitions, {"design_counterexample": design}


def key_of(name, case):
    f = case["feat"]
    if name in ("C06_BfswNoInternalError", "C06_BfswMustSolve"):
        b = case["runs"]["bfsw"]
        return "C06|%s|bfsw:index_model=%s:%s" % (name, f["bfswpred"], b["etype"] or b["out"])
    s = name[len("C06_Same_"):]
    pred = "angle_model_predicts_error" if (s == "bfsw" and f["angleerr"]) else "unpredicted"
    return "C06|%s|%s:%s" % (name, pred, "shifted_trafo" if f["shifted"] else "no_shift")


def run(tier, seed, replay=None):
    v = Verdict("C06", tier, seed, "exploration")
    use_repo()
    extra = {}
    t0 = time.time()
    if replay:
        cases = [replay["case"]]
        states = trans = 1
    else:
        cases, states, trans, extra = model_cases(tier, seed, v)
    t1 = time.time()
    items = [it for c in cases for it in items_of(c)]
    per = len(items) // max(1, len(cases))
    runs = pool_map(observe, items, procs=PROCS, chunksize=max(1, per))
    k = 0
    for c in cases:
        for s in sorted(c["runs"]):
            r = runs[k]
            k += 1
            if r["s"] != s:
                raise MachineryError("run/result order mismatch")
            c["runs"][s] = {x: y for x, y in r.items() if x != "s"}
    t2 = time.time()
    obs = [{"c": c["c"], "cva": c["cva"], "runs": c["runs"]} for c in cases]
    fails, st = tlc_obs("SolversObs", "SolversObs.cfg", obs, chunk=1500, workers=PROCS)
    t3 = time.time()
    extra["wall_split_s"] = {"model_tlc": round(t1 - t0, 1), "implementation_runs": round(t2 - t1, 1), "observation_tlc": round(t3 - t2, 1)}
    ndiv = {}
    for name, i in fails:
        c = cases[i]
        if name.startswith("C06_Conf"):
            ndiv[name] = ndiv.get(name, 0) + 1
            if ndiv[name] <= 3:
                v.divergence("%s: class=%s cva=%s" % (name, c["c"], c["cva"]),
                             {"c": c["c"], "cva": c["cva"], "outcomes": {s: (r["out"], r["etype"], r["calls"], r["opts"]) for s, r in c["runs"].items()}})
            continue
        b = c["runs"].get("bfsw", {})
        v.violation(key_of(name, c), "%s: class=%s cva=%s (bfsw: %s %s)" % (name, c["c"], c["cva"], b.get("out"), b.get("etype")), c)
    # ---- coverage (counting only) ------------------------------------------------------------------------------
    outc, compared = {}, 0
    refok = nontriv = appl = must = 0
    for c in cases:
        ok = c["runs"]["nr"]["out"] == "ok"
        refok += ok
        f = c["feat"]
        appl += bool(ok and f["applicable"])
        must += bool(ok and f["mustsolve"])
        nok = 0
        for s, r in c["runs"].items():
            o = outc.setdefault(s, {"ok": 0, "not_converged": 0, "error": 0})
            o[r["out"]] += 1
            if s != "nr" and ok and r["out"] == "ok":
                nok += 1
        compared += nok
        if ok and nok >= 8 and (f["nisl"] > 1 or f["maxloops"] > 0 or f["npv"] > 0 or f["shifted"]):
            nontriv += 1
    nruns = sum(len(c["runs"]) + sum(1 for r in c["runs"].values() if r["res0"]) for c in cases)
    samples = []
    for c in cases[::max(1, len(cases) // 3)][:3]:
        samples.append({"c": c["c"], "cva": c["cva"], "feat": c["feat"],
                        "outcomes": {s: r["out"] + (":" + r["etype"] if r["etype"] else "") for s, r in c["runs"].items()},
                        "vm_nr": c["runs"]["nr"]["vm"], "calls_nr": c["runs"]["nr"]["calls"]})
    v.coverage = {
        "states": states + st["states"], "transitions": trans + st["generated"],
        "traces_validated_against_impl": nruns, "evaluations": len(cases), "distinct_nontrivial": nontriv,
        "exhaustive": not replay,
        "rule": "every class of Solvers.cfg (1-2 islands of the 4-bus template: topology radial/1 loop/2 loops, slack kind and "
                "position, PV gen, second slack, 20/0.4 kV transformers with 0/150 degree shift in the first, the second or "
                "(thorough) both islands, load level) x "
                "calculate_voltage_angles x 13 solver configurations; non-trivial = reference converged, >= 8 alternative "
                "configurations returned and were compared, and the class has 2 islands, a loop, a PV gen or a shifting transformer",
        "reference_converged": refok, "pairs_compared_with_reference": compared,
        "bfsw_applicable_and_ref_ok": appl, "bfsw_mustsolve_and_ref_ok": must, "outcomes": outc,
        "conformance_failures": ndiv, "runs_with_call_trace": sum(1 for c in cases for r in c["runs"].values() if r["traced"]),
        "samples": samples,
    }
    v.coverage.update(extra)
    v.assumptions = [
        "classes are copies of one 4-bus template (no parallel branches, no switches, no ZIP loads, no shunts); loading light/moderate only",
        "'weakly meshed' is read as at most one independent loop per island (SolversDef!WeakLoopMax)",
        "nr_flat is not compared when voltage angles are calculated and a 150 degree transformer is present (second solution of the "
        "power flow equations reached from a flat start; run.py documents init='dc' for that case)",
        "bfsw is run with tolerance_mva_pv=1e-9, max_iter_pv=200; every solver with tolerance_mva=1e-9 and the max_iteration of SolversDef!SolverCfg",
        "a LoadflowNotConverged of an alternative solver is counted, never flagged, outside BfswMustSolve",
        "thorough tier: seeded multiplicative jitter (+-20 %) on line lengths, loads and PV injection",
    ]
    return v.finish()
