"""C13 — controller loop: terminates with converged controllers and fresh results (DESIGN §4, ControlLoop*.tla).

S->I: every initial state of ControlLoop.tla (controller kinds/levels/orders/sides/bands x abstract plant) is instantiated
      with the REAL controller classes on a real net and the REAL run_control, whose run= function is a stub that implements
      exactly the model's plant (voltage = linear function of the tap positions).
I->S: the same controller structures on a real feeder with real power flows (runpp), entered through run_control and through
      runpp(run_control=True).
Every controller instance and the run function are wrapped; the recorded event trace is folded through ControlLoopDef by TLC.
"""
import copy
import math
import os
import random

from ..common import Verdict, fx, pool_map, use_repo, NAN
from ..obs import tlc_obs
from ..tla import jsonable, run_tlc

_BASE = {}
EVKEYS = ("ev", "c", "r", "vm", "t0", "t1", "exc")
SIDE_OF = {1: ("hv", "lv"), -1: ("lv", "lv")}       # coeff -> (tap_side, controlled side)   trafo_control.py:104-121
SIDE_ALT = {1: ("lv", "hv"), -1: ("hv", "hv")}
# three-winding transformer (real plant only): tap at hv controls the mv voltage like a 2W transformer (coeff 1); a tap at the
# mv terminal acts on the mv voltage in the opposite sense (coeff -1)            trafo_control.py:104-121
SIDE_3W = {1: ("hv", "mv"), -1: ("mv", "mv")}


def ev(e, c=0, r=True, vm=0, t0=0, t1=0, exc=""):
    return {"ev": e, "c": c, "r": bool(r), "vm": vm, "t0": t0, "t1": t1, "exc": exc}


def feeder():
    """110 kV grid - line - T1 110/20 - line - T2 20/0.4 ; loads at the 20 kV and the 0.4 kV bus."""
    import pandapower as pp
    from ..templates import trafo
    if "net" in _BASE:
        return _BASE["net"]
    net = pp.create_empty_network()
    b = [pp.create_bus(net, v) for v in (110.0, 110.0, 20.0, 20.0, 0.4)]
    pp.create_ext_grid(net, b[0], vm_pu=1.0)
    pp.create_line_from_parameters(net, b[0], b[1], 10.0, 0.06, 0.3, 10.0, 1.0)
    tp = dict(tap_neutral=0, tap_min=-2, tap_max=2, tap_step_percent=1.5, tap_pos=0, tap_changer_type="Ratio")
    trafo(pp, net, b[1], b[2], vn_hv=110.0, vn_lv=20.0, sn=25.0, vk_percent=12.0, vkr_percent=0.4, tap_side="hv", **tp)
    pp.create_line_from_parameters(net, b[2], b[3], 4.0, 0.12, 0.11, 10.0, 0.6)
    trafo(pp, net, b[3], b[4], vn_hv=20.0, vn_lv=0.4, sn=0.63, tap_side="hv", **tp)
    pp.create_load(net, b[2], 8.0, 2.0)
    pp.create_load(net, b[4], 0.3, 0.05)
    net.trafo["tap_pos"] = net.trafo["tap_pos"].astype(float)
    _BASE["net"] = net
    return net


def trafo_bus(net, t, side, tab="trafo"):
    return int(net[tab].at[t, side + "_bus"])


def with_trafo3w(net):
    """replace T1 (110/20) by a three-winding transformer 110/20/10 with a small load at the 10 kV side"""
    import pandapower as pp
    from ..templates import trafo3w
    b10 = pp.create_bus(net, 10.0)
    net.trafo.at[0, "in_service"] = False
    trafo3w(pp, net, 1, 2, b10, vn=(110.0, 20.0, 10.0), sn_hv_mva=40.0, sn_mv_mva=25.0, sn_lv_mva=15.0, vk_hv_percent=12.0,
            vk_mv_percent=10.0, vk_lv_percent=10.0, vkr_hv_percent=0.4, vkr_mv_percent=0.4, vkr_lv_percent=0.4,
            tap_side="hv", tap_neutral=0, tap_min=-2, tap_max=2, tap_step_percent=1.5, tap_pos=0, tap_changer_type="Ratio")
    pp.create_load(net, b10, 1.0, 0.2)
    net.trafo3w["tap_pos"] = net.trafo3w["tap_pos"].astype(float)


def build(case):
    """controllers exactly as the abstract configuration says; returns (net, list of (cid, ctrl, kind, trafo index, bus))"""
    from pandapower.control import ConstControl, ContinuousTapControl, DiscreteTapControl
    net = copy.deepcopy(feeder())
    cfg = case["cfg"]
    out = []
    if case.get("t3w"):
        with_trafo3w(net)
    for k, c in enumerate(cfg["ctrl"]):
        cid = k + 1
        tab, ti = ("trafo3w", 0) if (case.get("t3w") and k == 0) else ("trafo", k)      # controller k drives transformer k
        t = (tab, ti)
        kind = c["kind"]
        if kind in ("disc", "cont"):
            if tab == "trafo3w":
                tap_side, side = SIDE_3W[c["coeff"]]
            else:
                tap_side, side = (SIDE_ALT if case.get("alt_sides") and k == 0 else SIDE_OF)[c["coeff"]]
            net[tab].at[ti, "tap_side"] = tap_side
            net[tab].at[ti, "tap_min"] = c["tmin"] // 1000
            net[tab].at[ti, "tap_max"] = c["tmax"] // 1000
            net[tab].at[ti, "tap_pos"] = cfg["tap0"][k] / 1000.0
            net[tab].at[ti, "in_service"] = not c["oos"]
            if kind == "disc":
                ctrl = DiscreteTapControl(net, ti, vm_lower_pu=c["lo"] / 1e6, vm_upper_pu=c["hi"] / 1e6, side=side, element=tab,
                                          level=c["level"], order=c["order"], in_service=c["ins"])
            else:
                ctrl = ContinuousTapControl(net, ti, vm_set_pu=c["set"] / 1e6, tol=c["tol"] / 1e6, side=side, element=tab,
                                            level=c["level"], order=c["order"], in_service=c["ins"],
                                            check_tap_bounds=c["bounds"])
            out.append((cid, ctrl, kind, t, trafo_bus(net, ti, side, tab)))
        else:
            ctrl = ConstControl(net, "load", "p_mw", element_index=0, level=c["level"], order=c["order"], in_service=c["ins"])
            ctrl.applied = bool(cfg["applied0"][k])
            out.append((cid, ctrl, kind, None, None))
    return net, out


def tap_fx(net, t):
    """tap position in 1/1000 steps; the projection keeps "is exactly at tap_min / tap_max" (the controllers test equality):
    a float that merely ROUNDS to a limit is logged one unit away from it, on its own side"""
    x = float(net[t[0]].tap_pos.at[t[1]])
    v = int(round(x * 1000))
    for col in ("tap_min", "tap_max"):
        lim = float(net[t[0]][col].at[t[1]])
        if x != lim and v == int(round(lim * 1000)):
            v += 1 if x > lim else -1
    return v


def instrument(net, ctrls, log):
    """wrap the public controller methods of every INSTANCE (no repository change)"""
    import numpy as np

    def vm_at(bus):
        try:
            x = float(net.res_bus.vm_pu.at[bus])
        except Exception:  # noqa
            x = float("nan")
        return NAN if math.isnan(x) else int(round(x * 1e6))

    def tap_of(t):
        return tap_fx(net, t)

    for cid, ctrl, kind, t, bus in ctrls:
        def mk(cid=cid, ctrl=ctrl, kind=kind, t=t, bus=bus):
            o_init, o_reset, o_conv, o_step, o_fin = (ctrl.initialize_control, ctrl.level_reset, ctrl.is_converged,
                                                      ctrl.control_step, ctrl.finalize_control)

            def initialize_control(n):
                r = o_init(n)
                log.append(ev("init", cid))
                return r

            def level_reset(n):
                r = o_reset(n)
                log.append(ev("reset", cid))
                return r

            def is_converged(n):
                vm = vm_at(bus) if t is not None else 0
                t0 = tap_of(t) if t is not None else 0
                r = o_conv(n)
                log.append(ev("conv", cid, bool(r), vm, t0, 0))
                return r

            def control_step(n):
                vm = vm_at(bus) if t is not None else 0
                t0 = tap_of(t) if t is not None else 0
                r = o_step(n)
                log.append(ev("step", cid, True, vm, t0, tap_of(t) if t is not None else 0))
                return r

            def finalize_control(n):
                r = o_fin(n)
                log.append(ev("final", cid))
                return r
            for f in (initialize_control, level_reset, is_converged, control_step, finalize_control):
                setattr(ctrl, f.__name__, f)
        mk()


def strip(ctrls):
    for cid, ctrl, kind, t, bus in ctrls:
        for n in ("initialize_control", "level_reset", "is_converged", "control_step", "finalize_control"):
            ctrl.__dict__.pop(n, None)


def observe(case):
    import numpy as np
    import pandas as pd
    import pandapower as pp
    from pandapower.control import run_control
    cfg = case["cfg"]
    net, ctrls = build(case)
    log = []
    stub = case["plant"] == "stub"
    nruns = [0]
    if stub:
        bus_of = {cid: bus for cid, ctrl, kind, t, bus in ctrls}

        def run(n, **kw):
            nruns[0] += 1
            if cfg.get("failrun", 0) == nruns[0]:
                from pandapower.powerflow import LoadflowNotConverged
                n["converged"] = False
                raise LoadflowNotConverged("stub: calculation %d does not converge" % nruns[0])
            taps = [int(round(float(n.trafo.tap_pos.at[k]) * 1000)) if cfg["ctrl"][k]["kind"] != "const" else 0 for k in range(2)]
            vm = pd.Series(1.0, index=n.bus.index)
            for k in (0, 1):
                if bus_of.get(k + 1) is not None:
                    # the model's Plant(): integer micro-pu, floor division like TLA+ \div
                    v = cfg["base"][k] + (cfg["gain"][k][0] * taps[0]) // 1000 + (cfg["gain"][k][1] * taps[1]) // 1000
                    vm.at[bus_of[k + 1]] = v / 1e6
            n["res_bus"] = pd.DataFrame({"vm_pu": vm, "va_degree": 0.0, "p_mw": 0.0, "q_mvar": 0.0})
            n["converged"] = True
            log.append(ev("run"))
    else:
        net.ext_grid.at[0, "vm_pu"] = case["vm_grid"] / 1e6
        net.load["scaling"] = case["load_scale"] / 1000.0
        opts = dict(tolerance_mva=1e-9)

        def run(n, **kw):
            kw.pop("run_control", None)
            kw.update(opts)
            pp.runpp(n, run_control=False, **kw)
            log.append(ev("run"))
    instrument(net, ctrls, log)
    try:
        if case["entry"] == "runpp" and not stub:
            pp.runpp(net, run_control=True, run=run, max_iter=cfg["max_iter"], tolerance_mva=1e-9)
        else:
            run_control(net, run=run, max_iter=cfg["max_iter"])
        log.append(ev("return"))
    except Exception as e:  # noqa
        log.append(ev("raise", exc=type(e).__name__))
    # final state: the controllers' own verdict on it, the voltages/taps the spec needs to decide, freshness of the results
    fin = []
    returned = log[-1]["ev"] == "return"
    for cid, ctrl, kind, t, bus in ctrls:
        conv = True
        if returned and cfg["ctrl"][cid - 1]["ins"]:
            try:
                conv = bool(ctrl.__class__.is_converged(ctrl, net))
            except Exception:  # noqa
                conv = False
        vm = tp = 0
        if t is not None:
            try:
                x = float(net.res_bus.vm_pu.at[bus])
            except Exception:  # noqa
                x = float("nan")
            vm = NAN if math.isnan(x) else int(round(x * 1e6))
            tp = tap_fx(net, t)
        fin.append({"vm": vm, "tap": tp, "conv": conv})
    fresh = 0
    if returned and not stub:
        strip(ctrls)
        n2 = copy.deepcopy(net)
        try:
            pp.runpp(n2, tolerance_mva=1e-9)
            d = 0.0
            for tab, col in (("res_bus", "vm_pu"), ("res_bus", "va_degree"), ("res_trafo", "p_hv_mw"), ("res_trafo", "q_hv_mvar"),
                             ("res_line", "p_from_mw"), ("res_ext_grid", "p_mw")):
                a, b = net[tab][col].values.astype(float), n2[tab][col].values.astype(float)
                m = ~(np.isnan(a) & np.isnan(b))
                if m.any():
                    dd = np.abs(a[m] - b[m])
                    d = max(d, float(np.nanmax(dd)) if not np.isnan(dd).any() else 999.0)
            fresh = int(min(round(d * 1e6), 1e9))
        except Exception:  # noqa
            fresh = 1000000000
    return {"cfg": cfg, "trace": log, "fin": fin, "fresh": fresh, "plant": case["plant"], "entry": case["entry"],
            "case": {k: case[k] for k in case if k != "cfg"}}


def spec_cfg(c):
    """the ControlLoopDef part of a dumped model configuration (plain JSON)"""
    return jsonable(c)


def real_cases(cfgs, rnd, n):
    """the same controller structures on the real feeder: band/setpoint as in the model, plant = runpp"""
    out = []
    for c in rnd.sample(cfgs, min(n, len(cfgs))):
        c = copy.deepcopy(c)
        c["amb"] = 3
        c["max_iter"] = 30
        c["failrun"] = 0
        for k in (0, 1):
            if c["ctrl"][k]["kind"] != "const":
                c["ctrl"][k]["tmin"], c["ctrl"][k]["tmax"] = -2000, 2000
        out.append({"cfg": c, "plant": "real", "entry": rnd.choice(["run_control", "runpp"]), "t3w": rnd.random() < 0.4,
                    "vm_grid": rnd.choice([960000, 1000000, 1045000]), "load_scale": rnd.choice([300, 1000, 1600])})
    return out


def key_of(name, c):
    cfg = c["cfg"]
    ids = [k for k in cfg["ctrl"] if k["ins"]]
    multi = len({k["level"] for k in ids}) > 1
    return "C13|%s|%s" % (name, "multi_level" if multi else "single_level")


def run(tier, seed, replay=None):
    v = Verdict("C13", tier, seed, "model_checking")
    use_repo()
    rnd = random.Random(seed)
    if replay:
        todo = [dict(replay["case"]["case"], cfg=replay["case"]["cfg"])]
        states = trans = 1
        dev = None
    else:
        base = "ControlLoop" if tier == "quick" else "ControlLoopFull"
        r = run_tlc("ControlLoop", base + ".cfg", timeout=3400, heap="8g")
        for name, st, raw in r.violations:
            v.divergence("model-level: %s" % name, None)
        states, trans = r.distinct, r.transitions
        ri = run_tlc("ControlLoop", base + "Init.cfg", dump=True, timeout=1800)
        cfgs = [jsonable(s["cfg"]) for s in ri.dump]
        # the model refutes the unrestricted "all converged on return" (levels are not revisited): recorded, see DESIGN
        dev = run_tlc("ControlLoop", "ControlLoopDev.cfg", cont=False, timeout=1800)
        n_stub = 1500 if tier == "quick" else len(cfgs)
        stub = [{"cfg": c, "plant": "stub", "entry": "run_control", "alt_sides": bool(k % 2)}
                for k, c in enumerate(rnd.sample(cfgs, min(n_stub, len(cfgs))))]
        todo = stub + real_cases(cfgs, rnd, 400 if tier == "quick" else 4000)
    cases = pool_map(observe, todo)
    fails, st = tlc_obs("ControlLoopObs", "ControlLoopObs.cfg", cases, chunk=4000, jvm=("-Xss256m",))   # deep fold recursion
    for name, i in fails:
        c = cases[i]
        what = "%s: plant=%s entry=%s ctrl=%s fin=%s tail=%s" % (
            name, c["plant"], c["entry"], [(k["kind"], k["level"], k["order"], k["ins"]) for k in c["cfg"]["ctrl"]], c["fin"],
            [(e["ev"], e["c"], e["r"]) for e in c["trace"][-6:]])
        if name.startswith("DIV_"):
            v.divergence(what, None)
        else:
            v.violation(key_of(name, c), what, {"cfg": c["cfg"], "case": c["case"]})
    returned = [c for c in cases if c["trace"] and c["trace"][-1]["ev"] == "return"]
    raised = [c for c in cases if c["trace"] and c["trace"][-1]["ev"] == "raise"]
    nontriv = len({repr((c["cfg"], c["case"])) for c in cases if sum(1 for e in c["trace"] if e["ev"] == "step") >= 2})
    v.coverage = {
        "states": states + st["states"], "transitions": trans + st["generated"],
        "traces_validated_against_impl": len(cases), "evaluations": len(cases), "distinct_nontrivial": nontriv,
        "exhaustive": tier == "thorough",
        "rule": "initial states of ControlLoop.tla (2 controllers: kind x level x order x side coefficient x band x in_service x "
                "plant sign x coupling x max_iter [x failing calculation]) run on the real run_control with a stub plant, plus the "
                "same structures on a real feeder with runpp through both entry points; non-trivial = a trace with >= 2 control steps",
        "returned": len(returned), "raised": len(raised),
        "raised_kinds": sorted({c["trace"][-1]["exc"] for c in raised}),
        "events_total": sum(len(c["trace"]) for c in cases),
        "model_refutes_unrestricted_ReturnConverged": bool(dev and any(n == "ReturnConvergedAll" for n, _, _ in dev.violations)),
        "samples": [{"cfg": c["cfg"]["ctrl"], "trace": [(e["ev"], e["c"], e["r"], e["vm"], e["t1"]) for e in c["trace"]][:40]}
                    for c in (cases[0], cases[-1])],
    }
    v.assumptions = ["two controllers (DiscreteTapControl / ContinuousTapControl / ConstControl) on 2W transformers; "
                     "a three-winding transformer (tap at hv or mv, mv side controlled) replaces T1 in 40 % of the real-plant cases; "
                     "CharacteristicControl is modelled in ControlLoopDef but not instantiated",
                     "fresh-result clause compared on res_bus/res_trafo/res_line/res_ext_grid with 50 micro-units",
                     "decisions within 3 micro-pu of a band edge are accepted either way on real power flows"]
    return v.finish()
