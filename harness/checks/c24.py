"""C24 — batch creation equals one-by-one creation (DESIGN §4, Create.tla)."""
import copy
import math

from ..common import Verdict, pool_map, use_repo
from ..obs import tlc_obs
from ..tla import jsonable, run_tlc

# pair -> (single fn, batch fn, table)
FN = {
    "bus": ("create_bus", "create_buses", "bus"),
    "line_std": ("create_line", "create_lines", "line"),
    "line_par": ("create_line_from_parameters", "create_lines_from_parameters", "line"),
    "trafo_std": ("create_transformer", "create_transformers", "trafo"),
    "trafo_par": ("create_transformer_from_parameters", "create_transformers_from_parameters", "trafo"),
    "trafo3w_std": ("create_transformer3w", "create_transformers3w", "trafo3w"),
    "trafo3w_par": ("create_transformer3w_from_parameters", "create_transformers3w_from_parameters", "trafo3w"),
    "load": ("create_load", "create_loads", "load"), "sgen": ("create_sgen", "create_sgens", "sgen"),
    "gen": ("create_gen", "create_gens", "gen"), "storage": ("create_storage", "create_storages", "storage"),
    "shunt": ("create_shunt", "create_shunts", "shunt"), "ward": ("create_ward", "create_wards", "ward"),
    "switch": ("create_switch", "create_switches", "switch"),
    "impedance": ("create_impedance", "create_impedances", "impedance"),
    "poly_cost": ("create_poly_cost", "create_poly_costs", "poly_cost"),
    "pwl_cost": ("create_pwl_cost", "create_pwl_costs", "pwl_cost"),
}
# parameter groups named in Create.tla -> explicit keyword arguments
GROUPS = {
    "zero_seq_line": ["r0_ohm_per_km", "x0_ohm_per_km", "c0_nf_per_km"],
    "tapgroup": ["tap_side", "tap_neutral", "tap_min", "tap_max", "tap_step_percent", "tap_step_degree", "tap_pos",
                 "tap_changer_type"],
    "zero_seq_trafo": ["vk0_percent", "vkr0_percent", "mag0_percent", "mag0_rx", "si0_hv_partial", "vector_group"],
    "shift3w": ["shift_mv_degree", "shift_lv_degree"],
    "tapgroup3w": ["tap_side", "tap_neutral", "tap_min", "tap_max", "tap_step_percent", "tap_pos", "tap_changer_type"],
    "zip": ["const_z_p_percent", "const_i_p_percent", "const_z_q_percent", "const_i_q_percent"],
    "limits": ["max_p_mw", "min_p_mw", "max_q_mvar", "min_q_mvar"],
    "sc_sgen": ["k", "rx", "sn_mva"],
    "sc_gen": ["vn_kv", "xdss_pu", "rdss_ohm", "cos_phi", "sn_mva"],
    "step": ["step", "max_step"],
    "rtf_xtf": ["rtf_pu", "xtf_pu"],
    "zero_seq_imp": ["rft0_pu", "xft0_pu", "rtf0_pu", "xtf0_pu"],
    "shunt_imp": ["gf_pu", "bf_pu", "gt_pu", "bt_pu"],
}
REQUIRED = {
    "bus": ["vn_kv"],
    "line_std": ["from_bus", "to_bus", "length_km", "std_type"],
    "line_par": ["from_bus", "to_bus", "length_km", "r_ohm_per_km", "x_ohm_per_km", "c_nf_per_km", "max_i_ka"],
    "trafo_std": ["hv_bus", "lv_bus", "std_type"],
    "trafo_par": ["hv_bus", "lv_bus", "sn_mva", "vn_hv_kv", "vn_lv_kv", "vkr_percent", "vk_percent", "pfe_kw", "i0_percent"],
    "trafo3w_std": ["hv_bus", "mv_bus", "lv_bus", "std_type"],
    "trafo3w_par": ["hv_bus", "mv_bus", "lv_bus", "vn_hv_kv", "vn_mv_kv", "vn_lv_kv", "sn_hv_mva", "sn_mv_mva", "sn_lv_mva",
                    "vk_hv_percent", "vk_mv_percent", "vk_lv_percent", "vkr_hv_percent", "vkr_mv_percent", "vkr_lv_percent",
                    "pfe_kw", "i0_percent"],
    "load": ["bus", "p_mw"], "sgen": ["bus", "p_mw"], "gen": ["bus", "p_mw"], "storage": ["bus", "p_mw", "max_e_mwh"],
    "shunt": ["bus", "q_mvar"], "ward": ["bus", "ps_mw", "qs_mvar", "pz_mw", "qz_mvar"],
    "switch": ["bus", "element", "et"], "impedance": ["from_bus", "to_bus", "rft_pu", "xft_pu", "sn_mva"],
    "poly_cost": ["element", "et", "cp1_eur_per_mw"], "pwl_cost": ["element", "et", "points"],
}
PLURAL = {"from_bus": "from_buses", "to_bus": "to_buses", "hv_bus": "hv_buses", "mv_bus": "mv_buses", "lv_bus": "lv_buses",
          "bus": "buses", "element": "elements"}
BUSARGS = ("from_bus", "to_bus", "hv_bus", "mv_bus", "lv_bus", "bus")
SPECIAL = {"std_type": lambda r: "vt",      # line_std: row 1 uses a second type "at" (see observe) "et": None, "tap_side": lambda r: "hv", "tap_changer_type": lambda r: "Ratio",
           "vector_group": lambda r: "Dyn", "zone": lambda r: "z%d" % r, "power_type": lambda r: "q",
           "tap_neutral": lambda r: 0, "tap_min": lambda r: -3 - r, "tap_max": lambda r: 3 + r, "tap_pos": lambda r: 1 + r,
           "parallel": lambda r: 2 + r, "step": lambda r: 1 + r, "max_step": lambda r: 3 + r,
           "points": lambda r: [[0, 1, 1.5 + r]]}
BOOLS = ("in_service", "closed", "slack", "tap_at_star_point", "controllable")
_BASE = {}


def arg_value(pair, name, row, k):
    if name in SPECIAL and SPECIAL[name] is not None:
        return SPECIAL[name](row)
    if name in BOOLS:
        return bool(row % 2)
    return 2000.0 + 10 * k + row + 0.5     # explicit-argument sentinel, distinct per parameter and row


def std_types(shape):
    """custom std types 'vt' whose values are 1000+k sentinels; optional groups per the spec's shape"""
    line = {"r_ohm_per_km": 1001.0, "x_ohm_per_km": 1002.0, "c_nf_per_km": 1003.0, "max_i_ka": 1004.0}
    if "std_type_q" in shape:
        line.update({"type": "cs", "q_mm2": 1005.0})
    if "std_alpha" in shape:
        line["alpha"] = 1006.0
    if "std_endtemp" in shape:
        line["endtemp_degree"] = 1007.0
    trafo = {"sn_mva": 1011.0, "vn_hv_kv": 1012.0, "vn_lv_kv": 1013.0, "vk_percent": 1014.0, "vkr_percent": 1015.0,
             "pfe_kw": 1016.0, "i0_percent": 1017.0, "shift_degree": 0.0}
    if "std_shift" in shape:
        trafo["shift_degree"] = 150.0
    if "std_tap" in shape:
        trafo.update({"tap_side": "lv", "tap_neutral": 1, "tap_min": -4, "tap_max": 6, "tap_step_percent": 1018.0,
                      "tap_step_degree": 1019.0, "tap_changer_type": "Ratio"})
    if "std_zero" in shape:
        trafo.update({"vector_group": "YNyn", "vk0_percent": 1020.0, "vkr0_percent": 1021.0, "mag0_percent": 1022.0,
                      "mag0_rx": 1023.0, "si0_hv_partial": 1024.0})
    t3 = {"sn_hv_mva": 1031.0, "sn_mv_mva": 1032.0, "sn_lv_mva": 1033.0, "vn_hv_kv": 1034.0, "vn_mv_kv": 1035.0,
          "vn_lv_kv": 1036.0, "vk_hv_percent": 1037.0, "vk_mv_percent": 1038.0, "vk_lv_percent": 1039.0,
          "vkr_hv_percent": 1040.0, "vkr_mv_percent": 1041.0, "vkr_lv_percent": 1042.0, "pfe_kw": 1043.0,
          "i0_percent": 1044.0, "shift_mv_degree": 0.0, "shift_lv_degree": 0.0}
    if "std_shift3w" in shape:
        t3.update({"shift_mv_degree": 30.0, "shift_lv_degree": 150.0})
    if "std_tap3w" in shape:
        t3.update({"tap_side": "mv", "tap_neutral": 1, "tap_min": -5, "tap_max": 7, "tap_step_percent": 1045.0,
                   "tap_changer_type": "Ratio"})
    return line, trafo, t3


def base_net():
    import pandapower as pp
    from ..templates import line
    if "net" not in _BASE:
        net = pp.create_empty_network()
        for i in range(4):
            pp.create_bus(net, 20.0, index=i)
        line(pp, net, 0, 1)
        line(pp, net, 1, 2)
        for b in (1, 2, 3):
            pp.create_gen(net, b, 0.1)
            pp.create_sgen(net, b, 0.1)
        _BASE["net"] = net
    return _BASE["net"]


def token(x):
    import numpy as np
    if x is None:
        return "nan"          # a missing value is a missing value, whether stored as None, NaN or pd.NA
    if isinstance(x, (bool, np.bool_)):
        return "true" if x else "false"
    if isinstance(x, (int, np.integer)):
        return repr(float(x))
    if isinstance(x, (float, np.floating)):
        return "nan" if math.isnan(x) else repr(round(float(x), 9))
    try:
        import pandas as pd
        if x is pd.NA:
            return "nan"
    except Exception:  # noqa
        pass
    if isinstance(x, (list, tuple, np.ndarray)):
        return "[" + ",".join(token(y) for y in np.asarray(x, dtype=object).ravel()) + "]"
    return "nan" if str(x) == "" else str(x)      # batch functions store "" where single calls store None


# a column that one route does not create at all means "missing" (= NaN) for every row; for these columns the
# documented default applies when the value is missing, so missing and default are the same electrical parameter
DEFAULT_EQUIV = {"generator_type": "current_source"}


def observe(cfg):
    import pandapower as pp
    pair, opts, shape, err = cfg["pair"], cfg["opts"], cfg["shape"], cfg["err"]
    single_fn, batch_fn, table = FN[pair]
    names = list(REQUIRED[pair])
    optnames = []
    for o in sorted(opts):
        optnames += GROUPS.get(o, [o])
    part = cfg.get("part", 0)
    if part and len(optnames) >= 2:
        del optnames[(part - 1) % len(optnames)]      # a partially specified group
    names += optnames
    base = copy.deepcopy(base_net())
    lt, tt, t3 = std_types(shape)
    pp.create_std_type(base, lt, "vt", element="line")
    # a second line type whose name sorts BEFORE "vt" but is used by the second row: a list of type names in
    # non-alphabetical order (create_lines accepts one name per line)
    pp.create_std_type(base, {k: (v + 100.0 if isinstance(v, float) else v) for k, v in lt.items()}, "at", element="line")
    pp.create_std_type(base, tt, "vt", element="trafo")
    pp.create_std_type(base, t3, "vt", element="trafo3w")
    if pair in ("poly_cost", "pwl_cost") and err == "dup_cost_net":
        if pair == "poly_cost":
            pp.create_poly_cost(base, 1, "gen", 3.0)
        else:
            pp.create_pwl_cost(base, 1, "gen", [[0, 1, 2.0]], power_type="q" if "power_type" in opts else "p")
    if err == "none_pre_pq":     # another generator with a 'p' and a 'q' pwl cost: two legal rows for one element
        pp.create_pwl_cost(base, 0, "gen", [[0, 1, 2.0]], power_type="p")
        pp.create_pwl_cost(base, 0, "gen", [[0, 1, 3.0]], power_type="q")
    # per-row argument values
    rows = []
    for r in (0, 1):
        kw = {}
        for k, n in enumerate(names):
            if n in BUSARGS:
                kw[n] = {"from_bus": 0, "hv_bus": 0, "to_bus": 1 + r, "lv_bus": 1 + r, "mv_bus": 3 - r, "bus": 1 + r}[n]
            elif n == "element":
                kw[n] = (r if pair == "switch" else 1 + r)
            elif n == "et":
                kw[n] = "l" if pair == "switch" else "gen"
            else:
                kw[n] = arg_value(pair, n, r, k)
        if pair == "line_std" and r == 1:
            kw["std_type"] = "at"
        rows.append(kw)
    idx = [7, 8]
    if err == "missing_bus":
        busarg = [n for n in names if n in BUSARGS][-1]
        rows[1][busarg] = 99
    elif err == "dup_index_net":
        pre = dict(rows[0])
        try:
            getattr(pp, single_fn)(base, index=7, **pre)      # a row with index 7 already exists
        except Exception:  # noqa  (an inconsistent partial parameter group: both routes will reject it as well)
            pass
        if pair in ("poly_cost", "pwl_cost"):
            for kw in rows:
                kw["element"] += 1                           # avoid a duplicate-cost rejection on top
    elif err == "dup_index_batch":
        idx = [7, 7]
    elif err in ("dup_cost_batch",):
        rows[1]["element"] = rows[0]["element"]
    n0 = len(base[table])
    out = {"cfg": cfg}
    # --- route 1: single calls
    n1 = copy.deepcopy(base)
    res = {"rejected": False, "err": "", "rows": [], "added": 0}
    try:
        for r, kw in enumerate(rows):
            getattr(pp, single_fn)(n1, index=idx[r], **kw)
    except Exception as e:  # noqa
        res["rejected"] = True
        res["err"] = "%s: %s" % (type(e).__name__, str(e)[:100])
    res["added"] = len(n1[table]) - n0
    if not res["rejected"]:
        res["rows"] = project_rows(n1[table], idx)
    out["single"] = res
    # --- route 2: batch call
    n2 = copy.deepcopy(base)
    res = {"rejected": False, "err": "", "rows": [], "added": 0}
    bkw = {}
    for n in names:
        vals = [rows[0][n], rows[1][n]]
        if n == "et":
            bkw[n] = vals[0]
        elif n == "std_type":
            bkw[n] = vals[0] if vals[0] == vals[1] else vals
        else:
            bkw[PLURAL.get(n, n)] = vals
    try:
        if pair == "bus":
            getattr(pp, batch_fn)(n2, 2, index=idx, **bkw)
        else:
            getattr(pp, batch_fn)(n2, index=idx, **bkw)
    except Exception as e:  # noqa
        res["rejected"] = True
        res["err"] = "%s: %s" % (type(e).__name__, str(e)[:100])
    res["added"] = len(n2[table]) - n0
    if not res["rejected"]:
        res["rows"] = project_rows(n2[table], idx)
    out["batch"] = res
    return align(out)


SKIP_COLS = ("geo", "coords", "geodata", "name")      # not electrical parameters


def project_rows(df, idx):
    out = []
    for i in idx:
        if i not in df.index:
            out.append([["#missing", "row %s" % i]])
            continue
        sel = df.loc[[i]]
        for pos in range(len(sel)):
            row = sel.iloc[pos]
            out.append(sorted([str(c), DEFAULT_EQUIV.get(str(c), "nan") if token(row[c]) == "nan" else token(row[c])]
                              for c in df.columns if str(c) not in SKIP_COLS))
    return out


def align(c):
    """give both routes the same column set: a column absent in one route is a missing value there"""
    a, b = c["single"]["rows"], c["batch"]["rows"]
    cols = sorted({k for r in a + b for k, _ in r})
    for rows in (a, b):
        for n, r in enumerate(rows):
            d = dict(map(tuple, r))
            rows[n] = [[k, d.get(k, DEFAULT_EQUIV.get(k, "nan"))] for k in cols]
    return c


def diff_cols(c):
    a, b = c["single"]["rows"], c["batch"]["rows"]
    d = set()
    for ra, rb in zip(a, b):
        da, db = dict(map(tuple, ra)), dict(map(tuple, rb))
        for k in set(da) | set(db):
            if da.get(k, "#absent") != db.get(k, "#absent"):
                d.add(k)
    if len(a) != len(b):
        d.add("#rows")
    return sorted(d)


def run(tier, seed, replay=None):
    v = Verdict("C24", tier, seed, "model_checking")
    use_repo()
    if replay:
        cfgs = [replay["case"]["cfg"]]
        states = trans = 1
    else:
        r = run_tlc("Create", "Create.cfg", dump=True)
        for name, st, raw in r.violations:
            v.divergence("model-level: %s" % name, None)
        cfgs = [jsonable(s["cfg"]) for s in r.dump]
        states, trans = r.distinct, r.transitions
    cases = pool_map(observe, cfgs)
    fails, st = tlc_obs("CreateObs", "CreateObs.cfg", cases, chunk=500)
    for name, i in fails:
        c = cases[i]
        cf = c["cfg"]
        if name == "C24_SameRows":
            cols = diff_cols(c)
            fam = sorted({"tap" if k.startswith("tap") else k for k in cols})      # column families
            chosen = {n for o in cf["opts"] for n in GROUPS.get(o, [o])} | {"g0_us_per_km"}
            partial = bool(cf.get("part")) and set(cols) <= chosen      # the difference lies in the partially given group itself
            key = "C24|%s|SameRows|%s" % (cf["pair"], "partial_group" if partial else ",".join(fam)[:120])
            what = "batch and single rows differ in %s for %s (std shape %s, explicit %s)" % (cols, cf["pair"], cf["shape"], cf["opts"])
        else:
            key = "C24|%s|%s|err=%s" % (cf["pair"], name[4:], cf["err"])
            what = "%s: %s err=%s: single rejected=%s (%s), batch rejected=%s (%s), batch added %d rows" % (
                name, cf["pair"], cf["err"], c["single"]["rejected"], c["single"]["err"], c["batch"]["rejected"],
                c["batch"]["err"], c["batch"]["added"])
        v.violation(key, what, {"cfg": cf})
    nontriv = sum(1 for c in cases if c["cfg"]["shape"] or c["cfg"]["err"] != "none")
    v.coverage = {
        "states": states + st["states"], "transitions": trans + st["generated"],
        "traces_validated_against_impl": len(cases), "exhaustive": True, "evaluations": len(cases),
        "distinct_nontrivial": nontriv,
        "rule": "every configuration of Create.tla: 17 create pairs x subsets of explicitly passed optional parameter groups x "
                "standard-type shapes x error conditions (missing bus, duplicate index in net / in batch, duplicate cost); "
                "two rows per call; non-trivial = a std type with optional groups or an error condition",
        "both_accept": sum(1 for c in cases if not c["single"]["rejected"] and not c["batch"]["rejected"]),
        "samples": [{"cfg": cases[k]["cfg"], "single_rejected": cases[k]["single"]["rejected"],
                     "batch_rejected": cases[k]["batch"]["rejected"]} for k in range(0, len(cases), max(1, len(cases) // 3))][:3],
    }
    v.assumptions = ["values compared after rounding to 1e-9; geodata columns excluded",
                     "optional parameter groups as listed in Create.tla!Opt (not every keyword of every function)"]
    return v.finish()
