"""C07 — unsupplied <=> NaN <=> topology module (DESIGN §4).

TLC enumerates every configuration of template T4 (Topology.tla / TopoC07.tla), proves the two modelled routes
equal on all of them, and each dumped configuration is replayed on the real code; TopoC07Obs.tla decides the
property's predicates on the recorded observations.
"""
import math
import random

from ..common import Verdict, pool_map, use_repo
from ..obs import tlc_obs
from ..templates import T4_FLAGS, apply_T4, build_T4
from ..tla import jsonable, run_tlc

QUICK_FREE = ["s0", "s1", "s2", "s3", "s4", "z0", "l0", "l1", "w0", "t0", "e0", "b2"]


def pins(tier, seed):
    rnd = random.Random(seed)
    if tier == "quick":
        free = list(QUICK_FREE) if seed == 0 else rnd.sample(T4_FLAGS, 12)
    else:
        free = list(T4_FLAGS)
        for x in rnd.sample(["b0", "b1", "b3", "l2", "e1", "g1"], 2):
            free.remove(x)
    return sorted(set(T4_FLAGS) - set(free)), []


def cfg_text(base, pin_true, pin_false, ball=0):
    import re
    s = lambda xs: "{" + ", ".join('"%s"' % x for x in xs) + "}"
    base = re.sub(r"BallK = .*", "BallK = %d" % ball, base)
    base = re.sub(r"PinTrue = .*", "PinTrue = " + s(pin_true), base)
    return re.sub(r"PinFalse = .*", "PinFalse = " + s(pin_false), base)


_NET = None


def _net():
    global _NET
    if _NET is None:
        _NET = build_T4()
    return _NET


def observe(f):
    """Replay one configuration on the implementation; everything returned is mechanical projection."""
    import numpy as np
    import pandapower as pp
    import pandapower.topology as top
    net = _net()
    apply_T4(net, f)
    obs = {"f": f}
    try:
        unsup = top.unsupplied_buses(net)
        obs["unsup"] = sorted(int(b) for b in unsup)
    except Exception as e:  # noqa
        obs["unsup"] = [-1]
        obs["unsup_err"] = repr(e)[:200]
    for mode in ("ac", "dc"):
        try:
            if mode == "ac":
                pp.runpp(net, calculate_voltage_angles=True, tolerance_mva=1e-9)
            else:
                pp.rundcpp(net)
            conv = bool(net.converged)
        except Exception as e:  # noqa
            conv = False
            obs["err_" + mode] = type(e).__name__
        obs["conv_" + mode] = conv
        if not conv:
            obs["nan_" + mode] = []
            if mode == "ac":
                obs["dead_nonzero"], obs["live_nonfinite"] = [], []
            continue
        vm = net.res_bus.vm_pu.values
        obs["nan_" + mode] = [int(b) for b in net.bus.index[np.isnan(vm)]]
        if mode == "ac":
            dead_bus = set(net.bus.index[np.isnan(vm)])
            dn, lf = [], []
            for b in net.bus.index:
                if b not in dead_bus:
                    if not np.all(np.isfinite(net.res_bus.loc[b].values.astype(float))):
                        lf.append("bus%d" % b)
            for tab in ("load", "sgen", "shunt", "gen", "ext_grid"):
                res = net["res_" + tab]
                for idx in net[tab].index:
                    dead = (not bool(net[tab].at[idx, "in_service"])) or int(net[tab].at[idx, "bus"]) in dead_bus
                    p, q = float(res.at[idx, "p_mw"]), float(res.at[idx, "q_mvar"])
                    if dead and not (p == 0.0 and q == 0.0):
                        dn.append("%s%d" % (tab, idx))
                    if not dead and not (math.isfinite(p) and math.isfinite(q)):
                        lf.append("%s%d" % (tab, idx))
            for tab, sides, buses in (("line", ("from", "to"), ("from_bus", "to_bus")),
                                      ("trafo", ("hv", "lv"), ("hv_bus", "lv_bus")),
                                      ("trafo3w", ("hv", "mv", "lv"), ("hv_bus", "mv_bus", "lv_bus"))):
                res = net["res_" + tab]
                for idx in net[tab].index:
                    oos = not bool(net[tab].at[idx, "in_service"])
                    alldead = all(int(net[tab].at[idx, c]) in dead_bus for c in buses)
                    vals = [float(res.at[idx, "%s_%s_%s" % (pq, s, u)]) for s in sides
                            for pq, u in (("p", "mw"), ("q", "mvar"))]
                    if (oos or alldead) and any(v != 0.0 for v in vals):
                        dn.append("%s%d" % (tab, idx))
                    if not (oos or alldead) and not all(math.isfinite(v) for v in vals):
                        lf.append("%s%d" % (tab, idx))
            obs["dead_nonzero"], obs["live_nonfinite"] = dn, lf
    return obs


def run(tier, seed, replay=None):
    v = Verdict("C07", tier, seed, "model_checking")
    use_repo()
    import pandapower  # noqa  (warm import before fork)
    pin_true, pin_false = pins(tier, seed)
    if replay:
        cfgs = [replay["case"]["f"]]
        states = trans = 1
    else:
        import os, tempfile, shutil
        from ..tla import SPEC_DIR
        wd = tempfile.mkdtemp(prefix="ppverif_c07_")
        try:
            with open(os.path.join(SPEC_DIR, "TopoC07.cfg")) as fh:
                base = fh.read()
            with open(os.path.join(wd, "TopoC07.cfg"), "w") as fh:
                fh.write(cfg_text(base, pin_true, pin_false, ball=4 if tier == "quick" else 6))
            r = run_tlc("TopoC07", "TopoC07.cfg", workdir=wd, dump=True, timeout=3000)
        finally:
            pass
        for name, st, raw in r.violations:
            # a model-level counterexample is replayed below like every other configuration; it is only
            # reported if the implementation observations violate the property (verdict discipline)
            v.divergence("model-level: invariant %s violated" % name, jsonable(st))
        cfgs = [jsonable(s["f"]) for s in r.dump]
        shutil.rmtree(wd, ignore_errors=True)
        states, trans = r.distinct, r.transitions
    observe({k: True for k in T4_FLAGS} | {"z0": False})   # numba warm-up before forking
    cases = pool_map(observe, cfgs)
    fails, st = tlc_obs("TopoC07Obs", "TopoC07Obs.cfg", cases)
    for name, i in fails:
        c = cases[i]
        v.violation("C07|%s" % name, "%s fails on configuration %s: obs=%s" % (
            name, "".join(k for k in T4_FLAGS if not c["f"][k]) or "all-true",
            {k: c[k] for k in c if k != "f"}), c)
    # not part of the property (it speaks about converged runs only): a configuration with an energised reference that
    # the library fails to solve is recorded as a divergence, e.g. the IndexError in newtonpf for a single live bus
    conf, _ = tlc_obs("TopoC07Obs", "TopoC07Conf.cfg", cases)
    for name, i in conf:
        c = cases[i]
        v.divergence("%s: configuration %s not solved: %s %s" % (name, "".join(k for k in T4_FLAGS if not c["f"][k]),
                                                                    c.get("err_ac", ""), c.get("err_dc", "")))
    nontriv = sum(1 for c in cases if c["conv_ac"] and c["unsup"] and any(
        (not c["f"][k]) for k in ("s0", "s1", "s2", "s3", "s4", "l0", "l1", "l2", "t0", "w0"))
        and len(c["unsup"]) < sum(c["f"][b] for b in ("b0", "b1", "b2", "b3")))
    v.coverage = {
        "states": states + st["states"], "transitions": trans + st["generated"],
        "traces_validated_against_impl": len(cases), "exhaustive": True,
        "evaluations": len(cases), "distinct_nontrivial": nontriv,
        "rule": ("every configuration of template T4 that differs from the base point in at most %d of the 22 flags" % (4 if tier == "quick" else 6)) + " is replayed (runpp, rundcpp, "
                "unsupplied_buses); non-trivial = converged, >=1 open switch/out-of-service branch, >=1 unsupplied "
                "in-service bus and >=1 supplied bus",
        "model_states": states, "obs_cases_checked_by_tlc": st["states"],
        "converged_ac": sum(c["conv_ac"] for c in cases), "converged_dc": sum(c["conv_dc"] for c in cases),
        "samples": [cases[k] for k in range(0, len(cases), max(1, len(cases) // 3))][:3],
    }
    v.assumptions = ["template T4 only (4 buses, 3 lines, trafo, trafo3w, 5 switches, 4 sources)",
                     "numerical NaN/zero tests are exact comparisons on the result tables"]
    return v.finish()
