"""C04 — shares the driver and the specs of the power-balance family (see c01.py)."""
from .c01 import run as _run


def run(tier, seed, replay=None):
    return _run(tier, seed, replay=replay, prop="C04")
