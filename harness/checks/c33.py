"""C33 — DER controller setpoints stay within the declared capability (DESIGN §5, spec/Der.tla + DerDef.tla + DerObs.tla).

TLC enumerates area class x operating point (levels relative to the area's corner points) x q model / request x
saturate_sn_mva / q_prio x damping x controlled-element geometry and model-checks the control loop; every initial state
is instantiated here on the real DERController (run_control on a 2-bus net, the instance's control_step wrapped to log
each step); DerObs.tla (TLC) decides the property clauses on the logged fixed-point values."""
import copy
import os
import random
import tempfile
import time

from ..common import Verdict, fx, get_pool, pool_map, use_repo
from ..obs import tlc_obs
from ..tla import MachineryError, SPEC_DIR, jsonable, run_tlc

SN = 2.0                       # sn_mva of every sgen: 1 bp (1e-4 of sn) = 2e-4 MW
MATE_P = 5000
_W = {}
GEO = {1: ([0], []), 2: ([3], [0]), 3: ([0, 1], []), 4: ([3, 5], [0])}      # controlled indices, bystanders

# level tables of DerDef.tla (PLevel / VLevel); TLC checks the values used against the spec (Obs_CaseMatchesModel)
PBASE = [-2000, 0, 300, 1000, 1500, 2000, 6000, 10000, 12000]
A4120_18 = ("a4120v1", "a4120v2", "a4120v3")


def p_level(a, i):
    if a == "a4110" and i == 4:
        return 500
    if a in A4120_18 and i == 4:
        return 500
    if a in A4120_18 and i == 5:
        return 1200
    if a == "a4120v2y15" and i == 3:
        return 500
    if a == "poly" and i == 3:
        return 500
    return PBASE[i - 1]


def v_level(a, i):
    if a.startswith("a4120"):
        return [94600, 96000, 99500, 103000, 110000, 120000, 123500, 127000, 127600][i - 1]
    return [96800, 99000, 101750, 104500, 110000, 115500, 118250, 121000, 123200][i - 1]


def base_net(geo):
    import pandapower as pp
    from ..templates import line
    if geo in _W:
        return _W[geo]
    net = pp.create_empty_network()
    b0 = pp.create_bus(net, 20.0)
    b1 = pp.create_bus(net, 20.0)
    pp.create_ext_grid(net, b0, vm_pu=1.0)
    line(pp, net, b0, b1, km=1.0)
    pp.create_load(net, b1, 0.3, 0.05)
    ctrl, other = GEO[geo]
    for k in sorted(ctrl + other):
        pp.create_sgen(net, b0, p_mw=0.1, q_mvar=0.0, sn_mva=SN, index=k)
    _W[geo] = net
    return net


def make_area(name, rmo):
    from pandapower.control.controller.DERController import (PQAreaSTATCOM, PQVArea4105, PQVArea4110, PQVArea4120V1,
                                                             PQVArea4120V2, PQVArea4120V3, PQVAreaPOLYGON)
    if name == "none":
        return None
    if name == "poly":       # the docstring example of PQVAreaPOLYGON
        return PQVAreaPOLYGON(p_points_pu=(0.1, 0.2, 1, 1, 0.2, 0.1, 0.1),
                              q_pq_points_pu=(0.1, 0.410775, 0.410775, -0.328684, -0.328684, -0.1, 0.1),
                              q_qv_points_pu=(0.1, 0.410775, 0.410775, -0.328684, -0.328684, -0.1, 0.1),
                              vm_points_pu=(0.9, 1.05, 1.1, 1.1, 1.05, 0.9, 0.9), raise_merge_overlap=rmo)
    if name == "a4105v1":
        return PQVArea4105(1, raise_merge_overlap=rmo)
    if name == "a4105v2":
        return PQVArea4105(2, raise_merge_overlap=rmo)
    if name == "a4110":
        return PQVArea4110(raise_merge_overlap=rmo)
    if name == "a4120v1":
        return PQVArea4120V1(raise_merge_overlap=rmo)
    if name == "a4120v2":
        return PQVArea4120V2(raise_merge_overlap=rmo)
    if name == "a4120v3":
        return PQVArea4120V3(raise_merge_overlap=rmo)
    if name == "a4120v2y15":
        return PQVArea4120V2(version=2015, raise_merge_overlap=rmo)
    if name == "statcom":
        return PQAreaSTATCOM(-0.3, 0.4)
    raise MachineryError("unknown area %r" % name)


def make_qmodel(qm, args):
    from pandapower.control.controller.DERController import QModelConstQ, QModelCosphiP, QModelQVCurve, QVCurve
    if qm == "series":
        return None
    if qm == "const":
        return QModelConstQ(args[0] if len(args) == 1 else list(args))
    if qm == "cosphip":
        return QModelCosphiP(cosphi=0.9 if args[0] > 0 else -0.9)
    if qm == "qv":
        return QModelQVCurve(QVCurve(vm_points_pu=(0.93, 0.97, 1.03, 1.07), q_points_pu=(0.4, 0.0, 0.0, -0.4)))
    raise MachineryError("unknown q model %r" % qm)


def u4(x):
    return fx(x, scale=1e4)


def observe(case):
    import numpy as np
    from pandapower.control import run_control
    from pandapower.control.run_control import ControllerNotConverged
    from pandapower.control.controller.DERController import DERController
    cfg, jit = case["cfg"], case["jit"]
    qm, qarg, q0 = cfg["qr"]
    s_bp, qprio = cfg["sat"]
    ctrl_idx, _ = GEO[cfg["geo"]]
    ne = len(ctrl_idx)
    mate_q = 9000 if cfg["geo"] == 3 else 0
    # numbers of the configuration (bp of sn, V110), plus the seeded perturbation of the thorough replicas
    p_bp = [p_level(cfg["area"], cfg["pi"]) + jit["dp"], MATE_P][:ne]
    q_bp = [q0 + jit["dq"], mate_q][:ne]
    v = (v_level(cfg["area"], cfg["vi"]) + jit["dv"]) / 110000.0
    qargs = [(qarg + jit["dq"]) / 1e4, mate_q / 1e4][:ne] if qm == "const" else [qarg]
    out = {"cfg": cfg, "jit": jit, "jittered": any(jit.values()), "reg": case["reg"], "sn4": u4(SN), "built": False,
           "raised": False, "converged": False, "exc": "", "steps": [], "init_p4": [0] * ne, "init_q4": [0] * ne, "v0": 0,
           "fin": {"p4": [0] * ne, "q4": [0] * ne, "qu": [0] * ne, "qmin": [0] * ne, "qmax": [0] * ne, "flex_ok": False}}
    net = copy.deepcopy(base_net(cfg["geo"]))
    net.ext_grid.at[0, "vm_pu"] = v
    for k, e in enumerate(ctrl_idx):
        net.sgen.at[e, "p_mw"] = p_bp[k] * 1e-4 * SN
        net.sgen.at[e, "q_mvar"] = q_bp[k] * 1e-4 * SN
    bus = int(net.sgen.bus.at[ctrl_idx[0]])
    area = make_area(cfg["area"], cfg["rmo"])

    def flex(rec, p_mw):
        rec["flex_ok"] = False
        rec["qmin"], rec["qmax"] = [0] * ne, [0] * ne
        if area is None:
            return
        try:
            vm = float(net.res_bus.vm_pu.at[bus])
            f = np.asarray(area.q_flexibility(p_pu=np.array(p_mw, dtype=float) / SN, vm_pu=np.array([vm] * ne)), dtype=float)
            rec["qmin"] = [fx(x * SN) for x in f[:, 0]]
            rec["qmax"] = [fx(x * SN) for x in f[:, 1]]
            rec["flex_ok"] = True
        except Exception:  # noqa
            pass

    try:
        c = DERController(net, list(ctrl_idx), q_model=make_qmodel(qm, qargs), pqv_area=area,
                          saturate_sn_mva=(s_bp * 1e-4 * SN if s_bp > 0 else np.nan), q_prio=bool(qprio),
                          damping_coef=cfg["d"])
    except Exception as ex:  # noqa
        out["exc"] = type(ex).__name__
        return out
    out["built"] = True
    out["init_p4"] = [u4(x) for x in net.sgen.p_mw.loc[ctrl_idx].values]
    out["init_q4"] = [u4(x) for x in net.sgen.q_mvar.loc[ctrl_idx].values]
    out["v0"] = fx(v)
    orig = c.control_step

    def logged_step(net_):
        pre_p = net_.sgen.p_mw.loc[ctrl_idx].values.astype(float).copy()
        pre_q = net_.sgen.q_mvar.loc[ctrl_idx].values.astype(float).copy()
        orig(net_)
        post_p = net_.sgen.p_mw.loc[ctrl_idx].values.astype(float)
        post_q = net_.sgen.q_mvar.loc[ctrl_idx].values.astype(float)
        rec = {"pre_p": [u4(x) for x in pre_p], "pre_q": [u4(x) for x in pre_q], "post_p": [u4(x) for x in post_p],
               "post_q": [u4(x) for x in post_q], "pre_qu": [fx(x) for x in pre_q], "post_qu": [fx(x) for x in post_q],
               "v": fx(net_.res_bus.vm_pu.at[bus])}
        flex(rec, post_p)
        out["steps"].append(rec)

    c.control_step = logged_step
    try:
        run_control(net, max_iter=60)
        out["converged"] = True
    except ControllerNotConverged:
        out["exc"] = "ControllerNotConverged"
    except Exception as ex:  # noqa
        out["raised"] = True
        out["exc"] = type(ex).__name__
    fp = net.sgen.p_mw.loc[ctrl_idx].values.astype(float)
    fq = net.sgen.q_mvar.loc[ctrl_idx].values.astype(float)
    out["fin"] = {"p4": [u4(x) for x in fp], "q4": [u4(x) for x in fq], "qu": [fx(x) for x in fq]}
    if out["raised"]:
        out["fin"].update({"qmin": [0] * ne, "qmax": [0] * ne, "flex_ok": False})
    else:
        flex(out["fin"], fp)
    return out


NOJIT = {"dp": 0, "dq": 0, "dv": 0}


def feature(c):
    s, qprio = c["cfg"]["sat"]
    sat = "none" if s == 0 else ("qprio" if qprio else "pprio")
    return "area=%s|qm=%s|sat=%s|d=%d|n=%d" % (c["cfg"]["area"], c["cfg"]["qr"][0], sat, c["cfg"]["d"], len(c["fin"]["p4"]))


THOROUGH = (('AreaSet = {"none", "poly", "a4110", "a4120v2"}',
             'AreaSet = {"none", "poly", "a4105v1", "a4105v2", "a4110", "a4120v1", "a4120v2", "a4120v3", "a4120v2y15", "statcom"}'),
            ("PIdx = {2, 5, 9}", "PIdx = {1, 2, 3, 4, 5, 6, 7, 8, 9}"),
            ("VIdx = {1, 5, 7}", "VIdx = {1, 2, 3, 4, 5, 6, 7, 8, 9}"),
            ("VCore = {1, 5, 7}", "VCore = {1, 3, 5, 7, 9}"),
            ("Geos = {1, 3}", "Geos = {4}"))


def run(tier, seed, replay=None):
    v = Verdict("C33", tier, seed, "exploration")
    use_repo()
    rng = random.Random(seed)
    phases, t0 = {}, time.time()
    if replay:
        rc = replay["case"]
        todo = [{"cfg": rc["cfg"], "jit": rc["jit"], "reg": rc.get("reg", "")}]
        states = trans = 1
    else:
        import shutil
        wd = tempfile.mkdtemp(prefix="ppverif_c33_")
        try:
            cfg = open(os.path.join(SPEC_DIR, "Der.cfg")).read()
            if tier == "thorough":
                for a, b in THOROUGH:
                    if a not in cfg:
                        raise MachineryError("Der.cfg: cannot find %r" % a)
                    cfg = cfg.replace(a, b)
            open(os.path.join(wd, "Der.cfg"), "w").write(cfg)
            r = run_tlc("Der", "Der.cfg", workdir=wd, dump=True)
        finally:
            shutil.rmtree(wd, ignore_errors=True)
        for name, st, raw in r.violations:
            v.divergence("model-level: %s" % name, jsonable(st[-1] if isinstance(st, list) and st else st) if st else None)
        todo = []
        for s in r.dump:
            if s["k"] != 0:
                continue
            c = jsonable({"cfg": s["cfg"], "reg": s["reg"]})
            c["jit"] = dict(NOJIT)
            todo.append(c)
            if tier == "thorough" and rng.random() < 0.15:      # seeded replicas off the levels
                d = dict(c)
                d["jit"] = {"dp": rng.randint(-250, 250) if p_level(c["cfg"]["area"], c["cfg"]["pi"]) > 0 else 0,
                            "dq": rng.randint(-250, 250), "dv": rng.randint(-450, 450)}
                todo.append(d)
        states, trans = r.distinct, r.transitions
    phases["tlc_model_s"] = round(time.time() - t0, 1)
    t0 = time.time()
    if len(todo) > 60:
        get_pool(16)
    cases = pool_map(observe, todo, chunksize=8)
    phases["implementation_s"] = round(time.time() - t0, 1)
    t0 = time.time()
    fails, st = tlc_obs("DerObs", "DerObs.cfg", cases)
    phases["tlc_obs_s"] = round(time.time() - t0, 1)
    for name, i in fails:
        c = cases[i]
        if name.startswith("Obs_"):
            raise MachineryError("case does not match the model (%s): %s" % (name, {k: c[k] for k in ("cfg", "jit", "init_p4", "init_q4", "v0", "sn4")}))
        if name.startswith("Model_"):
            if not c["jittered"]:
                v.divergence("%s: %s exc=%s" % (name, c["cfg"], c["exc"]),
                             {"cfg": c["cfg"], "exc": c["exc"], "steps": c["steps"][:2], "fin": c["fin"]})
            continue
        v.violation("C33|%s|%s" % (name, feature(c)), "%s: cfg=%s jit=%s" % (name, c["cfg"], c["jit"]), c)
    acted = [c for c in cases if c["built"] and c["steps"]]
    applies = [c for c in acted if c["cfg"]["sat"][0] > 0 or c["cfg"]["area"] != "none"]
    regs = {}
    for c in cases:
        regs[c["reg"]] = regs.get(c["reg"], 0) + 1
    nsteps = sum(len(c["steps"]) for c in cases)

    def moved(c):
        s1 = c["steps"][0]
        return s1["pre_q"] != s1["post_q"] or s1["pre_p"] != s1["post_p"]
    v.coverage = {
        "states": states + st["states"], "transitions": trans + st["generated"],
        "traces_validated_against_impl": len(cases), "evaluations": len(cases), "exhaustive": replay is None,
        "distinct_nontrivial": len({(str(c["cfg"]), str(c["jit"])) for c in applies}),
        "rule": "every initial state of Der.tla (area class x p level x v level [indices into the area's corner-point tables] x "
                "q model/request x saturate_sn_mva/q_prio x damping x element geometry) is run through run_control on the real "
                "DERController; every executed control step and the settled state are checked; thorough adds a replica with seeded offsets on p, q, v "
                "for a seeded 15 % of the configurations; non-trivial = the controller executed at least one control "
                "step and a clause applies (saturation active or an area given)",
        "control_steps_checked": nsteps,
        "first_request_region": regs,
        "cases_with_saturation": sum(1 for c in cases if c["built"] and c["cfg"]["sat"][0] > 0),
        "cases_area_only": sum(1 for c in cases if c["built"] and c["cfg"]["sat"][0] == 0 and c["cfg"]["area"] != "none"),
        "cases_first_step_changed_setpoint": sum(1 for c in acted if moved(c)),
        "cases_q_flexibility_raised": sum(1 for c in cases if c["raised"]),
        "cases_not_converged": sum(1 for c in cases if c["built"] and not c["raised"] and not c["converged"]),
        "cases_not_built": sum(1 for c in cases if not c["built"]),
        "exceptions": sorted({c["exc"] for c in cases if c["exc"]}),
        "phase_wall_s": phases,
        "samples": [cases[k] for k in sorted({len(cases) // 5, len(cases) // 2, len(cases) - 1})][:3],
    }
    v.assumptions = [
        "controlled sgens sit on the slack bus so that vm_pu equals the chosen level exactly (0.86 .. 1.16 p.u.); sn_mva = 2, scaling = 1",
        "with damping_coef > 1 the per-step clauses are required only for steps that start from a feasible point; from an "
        "infeasible start the setpoint is required to be feasible in the settled state (allowance = the convergence criterion)",
        "area bounds are the area object's own q_flexibility at the element's p and v (as the property states); steps in which "
        "q_flexibility raises are counted, not flagged",
        "VDE-AR-N 4130 areas and the cosphi(V)/cosphi(P)-curve q models are not enumerated",
    ]
    return v.finish()
