"""C11 — three-phase power flow consistent with the symmetric power flow (DESIGN §5, Phase3*.tla).

TLC enumerates the configurations (Phase3.tla: vector group x topology x element placement / connection / level pattern /
modifier) and dumps them with the wiring (`plant`) and element table values (`rows`) to build; every dumped final state
is instantiated on the template network, solved by runpp_3ph and runpp, and the logged numbers are judged by TLC with
the invariants of Phase3Obs.tla.  Python never compares results.
"""
import copy
import os
import random
import shutil
import tempfile
import time

from ..common import Verdict, fx, pool_map, use_repo, NAN
from ..obs import tlc_obs
from ..tla import MachineryError, SPEC_DIR, jsonable, run_tlc

# ---- harness-owned numeric tables (documented next to the spec: Phase3Def.tla header) -------------------------------
# one LEVEL unit of an element at bus b (micro-MW / micro-Mvar; even, because scaling 0.5 must stay on the integer grid)
UNITP = [20000, 20000, 20000, 4000]
UNITQ = [6000, 6000, 6000, 1200]
SHIFT = {"Dyn": 150.0, "YNyn": 0.0, "Yzn": 150.0, "Yy": 0.0, "YNd": 150.0}     # shift_degree used with a vector group
PH = "abc"
TABLE = {"load": "load", "sgen": "sgen", "asymmetric_load": "asymmetric_load", "asymmetric_sgen": "asymmetric_sgen"}

TIER_CONSTANTS = {
    "quick": {"NSlots": "2", "ElemBuses": "{1, 2, 4}", "Pats": '{"bal", "unb"}', "Mods": '{"none"}',
              "VGs": '{"Dyn", "YNyn", "Yzn"}', "Topos": '{"radial", "cut"}'},
    "thorough": {"NSlots": "2", "ElemBuses": "{1, 2, 4}", "Pats": '{"bal", "unb", "zero"}',
                 "Mods": '{"none", "oos", "half"}', "VGs": '{"Dyn", "YNyn", "Yzn", "Yy", "YNd"}',
                 "Topos": '{"radial", "ring", "cut", "toff", "notrafo"}'},
}

_BASE = {}


def base_net(vg, plant):
    """Template of Phase3Def.tla for one (vector group, topology); wiring and flags come from the model's `plant`."""
    import pandapower as pp
    key = (vg, tuple(plant["lines"]), plant["trafo"])
    if key in _BASE:
        return _BASE[key]
    net = pp.create_empty_network()
    b = [pp.create_bus(net, 20.0), pp.create_bus(net, 20.0), pp.create_bus(net, 20.0), pp.create_bus(net, 0.4)]
    pp.create_ext_grid(net, b[0], vm_pu=1.02, s_sc_max_mva=1000.0, rx_max=0.1, r0x0_max=0.1, x0x_max=1.0)
    for (f, t), ins in zip(plant["ends"], plant["lines"]):
        pp.create_line_from_parameters(net, b[f - 1], b[t - 1], 2.0, 0.12, 0.11, 10.0, 0.5, r0_ohm_per_km=0.4,
                                       x0_ohm_per_km=0.4, c0_nf_per_km=5.0, in_service=bool(ins))
    if plant["trafo"] != "absent":
        pp.create_transformer_from_parameters(
            net, b[plant["thv"] - 1], b[plant["tlv"] - 1], sn_mva=1.6, vn_hv_kv=20.0, vn_lv_kv=0.4, vkr_percent=1.0,
            vk_percent=6.0, pfe_kw=1.0, i0_percent=0.1, shift_degree=SHIFT[vg], vector_group=vg, vk0_percent=6.0,
            vkr0_percent=1.0, mag0_percent=100.0, mag0_rx=0.0, si0_hv_partial=0.9,
            in_service=plant["trafo"] == "on")
    _BASE[key] = net
    return net


def add_elements(pp, net, case):
    """Writes the model's `rows` (level units) x unit table into the element tables; returns [(table, index) | None]."""
    where = []
    for e, r in zip(case["cfg"]["elems"], case["rows"]):
        k = e["kind"]
        if k == "none":
            where.append(None)
            continue
        bus = e["bus"] - 1
        up, uq = case["unitp"][bus] * 1e-6, case["unitq"][bus] * 1e-6
        kw = dict(scaling=r["scaling2"] / 2.0, in_service=bool(r["in_service"]), type=e["conn"])
        if k == "load":
            idx = pp.create_load(net, bus, p_mw=r["pt"] * up, q_mvar=r["qt"] * uq, **kw)
        elif k == "sgen":
            idx = pp.create_sgen(net, bus, p_mw=r["pt"] * up, q_mvar=r["qt"] * uq, **kw)
        else:
            fn = pp.create_asymmetric_load if k == "asymmetric_load" else pp.create_asymmetric_sgen
            idx = fn(net, bus, p_a_mw=r["p"][0] * up, p_b_mw=r["p"][1] * up, p_c_mw=r["p"][2] * up,
                     q_a_mvar=r["q"][0] * uq, q_b_mvar=r["q"][1] * uq, q_c_mvar=r["q"][2] * uq, **kw)
        where.append((TABLE[k], idx))
    return where


def _tri(df, row, pat):
    return [fx(df.at[row, pat % ph]) for ph in PH]


def project3(net, where, ok):
    nan3 = [NAN, NAN, NAN]
    if not ok:
        return {"bus": [], "line": [], "trafo": [], "eg": {"p": nan3, "q": nan3}, "elem": []}
    rb, rl, rt, re_ = net.res_bus_3ph, net.res_line_3ph, net.res_trafo_3ph, net.res_ext_grid_3ph
    out = {"bus": [{"vm": _tri(rb, b, "vm_%s_pu"), "va": _tri(rb, b, "va_%s_degree"), "p": _tri(rb, b, "p_%s_mw"),
                    "q": _tri(rb, b, "q_%s_mvar")} for b in net.bus.index],
           "line": [{"f": {"p": _tri(rl, l, "p_%s_from_mw"), "q": _tri(rl, l, "q_%s_from_mvar")},
                     "t": {"p": _tri(rl, l, "p_%s_to_mw"), "q": _tri(rl, l, "q_%s_to_mvar")}} for l in net.line.index],
           "trafo": [{"hv": {"p": _tri(rt, t, "p_%s_hv_mw"), "q": _tri(rt, t, "q_%s_hv_mvar")},
                      "lv": {"p": _tri(rt, t, "p_%s_lv_mw"), "q": _tri(rt, t, "q_%s_lv_mvar")}} for t in net.trafo.index],
           "eg": {"p": _tri(re_, 0, "p_%s_mw"), "q": _tri(re_, 0, "q_%s_mvar")}, "elem": []}
    for w in where:
        if w is None:
            out["elem"].append({"p": [0, 0, 0], "q": [0, 0, 0], "pt": 0, "qt": 0})
            continue
        df = net["res_%s_3ph" % w[0]]
        if w[0].startswith("asymmetric"):
            out["elem"].append({"p": _tri(df, w[1], "p_%s_mw"), "q": _tri(df, w[1], "q_%s_mvar"), "pt": NAN, "qt": NAN})
        else:
            out["elem"].append({"p": nan3, "q": nan3, "pt": fx(df.at[w[1], "p_mw"]), "qt": fx(df.at[w[1], "q_mvar"])})
    return out


def project1(net, where, ok):
    if not ok:
        return {"bus": [], "line": [], "trafo": [], "eg": {"p": NAN, "q": NAN}, "elem": []}
    rb, rl, rt, re_ = net.res_bus, net.res_line, net.res_trafo, net.res_ext_grid
    out = {"bus": [{"vm": fx(rb.at[b, "vm_pu"]), "va": fx(rb.at[b, "va_degree"]), "p": fx(rb.at[b, "p_mw"]),
                    "q": fx(rb.at[b, "q_mvar"])} for b in net.bus.index],
           "line": [{"f": {"p": fx(rl.at[l, "p_from_mw"]), "q": fx(rl.at[l, "q_from_mvar"])},
                     "t": {"p": fx(rl.at[l, "p_to_mw"]), "q": fx(rl.at[l, "q_to_mvar"])}} for l in net.line.index],
           "trafo": [{"hv": {"p": fx(rt.at[t, "p_hv_mw"]), "q": fx(rt.at[t, "q_hv_mvar"])},
                      "lv": {"p": fx(rt.at[t, "p_lv_mw"]), "q": fx(rt.at[t, "q_lv_mvar"])}} for t in net.trafo.index],
           "eg": {"p": fx(re_.at[0, "p_mw"]), "q": fx(re_.at[0, "q_mvar"])}, "elem": []}
    for w in where:
        if w is None:
            out["elem"].append({"pt": 0, "qt": 0})
        else:
            df = net["res_" + w[0]]
            out["elem"].append({"pt": fx(df.at[w[1], "p_mw"]), "qt": fx(df.at[w[1], "q_mvar"])})
    return out


def _residual(net, case, where):
    """STATISTICS ONLY (never part of a verdict): largest per-phase nodal residual in nano-MW / nano-Mvar over the
    non-slack buses where the model requires per-phase balance; documents the margin of NodalTol in Phase3Obs.tla."""
    worst = 0.0
    pl = case["plant"]
    for b in case["meta"]["perphase"]:
        if b == 1:
            continue
        for ph in PH:
            for col, q in (("p_%s%s_mw", False), ("q_%s%s_mvar", True)):
                s = 0.0
                for e, w in zip(case["cfg"]["elems"], where):
                    if w is None or e["bus"] != b:
                        continue
                    sign = -1.0 if w[0].endswith("sgen") else 1.0
                    df = net["res_%s_3ph" % w[0]]
                    if w[0].startswith("asymmetric"):
                        s += sign * float(df.at[w[1], ("q_%s_mvar" if q else "p_%s_mw") % ph])
                    else:
                        s += sign * float(df.at[w[1], "q_mvar" if q else "p_mw"]) / 3.0
                for l, ((f, t), ins) in enumerate(zip(pl["ends"], pl["lines"])):
                    if ins and f == b:
                        s += float(net.res_line_3ph.at[l, col % (ph, "_from")])
                    if ins and t == b:
                        s += float(net.res_line_3ph.at[l, col % (ph, "_to")])
                if pl["trafo"] == "on" and b == pl["thv"]:
                    s += float(net.res_trafo_3ph.at[0, col % (ph, "_hv")])
                if pl["trafo"] == "on" and b == pl["tlv"]:
                    s += float(net.res_trafo_3ph.at[0, col % (ph, "_lv")])
                if s == s:
                    worst = max(worst, abs(s))
    return int(round(worst * 1e9))


def observe(case):
    """Instantiate one model state on the real code: runpp_3ph and runpp on the same network; log fixed-point numbers."""
    import numpy as np
    import pandapower as pp
    from pandapower.pf.runpp_3ph import runpp_3ph
    from pandapower.auxiliary import LoadflowNotConverged
    net = copy.deepcopy(base_net(case["cfg"]["vg"], case["plant"]))
    where = add_elements(pp, net, case)
    obs = dict(case)
    diag = {"vdev": 0, "resid_nano": 0}
    try:
        runpp_3ph(net, tolerance_mva=1e-9, max_iteration=60)
        out3 = "ok" if net.converged else "notconv"
    except LoadflowNotConverged:
        out3 = "notconv"
    except NotImplementedError:
        out3 = "notimpl"
    except Exception as e:  # noqa
        out3 = "error"
        diag["err3"] = "%s: %s" % (type(e).__name__, str(e)[:200])
    try:
        obs["r3"] = project3(net, where, out3 == "ok")
        if out3 == "ok":
            vm = net.res_bus_3ph[["vm_a_pu", "vm_b_pu", "vm_c_pu"]].values
            if np.isfinite(vm).any():
                diag["vdev"] = int(round(float(np.nanmax(np.abs(vm - 1.0))) * 1e6))     # micro-p.u., statistics only
            if case["meta"]["checked"]:
                diag["resid_nano"] = _residual(net, case, where)
    except OverflowError as e:      # |value| >= 1000: garbage results (only seen outside the documented vector groups)
        out3 = "error"
        diag["err3"] = "OverflowError: %s" % e
        obs["r3"] = project3(net, where, False)
    try:
        pp.runpp(net, tolerance_mva=1e-9, calculate_voltage_angles=True)
        out1 = "ok" if net.converged else "notconv"
    except LoadflowNotConverged:
        out1 = "notconv"
    except Exception as e:  # noqa
        out1 = "error"
        diag["err1"] = "%s: %s" % (type(e).__name__, str(e)[:200])
    try:
        obs["r1"] = project1(net, where, out1 == "ok")
    except OverflowError as e:
        out1 = "error"
        diag["err1"] = "OverflowError: %s" % e
        obs["r1"] = project1(net, where, False)
    obs["out3"], obs["out1"], obs["diag"] = out3, out1, diag
    return obs


def units(tier, seed, k):
    """Level -> float table of one case: the base table, in the thorough tier with a seeded +-30 % jitter per bus."""
    if tier != "thorough":
        return list(UNITP), list(UNITQ)
    rng = random.Random("%d|%d" % (seed, k))
    jit = lambda u: max(2, 2 * int(round(u * (0.7 + 0.6 * rng.random()) / 2.0)))   # noqa: E731
    return [jit(u) for u in UNITP], [jit(u) for u in UNITQ]


def model_cases(tier, seed):
    wd = tempfile.mkdtemp(prefix="ppverif_c11_")
    try:
        lines = ["INIT Init", "NEXT Next", "CONSTANTS"]
        lines += ["  %s = %s" % kv for kv in TIER_CONSTANTS[tier].items()]
        for ln in open(os.path.join(SPEC_DIR, "Phase3.cfg")):
            if ln.startswith("INVARIANT"):
                lines.append(ln.strip())
        with open(os.path.join(wd, "Phase3_run.cfg"), "w") as f:
            f.write("\n".join(lines) + "\n")
        r = run_tlc("Phase3", os.path.join(wd, "Phase3_run.cfg"), workdir=wd, dump=True)
    finally:
        shutil.rmtree(wd, ignore_errors=True)
    final = [s for s in r.dump if s["stage"] in ("done", "rejected")]
    final.sort(key=lambda s: repr(jsonable(s["cfg"])))
    cases = []
    for k, s in enumerate(final):
        up, uq = units(tier, seed, k)
        cases.append({"cfg": jsonable(s["cfg"]), "plant": jsonable(s["plant"]), "rows": jsonable(s["rows"]),
                      "unitp": up, "unitq": uq,
                      "meta": {"stage": s["stage"], "class": s["req"]["class"], "netbal": s["req"]["netbal"],
                               "checked": s["req"]["checked"], "slackload": s["req"]["slackload"],
                               "perphase": sorted(s["req"]["perphase"]), "sup": sorted(s["sup"])}})
    return r, cases


SLACK_CLAUSES = ("C11_BalancedThirdsExtGrid", "C11_BalancedThirdsBus_Slack", "C11_NodalBalance_Slack")


def feature(name, c):
    """Structural feature class of a violated clause (for the finding key only)."""
    if name in SLACK_CLAUSES:
        return "element_on_ext_grid_bus" if c["meta"]["slackload"] else "no_element_on_ext_grid_bus"
    return "%s_%s" % (c["cfg"]["vg"], c["meta"]["class"])


def run(tier, seed, replay=None):
    v = Verdict("C11", tier, seed, "exploration")
    use_repo()
    t0 = time.time()
    if replay:
        keep = ("cfg", "plant", "rows", "unitp", "unitq", "meta")
        todo = [{k: replay["case"][k] for k in keep}]
        mstates = mtrans = 0
        mviol = []
    else:
        r, todo = model_cases(tier, seed)
        mstates, mtrans, mviol = r.distinct, r.transitions, r.violations
    for name, st, raw in mviol:
        v.divergence("model-level: %s violated on the spec alone" % name, None)
    t1 = time.time()
    cases = pool_map(observe, todo, procs=int(os.environ.get("VERIF_PROCS", "16")))
    t2 = time.time()
    fails, st = tlc_obs("Phase3Obs", "Phase3Obs.cfg", cases)
    t3 = time.time()
    for name, i in fails:
        c = cases[i]
        if name.startswith("H_"):
            raise MachineryError("harness sanity invariant %s failed on case %d: %s" % (name, i, c["cfg"]))
        if name.startswith("Div_"):
            v.divergence("%s: cfg=%s out3=%s out1=%s %s" % (name, c["cfg"], c["out3"], c["out1"], c["diag"]), c["cfg"])
            continue
        key = "C11|%s|%s" % (name, feature(name, c))
        v.violation(key, "%s: vg=%s topo=%s elems=%s" % (
            name, c["cfg"]["vg"], c["cfg"]["topo"],
            [(e["kind"], e["bus"], e["conn"], e["pat"], e["mod"]) for e in c["cfg"]["elems"] if e["kind"] != "none"]), c)
    solved = [c for c in cases if c["out3"] == "ok" and c["meta"]["checked"]]
    bal = [c for c in solved if c["meta"]["class"] == "balanced" and c["out1"] == "ok"]
    unb = [c for c in solved if c["meta"]["class"] == "unbalanced"]
    nontriv = [c for c in solved if any(e["kind"] != "none" and e["mod"] != "oos" and e["bus"] in c["meta"]["sup"]
                                        for e in c["cfg"]["elems"])]
    vdev = max([c["diag"].get("vdev", 0) for c in solved] or [0]) / 1e6
    v.coverage = {
        "states": mstates + st["states"], "transitions": mtrans + st["generated"],
        "traces_validated_against_impl": len(cases), "evaluations": len(cases), "exhaustive": not replay,
        "distinct_nontrivial": len({repr(c["cfg"]) for c in nontriv}),
        "rule": "every configuration of Phase3.tla for the tier's constants (vector group x topology x up to 2 elements "
                "with kind/bus/connection/level pattern/modifier, slot permutations removed); each is solved by "
                "runpp_3ph and runpp; non-trivial = distinct configuration with a documented vector group whose "
                "runpp_3ph converged and that has at least one live (in-service, supplied) element",
        "balanced_converged": len(bal), "unbalanced_converged": len(unb),
        "not_converged_3ph": sum(1 for c in cases if c["out3"] == "notconv"),
        "rejected_vector_group": sum(1 for c in cases if c["out3"] == "notimpl"),
        "unchecked_open_vector_group": sum(1 for c in cases if c["out3"] != "notimpl" and not c["meta"]["checked"]),
        "open_vector_group_converged_with_nan_voltages": sum(
            1 for c in cases if c["out3"] == "ok" and not c["meta"]["checked"]
            and any(x == NAN for b in c["r3"]["bus"] for x in b["vm"])),
        "balanced_by_cancellation_not_all_symmetric": sum(1 for c in unb if c["meta"]["netbal"]),
        "cases_with_bus_exempt_from_per_phase_balance_delta": sum(
            1 for c in unb if len(c["meta"]["perphase"]) < len(c["meta"]["sup"])),
        "cases_with_unsupplied_bus": sum(1 for c in solved if len(c["meta"]["sup"]) < 4),
        "max_abs_vm_minus_1": round(vdev, 4),
        "max_per_phase_nodal_residual_mw_non_slack": max([c["diag"].get("resid_nano", 0) for c in solved] or [0]) / 1e9,
        "wall_model_tlc_s": round(t1 - t0, 1), "wall_implementation_s": round(t2 - t1, 1),
        "wall_observation_tlc_s": round(t3 - t2, 1),
        "model_constants": TIER_CONSTANTS[tier] if not replay else "replay",
        "samples": [{k: c[k] for k in ("cfg", "unitp", "unitq", "meta", "out3", "out1")}
                    for c in cases[::max(1, len(cases) // 3)][:3]],
    }
    v.assumptions = [
        "template of 4 buses / 3 lines / one 20/0.4 kV transformer, one ext_grid; at most 2 PQ elements; gens, shunts, "
        "storage, wards, switches, trafo3w and load `type` values other than wye/delta are not enumerated",
        "delta-connected elements: per-phase balance is required only under all-symmetric loading (their p_a/p_b/p_c "
        "are branch powers), the three-phase sum always",
        "vector groups outside the documented set {Dyn, YNyn, Yzn}: only the accept/reject decision is bound",
        "non-converged runpp_3ph runs satisfy every clause vacuously (counted in coverage)",
    ]
    return v.finish()
