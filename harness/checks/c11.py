"""C11 — three-phase power flow consistent with the symmetric power flow (DESIGN §5, Phase3*.tla).

TLC enumerates the configurations (Phase3.tla: vector group x topology x element placement / connection / level pattern /
modifier, x busbar section behind a closed / open bus-bus switch, x ext_grid table) and dumps them with the wiring (`plant`) and element table values (`rows`) to build; every dumped final state
is instantiated on the template network, solved by runpp_3ph and runpp, and the logged numbers are judged by TLC with
the invariants of Phase3Obs.tla.  Python never compares results.
"""
import copy
import os
import random
import shutil
import tempfile
import time

from ..common import Verdict, fx, pool_map, use_repo, NAN
from ..obs import tlc_obs
from ..tla import MachineryError, SPEC_DIR, jsonable, run_tlc

# ---- harness-owned numeric tables (documented next to the spec: Phase3Def.tla header) -------------------------------
# one LEVEL unit of an element at bus b (micro-MW / micro-Mvar; even, because scaling 0.5 must stay on the integer grid)
UNIT = {"mv": (20000, 6000), "lv": (4000, 1200)}        # by the voltage level of the bus (plant["level"])
VN_KV = {"mv": 20.0, "lv": 0.4}
# ext_grid row k (table order): set point and short-circuit power; different per row so that every ext_grid carries a
# different power
EG_VM = lambda k: 1.02 - 0.0003 * k       # noqa: E731
EG_VA = lambda k: 0.004 * k               # noqa: E731
EG_SSC = lambda k: 1000.0 - 100.0 * k     # noqa: E731
SHIFT = {"Dyn": 150.0, "YNyn": 0.0, "Yzn": 150.0, "Yy": 0.0, "YNd": 150.0}     # shift_degree used with a vector group
PH = "abc"
TABLE = {"load": "load", "sgen": "sgen", "asymmetric_load": "asymmetric_load", "asymmetric_sgen": "asymmetric_sgen"}

TIER_CONSTANTS = {
    "quick": {"NSlots": "2", "ElemBuses": "{1, 2, 4}", "Pats": '{"bal", "unb"}', "Mods": '{"none"}',
              "VGs": '{"Dyn", "YNyn", "Yzn"}', "Topos": '{"radial", "cut"}',
              "Cpls": '{"c4", "c2", "o4"}', "EgSets": '{"g13", "g31"}', "StrideB": "3", "StrideC": "8"},
    "thorough": {"NSlots": "2", "ElemBuses": "{1, 2, 4}", "Pats": '{"bal", "unb", "zero"}',
                 "Mods": '{"none", "oos", "half"}', "VGs": '{"Dyn", "YNyn", "Yzn", "Yy", "YNd"}',
                 "Topos": '{"radial", "ring", "cut", "toff", "notrafo"}',
                 "Cpls": '{"c4", "c2", "o4", "o2", "c3"}', "EgSets": '{"g13", "g31", "g3x1", "g321"}',
                 "StrideB": "2", "StrideC": "4"},
}

# families B / C (see family()) are thinned IN THE MODEL: one configuration in StrideB / StrideC, the slice is chosen by
# Offset = seed (Phase3.tla Slice); every configuration the model enumerates is instantiated

_BASE = {}


def base_net(vg, plant):
    """Template of Phase3Def.tla for one (vector group, topology); wiring and flags come from the model's `plant`."""
    import pandapower as pp
    key = (vg, tuple(plant["lines"]), plant["trafo"], tuple(plant["level"]),
           tuple((w["a"], w["b"], w["closed"]) for w in plant["sw"]), tuple((g["bus"], g["ins"]) for g in plant["egs"]))
    if key in _BASE:
        return _BASE[key]
    net = pp.create_empty_network()
    b = [pp.create_bus(net, VN_KV[lv]) for lv in plant["level"]]
    for k, g in enumerate(plant["egs"]):
        pp.create_ext_grid(net, b[g["bus"] - 1], vm_pu=EG_VM(k), va_degree=EG_VA(k), s_sc_max_mva=EG_SSC(k), rx_max=0.1,
                           r0x0_max=0.1, x0x_max=1.0, in_service=bool(g["ins"]))
    for (f, t), ins in zip(plant["ends"], plant["lines"]):
        pp.create_line_from_parameters(net, b[f - 1], b[t - 1], 2.0, 0.12, 0.11, 10.0, 0.5, r0_ohm_per_km=0.4,
                                       x0_ohm_per_km=0.4, c0_nf_per_km=5.0, in_service=bool(ins))
    if plant["trafo"] != "absent":
        pp.create_transformer_from_parameters(
            net, b[plant["thv"] - 1], b[plant["tlv"] - 1], sn_mva=1.6, vn_hv_kv=20.0, vn_lv_kv=0.4, vkr_percent=1.0,
            vk_percent=6.0, pfe_kw=1.0, i0_percent=0.1, shift_degree=SHIFT[vg], vector_group=vg, vk0_percent=6.0,
            vkr0_percent=1.0, mag0_percent=100.0, mag0_rx=0.0, si0_hv_partial=0.9,
            in_service=plant["trafo"] == "on")
    for w in plant["sw"]:
        pp.create_switch(net, b[w["a"] - 1], b[w["b"] - 1], et="b", closed=bool(w["closed"]))
    _BASE[key] = net
    return net


def add_elements(pp, net, case):
    """Writes the model's `rows` (level units) x unit table into the element tables; returns [(table, index) | None]."""
    where = []
    for e, r in zip(case["cfg"]["elems"], case["rows"]):
        k = e["kind"]
        if k == "none":
            where.append(None)
            continue
        bus = e["bus"] - 1
        up, uq = case["unitp"][bus] * 1e-6, case["unitq"][bus] * 1e-6
        kw = dict(scaling=r["scaling2"] / 2.0, in_service=bool(r["in_service"]), type=e["conn"])
        if k == "load":
            idx = pp.create_load(net, bus, p_mw=r["pt"] * up, q_mvar=r["qt"] * uq, **kw)
        elif k == "sgen":
            idx = pp.create_sgen(net, bus, p_mw=r["pt"] * up, q_mvar=r["qt"] * uq, **kw)
        else:
            fn = pp.create_asymmetric_load if k == "asymmetric_load" else pp.create_asymmetric_sgen
            idx = fn(net, bus, p_a_mw=r["p"][0] * up, p_b_mw=r["p"][1] * up, p_c_mw=r["p"][2] * up,
                     q_a_mvar=r["q"][0] * uq, q_b_mvar=r["q"][1] * uq, q_c_mvar=r["q"][2] * uq, **kw)
        where.append((TABLE[k], idx))
    return where


def _tri(df, row, pat):
    return [fx(df.at[row, pat % ph]) for ph in PH]


def project3(net, where, ok):
    nan3 = [NAN, NAN, NAN]
    if not ok:
        return {"bus": [], "line": [], "trafo": [], "eg": [], "elem": []}
    rb, rl, rt, re_ = net.res_bus_3ph, net.res_line_3ph, net.res_trafo_3ph, net.res_ext_grid_3ph
    out = {"bus": [{"vm": _tri(rb, b, "vm_%s_pu"), "va": _tri(rb, b, "va_%s_degree"), "p": _tri(rb, b, "p_%s_mw"),
                    "q": _tri(rb, b, "q_%s_mvar")} for b in net.bus.index],
           "line": [{"f": {"p": _tri(rl, l, "p_%s_from_mw"), "q": _tri(rl, l, "q_%s_from_mvar")},
                     "t": {"p": _tri(rl, l, "p_%s_to_mw"), "q": _tri(rl, l, "q_%s_to_mvar")}} for l in net.line.index],
           "trafo": [{"hv": {"p": _tri(rt, t, "p_%s_hv_mw"), "q": _tri(rt, t, "q_%s_hv_mvar")},
                      "lv": {"p": _tri(rt, t, "p_%s_lv_mw"), "q": _tri(rt, t, "q_%s_lv_mvar")}} for t in net.trafo.index],
           "eg": [{"p": _tri(re_, g, "p_%s_mw"), "q": _tri(re_, g, "q_%s_mvar")} for g in net.ext_grid.index],
           "elem": []}
    for w in where:
        if w is None:
            out["elem"].append({"p": [0, 0, 0], "q": [0, 0, 0], "pt": 0, "qt": 0})
            continue
        df = net["res_%s_3ph" % w[0]]
        if w[0].startswith("asymmetric"):
            out["elem"].append({"p": _tri(df, w[1], "p_%s_mw"), "q": _tri(df, w[1], "q_%s_mvar"), "pt": NAN, "qt": NAN})
        else:
            out["elem"].append({"p": nan3, "q": nan3, "pt": fx(df.at[w[1], "p_mw"]), "qt": fx(df.at[w[1], "q_mvar"])})
    return out


def project1(net, where, ok):
    if not ok:
        return {"bus": [], "line": [], "trafo": [], "eg": [], "elem": []}
    rb, rl, rt, re_ = net.res_bus, net.res_line, net.res_trafo, net.res_ext_grid
    out = {"bus": [{"vm": fx(rb.at[b, "vm_pu"]), "va": fx(rb.at[b, "va_degree"]), "p": fx(rb.at[b, "p_mw"]),
                    "q": fx(rb.at[b, "q_mvar"])} for b in net.bus.index],
           "line": [{"f": {"p": fx(rl.at[l, "p_from_mw"]), "q": fx(rl.at[l, "q_from_mvar"])},
                     "t": {"p": fx(rl.at[l, "p_to_mw"]), "q": fx(rl.at[l, "q_to_mvar"])}} for l in net.line.index],
           "trafo": [{"hv": {"p": fx(rt.at[t, "p_hv_mw"]), "q": fx(rt.at[t, "q_hv_mvar"])},
                      "lv": {"p": fx(rt.at[t, "p_lv_mw"]), "q": fx(rt.at[t, "q_lv_mvar"])}} for t in net.trafo.index],
           "eg": [{"p": fx(re_.at[g, "p_mw"]), "q": fx(re_.at[g, "q_mvar"])} for g in net.ext_grid.index], "elem": []}
    for w in where:
        if w is None:
            out["elem"].append({"pt": 0, "qt": 0})
        else:
            df = net["res_" + w[0]]
            out["elem"].append({"pt": fx(df.at[w[1], "p_mw"]), "qt": fx(df.at[w[1], "q_mvar"])})
    return out


def _residual(net, case, where):
    """STATISTICS ONLY (never part of a verdict): largest per-phase nodal residual in nano-MW / nano-Mvar over the
    non-slack buses where the model requires per-phase balance; documents the margin of NodalTol in Phase3Obs.tla."""
    worst = 0.0
    pl = case["plant"]
    node = lambda x: pl["node"][x - 1]         # noqa: E731
    slack_nodes = {node(g["bus"]) for g in pl["egs"] if g["ins"]}
    for b in case["meta"]["perphase"]:
        if node(b) != b or b in slack_nodes:
            continue
        for ph in PH:
            for col, q in (("p_%s%s_mw", False), ("q_%s%s_mvar", True)):
                s = 0.0
                for e, w in zip(case["cfg"]["elems"], where):
                    if w is None or node(e["bus"]) != b:
                        continue
                    sign = -1.0 if w[0].endswith("sgen") else 1.0
                    df = net["res_%s_3ph" % w[0]]
                    if w[0].startswith("asymmetric"):
                        s += sign * float(df.at[w[1], ("q_%s_mvar" if q else "p_%s_mw") % ph])
                    else:
                        s += sign * float(df.at[w[1], "q_mvar" if q else "p_mw"]) / 3.0
                for l, ((f, t), ins) in enumerate(zip(pl["ends"], pl["lines"])):
                    if ins and node(f) == b:
                        s += float(net.res_line_3ph.at[l, col % (ph, "_from")])
                    if ins and node(t) == b:
                        s += float(net.res_line_3ph.at[l, col % (ph, "_to")])
                if pl["trafo"] == "on" and b == node(pl["thv"]):
                    s += float(net.res_trafo_3ph.at[0, col % (ph, "_hv")])
                if pl["trafo"] == "on" and b == node(pl["tlv"]):
                    s += float(net.res_trafo_3ph.at[0, col % (ph, "_lv")])
                if s == s:
                    worst = max(worst, abs(s))
    return int(round(worst * 1e9))


def observe(case):
    """Instantiate one model state on the real code: runpp_3ph and runpp on the same network; log fixed-point numbers."""
    import numpy as np
    import pandapower as pp
    from pandapower.pf.runpp_3ph import runpp_3ph
    from pandapower.auxiliary import LoadflowNotConverged
    net = copy.deepcopy(base_net(case["cfg"]["vg"], case["plant"]))
    where = add_elements(pp, net, case)
    obs = dict(case)
    diag = {"vdev": 0, "resid_nano": 0}
    try:
        runpp_3ph(net, tolerance_mva=1e-9, max_iteration=60)
        out3 = "ok" if net.converged else "notconv"
    except LoadflowNotConverged:
        out3 = "notconv"
    except NotImplementedError:
        out3 = "notimpl"
    except Exception as e:  # noqa
        out3 = "error"
        diag["err3"] = "%s: %s" % (type(e).__name__, str(e)[:200])
    try:
        obs["r3"] = project3(net, where, out3 == "ok")
        if out3 == "ok":
            vm = net.res_bus_3ph[["vm_a_pu", "vm_b_pu", "vm_c_pu"]].values
            if np.isfinite(vm).any():
                diag["vdev"] = int(round(float(np.nanmax(np.abs(vm - 1.0))) * 1e6))     # micro-p.u., statistics only
            if case["meta"]["checked"]:
                diag["resid_nano"] = _residual(net, case, where)
    except OverflowError as e:      # |value| >= 1000: garbage results (only seen outside the documented vector groups)
        out3 = "error"
        diag["err3"] = "OverflowError: %s" % e
        obs["r3"] = project3(net, where, False)
    try:
        pp.runpp(net, tolerance_mva=1e-9, calculate_voltage_angles=True)
        out1 = "ok" if net.converged else "notconv"
    except LoadflowNotConverged:
        out1 = "notconv"
    except Exception as e:  # noqa
        out1 = "error"
        diag["err1"] = "%s: %s" % (type(e).__name__, str(e)[:200])
    try:
        obs["r1"] = project1(net, where, out1 == "ok")
    except OverflowError as e:
        out1 = "error"
        diag["err1"] = "OverflowError: %s" % e
        obs["r1"] = project1(net, where, False)
    obs["out3"], obs["out1"], obs["diag"] = out3, out1, diag
    return obs


def units(tier, seed, k, level):
    """Level -> float table of one case: the base table, in the thorough tier with a seeded +-30 % jitter per bus."""
    up, uq = [UNIT[lv][0] for lv in level], [UNIT[lv][1] for lv in level]
    if tier != "thorough":
        return up, uq
    rng = random.Random("%d|%d" % (seed, k))
    jit = lambda u: max(2, 2 * int(round(u * (0.7 + 0.6 * rng.random()) / 2.0)))   # noqa: E731
    return [jit(u) for u in up], [jit(u) for u in uq]


def model_cases(tier, seed):
    wd = tempfile.mkdtemp(prefix="ppverif_c11_")
    try:
        lines = ["INIT Init", "NEXT Next", "CONSTANTS"]
        lines += ["  %s = %s" % kv for kv in TIER_CONSTANTS[tier].items()]
        lines.append("  Offset = %d" % (abs(int(seed)) % 840))          # 840: a multiple of every stride in use
        for ln in open(os.path.join(SPEC_DIR, "Phase3.cfg")):
            if ln.startswith("INVARIANT"):
                lines.append(ln.strip())
        with open(os.path.join(wd, "Phase3_run.cfg"), "w") as f:
            f.write("\n".join(lines) + "\n")
        r = run_tlc("Phase3", os.path.join(wd, "Phase3_run.cfg"), workdir=wd, dump=True)
    finally:
        shutil.rmtree(wd, ignore_errors=True)
    final = [s for s in r.dump if s["stage"] in ("done", "rejected")]
    final.sort(key=lambda s: repr(jsonable(s["cfg"])))
    cases = []
    for k, s in enumerate(final):
        up, uq = units(tier, seed, k, jsonable(s["plant"])["level"])
        cases.append({"cfg": jsonable(s["cfg"]), "plant": jsonable(s["plant"]), "rows": jsonable(s["rows"]),
                      "unitp": up, "unitq": uq,
                      "meta": {"stage": s["stage"], "class": s["req"]["class"], "netbal": s["req"]["netbal"],
                               "checked": s["req"]["checked"], "slackload": s["req"]["slackload"],
                               "fusedload": s["req"]["fusedload"], "family": family(jsonable(s["cfg"])),
                               "perphase": sorted(s["req"]["perphase"]), "sup": sorted(s["sup"])}})
    return r, cases


def family(cfg):
    """A = one ext_grid on bus 1, no busbar section (the space of the first version of this check); B = busbar section;
    C = several ext_grid rows."""
    if cfg["cpl"]["state"] != "none":
        return "B"
    return "A" if len(cfg["egs"]) == 1 else "C"


SLACK_CLAUSES = ("C11_BalancedThirdsExtGrid", "C11_BalancedThirdsBus_Slack", "C11_NodalBalance_Slack")


def feature(name, c):
    """Structural feature class of a violated clause (for the finding key only)."""
    oos_row = any(not g["ins"] for g in c["cfg"]["egs"])
    if name in SLACK_CLAUSES:
        if oos_row:
            return "out_of_service_ext_grid_row"
        fam = "_several_ext_grids" if c["meta"]["family"] == "C" else ""
        return ("element_on_ext_grid_bus" if c["meta"]["slackload"] else "no_element_on_ext_grid_bus") + fam
    fam = {"A": "", "B": "_busbar_section_%s" % c["cfg"]["cpl"]["state"],
           "C": "_out_of_service_ext_grid_row" if oos_row else "_several_ext_grids"}[c["meta"]["family"]]
    return "%s_%s%s" % (c["cfg"]["vg"], c["meta"]["class"], fam)


def run(tier, seed, replay=None):
    v = Verdict("C11", tier, seed, "exploration")
    use_repo()
    t0 = time.time()
    if replay:
        keep = ("cfg", "plant", "rows", "unitp", "unitq", "meta")
        todo = [{k: replay["case"][k] for k in keep}]
        mstates = mtrans = 0
        mviol = []
    else:
        r, todo = model_cases(tier, seed)
        mstates, mtrans, mviol = r.distinct, r.transitions, r.violations
    for name, st, raw in mviol:
        v.divergence("model-level: %s violated on the spec alone" % name, None)
    t1 = time.time()
    cases = pool_map(observe, todo, procs=int(os.environ.get("VERIF_PROCS", "16")))
    t2 = time.time()
    fails, st = tlc_obs("Phase3Obs", "Phase3Obs.cfg", cases)
    t3 = time.time()
    for name, i in fails:
        c = cases[i]
        if name.startswith("H_"):
            raise MachineryError("harness sanity invariant %s failed on case %d: %s" % (name, i, c["cfg"]))
        if name.startswith("Div_"):
            v.divergence("%s: cfg=%s out3=%s out1=%s %s" % (name, c["cfg"], c["out3"], c["out1"], c["diag"]), c["cfg"])
            continue
        key = "C11|%s|%s" % (name, feature(name, c))
        v.violation(key, "%s: vg=%s topo=%s elems=%s" % (
            name, c["cfg"]["vg"], c["cfg"]["topo"],
            [(e["kind"], e["bus"], e["conn"], e["pat"], e["mod"]) for e in c["cfg"]["elems"] if e["kind"] != "none"]), c)
    solved = [c for c in cases if c["out3"] == "ok" and c["meta"]["checked"]]
    bal = [c for c in solved if c["meta"]["class"] == "balanced" and c["out1"] == "ok"]
    unb = [c for c in solved if c["meta"]["class"] == "unbalanced"]
    nontriv = [c for c in solved if any(e["kind"] != "none" and e["mod"] != "oos" and e["bus"] in c["meta"]["sup"]
                                        for e in c["cfg"]["elems"])]
    vdev = max([c["diag"].get("vdev", 0) for c in solved] or [0]) / 1e6
    v.coverage = {
        "states": mstates + st["states"], "transitions": mtrans + st["generated"],
        "traces_validated_against_impl": len(cases), "evaluations": len(cases),
        "exhaustive": not replay,
        "instantiated_by_family": {f: sum(1 for c in cases if c["meta"]["family"] == f) for f in "ABC"},
        "fused_buses_both_carrying_live_elements": sum(1 for c in solved if c["meta"]["fusedload"]),
        "several_ext_grids_converged": sum(1 for c in solved if len(c["cfg"]["egs"]) > 1),
        "ext_grid_rows_not_in_ascending_bus_order": sum(
            1 for c in solved if [g["bus"] for g in c["cfg"]["egs"]] != sorted(g["bus"] for g in c["cfg"]["egs"])),
        "distinct_nontrivial": len({repr(c["cfg"]) for c in nontriv}),
        "rule": "configurations of Phase3.tla for the tier's constants (vector group x topology x up to 2 elements "
                "with kind/bus/connection/level pattern/modifier, slot permutations removed; family B: busbar section behind "
                "a closed/open bus-bus switch; family C: several ext_grid rows in any table order; B and C thinned in the model "
                "to one configuration in StrideB / StrideC, slice chosen by the seed); each is solved by "
                "runpp_3ph and runpp; non-trivial = distinct configuration with a documented vector group whose "
                "runpp_3ph converged and that has at least one live (in-service, supplied) element",
        "balanced_converged": len(bal), "unbalanced_converged": len(unb),
        "not_converged_3ph": sum(1 for c in cases if c["out3"] == "notconv"),
        "rejected_vector_group": sum(1 for c in cases if c["out3"] == "notimpl"),
        "unchecked_open_vector_group": sum(1 for c in cases if c["out3"] != "notimpl" and not c["meta"]["checked"]),
        "open_vector_group_converged_with_nan_voltages": sum(
            1 for c in cases if c["out3"] == "ok" and not c["meta"]["checked"]
            and any(x == NAN for b in c["r3"]["bus"] for x in b["vm"])),
        "balanced_by_cancellation_not_all_symmetric": sum(1 for c in unb if c["meta"]["netbal"]),
        "cases_with_bus_exempt_from_per_phase_balance_delta": sum(
            1 for c in unb if len(c["meta"]["perphase"]) < len(c["meta"]["sup"])),
        "cases_with_unsupplied_bus": sum(1 for c in solved if len(c["meta"]["sup"]) < len(c["plant"]["level"])),
        "max_abs_vm_minus_1": round(vdev, 4),
        "max_per_phase_nodal_residual_mw_non_slack": max([c["diag"].get("resid_nano", 0) for c in solved] or [0]) / 1e9,
        "wall_model_tlc_s": round(t1 - t0, 1), "wall_implementation_s": round(t2 - t1, 1),
        "wall_observation_tlc_s": round(t3 - t2, 1),
        "model_constants": TIER_CONSTANTS[tier] if not replay else "replay",
        "samples": [{k: c[k] for k in ("cfg", "unitp", "unitq", "meta", "out3", "out1")}
                    for c in cases[::max(1, len(cases) // 3)][:3]],
    }
    v.assumptions = [
        "template of 4 buses / 3 lines / one 20/0.4 kV transformer, optionally a 5th bus behind one bus-bus switch, one to "
        "three ext_grid rows on the 20 kV buses; at most 2 PQ elements; gens, shunts, storage, wards, line / trafo switches, "
        "trafo3w and load `type` values other than wye/delta are not enumerated; a busbar section and several ext_grids are "
        "not combined with each other nor with the non-reference vector groups",
        "delta-connected elements: per-phase balance is required only under all-symmetric loading (their p_a/p_b/p_c "
        "are branch powers), the three-phase sum always",
        "vector groups outside the documented set {Dyn, YNyn, Yzn}: only the accept/reject decision is bound",
        "non-converged runpp_3ph runs satisfy every clause vacuously (counted in coverage)",
    ]
    return v.finish()
