"""C25 — standard types are applied completely and consistently (DESIGN §4, StdTypes.tla / StdApply.tla)."""
import copy
import random

from ..common import Verdict, fx, pool_map, use_repo
from ..obs import tlc_obs
from ..tla import jsonable, run_tlc
from .c24 import std_types, token

DATA = {"d1": {"r_ohm_per_km": 0.11, "x_ohm_per_km": 0.12, "c_nf_per_km": 13.0, "max_i_ka": 0.14, "type": "cs"},
        "d2": {"r_ohm_per_km": 0.21, "x_ohm_per_km": 0.22, "c_nf_per_km": 23.0, "max_i_ka": 0.24, "type": "ol", "q_mm2": 25.0}}
_BASE = {}
ZERO_SEQ = {"r0_ohm_per_km", "x0_ohm_per_km", "c0_nf_per_km", "g0_us_per_km", "vk0_percent", "vkr0_percent", "mag0_percent",
            "mag0_rx", "si0_hv_partial", "vector_group"}
RELEVANT = ZERO_SEQ | {"r_ohm_per_km", "x_ohm_per_km", "c_nf_per_km", "g_us_per_km", "max_i_ka", "type", "sn_mva", "vn_hv_kv",
                       "vn_lv_kv", "vk_percent", "vkr_percent", "pfe_kw", "i0_percent", "shift_degree", "sn_hv_mva", "sn_mv_mva",
                       "sn_lv_mva", "vn_mv_kv", "vk_hv_percent", "vk_mv_percent", "vk_lv_percent", "vkr_hv_percent",
                       "vkr_mv_percent", "vkr_lv_percent", "shift_mv_degree", "shift_lv_degree", "tap_side", "tap_neutral",
                       "tap_min", "tap_max", "tap_step_percent", "tap_step_degree", "tap_changer_type"}   # = StdTypesObs!Relevant


# ---------------------------------------------------------------- library histories
def obs_lib(hist):
    import pandapower as pp
    nets = {1: pp.create_empty_network(add_stdtypes=False), 2: pp.create_empty_network(add_stdtypes=False)}
    out = {"kind": "lib", "hist": hist, "loads": [], "raised": []}
    for a in hist:
        net = nets[a["net"]]
        raised = False
        try:
            if a["op"] == "create":
                pp.create_std_type(net, copy.deepcopy(DATA[a["data"]]), a["name"], element="line", overwrite=a["ow"])
            elif a["op"] == "rename":
                pp.rename_std_type(net, a["name"], a["data"], element="line")
            elif a["op"] == "delete":
                pp.delete_std_type(net, a["name"], element="line")
            elif a["op"] == "copy":
                pp.copy_std_types(net, nets[3 - a["net"]], element="line", overwrite=a["ow"])
        except UserWarning:
            raised = True
        out["raised"].append(raised)
        loads = []
        for n in (1, 2):
            d = {}
            for x in ("a", "b", "c"):
                try:
                    got = pp.load_std_type(nets[n], x, element="line")
                    d[x] = next((k for k, v in DATA.items() if v == got), "?" + repr(sorted(got.items()))[:60])
                except UserWarning:
                    d[x] = "none"
            loads.append(d)
        out["loads"].append(loads)
    return out


# ---------------------------------------------------------------- apply completely / same in calculations
def feeder():
    """ext_grid - 20 kV line - 20 kV bus - trafo - 0.4 kV load; a 110/20/10 trafo3w variant on demand"""
    import pandapower as pp
    net = pp.create_empty_network()
    b = [pp.create_bus(net, 110.0), pp.create_bus(net, 20.0), pp.create_bus(net, 20.0), pp.create_bus(net, 0.4),
         pp.create_bus(net, 10.0)]
    pp.create_ext_grid(net, b[0], vm_pu=1.01)
    return net, b


def element_tokens(df, idx, keys):
    return sorted([k, token(df.at[idx, k])] for k in keys if k in df.columns)


def apply_case(el, typ, name, route, net_std=None):
    """create an element from the type (or change an existing one to it); returns (net, index)"""
    import pandapower as pp
    from ..templates import line as mkline, trafo as mktrafo, trafo3w as mkt3
    net, b = feeder()
    if route == "rechange":
        # an earlier definition under the same name (numbers scaled by 1.25), an element created from it, then the
        # definition is replaced and the unchanged name re-applied
        old = {k: (v * 1.25 if isinstance(v, float) and k not in ("shift_degree", "shift_mv_degree", "shift_lv_degree") else v)
               for k, v in copy.deepcopy(typ).items()}
        pp.create_std_type(net, old, name, element=el, overwrite=True)
        if el == "line":
            i = pp.create_line(net, b[1], b[2], 2.0, name)
        elif el == "trafo":
            i = pp.create_transformer(net, b[0], b[1], name)
        else:
            i = pp.create_transformer3w(net, b[0], b[1], b[4], name)
        pp.create_std_type(net, copy.deepcopy(typ), name, element=el, overwrite=True)
        pp.change_std_type(net, i, name, element=el)
        return net, i
    if name not in net.std_types[el]:
        pp.create_std_type(net, copy.deepcopy(typ), name, element=el)
    if el == "line":
        if route == "create":
            i = pp.create_line(net, b[1], b[2], 2.0, name)
        else:
            i = mkline(pp, net, b[1], b[2], km=2.0)
            pp.change_std_type(net, i, name, element="line")
    elif el == "trafo":
        if route == "create":
            i = pp.create_transformer(net, b[0], b[1], name)
        else:
            i = mktrafo(pp, net, b[0], b[1], vn_hv=110.0, vn_lv=20.0, sn=40.0)
            pp.change_std_type(net, i, name, element="trafo")
    else:
        if route == "create":
            i = pp.create_transformer3w(net, b[0], b[1], b[4], name)
        else:
            i = mkt3(pp, net, b[0], b[1], b[4], vn=(110.0, 20.0, 10.0))
            pp.change_std_type(net, i, name, element="trafo3w")
    return net, i


def obs_apply(job):
    import pandapower as pp
    el, route = job["el"], job["route"]
    if job.get("builtin"):
        name = job["builtin"]
        typ = pp.create_empty_network().std_types[el][name]
    else:
        lt, tt, t3 = std_types(job["shape"])
        if "std_zero_line" in job["shape"]:
            lt.update({"r0_ohm_per_km": 1008.0, "x0_ohm_per_km": 1009.0, "c0_nf_per_km": 1010.0})
        typ = {"line": lt, "trafo": tt, "trafo3w": t3}[el]
        name = "vt"
    out = {"kind": "apply", "cfg": job, "err": ""}
    try:
        net, i = apply_case(el, typ, name, route)
        out["typ"] = sorted([k, token(v)] for k, v in typ.items())
        out["row"] = sorted([str(c), token(net[el].at[i, c])] for c in net[el].columns)
    except Exception as e:  # noqa
        out["err"] = "%s: %s" % (type(e).__name__, str(e)[:100])
        out["typ"] = [["#error", out["err"]]]
        out["row"] = []
    return out


EXPLICIT = {
    "line": ("create_line_from_parameters", ["r_ohm_per_km", "x_ohm_per_km", "c_nf_per_km", "max_i_ka", "g_us_per_km", "alpha",
                                              "temperature_degree_celsius", "r0_ohm_per_km", "x0_ohm_per_km", "c0_nf_per_km",
                                              "type"]),
    "trafo": ("create_transformer_from_parameters", None),
    "trafo3w": ("create_transformer3w_from_parameters", None),
}


def obs_calc(job):
    """std-type element vs the same element from explicit parameters (every key of the type that the explicit create
    function accepts), both solved"""
    import inspect
    import pandapower as pp
    el, name = job["el"], job["builtin"]
    out = {"kind": "calc", "cfg": job}
    typ = pp.create_empty_network().std_types[el][name]

    def solve(net, i):
        pp.create_load(net, net[el].at[i, {"line": "to_bus", "trafo": "lv_bus", "trafo3w": "mv_bus"}[el]], 0.3, 0.1)
        if el == "trafo3w":
            pp.create_load(net, net[el].at[i, "lv_bus"], 0.2, 0.05)
        try:
            pp.runpp(net, tolerance_mva=1e-9, calculate_voltage_angles=True)
            r = net["res_" + el]
            vals = [fx(x) for x in net.res_bus.vm_pu.values] + [fx(x) for x in net.res_bus.va_degree.values / 10.0]
            vals += [fx(x) for c in r.columns if c.startswith(("p_", "q_", "pl_", "ql_")) for x in r[c].values]
            return {"conv": True, "vals": vals}
        except Exception as e:  # noqa
            return {"conv": False, "vals": [], "err": type(e).__name__}
    try:
        net_a, ia = apply_case(el, typ, name, "create")
        # adapt bus voltage levels to the type so that the flows are meaningful
        net_b, b = feeder()
        fn = getattr(pp, EXPLICIT[el][0])
        accepted = set(inspect.signature(fn).parameters)
        kw = {k: v for k, v in typ.items() if k in accepted}
        if el == "line":
            ib = fn(net_b, b[1], b[2], 2.0, **kw)
        elif el == "trafo":
            ib = fn(net_b, b[0], b[1], **kw)
        else:
            ib = fn(net_b, b[0], b[1], b[4], **kw)
        for net in (net_a, net_b):
            if el == "line":
                pp.create_line_from_parameters(net, 0, 1, 1.0, 0.1, 0.1, 0.0, 1.0)      # connect the 20 kV part to the slack
                net.bus.loc[[0, 1, 2], "vn_kv"] = 20.0
            elif el == "trafo":
                net.bus.at[0, "vn_kv"] = float(typ["vn_hv_kv"])
                net.bus.at[1, "vn_kv"] = float(typ["vn_lv_kv"])
            else:
                net.bus.at[0, "vn_kv"] = float(typ["vn_hv_kv"])
                net.bus.at[1, "vn_kv"] = float(typ["vn_mv_kv"])
                net.bus.at[4, "vn_kv"] = float(typ["vn_lv_kv"])
        out["a"], out["b"] = solve(net_a, ia), solve(net_b, ib)
    except Exception as e:  # noqa
        out["a"] = out["b"] = {"conv": False, "vals": [], "err": "%s: %s" % (type(e).__name__, str(e)[:80])}
    return out


def dispatch(job):
    return {"lib": obs_lib, "apply": obs_apply, "calc": obs_calc}[job["kind"]](job["arg"])


def run(tier, seed, replay=None):
    v = Verdict("C25", tier, seed, "model_checking")
    use_repo()
    import pandapower as pp
    rnd = random.Random(seed)
    if replay:
        jobs = [replay["case"]["job"]]
        states = trans = 1
    else:
        import os, shutil, tempfile
        from ..tla import SPEC_DIR
        wd = tempfile.mkdtemp(prefix="ppverif_c25_")
        try:
            cfg = open(os.path.join(SPEC_DIR, "StdTypes.cfg")).read()
            if tier == "quick":
                cfg = cfg.replace("MaxLen = 3", "MaxLen = 2")
            open(os.path.join(wd, "StdTypes.cfg"), "w").write(cfg)
            r = run_tlc("StdTypes", "StdTypes.cfg", workdir=wd, dump=True, timeout=3000)
        finally:
            shutil.rmtree(wd, ignore_errors=True)
        for name, st, raw in r.violations:
            v.divergence("model-level: %s" % name, None)
        hists = [jsonable(s["hist"]) for s in r.dump if s["hist"]]
        pref = {repr(h[:-1]) for h in hists if len(h) > 1}
        hists = [h for h in hists if repr(h) not in pref]
        r2 = run_tlc("StdApply", "StdApply.cfg", dump=True)
        applies = [jsonable(s["cfg"]) for s in r2.dump]
        states, trans = r.distinct + r2.distinct, r.transitions + r2.transitions
        jobs = [{"kind": "lib", "arg": h} for h in hists] + [{"kind": "apply", "arg": c} for c in applies]
        lib = pp.create_empty_network().std_types
        for el in ("line", "trafo", "trafo3w"):
            names = sorted(lib[el])
            pick = names if tier == "thorough" else rnd.sample(names, min(12, len(names)))
            for n in pick:
                for route in ("create", "change"):
                    jobs.append({"kind": "apply", "arg": {"el": el, "shape": [], "route": route, "builtin": n}})
                jobs.append({"kind": "calc", "arg": {"el": el, "builtin": n}})
    cases = pool_map(dispatch, jobs)
    for c, j in zip(cases, jobs):
        c["job"] = j
    fails, st = tlc_obs("StdTypesObs", "StdTypesObs.cfg", cases, chunk=4000)
    for name, i in fails:
        c = cases[i]
        if c["kind"] == "lib":
            key = "C25|%s|%s" % (name, ">".join(a["op"] for a in c["hist"]))
            what = "%s after %s: loads %s raised %s" % (name, [(a["op"], a["net"], a["name"], a["data"], a["ow"]) for a in c["hist"]],
                                                      c["loads"][-1], c["raised"])
        elif c["kind"] == "apply":
            row = dict(map(tuple, c["row"]))
            miss = sorted(k for k, t in c["typ"] if row.get(k, "#absent") != t and k in RELEVANT)
            fam = sorted({"zero_seq" if k in ZERO_SEQ else "tap" if k.startswith("tap") else k for k in miss})
            key = "C25|%s|%s|%s|%s" % (name, c["cfg"]["el"], c["cfg"]["route"], ",".join(fam)[:100])
            what = "%s: %s %s type %s: parameters of the type not in the row: %s %s" % (
                name, c["cfg"]["route"], c["cfg"]["el"], c["cfg"].get("builtin") or c["cfg"]["shape"],
                [(k, dict(map(tuple, c["typ"]))[k], row.get(k, "#absent")) for k in miss][:6], c["err"])
        else:
            key = "C25|%s|%s" % (name, c["cfg"]["el"])
            what = "%s: %s %s: std conv=%s explicit conv=%s %s" % (name, c["cfg"]["el"], c["cfg"]["builtin"], c["a"]["conv"],
                                                                 c["b"]["conv"], c["a"].get("err", ""))
        v.violation(key, what, {"job": c["job"]})
    kinds = {k: sum(1 for c in cases if c["kind"] == k) for k in ("lib", "apply", "calc")}
    v.coverage = {
        "states": states + st["states"], "transitions": trans + st["generated"],
        "traces_validated_against_impl": len(cases), "exhaustive": tier == "thorough", "evaluations": len(cases),
        "distinct_nontrivial": sum(1 for c in cases if (c["kind"] == "lib" and len(c["hist"]) >= 2) or
                                   (c["kind"] == "apply" and (c["cfg"].get("shape") or c["cfg"].get("builtin"))) or c["kind"] == "calc"),
        "rule": "library histories (create/rename/delete/copy over two nets, every maximal history of StdTypes.tla), apply "
                "configurations of StdApply.tla (element kind x type shape x create/change_std_type), and built-in types "
                "(%s) applied and compared in a power flow with explicitly parameterised elements" % (
                    "all" if tier == "thorough" else "12 per element kind, seeded"),
        "by_kind": kinds,
        "samples": [{k: c[k] for k in c if k not in ("row", "typ", "job")} for c in (cases[0], cases[len(cases) // 2], cases[-1])],
    }
    v.assumptions = ["line library for the state machine part; tokens as in C24", "fuse standard types not covered"]
    return v.finish()
