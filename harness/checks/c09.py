"""C09 — results do not depend on the history of the net object (DESIGN §4, History.tla)."""
import copy

from ..common import Verdict, fx, pool_map, use_repo
from ..obs import tlc_obs
from ..tla import jsonable, run_tlc

_BASE = {}


def build_hist_net():
    import pandapower as pp
    from ..templates import build_calc_net
    net = build_calc_net(("usergens",))
    pp.create_switch(net, 1, 0, et="l", closed=False)      # sA: line 0 (b0-b1) at b1, initially open
    pp.create_switch(net, 1, 1, et="l")      # sB: line 1 (b1-b2) at b1
    return net


def apply_step(net, a, last=False):
    """returns converged flag for calculations (None for edits)"""
    import pandapower as pp
    op = a["op"]
    if op == "toggleA":
        net.switch.at[0, "closed"] = not bool(net.switch.at[0, "closed"])
    elif op == "toggleB":
        net.switch.at[1, "closed"] = not bool(net.switch.at[1, "closed"])
    elif op == "toggleG":
        net.gen.at[0, "in_service"] = not bool(net.gen.at[0, "in_service"])
    elif op == "toggleE":
        net.ext_grid.at[0, "in_service"] = not bool(net.ext_grid.at[0, "in_service"])
    elif op == "load":
        net.load.at[1, "p_mw"] = 1.6 if net.load.at[1, "p_mw"] < 1.5 else 1.0
    else:
        try:
            if op == "runpp":
                pp.runpp(net, init=a["init"], tolerance_mva=1e-9)
            elif op == "rundcpp":
                pp.rundcpp(net)
            elif op == "runopp":
                pp.runopp(net)
            elif op == "calc_sc":
                import pandapower.shortcircuit as sc
                sc.calc_sc(net, fault="3ph", case="max")
            elif op == "runpp_3ph":
                from pandapower.pf.runpp_3ph import runpp_3ph
                runpp_3ph(net)
            return True
        except Exception as e:  # noqa
            if last:
                return "%s" % type(e).__name__
            return False
    return None


EDITS = ("toggleA", "toggleB", "load", "toggleG", "toggleE")
ACT = (("res_gen", "p_mw"), ("res_gen", "vm_pu"), ("res_line", "p_from_mw"), ("res_line", "p_to_mw"), ("res_trafo", "p_hv_mw"),
       ("res_ext_grid", "p_mw"), ("res_load", "p_mw"))
ANG = (("res_gen", "va_degree"),)
REA = (("res_gen", "q_mvar"), ("res_line", "q_from_mvar"), ("res_line", "loading_percent"), ("res_trafo", "q_hv_mvar"),
       ("res_ext_grid", "q_mvar"), ("res_load", "q_mvar"))


def _flat(net, cols):
    out = []
    for t, c in cols:
        try:
            out.extend(fx(x) for x in net[t][c].values)
        except OverflowError:
            raise
        except Exception:  # noqa   (table or column missing)
            out.append(-777)
    return out


def project(net, ok):
    conv = ok is True and bool(net.get("converged", False))
    if not conv:
        try:
            fvm = [fx(x) for x in net.res_bus.vm_pu.values]        # what the failed call left in res_bus
        except Exception:  # noqa
            fvm = [-777]
        return {"conv": False, "vm": [], "va": [], "p": [], "q": [], "act": [], "ang": [], "rea": [], "fvm": fvm,
                "err": ok if isinstance(ok, str) else ""}
    rb = net.res_bus
    return {"conv": True, "vm": [fx(x) for x in rb.vm_pu.values], "va": [fx(x) for x in rb.va_degree.values],
            "p": [fx(x) for x in rb.p_mw.values], "q": [fx(x) for x in rb.q_mvar.values],
            "act": _flat(net, ACT), "ang": _flat(net, ANG), "rea": _flat(net, REA), "fvm": [], "err": ""}


def observe(hist):
    if "net" not in _BASE:
        _BASE["net"] = build_hist_net()
    net = copy.deepcopy(_BASE["net"])
    fresh = copy.deepcopy(_BASE["net"])
    for a in hist[:-1]:
        apply_step(net, a)
        if a["op"] in EDITS:
            apply_step(fresh, a)
    last = hist[-1]
    cp = copy.deepcopy(net)
    live = project(net, apply_step(net, last, True))
    cpo = project(cp, apply_step(cp, last, True))
    fl = dict(last)
    if fl["init"] == "results":
        fl["init"] = "auto"
    fr = project(fresh, apply_step(fresh, fl, True))
    return {"hist": hist, "live": live, "copy": cpo, "fresh": fr}


def run(tier, seed, replay=None):
    v = Verdict("C09", tier, seed, "model_checking")
    use_repo()
    if replay:
        hists = [replay["case"]["hist"]]
        states = trans = 1
    else:
        import os, re, shutil, tempfile
        from ..tla import SPEC_DIR
        wd = tempfile.mkdtemp(prefix="ppverif_c09_")
        try:
            with open(os.path.join(SPEC_DIR, "History.cfg")) as fh:
                cfg = fh.read()
                if tier == "thorough":
                    cfg = re.sub(r"UseOps = .*", 'UseOps = {"toggleA", "toggleB", "load", "toggleG", "toggleE", "runpp", "rundcpp", "runopp", '
                                 '"calc_sc", "runpp_3ph"}', cfg)
                    cfg = re.sub(r"UseInits = .*", 'UseInits = {"auto", "flat", "dc", "results"}', cfg)
            with open(os.path.join(wd, "History.cfg"), "w") as fh:
                fh.write(cfg)
            r = run_tlc("History", "History.cfg", workdir=wd, dump=True)
        finally:
            shutil.rmtree(wd, ignore_errors=True)
        for name, st, raw in r.violations:
            v.divergence("model-level: %s" % name, None)
        hists = [jsonable(s["hist"]) for s in r.dump if s["hist"] and s["hist"][-1]["op"] in ("runpp", "rundcpp")]
        states, trans = r.distinct, r.transitions
    cases = pool_map(observe, hists)
    fails, st = tlc_obs("HistoryObs", "HistoryObs.cfg", cases)
    for name, i in fails:
        c = cases[i]
        h = c["hist"]
        last = h[-1]
        # structural key: which clause, which kind of last step, and whether the previous result had an unsupplied bus
        prev_unsup = False
        sA, sB = False, True      # N0 of HistoryDef.tla
        for a in h[:-1]:
            if a["op"] == "toggleA":
                sA = not sA
            elif a["op"] == "toggleB":
                sB = not sB
            elif a["op"] in ("runpp", "rundcpp"):
                prev_unsup = (not sA and not sB)
        key = "C09|%s|%s(init=%s)|prev_result_%s" % (name, last["op"], last["init"],
                                                     "with_unsupplied_bus" if prev_unsup else "all_supplied")
        v.violation(key, "%s after history %s: live conv=%s %s, copy conv=%s, fresh conv=%s" % (
            name, [a["op"] + ("/" + a["init"] if a["init"] != "-" else "") for a in h], c["live"]["conv"],
            c["live"]["err"], c["copy"]["conv"], c["fresh"]["conv"]), c)
    nontriv = sum(1 for c in cases if any(a["op"] in EDITS for a in c["hist"][:-1])
                  and any(a["op"] not in EDITS for a in c["hist"][:-1]))
    v.coverage = {
        "states": states + st["states"], "transitions": trans + st["generated"],
        "traces_validated_against_impl": len(cases), "exhaustive": True, "evaluations": len(cases),
        "distinct_nontrivial": nontriv,
        "rule": "every history of <=4 steps over %s that ends in a power flow; the last step is also run on a deep copy "
                "and on a freshly built net with the same element state; non-trivial = >=1 edit and >=1 earlier "
                "calculation before the last step" % (
                    "{toggle sA, toggle sB, change load, toggle gen, toggle ext_grid, runpp(init auto/results), rundcpp, runopp}" if tier == "quick" else
                    "{toggle sA, toggle sB, change load, toggle gen, toggle ext_grid, runpp(init auto/flat/dc/results), rundcpp, runopp, calc_sc, runpp_3ph}"),
        "live_converged": sum(c["live"]["conv"] for c in cases),
        "samples": [cases[k] for k in range(5, len(cases), max(1, len(cases) // 3))][:3],
    }
    v.assumptions = ["one template (ring + trafo, two line switches)", "tolerances: 3e-5 abs + 20 ppm on vm/p/q, 3e-4 degree on va"]
    return v.finish()
