"""C34 — explicit runpp arguments override stored user options (DESIGN §4, Options.tla)."""
from ..common import Verdict, pool_map, use_repo
from ..obs import tlc_obs
from ..tla import jsonable, run_tlc

# concrete meaning of the abstract tokens "D" (signature default) and "A" (a valid non-default value)
CONCRETE = {
    "algorithm": {"D": "nr", "A": "fdbx"},
    "calculate_voltage_angles": {"D": True, "A": False},
    "init": {"D": "auto", "A": "flat"},
    "max_iteration": {"D": "auto", "A": 5},
    "tolerance_mva": {"D": 1e-8, "A": 1e-5},
    "trafo_model": {"D": "t", "A": "pi"},
    "trafo_loading": {"D": "current", "A": "power"},
    "enforce_q_lims": {"D": False, "A": True},
    "check_connectivity": {"D": True, "A": False},
    "voltage_depend_loads": {"D": True, "A": False},
    "consider_line_temperature": {"D": False, "A": True},
    "distributed_slack": {"D": False, "A": True},
    "numba": {"D": True, "A": False},
    "switch_rx_ratio": {"D": 2, "A": 3},
    "delta_q": {"D": 0, "A": 0.1},
    "trafo3w_losses": {"D": "hv", "A": "star"},
    "neglect_open_switch_branches": {"D": False, "A": True},
    "init_vm_pu": {"D": None, "A": 1.04},       # keyword-only, neutral value None (the template's automatic start value is 1.0)
}
OPTKEY = {"delta_q": "delta"}
_NET = None


def _net():
    global _NET
    if _NET is None:
        import pandapower as pp
        from ..templates import line, trafo
        net = pp.create_empty_network()
        b = [pp.create_bus(net, 20.0) for _ in range(3)] + [pp.create_bus(net, 0.4)]
        pp.create_ext_grid(net, b[0])
        line(pp, net, b[0], b[1]); line(pp, net, b[1], b[2]); line(pp, net, b[0], b[2])
        trafo(pp, net, b[2], b[3])
        pp.create_load(net, b[1], 0.3, 0.05, const_z_p_percent=30, const_i_p_percent=20, const_z_q_percent=30,
                       const_i_q_percent=20)
        pp.create_load(net, b[3], 0.1, 0.02)
        pp.create_gen(net, b[2], p_mw=0.1, vm_pu=1.0, min_q_mvar=-1, max_q_mvar=1)
        net.line["temperature_degree_celsius"] = 30.0
        net.line["alpha"] = 0.004
        _NET = net
    return _NET


def abstract(key, val):
    for tok, c in CONCRETE[key].items():
        if type(c) is type(val) and c == val or (isinstance(c, (int, float)) and not isinstance(c, bool)
                                                 and isinstance(val, (int, float)) and not isinstance(val, bool)
                                                 and float(c) == float(val)):
            return tok
    return "?" + repr(val)[:40]


def observe(case):
    import pandapower as pp
    net = _net()
    st = {p: CONCRETE[p][t] for p, t in case["stored"].items() if t != "Unset"}
    pa = {p: CONCRETE[p][t] for p, t in case["passed"].items() if t != "NotPassed"}
    net.user_pf_options = {}
    pp.set_user_pf_options(net, overwrite=True, **st)
    net._options = {}
    out = {"stored": {p: t for p, t in case["stored"].items() if t != "Unset"},
           "passed": {p: t for p, t in case["passed"].items() if t != "NotPassed"}, "rejected": False, "err": ""}
    try:
        pp.runpp(net, **pa)
    except NotImplementedError:
        out["rejected"] = True
    except Exception as e:  # noqa  (non-convergence with 5 iterations etc.: options are set before the solve)
        out["err"] = type(e).__name__
    o = dict(net._options)
    obs = {}
    if not out["rejected"]:
        if not o:
            out["rejected"] = True
            out["err"] = "options never set: " + out["err"]
        else:
            for p in CONCRETE:
                if p in ("init", "max_iteration", "init_vm_pu"):
                    continue
                obs[p] = abstract(p, o.get(OPTKEY.get(p, p), "missing"))
            vm, va = o.get("init_vm_pu"), o.get("init_va_degree")
            obs["init_vm_pu"] = ("1.04" if abs(vm - 1.04) < 1e-9 else "auto") if isinstance(vm, float) else str(vm)
            obs["init_va_degree"] = str(va)
            obs["max_iteration"] = str(o.get("max_iteration"))
    out["obs"] = obs
    net.user_pf_options = {}
    return out


def run(tier, seed, replay=None):
    v = Verdict("C34", tier, seed, "model_checking")
    use_repo()
    if replay:
        todo = [{"stored": replay["case"]["stored"], "passed": replay["case"]["passed"]}]
        states = trans = 1
    else:
        r = run_tlc("Options", "Options.cfg", dump=True)
        for name, st, raw in r.violations:
            v.divergence("model-level: %s" % name, jsonable(st))
        todo = [jsonable({"stored": s["stored"], "passed": s["passed"]}) for s in r.dump]
        states, trans = r.distinct, r.transitions
    cases = pool_map(observe, todo)
    fails, st = tlc_obs("OptionsObs", "OptionsObs.cfg", cases)
    # second TLC pass: KnownDeviation (attribution only) on the failing cases
    bad = sorted({i for _, i in fails})
    unexplained = set()
    if bad:
        f2, _ = tlc_obs("OptionsObs", "OptionsDev.cfg", [cases[i] for i in bad])
        unexplained = {bad[j] for _, j in f2}
    named = [k for k in CONCRETE if k not in ("numba", "switch_rx_ratio", "delta_q", "trafo3w_losses",
                                              "neglect_open_switch_branches", "init_vm_pu")]
    for name, i in fails:
        c = cases[i]
        touched = {p: (c["stored"].get(p, "Unset"), c["passed"].get(p, "NotPassed"))
                   for p in set(c["stored"]) | set(c["passed"])}
        par = name[4:]
        lost = sorted(p for p in named if touched.get(p) == ("A", "D"))
        s_auto = touched.get("max_iteration", ("Unset", "NotPassed"))
        if i not in unexplained and lost:
            key = "C34|explicit_default|%s" % lost[0]
        elif i not in unexplained and s_auto[0] == "D" and s_auto[1] != "A":
            key = "C34|stored_auto|max_iteration"
        else:
            s_, p_ = touched.get(par, ("Unset", "NotPassed"))
            key = "C34|%s|stored=%s|passed=%s" % (par, s_, p_)
        v.violation(key, "%s: (stored, passed) = %s -> net._options gives %s%s" % (
            name, touched, {k: c["obs"].get(k) for k in c["obs"] if k.startswith(par[:8])} or c["obs"],
            " rejected=%s err=%s" % (c["rejected"], c["err"]) if c["rejected"] or c["err"] else ""), c)
    conflicts = sum(1 for c in cases if any(p in c["passed"] and c["stored"][p] != c["passed"][p] for p in c["stored"]))
    v.coverage = {
        "states": states + st["states"], "transitions": trans + st["generated"],
        "traces_validated_against_impl": len(cases), "exhaustive": True, "evaluations": len(cases),
        "distinct_nontrivial": conflicts,
        "rule": "every (stored, passed) assignment over every subset of <=2 of the 18 parameters, values {unset/not passed, "
                "default, non-default}; one set_user_pf_options + runpp per state; non-trivial = a stored value conflicts "
                "with a passed one",
        "rejected": sum(c["rejected"] for c in cases),
        "samples": [cases[k] for k in range(1, len(cases), max(1, len(cases) // 3))][:3],
    }
    v.assumptions = ["tokens D/A per parameter as in CONCRETE; interactions of three or more parameters not enumerated",
                     "tdpf / lightsim2grid / recycle kwargs not covered"]
    return v.finish()
