"""C18 — short-circuit results are consistent with IEC 60909 relations (DESIGN §5; ShortCircuit*.tla, Wide.tla).

ShortCircuit.tla enumerates (network feature set x case x ip mode x branch_results x lv_tol) x (fault, sn_mva, inverse_y,
faulted-bus subset, labelling of the bus table) as PAIRS of runs that differ in one option; every distinct run is executed on the real calc_sc and
ShortCircuitObs.tla (TLC) decides every clause on the recorded results (wide integers, scale 1e10).  Python only drives.
"""
import copy
import json
import math
import os
import random
import shutil
import tempfile
import time

from ..common import Verdict, get_pool, pool_map, use_repo, wide
from ..obs import tlc_obs
from ..tla import MachineryError, SPEC_DIR, jsonable, run_tlc

PROCS = int(os.environ.get("VERIF_PROCS", "16") or 16)
SCALE = 1e10
NBUS = 5
ABSENT = {"s": 0, "m": [4]}
BUS_COLS = (("ikss", "ikss_ka"), ("skss", "skss_mw"), ("ip", "ip_ka"), ("rk", "rk_ohm"), ("xk", "xk_ohm"),
            ("rk0", "rk0_ohm"), ("xk0", "xk0_ohm"))
# constants of ShortCircuit.cfg replaced in the thorough tier (quick = the committed cfg)
THOROUGH = {"Rings": "{TRUE, FALSE}", "LvTols": "{6, 10}", "SubsetSizes": "{1, 2}",
            "ExtraSubsets": "{{1, 2, 3}, {0, 2, 4}, {1, 2, 3, 4}}", "Labels": '{"rot", "rev", "sparse"}',
            "LabelBuses": "{{0, 1, 2, 3, 4}, {2, 4}, {0}, {1, 3}}"}
# numeric parameters of the template that get a seeded multiplicative jitter (permille), same for all runs of one cfg
JITTER = ("s_sc", "rx", "t0_vk", "km0", "km1", "km2", "t1_vk", "xdss", "k_sgen")
_NETS = {}
TIMING = {}


def W(x):
    """float -> wide integer of Wide.tla (scale 1e10); non-numbers: s = 0, m = [1] NaN, [2] +inf, [3] -inf."""
    x = float(x)
    if math.isnan(x):
        return {"s": 0, "m": [1]}
    if math.isinf(x):
        return {"s": 0, "m": [2 if x > 0 else 3]}
    return wide(x, SCALE)


def build_net(gen, sgen, ring, jit, labels=(0, 1, 2, 3, 4)):
    """The template of ShortCircuitDef.tla (bus numbers and rated voltages are the spec's table VnVolt); labels = the
    spec's LabelSeq(run.lab): template bus i is created as row i of net.bus with index labels[i]."""
    import pandapower as pp
    j = {k: jit.get(k, 1000) / 1000.0 for k in JITTER}
    net = pp.create_empty_network(sn_mva=1.0)
    b = [pp.create_bus(net, vn, index=int(labels[i])) for i, vn in enumerate((110., 20., 20., 20., 0.4))]
    pp.create_ext_grid(net, b[0], s_sc_max_mva=5000. * j["s_sc"], s_sc_min_mva=3000. * j["s_sc"], rx_max=0.1 * j["rx"],
                       rx_min=0.2 * j["rx"], x0x_max=1.0, r0x0_max=0.1, x0x_min=1.0, r0x0_min=0.1)
    pp.create_transformer_from_parameters(
        net, b[0], b[1], sn_mva=40., vn_hv_kv=110., vn_lv_kv=20., vk_percent=12. * j["t0_vk"], vkr_percent=0.5, pfe_kw=20.,
        i0_percent=0.05, shift_degree=150, vector_group="Dyn", vk0_percent=12. * j["t0_vk"], vkr0_percent=0.5,
        mag0_percent=100., mag0_rx=0., si0_hv_partial=0.9)
    for n, (f, t, km) in enumerate(((1, 2, 5.), (2, 3, 3.), (1, 3, 4.))):
        pp.create_line_from_parameters(net, b[f], b[t], km * j["km%d" % n], 0.12, 0.35, 10., 0.5, r0_ohm_per_km=0.4,
                                       x0_ohm_per_km=1.2, c0_nf_per_km=5., endtemp_degree=80.)
    pp.create_transformer_from_parameters(
        net, b[3], b[4], sn_mva=0.63, vn_hv_kv=20., vn_lv_kv=0.4, vk_percent=6. * j["t1_vk"], vkr_percent=1.1, pfe_kw=1.,
        i0_percent=0.2, shift_degree=150, vector_group="Dyn", vk0_percent=6. * j["t1_vk"], vkr0_percent=1.1,
        mag0_percent=100., mag0_rx=0., si0_hv_partial=0.9)
    net.line.at[2, "in_service"] = bool(ring)
    if gen:
        pp.create_gen(net, b[2], p_mw=5., vm_pu=1.0, vn_kv=21., xdss_pu=0.2 * j["xdss"], rdss_ohm=0.05, cos_phi=0.85,
                      sn_mva=10., pg_percent=0.0)
    if sgen:
        pp.create_sgen(net, b[3], p_mw=2., sn_mva=5., k=1.3 * j["k_sgen"], kappa=1.5)
    return net


def _net(spec, labels):
    key = json.dumps([spec, labels], sort_keys=True)
    if key not in _NETS:
        if len(_NETS) > 6:
            _NETS.clear()
        _NETS[key] = build_net(spec["gen"], spec["sgen"], spec["ring"], spec["jit"], labels)
    return copy.deepcopy(_NETS[key])      # every run starts from the pristine net (history effects are C09's business)


def observe_run(item):
    """Execute ONE calc_sc call (the spec's CallOf(cfg, run)) and project the result tables."""
    from pandapower.shortcircuit import calc_sc
    call = item["call"]
    net = _net(item["net"], [int(x) for x in call["labels"]])
    net.sn_mva = float(call["sn_mva"])
    bus = None if len(call["bus"]) == NBUS else [int(x) for x in call["bus"]]    # canonical run = the default argument
    empty = {"rows": [], "vn": [], "labels": [], "line": [], "thv": [], "tlv": []}
    empty.update({k: [] for k, _ in BUS_COLS})
    try:
        calc_sc(net, bus=bus, fault=call["fault"], case=call["case"], lv_tol_percent=call["lv_tol_percent"],
                ip=call["ip"], topology=call["topology"], kappa_method=call["kappa_method"],
                branch_results=call["branch_results"], inverse_y=call["inverse_y"])
    except Exception as e:  # noqa -- counted, never a violation by itself
        return dict(empty, ok=False, err="%s: %s" % (type(e).__name__, str(e)[:160]))
    try:
        res = net.res_bus_sc
        out = dict(empty, ok=True, err="", rows=[int(x) for x in res.index],
                   vn=[int(round(float(x) * 1000)) for x in net.bus.vn_kv.values], labels=[int(x) for x in net.bus.index])
        for k, col in BUS_COLS:
            out[k] = [W(x) for x in res[col].values] if col in res.columns else [ABSENT] * len(res)
        if call["branch_results"]:
            out["line"] = [W(x) for x in net.res_line_sc["ikss_ka"].values]
            out["thv"] = [W(x) for x in net.res_trafo_sc["ikss_hv_ka"].values]
            out["tlv"] = [W(x) for x in net.res_trafo_sc["ikss_lv_ka"].values]
        return out
    except Exception as e:  # noqa
        return dict(empty, ok=False, err="projection %s: %s" % (type(e).__name__, str(e)[:160]))


def _jitter(seed, cfg):
    rng = random.Random("%d|%s" % (seed, json.dumps(cfg, sort_keys=True)))
    return {k: rng.randint(900, 1100) for k in JITTER}


def _netspec(cfg, seed):
    return {"gen": cfg["gen"], "sgen": cfg["sgen"], "ring": cfg["ring"], "jit": _jitter(seed, cfg)}


def model_states(tier):
    wd = tempfile.mkdtemp(prefix="ppverif_c18_")
    try:
        cfg = open(os.path.join(SPEC_DIR, "ShortCircuit.cfg")).read()
        if tier == "thorough":
            import re
            for k, val in THOROUGH.items():
                cfg, n = re.subn(r"(?m)^(\s*%s\s*=).*$" % k, r"\1 " + val, cfg)
                if n != 1:
                    raise MachineryError("ShortCircuit.cfg: constant %s not found" % k)
        open(os.path.join(wd, "ShortCircuit.cfg"), "w").write(cfg)
        r = run_tlc("ShortCircuit", "ShortCircuit.cfg", workdir=wd, dump=True, workers=PROCS, heap="6g")
    finally:
        shutil.rmtree(wd, ignore_errors=True)
    if r.violations:
        raise MachineryError("ShortCircuit.tla violates its own invariant %s" % r.violations[0][0])
    if not r.dump or len(r.dump) != r.distinct:
        raise MachineryError("ShortCircuit.tla: dump has %s states, TLC reports %d" % (len(r.dump or []), r.distinct))
    return [jsonable(s) for s in r.dump], r.distinct, r.transitions


def _key(cfg, run):
    return json.dumps([cfg, run], sort_keys=True)


def evaluate(states, seed):
    """states: jsonable model states.  Returns (cases, runs_by_key, failures, tlc stats)."""
    calls = {}
    for s in states:
        calls[_key(s["cfg"], s["run"])] = (s["cfg"], s["call"])
    for s in states:
        if _key(s["cfg"], s["ref"]) not in calls:
            raise MachineryError("reference run of a pair is not a state of the model: %s" % s)
    for s in states:
        s["refcall"] = calls[_key(s["cfg"], s["ref"])][1]
    keys = sorted(calls)
    n_primary = sum(1 for s in states if "C18_FaultedBusesReported" in s["req"])
    if n_primary != len(keys):
        raise MachineryError("single-run clauses attached to %d states, %d distinct runs" % (n_primary, len(keys)))
    items = [{"net": _netspec(calls[k][0], seed), "call": calls[k][1]} for k in keys]
    t0 = time.time()
    if len(items) >= 400:
        get_pool(PROCS)
    obs = pool_map(observe_run, items, procs=PROCS)
    TIMING["calc_sc"] = round(time.time() - t0, 1)
    t0 = time.time()
    runs = dict(zip(keys, obs))
    # chunks of whole cfgs; each chunk carries its own table of runs.  TLC checks the invariants of an observation batch
    # while it computes the initial states, which is sequential -- so the chunks go to PROCS single-worker TLCs in parallel.
    bycfg = {}
    for n, s in enumerate(states):
        bycfg.setdefault(json.dumps(s["cfg"], sort_keys=True), []).append(n)
    target = min(8000, max(400, len(states) // PROCS + 1))      # one wave; a TLC start costs several CPU seconds
    chunks, cur = [], []
    for ck in sorted(bycfg):
        cur.extend(bycfg[ck])
        if len(cur) >= target:
            chunks.append(cur)
            cur = []
    if cur:
        chunks.append(cur)
    wd = tempfile.mkdtemp(prefix="ppverif_c18runs_")

    def check_chunk(job):
        cn, ch = job
        table, index, cases = [], {}, []
        for n in ch:
            s = states[n]
            ab = []
            for r in (s["run"], s["ref"]):
                k = _key(s["cfg"], r)
                if k not in index:
                    table.append(runs[k])
                    index[k] = len(table)
                ab.append(index[k])
            cases.append({"kind": s["kind"], "cfg": s["cfg"], "run": s["run"], "ref": s["ref"], "a": ab[0], "b": ab[1]})
        path = os.path.join(wd, "runs_%d.json" % cn)
        with open(path, "w") as f:
            json.dump(table, f)
        fl, st = tlc_obs("ShortCircuitObs", "ShortCircuitObs.cfg", cases, chunk=len(cases) + 1, workers=1,
                         env={"RUNS_FILE": path})
        os.remove(path)
        return [(name, ch[i]) for name, i in fl], st

    failures, stats = [], {"states": 0, "generated": 0}
    try:
        from concurrent.futures import ThreadPoolExecutor
        with ThreadPoolExecutor(max_workers=max(1, min(PROCS, len(chunks)))) as ex:
            for fl, st in ex.map(check_chunk, list(enumerate(chunks))):
                failures.extend(fl)
                stats["states"] += st["states"]
                stats["generated"] += st["generated"]
    finally:
        shutil.rmtree(wd, ignore_errors=True)
    TIMING["tlc_obs"] = round(time.time() - t0, 1)
    return runs, failures, stats


def full_case(s, runs, seed):
    if "net" in s:      # replay: the stored network (its jitter belongs to the stored seed)
        return dict(s, seed=seed, obs_run=runs[_key(s["cfg"], s["run"])], obs_ref=runs[_key(s["cfg"], s["ref"])])
    a, b = runs[_key(s["cfg"], s["run"])], runs[_key(s["cfg"], s["ref"])]
    return {"kind": s["kind"], "cfg": s["cfg"], "run": s["run"], "ref": s["ref"], "call": s["call"], "refcall": s["refcall"],
            "req": s["req"], "net": _netspec(s["cfg"], seed), "seed": seed, "obs_run": a, "obs_ref": b}


def feature(cfg):
    return "+".join([k for k in ("gen", "sgen") if cfg[k]]) or "plain"


def _num(w):
    return None if w["s"] == 0 else w["s"] * sum(limb * 10000 ** k for k, limb in enumerate(w["m"]))


def _differs(x, y):
    a, b = _num(x), _num(y)
    if a is None or b is None:
        return x != y
    return abs(a - b) * 10 ** 6 > 100 * 10 ** 6 + max(abs(a), abs(b))


def differing_columns(a, b):
    """Names of the observed columns in which two runs differ -- used ONLY to give a violation its structural key.
    Rows are matched by template bus (position of the row's label in the run's own label table)."""
    cols = []
    if not (a["ok"] and b["ok"]):
        return ["raised"]
    pos = {b["labels"].index(lab): k for k, lab in enumerate(b["rows"])}
    arow = [a["labels"].index(lab) for lab in a["rows"]]
    for c, _ in BUS_COLS:
        if any(bus not in pos or _differs(a[c][k], b[c][pos[bus]]) for k, bus in enumerate(arow)):
            cols.append(c)
    for c in ("line", "thv", "tlv"):
        if len(a[c]) == len(b[c]) and any(_differs(x, y) for x, y in zip(a[c], b[c])):
            cols.append(c)
    return cols


def key_of(name, s, runs):
    a, b = runs[_key(s["cfg"], s["run"])], runs[_key(s["cfg"], s["ref"])]
    if name == "C18_IpBounds":
        how = "nan" if any(w["s"] == 0 for w in a["ip"]) else "out_of_range"
        return "C18|%s|fault=%s|ip=%s" % (name, s["run"]["fault"], how)
    if "Invariant" in name and not name.endswith("Branch"):     # bus clauses: which result columns differ is part of the class
        cols = [c for c in differing_columns(a, b) if c not in ("line", "thv", "tlv")]
        if name.startswith("C18_Label"):
            return "C18|%s|fault=%s|%s|lab=%s|cols=%s" % (name, s["run"]["fault"], feature(s["cfg"]), s["run"]["lab"],
                                                         "+".join(cols) or "none")
        return "C18|%s|fault=%s|%s|cols=%s" % (name, s["run"]["fault"], feature(s["cfg"]), "+".join(cols) or "none")
    return "C18|%s|fault=%s|%s" % (name, s["run"]["fault"], feature(s["cfg"]))


def run(tier, seed, replay=None):
    v = Verdict("C18", tier, seed, "exploration")
    use_repo()
    if replay:
        c = replay["case"]
        seed = c.get("seed", seed)
        states = [{k: c[k] for k in ("cfg", "run", "ref", "kind", "call", "refcall", "req")}]
        states[0]["net"] = c.get("net") or _netspec(c["cfg"], seed)
        m_states = m_trans = 1
        runs, failures, stats = evaluate_replay(states[0], seed)
    else:
        t0 = time.time()
        states, m_states, m_trans = model_states(tier)
        TIMING["model"] = round(time.time() - t0, 1)
        runs, failures, stats = evaluate(states, seed)
    for name, n in failures:
        s = states[n]
        if name.startswith("Bind_"):
            raise MachineryError("%s fails: the harness' network is not the spec's template: %s" % (name, s))
        fc = full_case(s, runs, seed)
        v.violation(key_of(name, s, runs), "%s: cfg=%s run=%s ref=%s (%s)" % (
            name, json.dumps(s["cfg"], sort_keys=True), json.dumps(s["run"]), json.dumps(s["ref"]), s["kind"]), fc)
    # ---- coverage (all counts measured) --------------------------------------------------------------------------
    raised = {k: o for k, o in runs.items() if not o["ok"]}
    seen_err = set()
    for k, o in sorted(raised.items()):
        if o["err"] not in seen_err:
            seen_err.add(o["err"])
            v.divergence("calc_sc raised (clauses vacuous on this run): %s" % o["err"], json.loads(k))
    inst, nontriv = {}, 0
    for s in states:
        a, b = runs[_key(s["cfg"], s["run"])], runs[_key(s["cfg"], s["ref"])]
        if a["ok"] and b["ok"]:
            for cl in s["req"]:
                inst[cl] = inst.get(cl, 0) + 1
            if set(s["req"]) - {"C18_FaultedBusesReported"}:
                nontriv += 1
    step = max(1, len(states) // 3)
    v.coverage = {
        "states": m_states + stats["states"], "transitions": m_trans + stats["generated"],
        "traces_validated_against_impl": sum(1 for o in runs.values() if o["ok"]),
        "evaluations": len(states), "distinct_nontrivial": nontriv, "exhaustive": not replay,
        "rule": "every state of ShortCircuit.tla = (cfg: gen/sgen/ring x case x ip mode x branch_results x lv_tol; run: fault x "
                "sn_mva x inverse_y x faulted-bus subset x bus labelling; ref: run with one option reset); each distinct (cfg, run) is one real "
                "calc_sc call on the 5-bus template (seeded +-10% parameter jitter per cfg); non-trivial = the spec requires "
                "at least one numeric relation (anything but 'rows are reported') on the state and both calls returned",
        "clause_instances": dict(sorted(inst.items())),
        "calc_sc_calls": len(runs), "calc_sc_raised": len(raised), "model_states": m_states, "timing_s": dict(TIMING),
        "samples": [full_case(states[k], runs, seed) for k in range(min(1, len(states) - 1), len(states), step)][:3],
    }
    v.assumptions = [
        "NOT decided: 'the Thevenin impedance equals that of an independently built network of the elements' short-circuit "
        "models' (needs an independent complex-valued network reduction with the IEC correction factors; DESIGN 5/6) -- rk/xk are "
        "only checked for consistency with ikss and for invariance across sn_mva / inverse_y / bus subsets / bus labellings "
        "(permuted and sparse net.bus.index, rows in creation order; labellings are varied on runs with sn_mva 1, inverse_y True)",
        "c is IEC 60909-0 Table 1 as transcribed in ShortCircuitDef.tla (build_bus.py:1061), Un the rated bus voltage of the template",
        "'without current-source contributions' is taken as: no sgen in service (conservative)",
        "skss relation only for fault=3ph (2ph: skss = ikss*Un/sqrt(3) by design); 1ph with a synchronous generator is excluded "
        "(under development per the library's own tests); power-station units, motors, wards, trafo3w not in the template",
        "branch results (res_line_sc / res_trafo_sc ikss) are compared across sn_mva and inverse_y only (they are a max/min over "
        "the faulted buses by design)",
        "tolerances: relative 1e-5 for the squared relations, relative 1e-6 + 1e-8 absolute for equality between two runs",
    ]
    return v.finish()


def evaluate_replay(s, seed):
    """Re-execute exactly the two calls of a stored case and let TLC decide it again."""
    from pandapower.shortcircuit import calc_sc  # noqa (fail early if the repo is not importable)
    spec = s.get("net") or _netspec(s["cfg"], seed)
    a = observe_run({"net": spec, "call": s["call"]})
    b = observe_run({"net": spec, "call": s["refcall"]})
    runs = {_key(s["cfg"], s["run"]): a, _key(s["cfg"], s["ref"]): b}
    wd = tempfile.mkdtemp(prefix="ppverif_c18runs_")
    try:
        path = os.path.join(wd, "runs.json")
        with open(path, "w") as f:
            json.dump([a, b], f)
        case = {"kind": s["kind"], "cfg": s["cfg"], "run": s["run"], "ref": s["ref"], "a": 1, "b": 2}
        fl, st = tlc_obs("ShortCircuitObs", "ShortCircuitObs.cfg", [case], workers=2, env={"RUNS_FILE": path})
    finally:
        shutil.rmtree(wd, ignore_errors=True)
    return runs, [(name, 0) for name, _ in fl], st
