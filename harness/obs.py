"""Observation batches: TLC evaluates one INVARIANT per property clause on every recorded case (DESIGN 2.2)."""
import json
import os
import re
import shutil
import tempfile

from .tla import run_tlc, MachineryError


def tlc_obs(module, cfg, cases, chunk=20000, workers=16, env=None, timeout=3600, var="i", jvm=()):
    """Returns (failures, stats): failures = list of (invariant, case_index0); stats = dict(states, generated)."""
    failures = []
    states = gen = 0
    wd = tempfile.mkdtemp(prefix="ppverif_obs_")
    try:
        for lo in range(0, len(cases), chunk):
            part = cases[lo:lo + chunk]
            path = os.path.join(wd, "obs_%d.json" % lo)
            with open(path, "w") as f:
                json.dump(part, f)
            e = {"OBS_FILE": path}
            if env:
                e.update(env)
            r = run_tlc(module, cfg, workers=workers, env=e, timeout=timeout, cont=True, jvm=jvm)
            if r.distinct != len(part):
                raise MachineryError("%s: TLC saw %d cases, expected %d\n%s" % (module, r.distinct, len(part),
                                                                                  r.stdout[-2000:]))
            states += r.distinct
            gen += r.generated
            for name, st, raw in r.violations:
                if isinstance(st, dict) and var in st:
                    failures.append((name, lo + st[var] - 1))
                else:
                    m = re.search(r"\b%s = (\d+)" % var, raw)
                    if not m:
                        raise MachineryError("cannot map violation of %s to a case: %s" % (name, raw[:500]))
                    failures.append((name, lo + int(m.group(1)) - 1))
            os.remove(path)
    finally:
        shutil.rmtree(wd, ignore_errors=True)
    return failures, {"states": states, "generated": gen}
