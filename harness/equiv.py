"""Shared driver of C05 / C23 (EquivDef.tla, Equiv.tla, EquivObs.tla).

A state of Equiv.tla carries the configuration `cfg`, the abstract original network(s) `anets` and the abstract transformed
network `tnet` (tables of NAMED elements with integer parameters).  build() instantiates an abstract network one to one;
C05 transformations are carried out by building `tnet` (re-indexing: by the real reindex functions with the labels of
`tnet`), C23 transformations by calling the REAL toolbox function on the built original with the target the spec chose.
observe_case() solves both and logs the result tables in fixed point under  table -> element name -> column  plus the
structural projection of the real transformed network.  Nothing is compared here: EquivObs.tla does that.
"""
import copy
import os
import shutil
import tempfile

from .common import fx, NAN
from .tla import SPEC_DIR, jsonable, run_tlc, MachineryError

# result columns per table: spec column -> pandapower column (EquivDef!Cols)
COLS = {
    "bus": {"vm": "vm_pu", "va": "va_degree", "p": "p_mw", "q": "q_mvar"},
    "line": {"pf": "p_from_mw", "qf": "q_from_mvar", "pt": "p_to_mw", "qt": "q_to_mvar", "pl": "pl_mw", "ql": "ql_mvar",
             "if": "i_from_ka", "it": "i_to_ka", "ika": "i_ka", "load": "loading_percent"},
    "trafo": {"ph": "p_hv_mw", "qh": "q_hv_mvar", "plv": "p_lv_mw", "qlv": "q_lv_mvar", "pl": "pl_mw", "ql": "ql_mvar",
              "ih": "i_hv_ka", "ilv": "i_lv_ka", "load": "loading_percent"},
    "trafo3w": {"ph": "p_hv_mw", "qh": "q_hv_mvar", "pm": "p_mv_mw", "qm": "q_mv_mvar", "plv": "p_lv_mw", "qlv": "q_lv_mvar", "pl": "pl_mw",
                "ql": "ql_mvar", "ih": "i_hv_ka", "im": "i_mv_ka", "ilv": "i_lv_ka", "load": "loading_percent"},
    "impedance": {"pf": "p_from_mw", "qf": "q_from_mvar", "pt": "p_to_mw", "qt": "q_to_mvar", "pl": "pl_mw", "ql": "ql_mvar",
                  "if": "i_from_ka", "it": "i_to_ka"},
    "ext_grid": {"p": "p_mw", "q": "q_mvar"},
    "gen": {"p": "p_mw", "q": "q_mvar", "vm": "vm_pu", "va": "va_degree"},
    "sgen": {"p": "p_mw", "q": "q_mvar"},
    "load": {"p": "p_mw", "q": "q_mvar"},
    "ward": {"p": "p_mw", "q": "q_mvar", "vm": "vm_pu"},
    "xward": {"p": "p_mw", "q": "q_mvar", "vm": "vm_pu", "vmi": "vm_internal_pu", "vai": "va_internal_degree"},
    "shunt": {"p": "p_mw", "q": "q_mvar", "vm": "vm_pu"},
}
ORDER = ["bus", "line", "trafo", "trafo3w", "impedance", "switch", "ext_grid", "gen", "sgen", "load", "ward", "xward", "shunt"]
# the transformer types of the template (level table; no transformation touches transformer parameters)
TRAFO = dict(sn_mva=1.0, vn_hv_kv=20., vn_lv_kv=0.4, vkr_percent=1.0, vk_percent=6., pfe_kw=1.0, i0_percent=0.1, shift_degree=150.,
             tap_side="hv", tap_neutral=0, tap_min=-2, tap_max=2, tap_step_percent=2.5, tap_pos=1, tap_changer_type="Ratio")
TRAFO3W = dict(vn_hv_kv=20., vn_mv_kv=10., vn_lv_kv=0.4, sn_hv_mva=2.0, sn_mv_mva=2.0, sn_lv_mva=1.0, vk_hv_percent=6., vk_mv_percent=6.,
               vk_lv_percent=5., vkr_hv_percent=0.6, vkr_mv_percent=0.6, vkr_lv_percent=0.5, pfe_kw=2.0, i0_percent=0.1, shift_mv_degree=0.,
               shift_lv_degree=150., tap_side="hv", tap_neutral=0, tap_min=-2, tap_max=2, tap_step_percent=2.5, tap_pos=1,
               tap_changer_type="Ratio")
SW_TABLE = {"b": "bus", "l": "line", "t": "trafo", "t3": "trafo3w"}      # EquivDef!SwTab


def _tab(net, t):
    v = net.get(t)
    return v if isinstance(v, dict) else {}          # TLC prints an empty function as <<>>


def _rows(absnet, t):
    return sorted(_tab(absnet, t).items(), key=lambda kv: kv[1]["pos"])


def build(absnet):
    """abstract network -> pandapower network; rows in `pos` order, index labels `idx`, names = element names"""
    import pandapower as pp
    net = pp.create_empty_network(sn_mva=float(absnet["sn"]))
    bidx = {n: r["idx"] for n, r in _tab(absnet, "bus").items()}
    eidx = {t: {n: r["idx"] for n, r in _tab(absnet, t).items()} for t in SW_TABLE.values()}
    for n, r in _rows(absnet, "bus"):
        pp.create_bus(net, vn_kv=r["vn"] / 10.0, name=n, index=r["idx"], in_service=r["ins"])
    for n, r in _rows(absnet, "line"):
        pp.create_line_from_parameters(net, bidx[r["from"]], bidx[r["to"]], length_km=r["len"] / 1000.0, r_ohm_per_km=r["r"] / 1000.0,
                                       x_ohm_per_km=r["x"] / 1000.0, c_nf_per_km=float(r["c"]), max_i_ka=r["maxi"] / 1000.0,
                                       g_us_per_km=float(r["g"]), parallel=r["par"], name=n, index=r["idx"], in_service=r["ins"])
    for n, r in _rows(absnet, "trafo"):
        pp.create_transformer_from_parameters(net, bidx[r["hv"]], bidx[r["lv"]], name=n, index=r["idx"], in_service=r["ins"], **TRAFO)
    for n, r in _rows(absnet, "trafo3w"):
        pp.create_transformer3w_from_parameters(net, bidx[r["hv"]], bidx[r["mv"]], bidx[r["lv"]], name=n, index=r["idx"],
                                                in_service=r["ins"], **TRAFO3W)
    for n, r in _rows(absnet, "impedance"):
        pp.create_impedance(net, bidx[r["from"]], bidx[r["to"]], rft_pu=r["r"] / 1e4, xft_pu=r["x"] / 1e4, sn_mva=float(r["sn"]),
                            name=n, index=r["idx"], in_service=r["ins"])
    for n, r in _rows(absnet, "switch"):
        el = eidx[SW_TABLE[r["et"]]][r["elem"]]
        pp.create_switch(net, bidx[r["bus"]], el, et=r["et"], closed=r["closed"], name=n, index=r["idx"])
    for n, r in _rows(absnet, "ext_grid"):
        pp.create_ext_grid(net, bidx[r["bus"]], vm_pu=r["vm"] / 1000.0, va_degree=0.0, name=n, index=r["idx"], in_service=r["ins"])
    for n, r in _rows(absnet, "gen"):
        pp.create_gen(net, bidx[r["bus"]], p_mw=r["p"] / 1000.0, vm_pu=r["vm"] / 1000.0, slack=r["slack"], name=n, index=r["idx"],
                      in_service=r["ins"])
    for n, r in _rows(absnet, "sgen"):
        pp.create_sgen(net, bidx[r["bus"]], p_mw=r["p"] / 1000.0, q_mvar=r["q"] / 1000.0, name=n, index=r["idx"], in_service=r["ins"])
    for n, r in _rows(absnet, "load"):
        pp.create_load(net, bidx[r["bus"]], p_mw=r["p"] / 1000.0, q_mvar=r["q"] / 1000.0, name=n, index=r["idx"], in_service=r["ins"])
    for n, r in _rows(absnet, "ward"):
        pp.create_ward(net, bidx[r["bus"]], ps_mw=r["ps"] / 1000.0, qs_mvar=r["qs"] / 1000.0, pz_mw=r["pz"] / 1000.0,
                       qz_mvar=r["qz"] / 1000.0, name=n, index=r["idx"], in_service=r["ins"])
    for n, r in _rows(absnet, "xward"):
        pp.create_xward(net, bidx[r["bus"]], ps_mw=r["ps"] / 1000.0, qs_mvar=r["qs"] / 1000.0, pz_mw=r["pz"] / 1000.0,
                        qz_mvar=r["qz"] / 1000.0, r_ohm=r["r"] / 1000.0, x_ohm=r["x"] / 1000.0, vm_pu=r["vm"] / 1000.0, name=n,
                        index=r["idx"], in_service=r["ins"])
    for n, r in _rows(absnet, "shunt"):
        pp.create_shunt(net, bidx[r["bus"]], q_mvar=r["q"] / 1000.0, p_mw=r["p"] / 1000.0, name=n, index=r["idx"], in_service=r["ins"])
    return net


def solve(net, cfg):
    import pandapower as pp
    try:
        pp.runpp(net, calculate_voltage_angles=bool(cfg["cva"]), trafo_model=cfg["tmodel"], tolerance_mva=1e-10, max_iteration=40)
        return bool(net.converged), ""
    except Exception as e:  # noqa
        return False, type(e).__name__


def _names(net, t):
    """index label -> name of table t; names must identify the rows"""
    s = net[t]["name"]
    names = [str(x) for x in s.values]
    if len(set(names)) != len(names):
        raise MachineryError("duplicate names in table %s: %s" % (t, names))
    return dict(zip(net[t].index.tolist(), names))


def observe(net, conv):
    """result tables -> {table: {name: {col: fixed point}}}"""
    out = {}
    for t, cols in COLS.items():
        tab = {}
        res = net.get("res_" + t)
        for idx, name in _names(net, t).items():
            row = {}
            for c, pc in cols.items():
                if conv and res is not None and pc in res.columns and idx in res.index:
                    row[c] = fx(res.at[idx, pc])
                else:
                    row[c] = NAN
            tab[name] = row
        out[t] = tab
    return out


def project(net):
    """structural projection of a real network (EquivDef!Proj): references resolved to NAMES"""
    bname = _names(net, "bus")
    lname = _names(net, "line")
    ename = {"b": bname, "l": lname, "t": _names(net, "trafo"), "t3": _names(net, "trafo3w")}

    def bn(i):
        return bname.get(int(i), "?%s" % i)
    out = {"bus": {n: {"ins": bool(net.bus.at[i, "in_service"])} for i, n in bname.items()}}
    for t in ("ext_grid", "gen", "sgen", "load", "ward", "xward", "shunt"):
        out[t] = {n: {"bus": bn(net[t].at[i, "bus"]), "ins": bool(net[t].at[i, "in_service"])} for i, n in _names(net, t).items()}
    out["line"] = {n: {"from": bn(net.line.at[i, "from_bus"]), "to": bn(net.line.at[i, "to_bus"]), "ins": bool(net.line.at[i, "in_service"]),
                       "par": int(net.line.at[i, "parallel"])} for i, n in lname.items()}
    out["impedance"] = {n: {"from": bn(net.impedance.at[i, "from_bus"]), "to": bn(net.impedance.at[i, "to_bus"]),
                            "ins": bool(net.impedance.at[i, "in_service"])} for i, n in _names(net, "impedance").items()}
    out["trafo"] = {n: {"hv": bn(net.trafo.at[i, "hv_bus"]), "lv": bn(net.trafo.at[i, "lv_bus"]), "ins": bool(net.trafo.at[i, "in_service"])}
                    for i, n in ename["t"].items()}
    out["trafo3w"] = {n: {"hv": bn(net.trafo3w.at[i, "hv_bus"]), "mv": bn(net.trafo3w.at[i, "mv_bus"]), "lv": bn(net.trafo3w.at[i, "lv_bus"]),
                          "ins": bool(net.trafo3w.at[i, "in_service"])} for i, n in ename["t3"].items()}
    sw = {}
    for i, n in _names(net, "switch").items():
        et = str(net.switch.at[i, "et"])
        el = int(net.switch.at[i, "element"])
        sw[n] = {"bus": bn(net.switch.at[i, "bus"]), "et": et, "elem": ename.get(et, {}).get(el, "?%s" % el)}
    out["switch"] = sw
    return out


def _idx(net, t, name):
    m = net[t].index[net[t]["name"] == name]
    if len(m) != 1:
        raise MachineryError("element %s.%s not found in the built network" % (t, name))
    return m[0]


def _rename(net, t, idxs, name):
    # replace_line_by_impedance / replace_impedance_by_line return the new index; they store the old INDEX LABEL in the name
    # column (Series.name of the iterrows() row), so the harness restores the element's name from the returned index
    for i in idxs:
        net[t].at[i, "name"] = name


def transform(st, nets):
    """carry out the transformation of state st on the built original network(s); returns the transformed network"""
    import pandapower.toolbox as tb
    cfg, tnet = st["cfg"], st["tnet"]
    tr, tg = cfg["tr"], cfg["tgt"]
    a = nets[0]
    if cfg["prop"] == "C05":
        if tr == "reidx_bus":
            b = copy.deepcopy(a)
            tb.reindex_buses(b, {int(_idx(b, "bus", n)): int(r["idx"]) for n, r in _tab(tnet, "bus").items()})
            return b
        if tr == "reidx_elm":
            b = copy.deepcopy(a)
            tb.reindex_elements(b, tg, lookup={int(_idx(b, tg, n)): int(r["idx"]) for n, r in _tab(tnet, tg).items()})
            return b
        return build(tnet)                      # every other re-representation is the spec's transformed network, instantiated
    if tr == "merge":
        return tb.merge_nets(nets[0], nets[1], validate=False, merge_results=False, std_prio_on_net1=True,
                             net2_reindex_log_level=None)
    if tr == "subnet":
        return tb.select_subnet(a, [int(_idx(a, "bus", n)) for n in _tab(tnet, "bus")])
    b = copy.deepcopy(a)
    if tr == "cont_bus":
        tb.create_continuous_bus_index(b)
    elif tr == "cont_elm":
        tb.create_continuous_elements_index(b)
    elif tr == "line2imp":
        _rename(b, "impedance", tb.replace_line_by_impedance(b, [_idx(b, "line", tg)]), tg)
    elif tr == "line_rt":
        i = _idx(b, "line", tg)
        maxi = float(b.line.at[i, "max_i_ka"])
        new = tb.replace_line_by_impedance(b, [i])
        _rename(b, "impedance", new, tg)
        _rename(b, "line", tb.replace_impedance_by_line(b, new, max_i_ka=maxi), tg)
    elif tr == "imp2line":
        _rename(b, "line", tb.replace_impedance_by_line(b, [_idx(b, "impedance", tg)]), tg)
    elif tr == "imp_rt":
        new = tb.replace_impedance_by_line(b, [_idx(b, "impedance", tg)])
        _rename(b, "line", new, tg)
        _rename(b, "impedance", tb.replace_line_by_impedance(b, new), tg)
    elif tr == "eg2gen":
        tb.replace_ext_grid_by_gen(b, [_idx(b, "ext_grid", tg)], slack=True)
    elif tr == "ward2int":
        tb.replace_ward_by_internal_elements(b, [_idx(b, "ward", tg)])
    elif tr == "xward2int":
        tb.replace_xward_by_internal_elements(b, [_idx(b, "xward", tg)])
    elif tr == "drop_oos":
        tb.drop_out_of_service_elements(b)
    elif tr == "drop_inactive":
        tb.drop_inactive_elements(b)
    elif tr == "fuse_buses":
        gone = [n for n in _tab(st["anets"][0], "bus") if n not in _tab(tnet, "bus")]
        tb.fuse_buses(b, int(_idx(b, "bus", tg)), [int(_idx(b, "bus", n)) for n in gone])
    elif tr == "merge_par":
        tb.merge_parallel_line(b, _idx(b, "line", tg))
    else:
        raise MachineryError("unknown transformation %r" % tr)
    return b


_CACHE = {}


def _original(st):
    """built + solved original network(s) of a state, cached per worker by the abstract networks"""
    cfg = st["cfg"]
    key = repr((st["anets"], cfg["cva"], cfg["tmodel"]))
    hit = _CACHE.get(key)
    if hit is None:
        nets = [build(n) for n in st["anets"]]
        ok, obs = True, {t: {} for t in COLS}
        for n in nets:
            m = copy.deepcopy(n)
            conv, _ = solve(m, cfg)
            ok = ok and conv
            for t, tab in observe(m, conv).items():
                obs[t].update(tab)
        if len(_CACHE) > 64:
            _CACHE.clear()
        hit = _CACHE[key] = (nets, ok, obs)
    return hit


def observe_case(st):
    """one case for EquivObs.tla"""
    cfg = st["cfg"]
    nets, ok_a, obs_a = _original(st)
    out = {"cfg": cfg, "okA": ok_a, "A": obs_a, "okB": False, "applied": False, "err": "", "errB": "", "B": {t: {} for t in COLS},
           "projB": {t: {} for t in ORDER}, "changed": bool(st.get("changed", True))}
    try:
        b = transform(st, [copy.deepcopy(n) for n in nets])
        out["applied"] = True
    except MachineryError:
        raise
    except Exception as e:  # noqa -- the transformation itself failed: an observation (clause *_Applied), not a harness error
        out["err"] = "%s: %s" % (type(e).__name__, str(e)[:200])
        return out
    out["projB"] = project(b)
    conv, err = solve(b, cfg)
    out["okB"] = conv
    # non-convergence is counted (vacuous); any other exception of the power flow on the transformed network is an observation
    out["errB"] = "" if conv else ("notconv" if err in ("", "LoadflowNotConverged") else "error")
    if err:
        out["err"] = "runpp on the transformed network: " + err
    out["B"] = observe(b, conv)
    return out


def enumerate_states(prop, seed, nrandom, ncorner=1):
    """run the model Equiv.tla for one property; returns (TLCResult, [state dicts])"""
    wd = tempfile.mkdtemp(prefix="ppverif_equiv_")
    try:
        name = "Equiv%s.cfg" % prop
        s = open(os.path.join(SPEC_DIR, name)).read().replace("NRandom = 10", "NRandom = %d" % nrandom).replace("NCorner = 1", "NCorner = %d" % ncorner)
        open(os.path.join(wd, name), "w").write(s)
        r = run_tlc("Equiv", name, workdir=wd, dump=True, seed=seed, timeout=3000)
    finally:
        shutil.rmtree(wd, ignore_errors=True)
    states = []
    for s in r.dump:
        st = jsonable(s)
        st["anets"] = [n for n in st["anets"]]
        states.append(st)
    states.sort(key=lambda x: repr(sorted(x["cfg"].items())))
    return r, states


# ---- the check (shared by checks/c05.py and checks/c23.py) ---------------------------------------------------------------------
BASE = ("lvl", "ring", "cva", "tmodel", "sn", "layout", "swend", "tsw")
SUM_TR = {"split", "par_expand", "fuse_move", "fuse_buses", "ward2int", "xward2int"}
REN_TR = {"par_expand", "line2imp", "imp2line", "eg2gen", "ward2int", "xward2int"}


def feature(cfg):
    """structural feature class of a case (known-findings key): the code path, and the representation feature it depends on"""
    tr = cfg["tr"]
    if tr in ("line2imp", "line_rt", "imp_rt"):
        return "replace_line_by_impedance|" + ("line_index=position" if cfg["layout"] == "id" else "line_index!=position")
    if tr == "xward2int":
        return "replace_xward_by_internal_elements|" + ("sn_mva=1" if cfg["sn"] == 1 else "sn_mva!=1")
    if tr == "subnet":
        return "select_subnet|" + ("trafo3w_switch" if cfg.get("tsw", "none") != "none" else "no_trafo3w_switch")
    return tr


def _obs_parallel(module, cfgname, cases, parts=6):
    """tlc_obs over `parts` slices in parallel JVMs (TLC evaluates the invariants of initial states in one thread)"""
    from concurrent.futures import ThreadPoolExecutor
    from .obs import tlc_obs
    n = len(cases)
    parts = max(1, min(parts, n // 40))
    size = (n + parts - 1) // parts
    slices = [(lo, cases[lo:lo + size]) for lo in range(0, n, size)]

    def one(sl):
        lo, part = sl
        fails, st = tlc_obs(module, cfgname, part, workers=2, jvm=("-Xmx2g",))
        return [(name, lo + i) for name, i in fails], st
    with ThreadPoolExecutor(len(slices)) as ex:
        res = list(ex.map(one, slices))
    fails = [f for fs, _ in res for f in fs]
    return fails, {"states": sum(st["states"] for _, st in res), "generated": sum(st["generated"] for _, st in res)}


def run_prop(prop, tier, seed, replay=None):
    from .common import Verdict, pool_map, use_repo
    v = Verdict(prop, tier, seed, "exploration")
    use_repo()
    if replay:
        states = [replay["case"]]
        mstates = mtrans = 1
    else:
        from .common import get_pool
        get_pool(8 if tier == "quick" else 16)   # workers import pandapower while TLC enumerates the model
        r, states = enumerate_states(prop, seed, *((8, 1) if tier == "quick" else (80, 2)))
        for name, st, raw in r.violations:
            v.divergence("model-level invariant %s violated" % name, jsonable(st["cfg"]) if isinstance(st, dict) and "cfg" in st else None)
        mstates, mtrans = r.distinct, r.generated
        states.sort(key=lambda s: repr([s["cfg"][k] for k in BASE] + [s["cfg"]["tr"] == "merge", s["cfg"]["tr"], s["cfg"]["tgt"]]))
    cases = pool_map(observe_case, states, chunksize=8)
    fails, ost = _obs_parallel("EquivObs", "EquivObs%s.cfg" % prop, cases)
    for name, i in fails:
        c, cfg = cases[i], cases[i]["cfg"]
        what = "%s: %s(%s) n=%s perm=%s at=%s on base %s%s" % (name, cfg["tr"], cfg["tgt"], cfg["n"], cfg["perm"], cfg["at"],
                                                               {k: cfg[k] for k in BASE}, (" -- " + c["err"]) if c["err"] else "")
        if name.startswith("Conf_"):
            v.divergence(what, {"cfg": cfg})
        else:
            v.violation("%s|%s|%s" % (prop, name, feature(cfg)), what, states[i])
    good = [c for c in cases if c["okA"] and c["okB"] and c["applied"]]
    by_tr = {}
    for c in cases:
        d = by_tr.setdefault(c["cfg"]["tr"], {"cases": 0, "both_converged": 0})
        d["cases"] += 1
        d["both_converged"] += int(c["okA"] and c["okB"])
    smp = []
    for c in cases[:400:150]:
        smp.append({"cfg": c["cfg"], "okA": c["okA"], "okB": c["okB"], "applied": c["applied"],
                    "bus_vm_A": {b: x["vm"] for b, x in c["A"]["bus"].items()}, "bus_vm_B": {b: x["vm"] for b, x in c["B"].get("bus", {}).items()}})
    v.coverage = {
        "evaluations": len(cases),
        "distinct_nontrivial": len({repr(sorted(c["cfg"].items())) for c in good if c["changed"]}),
        "rule": "states of Equiv.tla: every (transformation, target) candidate on one (quick) / two (thorough) corner base variants plus, per transformation, a TLC "
                "RandomSubset (seeded) of candidates x 960 base variants (load level, ring line, calculate_voltage_angles, trafo_model, sn_mva, index layout, end of "
                "the open line switch, switches at transformers: none / closed / open at one side of a two-winding and of a three-winding "
                "transformer; both corners have open transformer switches), filtered by the spec's Applicable; non-trivial = the transformed abstract network differs from the "
                "original, the transformation was carried out and both power flows converged",
        "states": mstates + ost["states"], "transitions": mtrans + ost["generated"], "traces_validated_against_impl": len(cases),
        "both_converged": len([c for c in cases if c["okA"] and c["okB"]]),
        "not_converged": len([c for c in cases if c["applied"] and not (c["okA"] and c["okB"]) and c["errB"] != "error"]),
        "runpp_error_on_transformed": len([c for c in cases if c["errB"] == "error"]),
        "transformation_failed": len([c for c in cases if not c["applied"]]),
        "cases_with_sum_entries": len([c for c in good if c["cfg"]["tr"] in SUM_TR]),
        "cases_with_renamed_entries": len([c for c in good if c["cfg"]["tr"] in REN_TR]),
        "cases_with_swapped_ends": len([c for c in good if c["cfg"]["tr"] == "swap"]),
        "cases_with_keys_that_disappear": len([c for c in good if c["cfg"]["tr"] in ("drop_oos", "drop_inactive", "subnet", "fuse_move", "fuse_buses")]),
        "by_transformation": by_tr, "errors": sorted({c["err"] for c in cases if c["err"]})[:10],
        "samples": smp, "exhaustive": False,
    }
    v.assumptions = ["one template network (12 buses in two islands + one de-energised bus, 7 lines, 3 transformers, 2 three-winding "
                     "transformers, impedance, 2-4 switches, 20 bus elements; open transformer switches never de-energise a bus); parameters are the integers of the abstract network (EquivDef.tla), no jitter",
                     "tolerance 30 micro-units + 20 ppm per compared value between two solves with tolerance_mva=1e-10; non-converged runs "
                     "satisfy every relation vacuously and are counted",
                     "replace_line_by_impedance / replace_impedance_by_line: the new element is located by the RETURNED index (the functions "
                     "store the old index label in the name column); targets restricted by EquivDef!Applicable (no line switches; lines "
                     "with capacitance must be left unchanged; ext_grid va_degree = 0; symmetric impedance)",
                     "structural conformance of the real transformed network with the spec's TNet (Conf_*) is reported as divergence"]
    return v.finish()
