"""CLI of the checks.  Exit 0 = property held on everything explored, 1 = VIOLATION printed, 2 = machinery failure."""
import argparse
import importlib
import json
import os
import sys
import traceback

sys.path.insert(0, os.path.dirname(os.path.dirname(os.path.abspath(__file__))))
os.environ.setdefault("PYTHONHASHSEED", "0")
for _v in ("OMP_NUM_THREADS", "OPENBLAS_NUM_THREADS", "MKL_NUM_THREADS", "NUMBA_NUM_THREADS", "NUMEXPR_NUM_THREADS"):
    os.environ.setdefault(_v, "1")


def main():
    ap = argparse.ArgumentParser()
    ap.add_argument("prop")
    ap.add_argument("--tier", default=os.environ.get("VERIF_TIER", "quick"), choices=["quick", "thorough"])
    ap.add_argument("--replay", default=None)
    a = ap.parse_args()
    seed = int(os.environ.get("VERIF_SEED", "0") or 0)
    from harness.tla import MachineryError
    try:
        mod = importlib.import_module("harness.checks." + a.prop.lower())
        replay = json.load(open(a.replay)) if a.replay else None
        rc = mod.run(a.tier, seed, replay=replay)
    except MachineryError as e:
        print("MACHINERY-FAILURE %s: %s" % (a.prop, e))
        sys.exit(2)
    except Exception:
        traceback.print_exc()
        print("MACHINERY-FAILURE %s: unexpected exception in the harness" % a.prop)
        sys.exit(2)
    sys.exit(rc)


if __name__ == "__main__":
    main()
