INIT Init
NEXT Next
CONSTANTS
  Topos = {"radial", "loop1", "loop2"}
  SlackKinds = {"ext_grid"}
  SlackPos = {0, 1}
  PVs = {FALSE}
  XSs = {FALSE}
  TrafoKinds = {"none", "t150"}
  Loads = {"moderate"}
  PVsA = {FALSE}
  TrafoKindsA = {"none"}
  LoadsA = {"moderate"}
  Topos2 = {"radial"}
  SlackKinds2 = {"ext_grid"}
  SlackPos2 = {0}
  PV2s = {FALSE}
  TrafoKinds2 = {"t150"}
  MaxIslands = 2
INVARIANT D_BfswSound
