--------------------------------- MODULE Recycle ---------------------------------
(* C12, model level: three time steps of a time series as a machine over the set of STALE ppc components.             *)
(* A configuration: the controllers' write targets W, the requested outputs O, the request form, the switch           *)
(* scenario.  TLC explores every configuration and checks that every solve sees a coherent ppc and that the batch     *)
(* reader is only chosen for variables it can produce.  Every configuration is replayed on run_timeseries.            *)
EXTENDS RecycleDef
CONSTANTS MaxW, MaxO
VARIABLES cfg, step, pc, stale, built
vars == <<cfg, step, pc, stale, built>>
Steps == 3
\* form "logvar_rev": ow.log_variable(table, variable, index=<all rows in REVERSED order>) - a logged selection keeps the order
\* the user gave;  nosb: runpp option neglect_open_switch_branches (an open branch is then switched off through its status
\* instead of an auxiliary bus) - only meaningful with an open switch
Cfgs == {c \in [W : {S \in SUBSET Writes : Cardinality(S) \in 1..MaxW}, O : {S \in SUBSET Outs : Cardinality(S) \in 1..MaxO},
                form : {"ctor", "logvar", "logvar_rev"}, sw : {"none", "open_trafo_switch", "open_line_switch"}, nosb : BOOLEAN] :
         c.nosb => c.sw # "none"}
Init == cfg \in Cfgs /\ step = 1 /\ pc = "write" /\ stale = Comp /\ built = FALSE
\* control_time_step: every ConstControl writes its profile value into the element table
Write == /\ pc = "write" /\ stale' = stale \cup UNION {Dep(w) : w \in cfg.W} /\ pc' = "solve" /\ UNCHANGED <<cfg, step, built>>
\* run: the first step (no internal ppc stored) and non-recyclable configurations build everything; later steps recycle
Solve == /\ pc = "solve"
         /\ stale' = IF ~built THEN {} ELSE (stale \ Refreshed(Agg(cfg.W))) \cup Clobbered(Agg(cfg.W))
         /\ built' = TRUE /\ pc' = "log" /\ UNCHANGED <<cfg, step>>
Log == /\ pc = "log" /\ pc' = (IF step = Steps THEN "done" ELSE "write") /\ step' = (IF step = Steps THEN step ELSE step + 1)
       /\ UNCHANGED <<cfg, stale, built>>
Next == Write \/ Solve \/ Log
Spec == Init /\ [][Next]_vars
Stop == FALSE /\ UNCHANGED vars
\* every result that is logged comes from a solve on a ppc that reflects the element tables
Coherent == pc = "log" => stale = {}
\* the batch reader is chosen only when it can produce every requested variable
BatchSound == Batch(cfg.W, cfg.O, cfg.form) => \A o \in cfg.O : o[2] \in BatchVars(o[1])
\* design facts worth knowing (checked, not required by the property): tap / line profiles never use the batch reader
TrafoNeverBatch == (\E w \in cfg.W : w[1] \in {"trafo", "line"}) => ~Batch(cfg.W, cfg.O, cfg.form)
=============================================================================
