------------------------------- MODULE NetEditDef -------------------------------
(* C22 / C27 — relational model of a pandapower net under the edit API (toolbox/grid_modification.py,            *)
(* toolbox/data_modification.py, groups.py).                                                                     *)
(*   rows : set of <<table, id>>                      every row of every element-like table                     *)
(*   refs : set of [ft, fi, col, tt, ti, kind]        row <<ft,fi>> references row <<tt,ti>> through column col *)
(*          kind = "own"    : the referencing row cannot exist without its target (element -> bus, switch ->      *)
(*                            element, measurement/cost/controller -> element)                                   *)
(*          kind = "member" : group membership; the member is removed, the group row goes when it gets empty      *)
(*   res  : set of <<table, id>>                      rows of the result tables res_<table>                      *)
(* The initial net N0 is built one to one by harness/checks/c22.py:build_net.                                    *)
EXTENDS Integers, Sequences, FiniteSets, TLC

R(ft, fi, col, tt, ti, kind) == [ft |-> ft, fi |-> fi, col |-> col, tt |-> tt, ti |-> ti, kind |-> kind]
BusEl(t, i, b) == R(t, i, "bus", "bus", b, "own")

Rows0 == {<<"bus", 0>>, <<"bus", 1>>, <<"bus", 2>>, <<"bus", 3>>,
          <<"line", 0>>, <<"line", 1>>, <<"trafo", 0>>, <<"trafo3w", 0>>,
          <<"ext_grid", 0>>, <<"gen", 0>>, <<"load", 0>>, <<"load", 1>>, <<"sgen", 0>>,
          <<"switch", 0>>, <<"switch", 1>>, <<"switch", 2>>, <<"switch", 3>>,
          <<"measurement", 0>>, <<"measurement", 1>>, <<"measurement", 2>>, <<"measurement", 3>>,
          <<"poly_cost", 0>>, <<"poly_cost", 1>>, <<"pwl_cost", 0>>,
          <<"group", 0>>, <<"group", 1>>, <<"group", 2>>, <<"group", 3>>, <<"group", 4>>, <<"group", 5>>, <<"group", 6>>,
          <<"controller", 0>>, <<"controller", 1>>, <<"controller", 2>>}
\* group table rows: 0..3 = group 0 x (line, bus, switch, load), 4..5 = group 1 x (trafo, gen),
\* 6 = group 2 x sgen, a REFERENCE-COLUMN group (members named by net.sgen.name; a member "points to an existing row" iff a
\* row carries that name - the harness projects a name without row as index -1)
Refs0 == {R("line", 0, "from_bus", "bus", 0, "own"), R("line", 0, "to_bus", "bus", 1, "own"),
          R("line", 1, "from_bus", "bus", 1, "own"), R("line", 1, "to_bus", "bus", 2, "own"),
          R("trafo", 0, "hv_bus", "bus", 2, "own"), R("trafo", 0, "lv_bus", "bus", 3, "own"),
          R("trafo3w", 0, "hv_bus", "bus", 0, "own"), R("trafo3w", 0, "mv_bus", "bus", 1, "own"),
          R("trafo3w", 0, "lv_bus", "bus", 3, "own"),
          BusEl("ext_grid", 0, 0), BusEl("gen", 0, 1), BusEl("load", 0, 1), BusEl("load", 1, 3), BusEl("sgen", 0, 2),
          BusEl("switch", 0, 1), R("switch", 0, "element", "bus", 2, "own"),
          BusEl("switch", 1, 1), R("switch", 1, "element", "line", 0, "own"),
          BusEl("switch", 2, 2), R("switch", 2, "element", "trafo", 0, "own"),
          BusEl("switch", 3, 1), R("switch", 3, "element", "trafo3w", 0, "own"),
          R("measurement", 0, "element", "bus", 1, "own"), R("measurement", 1, "element", "line", 0, "own"),
          R("measurement", 2, "element", "trafo", 0, "own"), R("measurement", 3, "element", "trafo3w", 0, "own"),
          R("poly_cost", 0, "element", "gen", 0, "own"), R("poly_cost", 1, "element", "ext_grid", 0, "own"),
          R("pwl_cost", 0, "element", "sgen", 0, "own"),
          R("group", 0, "element_index", "line", 0, "member"), R("group", 1, "element_index", "bus", 1, "member"),
          R("group", 2, "element_index", "switch", 1, "member"), R("group", 3, "element_index", "load", 0, "member"),
          R("group", 3, "element_index", "load", 1, "member"),
          R("group", 4, "element_index", "trafo", 0, "member"), R("group", 5, "element_index", "gen", 0, "member"),
          R("group", 6, "element_index", "sgen", 0, "member"),
          R("controller", 0, "element_index", "load", 0, "own"), R("controller", 1, "element_index", "trafo", 0, "own"),
          R("controller", 2, "element_index", "trafo3w", 0, "own")}
ResTables == {"bus", "line", "trafo", "trafo3w", "ext_grid", "gen", "load", "sgen"}
Res0 == {r \in Rows0 : r[1] \in ResTables}
N0 == [rows |-> Rows0, refs |-> Refs0, res |-> Res0]

\* ---- the property ----------------------------------------------------------------------------------------
RefIntegrity(n) == \A r \in n.refs : <<r.ft, r.fi>> \in n.rows /\ <<r.tt, r.ti>> \in n.rows
ResSubset(n)    == n.res \subseteq n.rows
GroupRowsNonEmpty(n) == \A g \in {x \in n.rows : x[1] = "group"} : \E r \in n.refs : r.ft = "group" /\ r.fi = g[2]

\* ---- required effects of the edit operations ----------------------------------------------------------------
RECURSIVE Closure(_, _)
Closure(n, D) == LET D2 == D \cup {<<r.ft, r.fi>> : r \in {r \in n.refs : r.kind = "own" /\ <<r.tt, r.ti>> \in D}}
                 IN IF D2 = D THEN D ELSE Closure(n, D2)
DropSet(n, D0) ==
  LET D == Closure(n, D0)
      refs1 == {r \in n.refs : <<r.ft, r.fi>> \notin D /\ <<r.tt, r.ti>> \notin D}
      emptyGroups == {g \in n.rows : g[1] = "group" /\ ~\E r \in refs1 : r.ft = "group" /\ r.fi = g[2]}
  IN [rows |-> (n.rows \ D) \ emptyGroups, refs |-> refs1, res |-> n.res \ D]
Rename(n, f(_)) ==        \* f maps <<table, id>> to <<table, id'>> (injective)
  [rows |-> {f(x) : x \in n.rows},
   refs |-> {[r EXCEPT !.fi = f(<<r.ft, r.fi>>)[2], !.ti = f(<<r.tt, r.ti>>)[2]] : r \in n.refs},
   res  |-> {f(x) : x \in n.res}]
ShiftF(tab, k, x) == IF x[1] = tab THEN <<x[1], x[2] + k>> ELSE x
Rank(n, x) == Cardinality({y \in n.rows : y[1] = x[1] /\ y[2] < x[2]})
Fuse(n, b1, b2) ==        \* fuse_buses: everything at b2 moves to b1; b2, the bus-bus switches between them and the
                          \* branches that would connect b1 with itself (drop_inner_branches) disappear
  LET sw == {<<r.ft, r.fi>> : r \in {r \in n.refs : r.ft = "switch" /\ r.col = "element" /\ r.tt = "bus" /\
                 \E q \in n.refs : q.ft = "switch" /\ q.fi = r.fi /\ q.col = "bus" /\ {q.ti, r.ti} = {b1, b2}}}
      inner == {x \in n.rows : x[1] \in {"line", "trafo", "impedance"} /\
                  \A r \in {r \in n.refs : r.ft = x[1] /\ r.fi = x[2] /\ r.tt = "bus"} : r.ti \in {b1, b2}}
      n1 == DropSet(n, sw \cup inner)
      mv == {[r EXCEPT !.ti = b1] : r \in {r \in n1.refs : r.tt = "bus" /\ r.ti = b2 /\ r.kind = "own"}}
      refs2 == {r \in n1.refs : ~(r.tt = "bus" /\ r.ti = b2)} \cup mv        \* group membership of b2 is detached
      emptyGroups == {g \in n1.rows : g[1] = "group" /\ ~\E r \in refs2 : r.ft = "group" /\ r.fi = g[2]}
  IN [rows |-> (n1.rows \ {<<"bus", b2>>}) \ emptyGroups,
      refs |-> refs2,
      res  |-> n1.res \ {<<"bus", b2>>}]

Ops == [op : {"drop"}, t : {"bus"}, i : {1, 2, 3}]
       \cup [op : {"drop"}, t : {"line", "trafo", "trafo3w", "gen", "load", "ext_grid", "sgen"}, i : {0}]
       \cup [op : {"drop"}, t : {"switch"}, i : {1}]
       \cup [op : {"reindex"}, t : {"bus", "line", "trafo", "trafo3w", "gen", "load", "switch", "sgen", "ext_grid"}, i : {10}]
       \cup [op : {"continuous"}, t : {"bus", "elements"}, i : {0}]
       \cup [op : {"fuse"}, t : {"bus"}, i : {12, 1}]          \* 12: fuse_buses(1, 2)   1: fuse_buses(0, 1)
       \cup [op : {"select"}, t : {"bus"}, i : {12, 23}]       \* 12: buses {0,1,2}      23: buses {2,3}
Enabled(n, a) ==
  CASE a.op = "drop"    -> <<a.t, a.i>> \in n.rows
    [] a.op = "reindex" -> (\E x \in n.rows : x[1] = a.t) /\ (\A x \in n.rows : x[1] = a.t => x[2] < 10)
    [] a.op = "continuous" -> TRUE
    [] a.op = "fuse"    -> IF a.i = 12 THEN {<<"bus", 1>>, <<"bus", 2>>} \subseteq n.rows ELSE {<<"bus", 0>>, <<"bus", 1>>} \subseteq n.rows
    [] a.op = "select"  -> IF a.i = 12 THEN {<<"bus", 0>>, <<"bus", 1>>, <<"bus", 2>>} \subseteq n.rows ELSE {<<"bus", 2>>, <<"bus", 3>>} \subseteq n.rows
Apply(n, a) ==
  CASE a.op = "drop"    -> DropSet(n, {<<a.t, a.i>>})
    [] a.op = "reindex" -> Rename(n, LAMBDA x : ShiftF(a.t, a.i, x))
    [] a.op = "continuous" ->
         IF a.t = "bus" THEN Rename(n, LAMBDA x : IF x[1] = "bus" THEN <<x[1], Rank(n, x)>> ELSE x)
         ELSE Rename(n, LAMBDA x : IF x[1] \notin {"group", "controller"} THEN <<x[1], Rank(n, x)>> ELSE x)   \* buses are re-indexed too
    [] a.op = "fuse"    -> IF a.i = 12 THEN Fuse(n, 1, 2) ELSE Fuse(n, 0, 1)
    [] a.op = "select"  -> LET keep == IF a.i = 12 THEN {0, 1, 2} ELSE {2, 3}
                           \* select_subnet returns a net without groups and controllers
                           IN DropSet(n, {x \in n.rows : (x[1] = "bus" /\ x[2] \notin keep) \/ x[1] \in {"group", "controller"}})
RECURSIVE Run(_, _, _)
Run(n, h, k) == IF k > Len(h) THEN n ELSE Run(Apply(n, h[k]), h, k + 1)
=============================================================================
