---------------------------------- MODULE Fix ----------------------------------
(* Fixed-point observations: a logged float x is the integer round(x * 10^6) ("micro-units") or one of the      *)
(* sentinels NaN, PInf, NInf (TLC cannot compare integers with strings).  TLC integers are 32 bit, so the        *)
(* harness asserts |x| < 1000 for every logged value; differences of two values then never overflow.            *)
EXTENDS Integers, Sequences
NaN == 2000000001
PInf == 2000000002
NInf == 2000000003
IsNum(a) == a < NaN
Abs(a) == IF a < 0 THEN -a ELSE a
MaxI(a, b) == IF a >= b THEN a ELSE b
\* |a-b| <= abs + rel_ppm * max(|a|,|b|) / 10^6 ; NaN only equals NaN, inf only the same inf
Close(a, b, abstol, relppm) ==
  IF IsNum(a) /\ IsNum(b) THEN Abs(a - b) <= abstol + (relppm * (MaxI(Abs(a), Abs(b)) \div 1000)) \div 1000
  ELSE (~IsNum(a) /\ ~IsNum(b) /\ a = b)
CloseSeq(s, t, abstol, relppm) == Len(s) = Len(t) /\ \A k \in 1..Len(s) : Close(s[k], t[k], abstol, relppm)
AllNum(s) == \A k \in 1..Len(s) : IsNum(s[k])
=============================================================================
