------------------------------ MODULE OptionsDef --------------------------------
(* C34 — option resolution of runpp (run.py runpp/_passed_runpp_parameters, auxiliary.py _init_runpp_options). *)
(* Abstract values: "D" = the signature/documented default, "A" = one valid non-default value.                *)
(* stored[p] \in {"Unset","D","A"}  : set_user_pf_options(net, p=...)                                         *)
(* passed[p] \in {"NotPassed","D","A"} : runpp(net, p=...)                                                    *)
(* REQUIRED behaviour: a passed value always wins, a stored value applies only when nothing was passed.       *)
EXTENDS Integers, FiniteSets, TLC

Named == {"algorithm", "calculate_voltage_angles", "init", "max_iteration", "tolerance_mva", "trafo_model",
          "trafo_loading", "enforce_q_lims", "check_connectivity", "voltage_depend_loads",
          "consider_line_temperature", "distributed_slack"}
Kw == {"numba", "switch_rx_ratio", "delta_q", "trafo3w_losses", "neglect_open_switch_branches", "init_vm_pu"}
\* init_vm_pu: a keyword-only option whose neutral value is None (D = None: "derive the start voltage from init", A = 1.04)
Derived == {"init", "max_iteration", "init_vm_pu"}      \* parameters that are observed through derived options
Params == Named \cup Kw

Eff(st, pa, p) == IF pa[p] # "NotPassed" THEN pa[p] ELSE IF st[p] # "Unset" THEN st[p] ELSE "D"

\* documented derivations (concrete meaning of the tokens is fixed in harness/checks/c34.py):
\*   algorithm D = "nr", A = "fdbx";  init D = "auto", A = "flat";  max_iteration D = "auto", A = 5
\*   distributed_slack A = True is rejected for every algorithm but nr
\*   init = "flat" together with an explicit start voltage is rejected (ValueError: either init or init_vm_pu / init_va_degree)
RejectedOf(e(_)) == (e("distributed_slack") = "A" /\ e("algorithm") = "A") \/ (e("init") = "A" /\ e("init_vm_pu") = "A")
ExpectedOf(e(_)) ==
  [p \in Params \ Derived |-> e(p)] @@
  [ init_vm_pu     |-> IF e("init_vm_pu") = "A" THEN "1.04" ELSE IF e("init") = "D" THEN "auto" ELSE "flat",
    init_va_degree |-> IF e("init") = "D" THEN (IF e("calculate_voltage_angles") = "D" THEN "dc" ELSE "flat") ELSE "flat",
    max_iteration  |-> IF e("max_iteration") = "A" THEN "5" ELSE IF e("algorithm") = "D" THEN "10" ELSE "30" ]
Rejected(st, pa) == RejectedOf(LAMBDA p : Eff(st, pa, p))
Expected(st, pa) == ExpectedOf(LAMBDA p : Eff(st, pa, p))

\* ---- the implementation's DEVIATIONS, named (known findings; used only to attribute failures, never to accept) ----
\* (1) run.py:_passed_runpp_parameters recognises a named argument as "passed" only if it differs from the signature
\*     default, so an explicitly passed default loses against a stored value;
\* (2) auxiliary.py:_init_runpp_options ends with net._options.update(stored), so a stored max_iteration="auto"
\*     overwrites the derived iteration limit with the string "auto".
EffImpl(st, pa, p) == IF p \in Named /\ pa[p] = "D" THEN (IF st[p] # "Unset" THEN st[p] ELSE "D") ELSE Eff(st, pa, p)
RejectedImpl(st, pa) == RejectedOf(LAMBDA p : EffImpl(st, pa, p))
ExpectedImpl(st, pa) ==
  LET x == ExpectedOf(LAMBDA p : EffImpl(st, pa, p))
  IN IF st["max_iteration"] = "D" /\ pa["max_iteration"] # "A" THEN [x EXCEPT !["max_iteration"] = "auto"] ELSE x
ExplicitDefaultLost(st, pa) == {p \in Named : pa[p] = "D" /\ st[p] = "A"}
=============================================================================
