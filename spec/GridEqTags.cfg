INIT OInit
NEXT ONext
INVARIANT Tag_ReiRegular
INVARIANT Tag_XwardCoupled
INVARIANT Tag_ExtConnected
