------------------------------- MODULE BalanceNet -------------------------------
(* Model level of the power-balance family (C01 C03 C04 C10): TLC chooses the STRUCTURE of every case — which        *)
(* elements are in service at which bus, ZIP fractions, option combinations — as corner configurations (everything    *)
(* on / off, every single element toggled) plus a seeded random subset (-seed) of the full product space, and checks  *)
(* that every chosen configuration is one the properties speak about (all buses supplied, consistent options).         *)
(* The harness instantiates every state on the template network, runs the real power flow and logs the result tables; *)
(* Balance*Obs.tla evaluate the properties' relations on those logs using the contribution map of BalanceDef.         *)
EXTENDS BalanceDef, Randomization
CONSTANTS NRandom
VARIABLE cfg
OptEl == [g0 : BOOLEAN, g1 : BOOLEAN, g2 : BOOLEAN, g3 : BOOLEAN, sg0 : BOOLEAN, sg1 : BOOLEAN, ld0 : BOOLEAN, ld1 : BOOLEAN, ld2 : BOOLEAN,
          ld3 : BOOLEAN, st0 : BOOLEAN, mo0 : BOOLEAN, sh0 : BOOLEAN, wa0 : BOOLEAN, xw0 : BOOLEAN, al0 : BOOLEAN, as0 : BOOLEAN,
          l2 : BOOLEAN, w0 : BOOLEAN, i0 : BOOLEAN, z0 : BOOLEAN, d0 : BOOLEAN]
ElNames == {"g0", "g1", "g2", "g3", "sg0", "sg1", "ld0", "ld1", "ld2", "ld3", "st0", "mo0", "sh0", "wa0", "xw0", "al0", "as0",
            "l2", "w0", "i0", "z0", "d0"}
ASSUME ElNames = (NodeNames \cup BranchNames) \ Always
\* the full product space: every element on/off x every option level (about 10^9 configurations; sampled by RandomSubset)
AllCfgs == [g0 : BOOLEAN, g1 : BOOLEAN, g2 : BOOLEAN, g3 : BOOLEAN, sg0 : BOOLEAN, sg1 : BOOLEAN, ld0 : BOOLEAN, ld1 : BOOLEAN, ld2 : BOOLEAN,
            ld3 : BOOLEAN, st0 : BOOLEAN, mo0 : BOOLEAN, sh0 : BOOLEAN, wa0 : BOOLEAN, xw0 : BOOLEAN, al0 : BOOLEAN, as0 : BOOLEAN,
            l2 : BOOLEAN, w0 : BOOLEAN, i0 : BOOLEAN, z0 : BOOLEAN, d0 : BOOLEAN,
            zip : {"p", "mix", "z"}, vdl : BOOLEAN, mode : {"ac", "dc"}, tmodel : {"t", "pi"}, qlims : BOOLEAN, qtight : BOOLEAN,
            qstag : BOOLEAN, dslack : BOOLEAN, wts : 1..3, scal : {"one", "half"}, shvn : {"bus", "other"}, sn : {1, 10}, ls2g : BOOLEAN,
            shpq : {"std", "equal", "table"}, alg : {"nr", "fdbx"}]
Opts(zip, vdl, mode, ql, ds) == [zip |-> zip, vdl |-> vdl, mode |-> mode, tmodel |-> "t", qlims |-> ql, qtight |-> ql, qstag |-> FALSE, dslack |-> ds,
                                 wts |-> 2, scal |-> "one", shvn |-> "other", sn |-> 1, ls2g |-> TRUE, shpq |-> "std", alg |-> "nr"]
CornerOpt == {Opts("p", FALSE, "ac", FALSE, FALSE), Opts("mix", TRUE, "ac", FALSE, FALSE), Opts("p", FALSE, "dc", FALSE, FALSE),
              Opts("p", FALSE, "ac", TRUE, FALSE), Opts("p", FALSE, "ac", FALSE, TRUE), Opts("mix", TRUE, "ac", TRUE, TRUE),
              [Opts("p", FALSE, "ac", FALSE, TRUE) EXCEPT !.sn = 10, !.ls2g = FALSE],
              [Opts("p", FALSE, "ac", TRUE, TRUE) EXCEPT !.ls2g = FALSE, !.scal = "half"],
              [Opts("p", FALSE, "ac", FALSE, FALSE) EXCEPT !.shpq = "equal", !.sn = 10],
              [Opts("p", FALSE, "ac", FALSE, FALSE) EXCEPT !.shpq = "table"], [Opts("p", FALSE, "dc", FALSE, FALSE) EXCEPT !.shpq = "table"],
              [Opts("p", FALSE, "ac", TRUE, FALSE) EXCEPT !.alg = "fdbx"], [Opts("p", FALSE, "ac", FALSE, FALSE) EXCEPT !.alg = "fdbx"],
              \* reactive limits that become binding one after the other: both Newton back-ends
              [Opts("p", FALSE, "ac", TRUE, FALSE) EXCEPT !.qstag = TRUE], [Opts("p", FALSE, "ac", TRUE, FALSE) EXCEPT !.qstag = TRUE, !.ls2g = FALSE]}
AllOn == [n \in ElNames |-> TRUE]
AllOff == [n \in ElNames |-> FALSE]
CornerOn == {AllOn, AllOff} \cup {[AllOn EXCEPT ![n] = FALSE] : n \in ElNames} \cup {[AllOff EXCEPT ![n] = TRUE] : n \in ElNames}
           \cup {[AllOff EXCEPT !["ld0"] = TRUE, !["ld1"] = TRUE], [AllOff EXCEPT !["ld0"] = TRUE, !["sg1"] = TRUE],
                 [AllOff EXCEPT !["g0"] = TRUE, !["g1"] = TRUE], [AllOff EXCEPT !["g0"] = TRUE, !["xw0"] = TRUE, !["g2"] = TRUE],
                 [AllOff EXCEPT !["g3"] = TRUE, !["ld1"] = TRUE], [AllOff EXCEPT !["sh0"] = TRUE, !["wa0"] = TRUE, !["ld1"] = TRUE],
                 [AllOff EXCEPT !["xw0"] = TRUE, !["ld1"] = TRUE, !["g2"] = TRUE]}
Corners == {e @@ o : e \in CornerOn, o \in CornerOpt}
\* configurations the properties speak about
WellFormed(c) == /\ (c.g1 => c.g0)                                               \* two gens on one bus share the setpoint
                 /\ (c.mode = "dc" => ~c.dslack /\ ~c.qlims /\ ~c.vdl /\ ~c.qtight)
                 /\ (c.qtight => c.qlims)                                        \* (qstag is without effect unless qtight, g0 and g2)
                 /\ (c.dslack => ~c.d0)                                           \* dcline gens carry no slack weight
                 /\ (c.alg # "nr" => c.mode = "ac" /\ ~c.vdl /\ ~c.dslack /\ c.ls2g)     \* what the PYPOWER algorithms support
Init == cfg \in (Corners \cup RandomSubset(NRandom, AllCfgs)) /\ WellFormed(cfg)
Next == UNCHANGED cfg
\* ---- model-level checks ----------------------------------------------------------------------------------------------
AdjOK(c) == {<<Branch[br].buses[j], Branch[br].buses[k]>> : br \in {x \in BranchNames : On(c, x) /\ Branch[x].kind # "dcline"},
             j \in {1, 2}, k \in {1, 2}}
             \cup {<<Branch["w0"].buses[j], Branch["w0"].buses[k]>> : j \in 1..3, k \in IF On(c, "w0") THEN 1..3 ELSE {}}
RECURSIVE Reach(_, _)
Reach(c, S) == LET N == S \cup {b \in Buses : \E a \in S : <<a, b>> \in AdjOK(c) \/ Class(a) = Class(b)} IN IF N = S THEN S ELSE Reach(c, N)
AllSupplied == Reach(cfg, {0}) = Buses
EveryClassHasTerminal == \A k \in Classes : TermsInClass(cfg, k) # {}
SlackParticipant == cfg.dslack => \E n \in {"e0", "g0", "g1", "g2", "g3", "xw0"} : On(cfg, n)
=============================================================================
