INIT OInit
NEXT ONext
INVARIANT C09_SameAsDeepCopy
INVARIANT C09_ConvergesLikeDeepCopy
INVARIANT C09_SameAsFresh
INVARIANT C09_ConvergesLikeFresh
INVARIANT C09_NaNMask
INVARIANT C09_ElementTablesSameAsFresh
INVARIANT C09_FailedLikeFresh
INVARIANT C09_FailsWithoutReference
