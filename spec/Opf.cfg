INIT Init
NEXT Next
CONSTANTS
  Slice = "feas"
  AcSet = {TRUE, FALSE}
  OptSet = {"default", "tight"}
  MeshSet = {TRUE, FALSE}
  DclSet = {0, 1, 2}
  EgcSet = {TRUE, FALSE}
  VbandSet = {"wide", "narrow"}
  PlimSet = {"loose", "tight"}
  QlimSet = {"tight"}
  RateSet = {"loose", "tight"}
  VarSet = {1}
  CtrlSets = {{}, {"gen", "storage"}, {"sgen", "load"}, {"gen", "sgen", "load", "storage"}}
  Profiles = {"lin", "pwl"}
  MaxCosted = 1
  GridModelMax = 150
INVARIANT ObjectiveConvention
INVARIANT PwlWellFormed
INVARIANT CostInRange
INVARIANT PwlTranscriptionAgrees
INVARIANT GridOptSane
INVARIANT NoUnclassifiedDeviation
INVARIANT GridSmall
