INIT Init
NEXT Next
CONSTANTS
  Slice = "feas"
  AcSet = {TRUE, FALSE}
  OptSet = {"default", "tight"}
  MeshSet = {TRUE, FALSE}
  DclSet = {"none", "f", "F", "r", "fr", "rf"}
  EgcSet = {TRUE, FALSE}
  VbandSet = {"wide", "narrow"}
  PlimSet = {"loose", "tight"}
  QlimSet = {"tight"}
  RateSet = {"loose", "tight", "trafo"}
  VarSet = {1, 3}
  ShiftSet = {0, 30, 330}
  SnSet = {1, 10}
  GhostSet = {"none", "storage"}
  MaxDev = 1
  CtrlSets = {{}, {"gen", "storage"}, {"sgen", "load"}, {"gen", "sgen", "load", "storage"}}
  Profiles = {"lin", "pwl"}
  MaxCosted = 1
  GridModelMax = 1000
INVARIANT ObjectiveConvention
INVARIANT PwlWellFormed
INVARIANT CostInRange
INVARIANT PwlTranscriptionAgrees
INVARIANT GridOptSane
INVARIANT NoUnclassifiedDeviation
INVARIANT GridSmall
INVARIANT GhostRowVanishes
INVARIANT DclWellFormed
