INIT Init
NEXT Next
CONSTANTS
  Slice = "feas"
  AcSet = {TRUE, FALSE}
  OptSet = {"default", "tight"}
  MeshSet = {TRUE, FALSE}
  DclSet = {0, 1, 2}
  EgcSet = {TRUE, FALSE}
  VbandSet = {"wide", "narrow"}
  PlimSet = {"loose", "tight"}
  QlimSet = {"loose", "tight"}
  RateSet = {"loose", "tight"}
  VarSet = {1, 2}
  CtrlSets = {{}, {"gen"}, {"sgen", "load"}, {"gen", "storage"}, {"sgen", "load", "storage"}, {"gen", "sgen", "load", "storage"}}
  Profiles = {"lin", "pwl"}
  MaxCosted = 1
INVARIANT ObjectiveConvention
INVARIANT PwlWellFormed
INVARIANT CostInRange
INVARIANT PwlTranscriptionAgrees
INVARIANT GridOptSane
INVARIANT GridSmall
