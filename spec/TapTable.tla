-------------------------------- MODULE TapTable --------------------------------
(* C31 — tabular tap dependency.  Three 2W transformers t1, t2 (tap side hv) and t3 (tap side lv) feed separate  *)
(* LV buses from one 20 kV bus; each has a flag dep (tap_dependency_table), a characteristic id and a tap        *)
(* position.  The characteristic table holds a DISTINCT row for every (id, step).                                 *)
(* REQUIRED: the effective ratio / angle / vk / vkr of transformer t is the row <<id_t, pos_t>> of the table,      *)
(* independent of every other transformer; without dep the transformer's own tap changer data apply.             *)
(* Second family (Init3, TapTable3W.cfg): one three-winding transformer W (dep, id, tap position, tap side hv / mv  *)
(* / lv, tap at the star point or not, tap changer type) plus a second 3W or a 2W transformer that may share W's    *)
(* characteristic id at a different step.  Table rule, and which members use the self-consistency oracle ("lin")   *)
(* and which the row-entered-directly oracle ("off"): TapTableDef.tla.  In that family p stands for tap_pos = p - 1 *)
(* with tap_neutral = 1.                                                                                           *)
EXTENDS Integers, FiniteSets, TLC, TapTableDef
CONSTANTS Ids, Positions      \* 2W family: a position p stands for tap_pos = p - 2 (cfg files cannot hold negative numbers)
T == 1..3
VARIABLES cfg, eff
Cfgs == [T -> [dep : BOOLEAN, id : Ids, pos : Positions]]
Eff(c, t) == IF c[t].dep THEN <<"row", c[t].id, c[t].pos>> ELSE <<"own", 0, c[t].pos>>
Init == cfg \in Cfgs /\ eff = [t \in T |-> Eff(cfg, t)]
Next == UNCHANGED <<cfg, eff>>
\* model-level: a transformer's effective row is untouched by changes to the other transformers
Independent == \A t \in T : \A c2 \in {c \in Cfgs : c[t] = cfg[t]} : Eff(c2, t) = eff[t]
OwnRow == \A t \in T : cfg[t].dep => eff[t] = <<"row", cfg[t].id, cfg[t].pos>>
-----------------------------------------------------------------------------
\* three-winding family: cfg = [w, o, member] (TapTableDef), eff = [tab : one source per (id, pos), ref : what B is]
Cfg3 == {c \in [w : [dep : BOOLEAN, id : Ids, pos : Positions, side : Sides, star : BOOLEAN, type : Types],
                 o : [kind : OKinds, pos : Positions], member : {"lin", "off"}] :
           /\ (c.member = "lin" => LinOK(c.w)) /\ (c.member = "off" => OffOK(c.w))
           /\ (IF c.o.kind = "none" THEN c.o.pos = c.w.pos ELSE c.o.pos # c.w.pos)}
Init3 == cfg \in Cfg3 /\ eff = Eff3(cfg, Ids, Positions)
RowAt(id, pos) == CHOOSE r \in eff.tab : r.id = id /\ r.pos = pos
\* model-level: exactly one row per (id, step); a dependent W reads a row that is W's own; that row does not depend
\* on the other transformers; the other table-dependent transformer has its own row at its own step
OneRowPerKey3 == Cardinality(eff.tab) = Cardinality(Ids) * Cardinality(Positions)
                 /\ \A d \in Ids, p \in Positions : Cardinality({r \in eff.tab : r.id = d /\ r.pos = p}) = 1
OwnRow3 == /\ cfg.w.dep => RowAt(cfg.w.id, cfg.w.pos).src = (IF cfg.member = "off" THEN "w_off" ELSE "w_own")
           /\ ~cfg.w.dep => \A r \in eff.tab : r.src \notin {"w_own", "w_off"}
           /\ cfg.o.kind # "none" => RowAt(cfg.w.id, cfg.o.pos).src = "o_own"
           /\ \A r \in eff.tab : r.src # "junk" => r.id = cfg.w.id /\ r.pos \in {cfg.w.pos, cfg.o.pos}
Independent3 == \A o2 \in [kind : OKinds, pos : Positions] : LET c2 == [cfg EXCEPT !.o = o2] IN
                    c2 \in Cfg3 => Src3(c2, cfg.w.id, cfg.w.pos) = RowAt(cfg.w.id, cfg.w.pos).src
OffOnlyAtTerminal3 == eff.ref = "entered" => cfg.w.dep /\ ~cfg.w.star
=============================================================================
