-------------------------------- MODULE TapTable --------------------------------
(* C31 — tabular tap dependency.  Three 2W transformers t1, t2 (tap side hv) and t3 (tap side lv) feed separate  *)
(* LV buses from one 20 kV bus; each has a flag dep (tap_dependency_table), a characteristic id and a tap        *)
(* position.  The characteristic table holds a DISTINCT row for every (id, step).                                 *)
(* REQUIRED: the effective ratio / angle / vk / vkr of transformer t is the row <<id_t, pos_t>> of the table,      *)
(* independent of every other transformer; without dep the transformer's own tap changer data apply.             *)
EXTENDS Integers, FiniteSets, TLC
CONSTANTS Ids, Positions      \* a position p stands for tap_pos = p - 2 (cfg files cannot hold negative numbers)
T == 1..3
VARIABLES cfg, eff
Cfgs == [T -> [dep : BOOLEAN, id : Ids, pos : Positions]]
Eff(c, t) == IF c[t].dep THEN <<"row", c[t].id, c[t].pos>> ELSE <<"own", 0, c[t].pos>>
Init == cfg \in Cfgs /\ eff = [t \in T |-> Eff(cfg, t)]
Next == UNCHANGED <<cfg, eff>>
\* model-level: a transformer's effective row is untouched by changes to the other transformers
Independent == \A t \in T : \A c2 \in {c \in Cfgs : c[t] = cfg[t]} : Eff(c2, t) = eff[t]
OwnRow == \A t \in T : cfg[t].dep => eff[t] = <<"row", cfg[t].id, cfg[t].pos>>
=============================================================================
