------------------------------- MODULE Protection -------------------------------
(* C29, model level.  TLC enumerates every device configuration over the level sets of the cfg file and every         *)
(* history of at most Depth actions (reset / protection_function at a current level around a threshold / status_to_net *)
(* / str) on it.  Every dumped state of full depth is replayed on a real Fuse / OCRelay (harness/checks/c29.py).       *)
EXTENDS ProtectionDef
CONSTANTS Kinds,        \* subset of {"DTOC", "IDMT", "IDTOC", "FUSE"}
          ILevels,      \* pick-up current levels (multiples of 8 so that thr-1, thr+1 and the midpoints are distinct)
          TLevels,      \* definite-time levels for t>> <= t>
          DLevels,      \* time grading step t_diff (list route)
          MLevels,      \* tms levels
          GLevels,      \* t_grade levels
          Curves,       \* IDMT curve types
          PRoutes, TRoutes,
          Envs,         \* environments 10*sw + (1 if scenario "pp" else 0): which switch the device acts on, which table it reads
          FRoutes, StdSets, Sels, Places,   \* fuse: routes, present data sets, curve_select, placements 10*before + after
          NPoints, XLevels, YLevels,        \* fuse: number of support points, current levels, melting-time levels
          Probe,        \* "all": every current level of Currents(cfg); "reps": one representative level per stage
          Depth
VARIABLES cfg, hist, s

Pairs(S) == {p \in S \X S : p[1] < p[2]}
Triples(S) == {p \in S \X S \X S : p[1] < p[2] /\ p[2] < p[3]}
TPairs == {p \in TLevels \X TLevels : p[1] <= p[2]}           \* <<Tgg, Tg>>
SwOf(e) == e \div 10
ScenOf(e) == IF e % 10 = 1 THEN "pp" ELSE "sc"

DTOCCfgs == { [kind |-> "DTOC", proute |-> p, troute |-> tr, sw |-> SwOf(e), scen |-> ScenOf(e), curve |-> "none",
               Is |-> 0, Ig |-> ip[1], Igg |-> ip[2], Tgg |-> tp[1], Tg |-> tp[2], Tdiff |-> d, Tms |-> 0, Tgrade |-> 0] :
              p \in PRoutes, tr \in TRoutes, e \in Envs, ip \in Pairs(ILevels), tp \in TPairs,
              d \in DLevels }
IDMTCfgs == { [kind |-> "IDMT", proute |-> p, troute |-> tr, sw |-> SwOf(e), scen |-> ScenOf(e), curve |-> cu,
               Is |-> i, Ig |-> 0, Igg |-> 0, Tgg |-> 0, Tg |-> 0, Tdiff |-> 0, Tms |-> m, Tgrade |-> g] :
              p \in PRoutes, tr \in TRoutes, e \in Envs, cu \in Curves, i \in ILevels,
              m \in MLevels, g \in GLevels }
\* IDTOC takes its five time settings as a list only (time_settings[0..4], ocrelay.py:166-170)
IDTOCCfgs == { [kind |-> "IDTOC", proute |-> p, troute |-> "list", sw |-> SwOf(e), scen |-> ScenOf(e), curve |-> cu,
                Is |-> ip[1], Ig |-> ip[2], Igg |-> ip[3], Tgg |-> tp[1], Tg |-> tp[2], Tdiff |-> d, Tms |-> m, Tgrade |-> g] :
               p \in PRoutes, e \in Envs, cu \in Curves, ip \in Triples(ILevels), tp \in TPairs,
               d \in DLevels, m \in MLevels, g \in GLevels }
RelayCfgs0 == (IF "DTOC" \in Kinds THEN DTOCCfgs ELSE {}) \cup (IF "IDMT" \in Kinds THEN IDMTCfgs ELSE {})
              \cup (IF "IDTOC" \in Kinds THEN IDTOCCfgs ELSE {})
\* the frame route has no grading step: normalise Tdiff to one value there
RelayCfgs == {c \in RelayCfgs0 : c.troute = "list" \/ c.Tdiff = SetMin(DLevels)}

IncSeqs(n, S) == {q \in [1..n -> S] : \A j \in 1..n - 1 : q[j] < q[j + 1]}
NonIncSeqs(n, S) == {q \in [1..n -> S] : \A j \in 1..n - 1 : q[j] >= q[j + 1]}
PointSets == { <<xs, ys>> : xs \in UNION {IncSeqs(n, XLevels) : n \in NPoints}, ys \in UNION {NonIncSeqs(n, YLevels) : n \in NPoints} }
FuseRec(fr, st, se, pl, e, p) == [kind |-> "FUSE", froute |-> fr, sets |-> st, sel |-> se, before |-> pl \div 10, after |-> pl % 10,
                                  x |-> p[1], y |-> p[2], sw |-> SwOf(e), scen |-> ScenOf(e)]
\* the direct route passes one data set to create_characteristic: no std-type fields to choose
FuseDirect == { FuseRec("direct", {"a"}, 0, pl, e, p) : pl \in Places, e \in Envs, p \in {q \in PointSets : Len(q[1]) = Len(q[2])} }
FuseStd == { FuseRec("std", st, se, pl, e, p) : st \in StdSets, se \in Sels, pl \in Places, e \in Envs,
                                               p \in {q \in PointSets : Len(q[1]) = Len(q[2])} }
FuseCfgs == IF "FUSE" \notin Kinds THEN {} ELSE
            (IF "direct" \in FRoutes THEN FuseDirect ELSE {}) \cup (IF "std" \in FRoutes THEN FuseStd ELSE {})
Configs == RelayCfgs \cup FuseCfgs

Init == cfg \in Configs /\ hist = <<>> /\ s = S0
Next == /\ Len(hist) < Depth
        /\ Valid(cfg)                              \* a refused configuration has no device to act on
        /\ \E a \in Ops(cfg, Probe) : hist' = Append(hist, a) /\ s' = Step(cfg, s, a) /\ UNCHANGED cfg

--------------------------------------------------------------------------------
(* Model-level theorems.  Those guarded by AtRoot depend on the configuration only (evaluated on the initial states). *)
Consistent == s = Run(cfg, S0, hist, 1)
AtRoot == hist = <<>> /\ Valid(cfg)
\* trip <=> above the pick-up / start value: the stages tile the current axis
TripIffPickup == AtRoot => LET Cs == Currents(cfg) pk == Pickup(cfg) IN
                   \A I \in Cs : Trip(cfg, I) <=> IF IsFuse(cfg) THEN I >= pk ELSE I > pk
\* consistent grading is sufficient for a non-increasing trip time over ALL enumerated currents
GradedIsMonotone == (AtRoot /\ Graded(cfg)) => LET Cs == Currents(cfg) at == [I \in Cs |-> ATime(cfg, I)] IN
                      \A I1 \in Cs, I2 \in Cs : I1 < I2 => ALeq(cfg, at[I2], at[I1])
\* every threshold is probed exactly and on both sides
BoundariesProbed == AtRoot => LET Cs == Currents(cfg) IN
                      /\ \A t \in Thresholds(cfg) : (t \in Cs) /\ (t - 1 \in Cs \/ \E I \in Cs : I < t) /\ (\E I \in Cs : I > t)
                      /\ \A I \in Cs : I > 0
\* the representatives enter every stage that the full set of levels enters
RepsCoverStages == AtRoot => {Region(cfg, I) : I \in Reps(cfg)} = {Region(cfg, I) : I \in Currents(cfg)}
\* the decoy current always lies on the other side of the pick-up
DecoyFlips == AtRoot => \A I \in Currents(cfg) : Trip(cfg, Decoy(cfg, I)) # Trip(cfg, I) /\ Decoy(cfg, I) > 0
\* the device flag is a function of the LAST evaluation only; the switch follows the flag only through status_to_net
Stateless == \A k \in 1..Len(hist) : hist[k].op = "eval" =>
               Post(cfg, hist, k).tripped = Trip(cfg, hist[k].I) /\ Post(cfg, hist, k).closed = Pre(cfg, hist, k).closed
SwitchFollows == \A k \in 1..Len(hist) : hist[k].op = "apply" => Post(cfg, hist, k).closed = ~Pre(cfg, hist, k).tripped
=============================================================================
