------------------------------ MODULE SolversObs ------------------------------
(* C06, implementation level.  One case = one network class x calculate_voltage_angles instantiated on the real     *)
(* code, with one recorded run per solver configuration of Solvers.tla:                                             *)
(*   C = [c, cva, runs]      runs[s] = [res0, out, etype, seen, opts, traced, calls,                                *)
(*                                      vm, va, pl, ql, pt, qt, ph, qh, pe, qe, pg, qg]                              *)
(*   res0   result tables of a previous run existed (the pre-state net.res of the Solve step)                        *)
(*   out    "ok" | "not_converged" (LoadflowNotConverged) | "error" (any other exception, class name in etype)      *)
(*   opts   net._options after the run (seen = they were written by this run); calls = recorded call trace           *)
(*   vm/va  res_bus.vm_pu / va_degree;  pl ql pt qt  res_line p/q from/to;  ph qh  res_trafo p/q hv;                 *)
(*   pe qe  res_ext_grid;  pg qg  res_gen   -- micro-units (Fix.tla), rows of out-of-service elements included        *)
(* Every required result (plan, allowed outcomes, predictions) is recomputed here from C.c / C.cva with the          *)
(* operators of SolversDef.tla -- the observations only supply what the implementation did.                          *)
(* Tolerances: two independent solves at tolerance_mva = 1e-9: 30 micro-units + 20 ppm; angles 300 micro-degree,     *)
(* compared modulo 360 degrees.                                                                                     *)
EXTENDS SolversDef, Fix, Json, IOUtils
VARIABLE i
Cases == JsonDeserialize(IOEnv.OBS_FILE)
OInit == i \in 1..Len(Cases)
ONext == UNCHANGED i
C == Cases[i]
Has(s) == s \in DOMAIN C.runs
R(s) == C.runs[s]
\* the fields of Plan(C.c, C.cva, s, R(s).res0), evaluated one by one (SolversDef!Plan is their record)
PR(s) == Resolve(C.c, C.cva, s, R(s).res0)
PCalls(s) == Calls(C.c, PR(s))
PAllowed(s) == Allowed(C.c, s)
PComparable(s) == Comparable(C.c, C.cva, s, R(s).res0)
RefOk == Has(RefSolver) /\ R(RefSolver).out = "ok"

AbsTol == 30
RelPpm == 20
AngTol == 300
Turn == 360000000
AngleClose(a, b) == IF IsNum(a) /\ IsNum(b) THEN \E k \in -2..2 : Abs(a + k * Turn - b) <= AngTol ELSE a = b
AngleSeq(s, t) == Len(s) = Len(t) /\ \A k \in 1..Len(s) : AngleClose(s[k], t[k])
Q(a, b) == CloseSeq(a, b, AbsTol, RelPpm)
Same(x, y) == /\ Q(x.vm, y.vm) /\ AngleSeq(x.va, y.va)
              /\ Q(x.pl, y.pl) /\ Q(x.ql, y.ql) /\ Q(x.pt, y.pt) /\ Q(x.qt, y.qt)
              /\ Q(x.ph, y.ph) /\ Q(x.qh, y.qh) /\ Q(x.pe, y.pe) /\ Q(x.qe, y.qe) /\ Q(x.pg, y.pg) /\ Q(x.qg, y.qg)

-----------------------------------------------------------------------------
(* PROPERTY, clause 1: a solver configuration that returns agrees with the reference (one invariant per             *)
(* configuration so that TLC names the configuration that disagrees)                                               *)
SameFor(s) == (Has(s) /\ RefOk /\ R(s).out = "ok" /\ PComparable(s)) => Same(R(s), R(RefSolver))
C06_Same_nr_pp      == SameFor("nr_pp")
C06_Same_nr_ls2g    == SameFor("nr_ls2g")
C06_Same_nr_nonumba == SameFor("nr_nonumba")
C06_Same_nr_dc      == SameFor("nr_dc")
C06_Same_nr_flat    == SameFor("nr_flat")
C06_Same_nr_results == SameFor("nr_results")
C06_Same_iwamoto_nr == SameFor("iwamoto_nr")
C06_Same_bfsw       == SameFor("bfsw")
C06_Same_gs         == SameFor("gs")
C06_Same_gs_it3     == SameFor("gs_it3")
C06_Same_fdbx       == SameFor("fdbx")
C06_Same_fdxb       == SameFor("fdxb")
\* every configuration of the model has its clause above
ASSUME AltSolvers = {"nr_pp", "nr_ls2g", "nr_nonumba", "nr_dc", "nr_flat", "nr_results", "iwamoto_nr", "bfsw", "gs",
                     "gs_it3", "fdbx", "fdxb"}

(* PROPERTY, clause 2: on radial / weakly meshed classes with one slack per island that Newton-Raphson solves, the   *)
(* sweep does not die with an internal error; clause 3: where its convergence is not in question it solves           *)
C06_BfswNoInternalError == (Has("bfsw") /\ RefOk /\ "error" \notin PAllowed("bfsw")) => R("bfsw").out # "error"
C06_BfswMustSolve       == (Has("bfsw") /\ RefOk /\ PAllowed("bfsw") = {"ok"}) => R("bfsw").out = "ok"

-----------------------------------------------------------------------------
(* CONFORMANCE of the model's decision functions with the code (a failure is a divergence of the specification,     *)
(* reported in the evidence, not a violation of C06)                                                                *)
C06_ConfOptions == \A s \in DOMAIN C.runs : R(s).seen =>
  LET o == R(s).opts  r == PR(s) IN
  /\ o.alg = r.alg /\ o.init_vm = r.init_vm /\ o.init_va = r.init_va /\ o.maxit = r.maxit
  /\ o.numba = r.numba /\ o.ls2g = (r.ls2g = "on")
C06_ConfUnsupported == \A s \in DOMAIN C.runs :
  (PR(s).ls2g = "unsupported") <=> (R(s).out = "error" /\ R(s).etype = "NotImplementedError")
IsPrefix(s, t) == Len(s) <= Len(t) /\ \A k \in 1..Len(s) : s[k] = t[k]
C06_ConfCalls == \A s \in DOMAIN C.runs : R(s).traced =>
  /\ IsPrefix(R(s).calls, PCalls(s))
  /\ R(s).out = "ok" => R(s).calls = PCalls(s)
\* the index model explains the internal errors of the sweep, and only those
C06_ConfBfswCrash == (Has("bfsw") /\ RefOk /\ BfswPred(C.c) # "unspecified") =>
  /\ (BfswPred(C.c) = "index_error") <=> (R("bfsw").out = "error" /\ R("bfsw").etype = "ValueError")
  /\ BfswPred(C.c) = "sound" => R("bfsw").out # "error"
\* the phase-shift model predicts the angle the sweep reports, bus by bus
C06_ConfBfswAngle == (Has("bfsw") /\ RefOk /\ R("bfsw").out = "ok") =>
  LET e == BfswAngleErrs(C.c, C.cva) IN
  \A b \in Buses(C.c) : AngleClose(R("bfsw").va[b + 1] - 150000000 * e[b], R(RefSolver).va[b + 1])
\* the generator keeps the classes well conditioned
C06_ConfWellConditioned == RefOk => \A k \in 1..Len(R(RefSolver).vm) :
  LET v == R(RefSolver).vm[k] IN IsNum(v) /\ v > 850000 /\ v < 1150000
=============================================================================
