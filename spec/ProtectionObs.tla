----------------------------- MODULE ProtectionObs -----------------------------
(* C29, implementation level.  One case = one configuration dumped by Protection.tla, built as a real Fuse / OCRelay  *)
(* on a two-line radial feeder with two line switches, together with the histories TLC generated for it.  Every        *)
(* history starts from the freshly built device.  For each action the harness logs                                     *)
(*   ok       no exception                      tripped   device.has_tripped() after the action                        *)
(*   closed   net.switch.closed[c.sw]           oclosed   net.switch.closed of the other switch                        *)
(* and for op = "eval" (calculate_protection_times(net, scenario = c.scen) after writing the currents):                *)
(*   rows     number of result rows             trip      trip_melt                                                    *)
(*   t        trip_melt_time_s  (fixed point: 1 unit = 10 microseconds; +inf -> PInf, nan -> NaN)                      *)
(*   val      activation_parameter_value and  fed = the current written into the cell the device has to read           *)
(*            (both in micro-kA), par / ptype / swid = activation_parameter, protection_type, switch_id                *)
(* C.jitter: non-threshold current levels were fed with a seeded offset |d| <= 0.4 level (thorough tier); every clause *)
(* below is insensitive to it because thresholds are integer levels: the stage and the order of two levels are kept.  *)
(* All required values are computed here from the abstract configuration with the operators of ProtectionDef.          *)
(* Tolerances: definite times, the zero of a blown fuse and the activation value are compared EXACTLY (they are        *)
(* passed through); ordering of two times: t2 <= t1 + 1 unit; a melting time inside its bracket of support values:     *)
(* 2 units + 1 ppm.                                                                                                    *)
EXTENDS ProtectionDef, Fix, Json, IOUtils
VARIABLE i
Cases == JsonDeserialize(IOEnv.OBS_FILE)
OInit == i \in 1..Len(Cases)
ONext == UNCHANGED i
C == Cases[i]
\* JSON has no sets: the std-type data sets arrive as a sequence
Cf == IF C.cfg.kind = "FUSE" THEN [C.cfg EXCEPT !.sets = {C.cfg.sets[j] : j \in 1..Len(C.cfg.sets)}] ELSE C.cfg
Runs == C.runs
H(r) == Runs[r].hist
O(r) == Runs[r].obs
Good(r, k) == \A j \in 1..k : O(r)[j].ok                          \* no exception up to and including action k
Evals == {p \in UNION {{<<r, k>> : k \in 1..Len(H(r))} : r \in 1..Len(Runs)} : H(p[1])[p[2]].op = "eval" /\ Good(p[1], p[2])}
Lvl(p) == H(p[1])[p[2]].I
Ob(p) == O(p[1])[p[2]]
Reg(p) == Region(Cf, Lvl(p))

IUnit == 15625           \* micro-kA per current level  (1/64 kA)
TUnit == 12500           \* time units (10 us) per time level  (1/8 s)
YFx(k) == CASE k = 1 -> 12500 [] k = 2 -> 50000 [] k = 3 -> 200000 [] k = 4 -> 800000      \* 0.125 * 4^(k-1) s

(* A current level that coincides with a threshold is decided by an exact float comparison in the implementation.     *)
(* The harness computes the configured threshold float by the documented formula and reports whether the device       *)
(* stores bit-identically that float (C.same).  If it stores a value that differs only by rounding (close but not      *)
(* identical) the at-threshold evaluation carries no information and is skipped; a device that stores a DIFFERENT      *)
(* value is not excused.                                                                                               *)
ThrName(I) == IF IsFuse(Cf) THEN (IF I = FX(Cf)[1] THEN "istart" ELSE IF I = FX(Cf)[Len(Cf.x)] THEN "istop" ELSE "-")
              ELSE IF UsesIs(Cf) /\ I = Cf.Is THEN "Is" ELSE IF UsesDT(Cf) /\ I = Cf.Ig THEN "Ig"
              ELSE IF UsesDT(Cf) /\ I = Cf.Igg THEN "Igg" ELSE "-"
Informative(I) == LET n == ThrName(I) IN
                  n = "-" \/ C.same[n] \/ ~Close(C.stored[n], I * IUnit, 2, 0)

Built == C.built
--------------------------------------------------------------------------------
(* clauses of the property                                                                                          *)
\* a valid configuration yields a device, and every call on it returns (one result row per evaluation)
C29_Reports == Valid(Cf) => /\ Built
                            /\ \A r \in 1..Len(Runs) : \A k \in 1..Len(H(r)) :
                                 O(r)[k].ok /\ (H(r)[k].op = "eval" => O(r)[k].rows = 1)
\* the device trips exactly when the current exceeds its pick-up / reaches its start value
C29_Trip == \A p \in Evals : Informative(Lvl(p)) => (Ob(p).trip <=> Trip(Cf, Lvl(p)))
\* definite-time stages, no trip, blown fuse: the reported time is known exactly
C29_TimeNone == \A p \in Evals : (Informative(Lvl(p)) /\ Reg(p) = "none") => Ob(p).t = PInf
C29_TimeGG == \A p \in Evals : (Informative(Lvl(p)) /\ Reg(p) = "gg") => Ob(p).t = TggE(Cf) * TUnit
C29_TimeG == \A p \in Evals : (Informative(Lvl(p)) /\ Reg(p) = "g") => Ob(p).t = TgE(Cf) * TUnit
C29_TimeBlown == \A p \in Evals : (Informative(Lvl(p)) /\ Reg(p) = "blown") => Ob(p).t = 0
\* ordering: for I1 < I2 whose order is derivable from the configuration, t(I2) <= t(I1), inf last; equal currents give
\* equal times.  Pairs are taken inside one history and between histories that consist of a single evaluation.
TLeq(a, b) == IF b = PInf THEN a # NaN ELSE IsNum(a) /\ IsNum(b) /\ a <= b + 1
Comparable(p, q) == p[1] = q[1] \/ (Len(H(p[1])) = 1 /\ Len(H(q[1])) = 1)
C29_Monotone == \A p \in Evals, q \in Evals :
                  (Comparable(p, q) /\ Informative(Lvl(p)) /\ Informative(Lvl(q))) =>
                     /\ OrderClaimed(Cf, Lvl(p), Lvl(q)) => TLeq(Ob(q).t, Ob(p).t)
                     /\ Lvl(p) = Lvl(q) => Ob(p).t = Ob(q).t
\* fuse: between two support points of monotone data the melting time stays between the two support values
C29_FuseBracket == IsFuse(Cf) => \A p \in Evals : Reg(p) = "curve" =>
                     LET x == FX(Cf) y == FY(Cf) t == Ob(p).t IN
                     \A j \in 1..Len(x) - 1 : (x[j] <= Lvl(p) /\ Lvl(p) <= x[j + 1]) =>
                        /\ IsNum(t)
                        /\ t <= YFx(y[j]) + 2 + YFx(y[j]) \div 1000000
                        /\ t >= YFx(y[j + 1]) - 2 - YFx(y[j + 1]) \div 1000000
\* the reported activation current is the device's switch current from the table of the chosen scenario
C29_Activation == \A p \in Evals : /\ Ob(p).val = Ob(p).fed
                                   /\ Ob(p).par = "i_ka"
                                   /\ Ob(p).swid = Cf.sw
                                   /\ Ob(p).ptype = (IF IsFuse(Cf) THEN "Fuse" ELSE "OCRelay")
\* life cycle: flag and switch follow the state machine of ProtectionDef; the other switch is never touched
C29_DeviceState == \A r \in 1..Len(Runs) : \A k \in 1..Len(H(r)) : Good(r, k) =>
                     LET post == Post(Cf, H(r), k) o == O(r)[k] IN
                     /\ o.closed = post.closed
                     /\ o.oclosed
                     /\ IF H(r)[k].op = "eval" THEN o.tripped = o.trip ELSE o.tripped = post.tripped

--------------------------------------------------------------------------------
(* binding diagnostics (a failure is reported as a divergence of the model, not as a violation of C29)              *)
\* the device stores the configured settings (micro-kA, 10 us; 0 = not used by this kind)
Expect == IF IsFuse(Cf) THEN [istart |-> FX(Cf)[1] * IUnit, istop |-> FX(Cf)[Len(Cf.x)] * IUnit]
          ELSE [Is |-> IF UsesIs(Cf) THEN Cf.Is * IUnit ELSE 0, Ig |-> IF UsesDT(Cf) THEN Cf.Ig * IUnit ELSE 0,
                Igg |-> IF UsesDT(Cf) THEN Cf.Igg * IUnit ELSE 0,
                Tgg |-> IF UsesDT(Cf) THEN TggE(Cf) * TUnit ELSE 0, Tg |-> IF UsesDT(Cf) THEN TgE(Cf) * TUnit ELSE 0,
                Tms |-> IF UsesIs(Cf) THEN TmsE(Cf) * TUnit ELSE 0, Tgrade |-> IF UsesIs(Cf) THEN TgradeE(Cf) * TUnit ELSE 0]
Bind_Settings == (Built /\ Valid(Cf)) => \A n \in DOMAIN Expect : Close(C.stored[n], Expect[n], 2, 1)
\* the harness wrote the current the model asked for: exactly at a threshold level, within half a level otherwise
Bind_Fed == \A p \in Evals : LET a == H(p[1])[p[2]] IN
              IF a.at \/ ~C.jitter THEN Close(Ob(p).fed, a.I * IUnit, 2, 1)
                 ELSE 2 * Abs(Ob(p).fed - a.I * IUnit) < IUnit
\* an invalid std type / curve_select is refused
Bind_Refused == ~Valid(Cf) => ~Built
\* the bit-identical-threshold escape of Informative is not what makes the clauses pass
Bind_ThresholdsExact == Built => \A n \in DOMAIN C.same : C.same[n]
\* a tripping stage reports a finite, non-negative time
Bind_Finite == \A p \in Evals : Ob(p).trip => IsNum(Ob(p).t) /\ Ob(p).t >= 0
\* inverse-time stage with integer exponent (very / long inverse: alpha = 1, extremely inverse: alpha = 2):
\*   t = tms * k / ((I/I_s)^alpha - 1) + t_grade = t_grade + tms * k * I_s^alpha / (I^alpha - I_s^alpha)   (ocrelay.py:221,235)
KU(cu) == CASE cu = "very_inverse" -> 168750 [] cu = "extremely_inverse" -> 1000000 [] cu = "long_inverse" -> 1500000 [] OTHER -> 0
Pw(cu, a) == IF cu = "extremely_inverse" THEN a * a ELSE a
Bind_InverseExact == (IsRelay(Cf) /\ ~C.jitter) => \A p \in Evals : (Reg(p) = "s" /\ KU(Cf.curve) > 0 /\ TmsE(Cf) * Pw(Cf.curve, Cf.Is) <= 1400) =>
                       LET num == TmsE(Cf) * KU(Cf.curve) * Pw(Cf.curve, Cf.Is)
                           den == Pw(Cf.curve, Lvl(p)) - Pw(Cf.curve, Cf.Is)
                       IN Close(Ob(p).t, TgradeE(Cf) * TUnit + num \div den, 3, 2)
=============================================================================
