INIT OInit
NEXT ONext
INVARIANT C13_Order
INVARIANT C13_TapInRange
INVARIANT C13_OnlyNotConvergedErrors
INVARIANT C13_TerminatesOrRaises
INVARIANT C13_ReturnConverged
INVARIANT C13_ReturnConvergedEarlierLevels
INVARIANT C13_ReturnFresh
INVARIANT DIV_TapTracking
INVARIANT DIV_ConvDecision
INVARIANT DIV_StepDecision
INVARIANT DIV_UnexpectedRaise
