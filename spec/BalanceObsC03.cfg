INIT OInit
NEXT ONext
INVARIANT C03_Conservation
INVARIANT C03_LossIsTerminalSum
INVARIANT C03_LossNonNegative
INVARIANT C03_DcLossless
