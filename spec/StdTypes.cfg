INIT Init
NEXT Next
CONSTANT MaxLen = 3
INVARIANT OnlyStoredData
PROPERTY RenameKeepsData
PROPERTY OtherNetUntouched
