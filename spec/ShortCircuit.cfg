INIT Init
NEXT Next
CONSTANTS
  Gens = {TRUE, FALSE}
  Sgens = {TRUE, FALSE}
  Rings = {TRUE}
  CaseVals = {"max", "min"}
  IpVals = {"off", "C", "B", "radial"}
  BranchVals = {TRUE, FALSE}
  LvTols = {10}
  InitFaults = {"3ph", "1ph"}
  With2ph = TRUE
  SnVals = {1, 10, 100}
  SubsetSizes = {}
  ExtraSubsets = {{0}, {3}, {4}, {1, 3}, {2, 4}}
  Labels = {"rot", "sparse"}
  LabelBuses = {{0, 1, 2, 3, 4}, {2, 4}}
INVARIANT TypeOK
INVARIANT PairWellFormed
INVARIANT ReqWellFormed
INVARIANT CFactorTable
INVARIANT ConservativeCS
INVARIANT OnlySupported
INVARIANT RowsAreFaultedBuses
INVARIANT LabelsWellFormed
