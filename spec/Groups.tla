---------------------------------- MODULE Groups ----------------------------------
(* C27, model level: histories of group / element operations and algebraic laws of the abstract set model. *)
EXTENDS GroupsDef
CONSTANT MaxLen
VARIABLES hist, s
Init == hist = <<>> /\ s = S0
Next == Len(hist) < MaxLen /\ \E a \in Actions : Enabled(s, a) /\ hist' = Append(hist, a) /\ s' = Step(s, a)
MembersExist == \A g \in G, t \in Types : Members(s, g, t) \subseteq s.elems[t]
ExistsIffRows == \A g \in G : s.exists[g] <=> \E t \in Types : RowExists(s, g, t)
OthersUntouched == [][\A a \in Actions : (hist' = Append(hist, a) /\ a.op \in {"create", "attach", "detach", "drop_group"})
                        => \A g \in G \ {a.g} : s'.mem[g] = s.mem[g] /\ s'.exists[g] = s.exists[g]]_<<hist, s>>
=============================================================================
