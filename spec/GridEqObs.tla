------------------------------ MODULE GridEqObs ------------------------------
(* C28, implementation level.  One case = one call of get_equivalent on the real code:                                  *)
(*   orig   : runpp(net, tolerance_mva=1e-9, calculate_voltage_angles=True) on template Tmesh7; vm / va per bus       *)
(*   call   : get_equivalent(net, eq, boundary_buses = cfg.bnd, internal_buses = cfg.seed, calculate_voltage_angles   *)
(*            = True) -> outcome "ok" (a network was returned and its power flow, same options, converged),            *)
(*            "eq_not_converged", "none" (None returned), "rejected" (the documented ValueError), "error" (any other     *)
(*            exception)                                                                                                *)
(*   eq     : per ORIGINAL bus b (index b + 1): present (a bus named "bus <b>" exists in the equivalent), vm, va there  *)
(*   groups : bus_lookups of the returned net (internal / boundary / external buses as the code formed them)            *)
(*   changed: value_diff of the digests of every input table of the ORIGINAL net before / after the call               *)
(* vm [µ p.u.], va [µ degree] fixed point (Fix.tla).  The groups the call has to form, the required outcome and the   *)
(* retained buses are computed here from cfg with GridEqDef.tla.                                                     *)
EXTENDS GridEqDef, Fix, Json, IOUtils
VARIABLE i
Cases == JsonDeserialize(IOEnv.OBS_FILE)
OInit == i \in 1..Len(Cases)
ONext == UNCHANGED i
C == Cases[i]
SetOf(s) == {s[k] : k \in 1..Len(s)}
Cfg == [bnd |-> SetOf(C.cfg.bnd), seed |-> SetOf(C.cfg.seed), eq |-> C.cfg.eq, slack |-> C.cfg.slack, gens |-> C.cfg.gens,
        spur |-> C.cfg.spur, ghost |-> C.cfg.ghost]
D == Derive(Cfg)

\* tolerances between two independent solves: 30 µ p.u. + 20 ppm, 300 µ degree + 20 ppm
AbsTol == 30
RelPpm == 20

Ran == C.orig.conv                                  \* "for a converged network"
Valid == Ran /\ D.expected = "equiv"                \* "and any valid boundary" with something to replace
Ok == Valid /\ C.outcome = "ok"

\* an equivalent is returned for every valid boundary (a non-converging equivalent is counted, not flagged)
C28_EquivalentReturned == Valid => C.outcome \in {"ok", "eq_not_converged"}
\* same voltages at the internal and boundary buses
C28_SameVoltages ==
  Ok => \A b \in D.retained : /\ C.eq.present[b + 1]
                              /\ Close(C.orig.vm[b + 1], C.eq.vm[b + 1], AbsTol, RelPpm)
                              /\ Close(C.orig.va[b + 1], C.eq.va[b + 1], 10 * AbsTol, RelPpm)
\* the original network is left unchanged, whatever the outcome
C28_OriginalUnchanged == Len(C.changed) = 0

\* ---- conformance of the group / outcome model (GridEqConf.cfg; divergence, never violation) -------------------------
Conf_Supply == Ran => {b \in Bus : ~IsNum(C.orig.vm[b + 1])} = D.g.unsup
Conf_Outcome == Ran => /\ (D.expected = "rejected" <=> C.outcome = "rejected")
                       /\ (D.expected = "none" <=> C.outcome = "none")
Conf_Groups == Ok => /\ SetOf(C.groups.int) = D.g.int /\ SetOf(C.groups.bnd) = D.g.bnd /\ SetOf(C.groups.ext) = D.g.ext
Conf_ExternalReplaced == Ok => \A b \in D.g.ext : ~C.eq.present[b + 1]

\* ---- tags (GridEqTags.cfg): feature classes for finding keys, evaluated by TLC on failing cases --------------------
Tag_ReiRegular == D.rei_regular
Tag_XwardCoupled == D.xward_coupled
Tag_ExtConnected == D.ext_connected
=============================================================================
