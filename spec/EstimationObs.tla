---------------------------- MODULE EstimationObs ----------------------------
(* C19, implementation level.  One case = one state of Estimation.tla instantiated on the real code:                *)
(*   s     the abstract structure [core, red, dup, ord, wv] (the spec derives the table, the requirement, the z layout)  *)
(*   wind  rated winding voltages of the transformer the harness built, per mille of the connected buses' vn_kv         *)
(*   pf    results of runpp(tolerance_mva=1e-10) on the template; the measurement values are read from them          *)
(*   est   estimate(net, init="flat", tolerance=1e-8) on the table Rows(Table(s)) created row by row                 *)
(*   ref_ord / ref_red   the estimate of the same structure written in creation order / without redundancy          *)
(*   bad   remove_bad_data(net) and chi2_analysis(net) on the exact set                                              *)
(*   z     pp_meas_indices and merged weights of the estimator object (conformance with the modelled aggregation)    *)
(*   alts  further algorithms on the same table (thorough tier)                                                      *)
(* Fixed point: micro-units (Fix.tla).  Tolerance between estimate and power flow / between two estimates:           *)
(* 30 micro-units absolute + 20 ppm (voltage angles in degree: 300), i.e. 3e-5 p.u. / MW / Mvar / kA.                *)
EXTENDS EstimationDef, Fix, Json, IOUtils
VARIABLE i
Cases == JsonDeserialize(IOEnv.OBS_FILE)
OInit == i \in 1..Len(Cases)
ONext == UNCHANGED i
C == Cases[i]
S == C.s
AbsTol == 30
RelPpm == 20
M == Meas(S)
\* where the property is required: converged power flow, observable set (the spec's predicate, not the harness)
Req == C.pf.ok /\ Observable(M)

SameBus(a, b) == CloseSeq(a.vm, b.vm, AbsTol, RelPpm) /\ CloseSeq(a.va, b.va, 10 * AbsTol, RelPpm)
Flows == <<"p_f", "q_f", "p_t", "q_t", "i_f", "i_t">>
SameLines(a, b) == \A k \in DOMAIN Flows : CloseSeq(a.line[Flows[k]], b.line[Flows[k]], AbsTol, RelPpm)
SameTrafos(a, b) == \A k \in DOMAIN Flows : CloseSeq(a.trafo[Flows[k]], b.trafo[Flows[k]], AbsTol, RelPpm)
SameAll(a, b) == SameBus(a, b) /\ SameLines(a, b) /\ SameTrafos(a, b)

\* ---- the property, clause by clause ---------------------------------------------------------------------------------
C19_Success == Req => C.est.ok
C19_BusVoltages == (Req /\ C.est.ok) => SameBus(C.est, C.pf)
C19_LineFlows == (Req /\ C.est.ok) => SameLines(C.est, C.pf)
C19_TrafoFlows == (Req /\ C.est.ok) => SameTrafos(C.est, C.pf)
\* pairs of runs defined by the model's actions Reorder / AddRedundant, Duplicate
C19_OrderInvariant == (Req /\ S.ord # "created" /\ C.ref_ord.has /\ C.est.ok /\ C.ref_ord.ok) => SameAll(C.est, C.ref_ord)
C19_RedundancyInvariant == (Req /\ (S.red # "none" \/ S.dup # "none") /\ C.ref_red.has /\ C.est.ok /\ C.ref_red.ok)
                              => SameAll(C.est, C.ref_red)
\* bad data on the exact set.  rn: 1 = remove_bad_data returned True, 0 = returned False, 2 = raised; removed = rows it
\* deleted from net.measurement;  chi2: 1 = chi2_analysis reports bad data, 0 = none, 2 = no result, 3 = raised
C19_NoBadDataRemoved == (Req /\ C.bad.ran) => C.bad.removed = 0
C19_NoBadDataChi2 == (Req /\ C.bad.ran) => C.bad.chi2 # 1
\* where the largest normalised residual test is defined (no critical measurement) it must pass
C19_RnTestPasses == (Req /\ C.bad.ran /\ NoCritical(M)) => C.bad.rn = 1
\* (structural keys of findings use two classes computed by the model, out.nocritical and out.df: the set has a critical
\* measurement / the chi^2 test has no degree of freedom)
\* Other algorithms on the same table (thorough tier).  An exact set that is observable still has further exact roots
\* (e.g. the low-voltage root behind a flow pair measured at the far end of a branch: it fits every measurement); which
\* root an iteration reaches from the flat start is a property of the iteration, not of the set.  "irwls" (estimator
\* wls) and "wls_with_zero_constraint" run the Gauss-Newton iteration of "wls" and are REQUIRED to agree with the power
\* flow when they accept the set and report success; the LP estimator iterates differently: its agreement is recorded as
\* conformance (C19_Conf_LP), refusals and non-convergence of all three are counted by the harness.
GaussNewton == {"irwls", "wls_with_zero_constraint"}
AltOK(a) == (Req /\ a.acc /\ a.ok) => SameBus(a, C.pf)
C19_AltAlgorithms == \A k \in DOMAIN C.alts : C.alts[k].alg \in GaussNewton => AltOK(C.alts[k])

\* ---- conformance of the modelled aggregation (EstimationConfT3/T4.cfg; reported as divergence, never as violation) --------
C19_Conf_Winding == C.wind = Wind(S.wv)
C19_Conf_TableCreated == Bind(Table(S), LAMBDA tab : C.rows = Rows(tab))
C19_Conf_ZLayout == C.z.avail => Bind(Table(S), LAMBDA tab : C.z.idx = ZIdx(tab))
C19_Conf_ZWeights == C.z.avail => Bind(Table(S), LAMBDA tab : C.z.w4 = ZW4(tab))
C19_Conf_LP == \A k \in DOMAIN C.alts : C.alts[k].alg \notin GaussNewton => AltOK(C.alts[k])
C19_Conf_CountCheck == Bind(Table(S), LAMBDA tab : (~CountOK(tab)) <=> (C.est.exc = "UserWarning"))
=============================================================================
