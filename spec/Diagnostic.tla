------------------------------- MODULE Diagnostic -------------------------------
(* C30, model level: every history of at most MaxLen actions that ends in a diagnose call is one dumped state. *)
EXTENDS DiagnosticDef
CONSTANT MaxLen
VARIABLES hist, s
Init == hist = <<>> /\ s = S0
Next == /\ Len(hist) < MaxLen
        /\ \E a \in Actions : Enabled(s, a) /\ hist' = Append(hist, a) /\ s' = Step(s, a)
\* model-level theorems
Consistent == s = Run(S0, hist, 1)
Stateless == \* a diagnose call's observable does not depend on earlier diagnose calls or on the other instance
  \A k \in 1..Len(hist) : hist[k].op = "diag" =>
     LET pre == SubSeq(hist, 1, k - 1)
         mine == SelectSeq(pre, LAMBDA a : a.i = hist[k].i /\ a.op # "diag")
     IN Enabled(Run(S0, mine, 1), hist[k]) /\ Calls(Run(S0, pre, 1), hist[k]) = Calls(Run(S0, mine, 1), hist[k])
=============================================================================
