INIT Init
NEXT Next
CONSTANTS
  Kinds = {"DTOC", "IDMT", "IDTOC", "FUSE"}
  ILevels = {8, 16, 24}
  TLevels = {1, 3}
  DLevels = {2}
  MLevels = {1}
  GLevels = {2, 4}
  Curves = {"standard_inverse", "very_inverse", "extremely_inverse", "long_inverse"}
  PRoutes = {"manual", "auto"}
  TRoutes = {"frame", "list"}
  Envs = {0, 11}
  FRoutes = {"direct", "std"}
  StdSets = {{"a"}, {"m", "t"}, {"t"}}
  Sels = {0, 1}
  Places = {0, 10}
  NPoints = {3}
  XLevels = {8, 16, 24}
  YLevels = {1, 2, 3}
  Probe = "all"
  Depth = 1
INVARIANT Consistent
INVARIANT TripIffPickup
INVARIANT GradedIsMonotone
INVARIANT BoundariesProbed
INVARIANT RepsCoverStages
INVARIANT DecoyFlips
INVARIANT Stateless
INVARIANT SwitchFollows
