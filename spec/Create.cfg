INIT Init
NEXT Next
INVARIANT EveryPairWithEveryError
