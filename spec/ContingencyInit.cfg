INIT Init
NEXT Stop
CONSTANT NProcs = 2
