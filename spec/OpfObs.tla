--------------------------------- MODULE OpfObs ---------------------------------
(* C16 / C17, implementation level.  One case = one configuration of Opf.tla instantiated as a pandapower net         *)
(* (from Inst(cfg), see OpfInst.tla) and run through runopp (cfg.ac; init = Inst(cfg).init) or rundcopp, with the      *)
(* documented solver options of cfg.opts ("tight": OPF_VIOLATION = PDIPM_GRADTOL = PDIPM_COMPTOL = 1e-8,                 *)
(* PDIPM_COSTTOL = 1e-9; with 1e-9 PIPS gives up on most cases in which the slack power is free of charge).             *)
(* Observations (fixed point, micro-units; NaN sentinel where a DC result has no value):                               *)
(*   o.conv, o.err        OPF_converged / exception class                                                              *)
(*   o.vm, o.va           res_bus.vm_pu, va_degree of buses 0..3                                                       *)
(*   o.p[e], o.q[e]       the element's own result power, USER-SIDE convention of OpfDef (e in Et \ {dcline})           *)
(*   o.basep, o.baseq     the fixed base load;   o.genvm  res_gen.vm_pu                                                *)
(*   o.dc                 one record per row of res_dcline: pf, pt, qf, qt = p_from_mw, p_to_mw, q_from_mvar, q_to_mvar  *)
(*   o.loading            loading_percent of <<T, A, B, C>> (C: 0 when absent)                                         *)
(*   o.cost               net.res_cost                                                                                *)
(*   o.pf                 a power flow (runpp / rundcpp, tolerance_mva 1e-9) on a copy of the net with the OPF dispatch *)
(*                        written into the set point columns (dcline.p_mw: the power of the sending end with the sign  *)
(*                        of the direction): conv, vm, va, egp, egq, genq, loading, dc (pf, pt, qf, qt per dcline)       *)
(*   rb                   limits / cost rows read back from the element tables of the built net (harness self-check)   *)
(* The required values -- limits, set points, the user's cost, the grid optimum -- are computed here from cfg alone.    *)
EXTENDS OpfDef, Json, IOUtils
VARIABLE i
Cases == JsonDeserialize(IOEnv.OBS_FILE)
OInit == i \in 1..Len(Cases)
ONext == UNCHANGED i
C == Cases[i]
Cfg == C.cfg
O == C.o

(* Tolerances.  PIPS stops when  max(|g|_inf, max h) / (1 + max(|x|_inf, |z|_inf)) < PDIPM_FEASTOL (= OPF_VIOLATION,  *)
(* default 5e-6; pypower/pips.py:331 feascond).  With baseMVA = net.sn_mva = 1 powers in p.u. are MW numbers; x holds      *)
(* powers up to 10, and z the slacks of the inequality constraints, the largest being those of the branch flow limits,  *)
(* which are stated on SQUARED MVA: up to Smax^2 = 400.  A converged result may therefore miss any single constraint    *)
(* (a bound on p, q, vm, a nodal balance) by 5e-6*401 = 2e-3 (MW, Mvar, p.u.) with default options and by 4e-6 with the   *)
(* tightened ones -- that is "the OPF tolerance" of the property.  TolLim adds a margin resp. the fixed-point resolution. *)
(* With sn_mva = 10 the same relative criterion is met in p.u. of 10 MVA: x <= 1.1 (voltages; angles of a phase shifted  *)
(* side up to 2.7 rad), z <= 4, i.e. 5e-6*5*10 MVA = 2.5e-4 MW -- inside the bound derived for sn_mva = 1.                 *)
(* Flow limits: S^2 - Smax^2 <= 2e-3 with Smax >= 4 MVA is a loading excess below 0.007 %.                                 *)
(* DC OPF: the flow limits are linear (|z| <= 2*20), 5e-6*41 = 2e-4; the LP / QP is in fact solved to ~1e-8.              *)
(* The sharp check is the one with tightened options (smallest effect looked for: 1e-3 MW resp. 1 EUR).                   *)
Tight == Cfg.opts = "tight"
TolLim == IF Tight THEN 10 ELSE IF Cfg.ac THEN 2500 ELSE 300      \* micro MW / Mvar / p.u.
TolLoad == IF Tight THEN 100 ELSE 10000            \* micro percent
TolSet == 2                                        \* copied set points: representation error only
\* power flow replay: the nodal residuals of the OPF solution (<= 2e-3 MW per bus and equation, 4 buses) reappear at the
\* slack and in the PV reactive powers; a flow difference of 1e-2 MVA is 0.05 % of the 20 MVA rating.
\* tight options: 4 x 4e-6 = 16 micro, below the Fix default for two independent solves (30 micro + 20 ppm)
TolPf == IF Tight THEN 30 ELSE IF Cfg.ac THEN 10000 ELSE 1000
TolPfLoad == IF Tight THEN 300 ELSE IF Cfg.ac THEN 100000 ELSE 10000
\* res_cost against the user's function at the SAME result powers: identical polynomials, so only rounding -- except
\* pwl rows, whose cost is an auxiliary variable y of the solver that is only driven onto the segment lines as far as the
\* termination criteria demand.  Measured gap y - Pwl(p) over the thorough tier: <= 1.3e-7 EUR with the tightened
\* options, < 2e-3 in 17 600 DC cases, up to 4.3e-3 EUR in 1 750 AC cases with default options (e.g. ext_grid pwl2 +
\* storage lin: res_cost 5.158606, functions at the result 5.154298; 1.2e-7 apart with tightened options).  The default
\* tolerances are an order of magnitude above that; the smallest effect looked for is 1 EUR (integer coefficients).
TolCost == IF Tight THEN 100 ELSE IF Cfg.ac THEN 50000 ELSE 10000      \* micro EUR
\* optimality gap of the interior point solution (observed <= 1e-6 relative); grid costs differ by >= 1 EUR
TolOpt == 10000

Within(x, lo, hi, tol) == IsNum(x) /\ lo - tol <= x /\ x <= hi + tol
El(e) == ElOf(Cfg, e)
VMin == VBand(Cfg.vband)[1]
VMax == VBand(Cfg.vband)[2]
Row(e) == CostRowOf(Cfg, e)
Has(e) == El(e).present
N == NDcl(Cfg)
\* the power that a cost row of kind e refers to: the dcline row belongs to the last line
P(e) == IF e = "dcline" THEN (IF N = 0 THEN 0 ELSE O.dc[N].pf) ELSE O.p[e]
Q(e) == IF e = "dcline" THEN (IF N = 0 THEN 0 ELSE O.dc[N].qf) ELSE O.q[e]
ObservedLines == Len(O.dc) = N

C16_VoltageLimits == (O.conv /\ Cfg.ac) => \A k \in 1..4 : Within(O.vm[k], VMin, VMax, TolLim)
C16_ActiveLimits == O.conv => \A e \in Et \ {"dcline"} : (Has(e) /\ PFree(Cfg, e)) => Within(O.p[e], El(e).pmin * M, El(e).pmax * M, TolLim)
\* q limits are declared for every ppc generator: ext_grid, gen (also a non-controllable one, build_gen.py:224) and the
\* controllable sgen / load / storage
C16_ReactiveLimits == (O.conv /\ Cfg.ac) => \A e \in Et \ {"dcline"} : IsVar(Cfg, e) => Within(O.q[e], El(e).qmin * M, El(e).qmax * M, TolLim)
C16_FixedSetpoints ==
  O.conv =>
    /\ \A e \in PQ : (~Cfg.ctrl[e] /\ InService(Cfg, e)) => /\ Within(O.p[e], El(e).pset * M, El(e).pset * M, TolSet)
                                                            /\ (Cfg.ac => Within(O.q[e], El(e).qset * M, El(e).qset * M, TolSet))
    \* an element that is out of service exchanges no power
    /\ \A e \in PQ : ~InService(Cfg, e) => /\ Within(O.p[e], 0, 0, TolSet)
                                           /\ (Cfg.ac => Within(O.q[e], 0, 0, TolSet))
    /\ Within(O.basep, BaseP * M, BaseP * M, TolSet) /\ (Cfg.ac => Within(O.baseq, BaseQ * M, BaseQ * M, TolSet))
    \* a non-controllable gen keeps p_mw and vm_pu (build_gen.py:183-201), a non-controllable ext_grid its vm_pu
    \* (build_gen.py:125-137); the reference angle is the ext_grid's va_degree = 0
    /\ (~Cfg.ctrl["gen"] => /\ Within(O.p["gen"], El("gen").pset * M, El("gen").pset * M, TolLim)
                            /\ (Cfg.ac => Within(O.genvm, El("gen").vset, El("gen").vset, TolLim)))
    /\ ((Cfg.ac /\ ~Cfg.egc) => Within(O.vm[1], El("ext_grid").vset, El("ext_grid").vset, TolLim))
    /\ Within(O.va[1], 0, 0, TolSet)
BranchSeq == <<"T", "A", "B", "C">>
C16_BranchLoading == O.conv => \A k \in 1..4 : (BranchSeq[k] # "C" \/ Cfg.mesh) => Within(O.loading[k], 0, MaxLoading(BranchSeq[k], Cfg.rate) * M, TolLoad)
\* every dcline: p_from within [0, max_p_mw] in its direction ([-max_p_mw, 0] for a line operated in reverse), the power of
\* the other end within max_p_mw as well, q of both ends within the declared limits
C16_DclineLimits ==
  O.conv =>
     /\ ObservedLines
     /\ \A k \in 1..N : LET l == LineOf(Cfg, k) IN
           /\ Within(O.dc[k].pf, DclPLim(Cfg, k)[1] * M, DclPLim(Cfg, k)[2] * M, TolLim)
           /\ Within(O.dc[k].pt, -l.pmax * M, l.pmax * M, TolLim)
           /\ (Cfg.ac => /\ Within(O.dc[k].qf, l.qmin * M, l.qmax * M, TolLim)
                         /\ Within(O.dc[k].qt, l.qmin * M, l.qmax * M, TolLim))
\* reactive power of the voltage controlling elements at the generator's bus (the gen and the dcline ends there,
\* res_dcline.q_* = -q of the end's generator): a power flow determines their sum, not the shares
GenBusQ(genq, dc) == genq - SumTo([k \in 1..N |-> (IF DclFrom(k) = BusOf("gen") THEN dc[k].qf ELSE 0)
                                                  + (IF DclTo(k) = BusOf("gen") THEN dc[k].qt ELSE 0)], N)
C16_ValidPowerFlow ==
  O.conv =>
     /\ O.pf.conv
     /\ CloseSeq(O.va, O.pf.va, 10 * TolPf, 20)
     /\ Close(O.p["ext_grid"], O.pf.egp, TolPf, 20)
     /\ CloseSeq(O.loading, O.pf.loading, TolPfLoad, 20)
     /\ ObservedLines /\ Len(O.pf.dc) = N
     /\ \A k \in 1..N : Close(O.dc[k].pf, O.pf.dc[k].pf, TolPf, 20) /\ Close(O.dc[k].pt, O.pf.dc[k].pt, TolPf, 20)
     /\ (Cfg.ac => /\ CloseSeq(O.vm, O.pf.vm, TolPf, 20)
                   /\ Close(O.q["ext_grid"], O.pf.egq, TolPf, 20)
                   /\ Close(GenBusQ(O.q["gen"], O.dc), GenBusQ(O.pf.genq, O.pf.dc), TolPf, 20))

-----------------------------------------------------------------------------
(* C17.  Cost of the reported operating point by the user's functions, in micro EUR, from powers in micro MW.          *)
(* x^2 / 10^6 without leaving 32 bits: x = a*1000 + b, 0 <= b < 1000:  a^2 + 2ab/1000 + b^2/10^6 (error < 2 micro);      *)
(* |x| <= 11 MW gives a^2 <= 1.3e8; a row is bounded by RowAbsBound*10^6 and the sum by 10^9 (Opf!CostInRange).          *)
SqMicro(x) == LET a == x \div 1000
                  b == x % 1000
              IN  a * a + (2 * a * b + (b * b) \div 1000) \div 1000
RowMicro(row, p, q) ==
  IF row.kind = "poly" THEN row.c2 * SqMicro(p) + row.c1 * p + row.c0 * M
                            + (IF row.q2 # 0 \/ row.q1 # 0 \/ row.q0 # 0 THEN row.q2 * SqMicro(q) + row.q1 * q + row.q0 * M ELSE 0)
  ELSE IF row.kind = "pwl" THEN PwlAt(row.pts, p, M) ELSE 0
RowOf(e) == RowMicro(Row(e), P(e), Q(e))
UserCostMicro == RowOf("ext_grid") + RowOf("gen") + RowOf("sgen") + RowOf("load") + RowOf("storage") + RowOf("dcline")
PowersAreNumbers == \A e \in Costed(Cfg) : IsNum(P(e)) /\ ((Row(e).q2 # 0 \/ Row(e).q1 # 0 \/ Row(e).q0 # 0) => IsNum(Q(e)))
C17_CostIsUserFunction == O.conv => (PowersAreNumbers /\ Close(O.cost, UserCostMicro, TolCost, 20))
\* independent optimum, decided for radial lossless DC cases only (OpfDef: GridApplicable): exact for linear / convex pwl
\* costs, an upper bound for convex quadratic ones
\* (the cost of the reported DISPATCH by the user's functions is not compared separately: where C17_CostIsUserFunction
\* holds it equals res_cost, where it fails the case is reported by that clause)
C17_ReportedCostIsOptimum ==
  (O.conv /\ GridApplicable(Cfg)) =>
     LET opt == GridOpt(Cfg)
     IN  opt # NoOpt => IF GridExact(Cfg) THEN Close(O.cost, opt * M, TolOpt, 100)
                        ELSE (IsNum(O.cost) /\ O.cost <= opt * M + TolOpt + Abs(opt) * 100)

-----------------------------------------------------------------------------
(* Conformance of the TRANSCRIBED code with the implementation (I -> S).  A failure is a divergence -- the transcription  *)
(* in OpfDef (CodeRowP / CodeRowQ, dcline constraint) no longer describes the tree under test, e.g. after a proposed fix   *)
(* was applied without setting the TreeHas... flag -- and never a violation of C16 / C17.                                 *)
CodeRowMicro(row, e, p, q) ==
  LET s == IF Inverted(e) THEN -1 ELSE 1
      se == IF TreeHasC17_1 THEN 1 ELSE s
      sq == IF e \in {"load", "storage"} THEN -1 ELSE 1
      seq == IF TreeHasC17_1 THEN 1 ELSE sq
  IN  IF row.kind = "poly"
      THEN (IF AnyPwl(Cfg) THEN row.c1 * p + (IF TreeHasC17_2 THEN row.c0 * M ELSE 0)
            ELSE row.c2 * se * SqMicro(p) + row.c1 * p + row.c0 * se * M)
           + (IF row.q2 # 0 \/ row.q1 # 0 \/ row.q0 # 0 THEN row.q2 * seq * SqMicro(q) + row.q1 * q + row.q0 * seq * M ELSE 0)
      \* pwl rows: the transcribed function equals the user's on every generated row (Opf!PwlTranscriptionAgrees)
      ELSE IF row.kind = "pwl" THEN PwlAt(row.pts, p, M) ELSE 0
\* (the row of a ghost is dropped by the code: make_objective.py:42-58)
CodeOf(e) == IF e = Cfg.ghost THEN 0 ELSE CodeRowMicro(Row(e), e, P(e), Q(e))
CodeCostMicro == CodeOf("ext_grid") + CodeOf("gen") + CodeOf("sgen") + CodeOf("load") + CodeOf("storage") + CodeOf("dcline")
Conf_CodeObjective == (O.conv /\ PowersAreNumbers) => Close(O.cost, CodeCostMicro, TolCost, 20)
\* dcline constraint of the OPF (optimal_powerflow.py:105-129), cross-multiplied by 100 + loss_percent resp. 100:
\*   unchanged tree: (100 + lp) * p_to = -100 * (p_from - loss)        with C16_1: 100 * p_to = -((100 - lp) * p_from - 100 * loss)
\* (the same relation whatever the direction of the line, see OpfDef: dcline loss laws)
Conf_DclineLaw ==
  O.conv => /\ ObservedLines
            /\ \A k \in 1..N :
                 LET lp == LineOf(Cfg, k).loss_percent
                     loss == LineOf(Cfg, k).loss_kw * 1000
                     pf == O.dc[k].pf
                     pt == O.dc[k].pt
                 IN  IsNum(pf) /\ IsNum(pt) /\
                     IF TreeHasC16_1 THEN Abs(100 * pt + (100 - lp) * pf - 100 * loss) <= 100 * TolLim
                     ELSE Abs((100 + lp) * pt + 100 * (pf - loss)) <= (100 + lp) * TolLim

-----------------------------------------------------------------------------
(* Harness self-check (a failure is a machinery error, not a finding): the element tables of the built net carry       *)
(* exactly the data of Inst(cfg).                                                                                       *)
RbEl(e) == <<El(e).pmin, El(e).pmax, El(e).qmin, El(e).qmax, IF El(e).ctrl THEN 1 ELSE 0, IF El(e).ins THEN 1 ELSE 0>>
RbLine(k) == LET l == LineOf(Cfg, k) IN <<l.from, l.to, l.pset, l.pmax, l.qmin, l.qmax, l.loss_percent, l.loss_kw, l.vmf, l.vmt>>
RbCost(e) == LET r == Row(e) IN [kind |-> r.kind, co |-> <<r.c2, r.c1, r.c0, r.q2, r.q1, r.q0>>, pts |-> r.pts]
\* the order of the rows in net.poly_cost / net.pwl_cost, and the dcline row's `element`
RECURSIVE OrderOf(_, _)
OrderOf(seq, kind) == IF seq = <<>> THEN <<>> ELSE (IF Row(Head(seq)).kind = kind THEN <<Head(seq)>> ELSE <<>>) \o OrderOf(Tail(seq), kind)
Harness_Instantiated ==
  /\ \A e \in Et \ {"dcline"} : C.rb.el[e] = RbEl(e)
  /\ \A e \in Et : /\ C.rb.cost[e].kind = RbCost(e).kind /\ C.rb.cost[e].co = RbCost(e).co
                   /\ Len(C.rb.cost[e].pts) = Len(RbCost(e).pts) /\ \A k \in 1..Len(RbCost(e).pts) : C.rb.cost[e].pts[k] = RbCost(e).pts[k]
  /\ Len(C.rb.lines) = N /\ \A k \in 1..N : C.rb.lines[k] = RbLine(k)
  /\ C.rb.order_poly = OrderOf(CostOrder(Cfg), "poly") /\ C.rb.order_pwl = OrderOf(CostOrder(Cfg), "pwl")
  /\ (Row("dcline").kind # "none" => C.rb.dcl_cost_row = N - 1)
  /\ C.rb.vband = <<VMin, VMax>>
  /\ C.rb.maxload = <<MaxLoading("T", Cfg.rate), MaxLoading("A", Cfg.rate), MaxLoading("B", Cfg.rate), IF Cfg.mesh THEN MaxLoading("C", Cfg.rate) ELSE 0>>
  /\ C.rb.shift = ShiftDeg(Cfg.shift) /\ C.rb.sn = Cfg.sn
=============================================================================
