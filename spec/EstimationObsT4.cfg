INIT OInit
NEXT ONext
CONSTANT Tpl = "T4"
INVARIANT C19_Success
INVARIANT C19_BusVoltages
INVARIANT C19_LineFlows
INVARIANT C19_TrafoFlows
INVARIANT C19_OrderInvariant
INVARIANT C19_RedundancyInvariant
INVARIANT C19_NoBadDataRemoved
INVARIANT C19_NoBadDataChi2
INVARIANT C19_RnTestPasses
INVARIANT C19_AltAlgorithms
