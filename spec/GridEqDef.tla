------------------------------ MODULE GridEqDef ------------------------------
(* C28 — grid equivalents (get_equivalent).  Shared definitions: template network, the abstract configuration     *)
(* (what the caller passes: boundary buses, internal seed buses, equivalent type; what the network contains: slack  *)
(* location, PV generators, spur in service), the bus-group decision function of get_equivalent transcribed from     *)
(* the code, the REQUIRED outcome of a call, and structural feature classes of the three equivalent constructions.  *)
(*                                                                                                              *)
(* Template Tmesh7 (harness/checks/c28.py builds exactly this wiring, all buses 110 kV, bus names "bus <i>"):        *)
(*   ring A 0-1 1-2 0-2     ring B 3-4 4-5 3-5     tie lines 1-3 2-4     spur 2-6                                  *)
(*   loads at 1..6, sgen at 3, PV gens at 1 and 4 (if gens), ext_grid at bus `slack` (0 or 5)                        *)
EXTENDS Integers, Sequences, FiniteSets, TLC

Bus == 0..6
Spur == <<2, 6>>
Lines == {<<0, 1>>, <<1, 2>>, <<0, 2>>, <<3, 4>>, <<4, 5>>, <<3, 5>>, <<1, 3>>, <<2, 4>>, Spur}
LoadBuses == {1, 2, 3, 4, 5, 6}
SgenBuses == {3}
GenBuses(c) == IF c.gens THEN {1, 4} ELSE {}

\* configuration c = [bnd : SUBSET Bus, seed : SUBSET Bus, eq : "ward"|"xward"|"rei", slack : 0|5, gens : BOOLEAN, spur : BOOLEAN,
\*                    ghost : BOOLEAN (out-of-service PV units at the gen buses; only without gens)]
\* the property quantifies over "any valid boundary": non-empty boundary, internal seeds outside the boundary
WellFormed(c) == c.bnd # {} /\ c.seed # {} /\ c.bnd \cap c.seed = {} /\ (c.ghost => ~c.gens)

RECURSIVE Reach(_, _)
Reach(S, E) == LET N == S \cup {e[2] : e \in {e \in E : e[1] \in S}} \cup {e[1] : e \in {e \in E : e[2] \in S}}
               IN IF N = S THEN S ELSE Reach(N, E)
Within(E, S) == {e \in E : e[1] \in S /\ e[2] \in S}
Connected(S, E) == S = {} \/ Reach({CHOOSE x \in S : TRUE}, Within(E, S)) = S

LiveLines(c) == IF c.spur THEN Lines ELSE Lines \ {Spur}
\* buses without voltage result in the given net (res_bus.vm_pu is NaN): not connected to the slack
Unsupplied(c) == Bus \ Reach({c.slack}, LiveLines(c))

-----------------------------------------------------------------------------
(* get_equivalent.py:408-512 _determine_bus_groups                                                              *)
Groups(c) ==
  LET unsup == Unsupplied(c)                                                       \* :441
      E == LiveLines(c)
      \* :455-466 buses connected to boundary buses by bus-bus switches: none in the template
      bndIncl == c.bnd
      \* :470-483 connected_components(create_nxgraph(net), notravbuses = boundary) (graph_searches.py:47-75: components of
      \* the graph without the boundary buses, boundary buses only as leaves); every component that holds an internal
      \* seed is internal; boundary leaves are taken out again (:483)
      inner == Within(E, Bus \ bndIncl)
      int == UNION {Reach({s}, inner) : s \in c.seed}
      ext0 == ((Bus \ unsup) \ int) \ bndIncl                                      \* :486-487
      \* :489-503 if neither the internal area nor the boundary holds a slack, external slack buses become boundary buses
      move == int # {} /\ (int \cup bndIncl) \cap {c.slack} = {}
      bnd1 == IF move THEN bndIncl \cup ({c.slack} \cap ext0) ELSE bndIncl
      ext1 == IF move THEN ext0 \ {c.slack} ELSE ext0
  IN [int |-> int, bnd |-> bnd1, ext |-> ext1, unsup |-> unsup, moved |-> move /\ c.slack \in ext0]

\* REQUIRED outcome of get_equivalent(net, eq, bnd, seed):
\*   "rejected" ValueError, documented: an unsupplied boundary bus (:442-450)
\*   "none"     None is returned: there is nothing external to replace (:121-123)
\*   "equiv"    an equivalent network that keeps internal and boundary buses and reproduces their voltages
Expected(c, g) == IF c.bnd \cap g.unsup # {} THEN "rejected" ELSE IF g.ext = {} THEN "none" ELSE "equiv"
\* buses the equivalent has to keep with their voltages
Retained(g) == (g.int \cup g.bnd) \ g.unsup

-----------------------------------------------------------------------------
(* Feature classes of the constructions (used to classify configurations and to key findings)                    *)

\* REI (rei_generation.py:123-250 _create_net_zpbn with the defaults load_separate=False, sgen_separate=True,
\* gen_separate=True): the injections of the external buses are moved to REI stars (ground node g, total node t), one
\* star per GROUP: all external loads together, each external bus with sgens, each external bus with gens.  The ground
\* node of a star is connected to the external buses of its group (support) with Y_k and to its total node with
\* -sum(Y_k) when the group sits on ONE bus (auxiliary.py:233-254: separate groups always, the integrated load group
\* when a single external bus carries load), i.e. it has a ZERO diagonal.  Two such ground nodes on the same external
\* bus give two proportional rows in the block Y_ee that _calculate_equivalent_Ybus (rei_generation.py:84-99)
\* inverts: the elimination is singular.
ReiGroups(c, g) ==
  LET L == g.ext \cap LoadBuses IN
  (IF L = {} THEN {} ELSE {[kind |-> "load", supp |-> L]})
  \cup {[kind |-> "sgen", supp |-> {b}] : b \in g.ext \cap SgenBuses}
  \cup {[kind |-> "gen", supp |-> {b}] : b \in g.ext \cap GenBuses(c)}
ReiRegular(c, g) ==
  LET G == ReiGroups(c, g) IN
  \A b \in g.ext : Cardinality({x \in G : x.supp = {b}}) <= 1

\* XWARD (rei_generation.py:77-81): external PV buses are grounded (diagonal 1e8) before the external area is eliminated,
\* so no coupling between retained buses is carried THROUGH an external PV bus.  The retained part stays coupled
\* only if it is connected using retained buses and external non-PV buses.
XwardCoupled(c, g) ==
  LET keep == Retained(g)
      free == g.ext \ GenBuses(c)
  IN keep \subseteq Reach({CHOOSE k \in keep : TRUE}, Within(LiveLines(c), keep \cup free))

Derive(c) == LET g == Groups(c)
             IN [g |-> g, expected |-> Expected(c, g), retained |-> Retained(g),
                 ext_connected |-> Connected(g.ext, LiveLines(c)),
                 rei_regular |-> (g.ext = {} \/ ReiRegular(c, g)),
                 xward_coupled |-> (Retained(g) = {} \/ XwardCoupled(c, g))]
=============================================================================
