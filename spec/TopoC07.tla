------------------------------- MODULE TopoC07 -------------------------------
(* C07, model level: TLC enumerates every switching / in_service configuration of template T4 (minus the  *)
(* pinned flags of this run) and checks that the power-flow route and the topology route agree.  The       *)
(* dumped states (f, out) are the implementation tests replayed by harness/checks/c07.py.                  *)
EXTENDS Topology, FiniteSetsExt
CONSTANTS PinTrue, PinFalse, BallK
VARIABLES f, out

Free == (Flags \ PinTrue) \ PinFalse
Configs == {[x \in Flags |-> IF x \in PinTrue THEN TRUE ELSE IF x \in PinFalse THEN FALSE ELSE h[x]] :
              h \in [Free -> BOOLEAN]}
\* quick tier: every configuration that differs from the base point (everything in service / closed, no switch impedance)
\* in at most BallK flags - all interactions of up to BallK deviations; BallK = 0 selects the pinned sub-cube instead
Base == [x \in Flags |-> x # "z0"]
Ball == {[x \in Flags |-> IF x \in S THEN ~Base[x] ELSE Base[x]] : S \in UNION {kSubset(k, Flags) : k \in 0..BallK}}
Derive(g) == [is |-> BusIS(g), sup |-> SuppliedPF(g), unsup |-> UnsuppliedTopo(g)]

Init == f \in (IF BallK = 0 THEN Configs ELSE Ball) /\ out = Derive(f)
Next == UNCHANGED <<f, out>>

\* model-level theorems, checked on every configuration
RoutesAgree   == out.sup = out.is \ out.unsup
UnsupInIS     == out.unsup \subseteq out.is
CompPartition == IsPartition(Comps(f, DefaultOpt), Nodes(f, DefaultOpt))
SlackSupplied == \A s \in DOMAIN Source : (Source[s].slack /\ SrcIS(f, s)) => Source[s].bus \in out.sup
=============================================================================
