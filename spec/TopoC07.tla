------------------------------- MODULE TopoC07 -------------------------------
(* C07, model level: TLC enumerates every switching / in_service configuration of template T4 (minus the  *)
(* pinned flags of this run) and checks that the power-flow route and the topology route agree.  The       *)
(* dumped states (f, out) are the implementation tests replayed by harness/checks/c07.py.                  *)
EXTENDS Topology
CONSTANTS PinTrue, PinFalse
VARIABLES f, out

Free == (Flags \ PinTrue) \ PinFalse
Configs == {[x \in Flags |-> IF x \in PinTrue THEN TRUE ELSE IF x \in PinFalse THEN FALSE ELSE h[x]] :
              h \in [Free -> BOOLEAN]}
Derive(g) == [is |-> BusIS(g), sup |-> SuppliedPF(g), unsup |-> UnsuppliedTopo(g)]

Init == f \in Configs /\ out = Derive(f)
Next == UNCHANGED <<f, out>>

\* model-level theorems, checked on every configuration
RoutesAgree   == out.sup = out.is \ out.unsup
UnsupInIS     == out.unsup \subseteq out.is
CompPartition == IsPartition(Comps(f, DefaultOpt), Nodes(f, DefaultOpt))
SlackSupplied == \A s \in DOMAIN Source : (Source[s].slack /\ SrcIS(f, s)) => Source[s].bus \in out.sup
=============================================================================
