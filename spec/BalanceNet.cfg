INIT Init
NEXT Next
CONSTANT NRandom = 600
INVARIANT AllSupplied
INVARIANT EveryClassHasTerminal
INVARIANT SlackParticipant
