INIT OInit
NEXT ONext
INVARIANT C05_Applied
INVARIANT C05_Solvable
INVARIANT C05_Eq
INVARIANT C05_Sum
INVARIANT C05_Ren
INVARIANT C05_Swap
INVARIANT C05_Fused
INVARIANT C05_Total
INVARIANT Conf_Structure
INVARIANT Conf_KeysA
