------------------------------ MODULE Estimation ------------------------------
(* C19, model level.  A state is one measurement set on template Tpl: an observable CORE structure (which buses     *)
(* carry a voltage / an injection pair, which branch ends carry a flow pair) plus the way the user extended and     *)
(* wrote it down: a class of redundant measurements added (red), duplicated rows (dup), row order (ord).            *)
(* wv is the level of the transformer's rated winding voltages (EstimationDef!Wind) of the network the set is        *)
(* measured on: every observable set that contains a current magnitude at a transformer side is also instantiated   *)
(* on the template with off-nominal windings (action Rewind, taken last).                                            *)
(* Init = every core of the enumerated family that satisfies the observability predicate (and, with Deficient, the  *)
(* sub-minimal ones that the code must refuse); Next = the three user actions the property quantifies over.         *)
(* out = what the spec derives for the state: the table to create row by row, where the property is required, the   *)
(* layout of z the code must build.  Every dumped state is instantiated on the real estimate() by c19.py.           *)
EXTENDS EstimationDef, TLC
CONSTANTS MaxV,          \* cores carry 1..MaxV voltage measurements
          FlowPats,      \* per branch: subset of {"none", "f", "t", "ft"}
          Surplus,       \* cores have at most NState + Surplus measurements (0: exactly determined)
          Reds, Dups, Ords,   \* classes the actions may choose (subsets of RedClasses, DupClasses, OrdClasses)
          Depth,         \* at most Depth of the three dimensions are changed
          Winds,         \* subset of WindClasses, contains "rated": winding levels of the template's transformer
          Deficient      \* TRUE: also start from sets with fewer than NState measurements (conformance of the count test)
VARIABLES s, out

BoolSeqs == [1..NBus -> BOOLEAN]
Family == [v : BoolSeqs, inj : BoolSeqs, fl : [BrId -> FlowPats]]
NV(c) == Cardinality({b \in 1..NBus : c.v[b]})
Size(c) == Cardinality(CoreSlots(c))
Cores == {c \in Family : NV(c) >= 1 /\ NV(c) <= MaxV /\ Size(c) <= NState + Surplus /\ Observable(CoreSlots(c))}
\* below the count NState: v at one bus, injection pairs at all buses but two (2 n - 3 measurements), no flows
Short == {c \in Family : NV(c) = 1 /\ Size(c) = NState - 2 /\ \A k \in BrId : c.fl[k] = "none"}
Start == IF Deficient THEN Cores \cup Short ELSE Cores

Derive(x) == Bind(Table(x), LAMBDA tab : Bind(Meas(x), LAMBDA m :
  [rows |-> Rows(tab), observable |-> Observable(m), nocritical |-> NoCritical(m), countok |-> CountOK(tab), df |-> Chi2Df(tab),
   zkeys |-> ZKeys(tab), zidx |-> ZIdx(tab), zw4 |-> ZW4(tab), wind |-> Wind(x.wv)]))
Changed(x) == (IF x.red = "none" THEN 0 ELSE 1) + (IF x.dup = "none" THEN 0 ELSE 1) + (IF x.ord = "created" THEN 0 ELSE 1)

Init == /\ s \in [core : Start, red : {"none"}, dup : {"none"}, ord : {"created"}, wv : {"rated"}]
        /\ out = Derive(s)
\* the user adds a class of further exact measurements to the set
AddRedundant(r) == /\ s.red = "none" /\ out.observable
                   /\ s' = [s EXCEPT !.red = r]
\* the user enters some measurements twice (second row: same value, doubled standard deviation)
Duplicate(d) == /\ s.dup = "none" /\ out.observable
                /\ s' = [s EXCEPT !.dup = d]
\* the user writes the same rows in another order
Reorder(o) == /\ s.ord = "created" /\ out.observable
              /\ s' = [s EXCEPT !.ord = o]
\* the same table is measured on the template whose transformer has the rated winding voltages of level w
Rewind(w) == /\ s.wv = "rated" /\ out.observable /\ TrafoI(Meas(s)) # {}
             /\ s' = [s EXCEPT !.wv = w]
Next == /\ \/ /\ Changed(s) < Depth /\ s.wv = "rated"
              /\ \/ \E r \in Reds \ {"none"} : AddRedundant(r)
                 \/ \E d \in Dups \ {"none"} : Duplicate(d)
                 \/ \E o \in Ords \ {"created"} : Reorder(o)
           \/ /\ s.dup # "none" /\ Changed(s) = Depth /\ s.wv = "rated"    \* the row order matters most when cells hold several rows:
              /\ \E o \in Ords \ {"created"} : Reorder(o)   \* reordering a table with duplicates is always explored
           \/ \E w \in Winds \ {"rated"} : Rewind(w)         \* independent of Depth: a level of the network, not of the table
        /\ out' = Derive(s')

\* ---- model-level theorems, checked by TLC on every state -----------------------------------------------------------
ASSUME Reds \subseteq RedClasses /\ Dups \subseteq DupClasses /\ Ords \subseteq OrdClasses
ASSUME Winds \subseteq WindClasses /\ "rated" \in Winds
\* two independent definitions of "the flow-measured branches contain a spanning tree"
ASSUME \A E \in SUBSET BrId : HasSpanningTree(E) <=> Connected(E)
\* the sufficient predicate implies the code's necessary count test: no required case is refused by check_observability
M_ObservableImpliesCount == out.observable => out.countok
\* adding measurements never destroys observability: the required result of a state is that of its core
M_RedundancyMonotone == Observable(CoreSlots(s.core)) => out.observable
M_NoCriticalImpliesObservable == (Meas(s) # {} /\ out.nocritical) => out.observable
\* z (the cells in z order, their merged weights) does not depend on the row order ...
M_LayoutOrderFree == s.ord # "created" => Bind(Table([s EXCEPT !.ord = "created"]), LAMBDA t0 : out.zkeys = ZKeys(t0) /\ out.zw4 = ZW4(t0))
\* ... and duplicates add no cell: the cells are exactly the distinct slots of the set
M_LayoutDupFree == /\ s.dup # "none" => Bind(Table([s EXCEPT !.dup = "none"]), LAMBDA t0 : out.zkeys = ZKeys(t0))
                   /\ Len(out.zidx) = Cardinality(Meas(s))
\* the table holds exactly the set (plus its duplicates); the remembered index of a cell is a row of that cell, and
\* distinct cells remember distinct rows
M_TableSound == Bind(Table(s), LAMBDA tab :
                  /\ TableSlots(tab) = Meas(s) /\ Len(tab) = Len(out.rows)
                  /\ Len(tab) = Cardinality(Meas(s)) + Cardinality(DupSlots(Meas(s), s.dup))
                  /\ \A k \in DOMAIN out.zidx : /\ out.zidx[k] + 1 \in DOMAIN tab
                                                /\ KeyOf[tab[out.zidx[k] + 1].slot] = out.zkeys[k]
                                                /\ \A j \in DOMAIN out.zidx : out.zidx[j] = out.zidx[k] => j = k)
\* off-nominal windings are instantiated exactly where a current magnitude is measured at a transformer side, and every
\* off-nominal level makes at least one of those measurements sit on a winding whose voltage differs from the bus voltage
\* unless the set only measures the other side; the table, the requirement and the z layout do not depend on the level
M_WindWellFormed == /\ out.wind = Wind(s.wv) /\ out.wind.hv \in 900..1100 /\ out.wind.lv \in 900..1100
                    /\ (s.wv # "rated" => out.observable /\ TrafoI(Meas(s)) # {})
                    /\ (s.wv = "both_off" => OffNominalI(Meas(s), s.wv) = TrafoI(Meas(s)))
                    /\ s.wv # "rated" => Bind(Derive([s EXCEPT !.wv = "rated"]), LAMBDA o : o.rows = out.rows /\ o.observable = out.observable
                                                                        /\ o.zkeys = out.zkeys /\ o.zw4 = out.zw4)
\* the required outcome is invariant along every action (the property's invariance, at model level)
M_ActionsKeepRequirement == [][out'.observable = out.observable /\ s'.core = s.core]_<<s, out>>
=============================================================================
