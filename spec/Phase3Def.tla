------------------------------- MODULE Phase3Def -------------------------------
(* C11 — three-phase power flow (pf/runpp_3ph.py) vs. the symmetric power flow.  Shared definitions of the model    *)
(* (Phase3.tla) and of the observation module (Phase3Obs.tla).                                                       *)
(*                                                                                                                   *)
(* Template (harness/checks/c11.py base_net mirrors it one to one):                                                  *)
(*   bus 1 (20 kV, ext_grid with s_sc_max_mva / rx_max / r0x0_max / x0x_max), bus 2, bus 3 (20 kV), bus 4 (0.4 kV);  *)
(*   line 1 = 1-2, line 2 = 2-3, line 3 = 1-3 (r0/x0/c0 given);  one transformer 3 -> 4 with vector group cfg.vg     *)
(*   and vk0/vkr0/mag0/mag0_rx/si0_hv_partial;  optionally bus 5, a busbar SECTION at the voltage level of its host  *)
(*   bus, joined to the host by a bus-bus switch (closed: host and section are ONE electrical node; open: the        *)
(*   section is isolated);  optionally further ext_grid rows (same short-circuit data) on other 20 kV buses.         *)
(* A configuration c = [vg, topo, cpl, egs, elems]:                                                                  *)
(*   topo  : which lines / whether the transformer are in service (TopoLines, TopoTrafo),                            *)
(*   cpl   : [host, state]  state "none" (no bus 5, no switch) | "closed" | "open",                                  *)
(*   egs   : the rows of net.ext_grid IN TABLE ORDER, each [bus, ins] (ins = in_service),                            *)
(*   elems : a sequence of element slots [kind, bus, conn, pat, mod];  kind "none" = empty slot,                     *)
(*           conn = the element's `type` column (wye / delta), pat = abstract per-phase LEVEL pattern,               *)
(*           mod  = "oos" (in_service = False) | "half" (scaling = 0.5) | "none".                                    *)
(* All powers are integers in HALF level units (1 level unit of bus b = unitp[b] micro-MW, chosen by the harness);   *)
(* no concrete float appears in the model.                                                                           *)
EXTENDS Integers, Sequences, FiniteSets

Bus == 1..5
BusSec == 5                                  \* the busbar section (exists iff c.cpl.state # "none")
Ph == 1..3                                   \* phases a, b, c
Lines == 1..3
LineEnds == <<<<1, 2>>, <<2, 3>>, <<1, 3>>>>  \* from_bus, to_bus
TrafoHv == 3
TrafoLv == 4
Conn == {"wye", "delta"}

SymKinds == {"load", "sgen"}
AsymKinds == {"asymmetric_load", "asymmetric_sgen"}
NoElem == [kind |-> "none", bus |-> 1, conn |-> "wye", pat |-> "bal", mod |-> "none"]

\* ---- topology ------------------------------------------------------------------------------------------------
TopoLines(t) == CASE t = "ring" -> <<TRUE, TRUE, TRUE>>
                  [] t = "cut"  -> <<TRUE, FALSE, FALSE>>          \* buses 3, 4 lose their supply
                  [] OTHER      -> <<TRUE, TRUE, FALSE>>           \* "radial", "toff", "notrafo"
TopoTrafo(t) == CASE t = "toff" -> "off"                            \* trafo row present, in_service = False
                  [] t = "notrafo" -> "absent"                      \* net.trafo empty
                  [] OTHER -> "on"
TopoNames == {"radial", "ring", "cut", "toff", "notrafo"}
EdgesT(t) == {LineEnds[l] : l \in {l \in Lines : TopoLines(t)[l]}}
               \cup (IF TopoTrafo(t) = "on" THEN {<<TrafoHv, TrafoLv>>} ELSE {})
RECURSIVE Grow(_, _)
Grow(E, S) == LET N == S \cup {b \in Bus : \E e \in E : (e[1] \in S /\ e[2] = b) \/ (e[2] \in S /\ e[1] = b)}
              IN IF N = S THEN S ELSE Grow(E, N)

\* ---- busbar section and bus fusion ---------------------------------------------------------------------------------
NoCpl == [host |-> 1, state |-> "none"]
HasSec(c) == c.cpl.state # "none"
NBus(c) == IF HasSec(c) THEN 5 ELSE 4
Buses(c) == 1..NBus(c)
Level(c, b) == IF (IF b = BusSec THEN c.cpl.host ELSE b) = TrafoLv THEN "lv" ELSE "mv"
\* the switch table: one bus-bus switch host - section (et = "b", z_ohm = 0)
Switches(c) == IF HasSec(c) THEN <<[a |-> c.cpl.host, b |-> BusSec, closed |-> (c.cpl.state = "closed")]>> ELSE <<>>
\* build_bus.py (_build_bus_ppc, closed bus-bus switches): the buses joined by closed bus-bus switches are fused into ONE
\* ppc bus;  every pandapower bus of the class is mapped to it by _pd2ppc_lookups["bus"]
FuseKey(c) == IF c.cpl.state = "closed" THEN c.cpl.host ELSE 0          \* 0: nothing fused
FuseSet(h) == IF h = 0 THEN {} ELSE {<<h, BusSec>>}                      \* = the closed rows of Switches(c)
Fuse(c) == FuseSet(FuseKey(c))
MinOf(S) == CHOOSE x \in S : \A y \in S : x <= y
NodeTab == [h \in 0..4 |-> [b \in Bus |-> MinOf(Grow(FuseSet(h), {b}))]]  \* (constants: TLC evaluates the fixpoints once)
\* the node (fusion class, named by its smallest bus) a bus belongs to
NodeOf(c, b) == NodeTab[FuseKey(c)][b]
SameNode(c, a, b) == NodeOf(c, a) = NodeOf(c, b)

\* ---- ext_grids and supply --------------------------------------------------------------------------------------------
OneEg == <<[bus |-> 1, ins |-> TRUE]>>
EgLive(c) == {k \in 1..Len(c.egs) : c.egs[k].ins}
SlackBuses(c) == {c.egs[k].bus : k \in EgLive(c)}
\* pd2ppc.py:196 _check_connectivity: buses not reachable from a reference bus are isolated (results NaN)
HasSlack(c, b) == \E k \in 1..Len(c.egs) : c.egs[k].ins /\ c.egs[k].bus = b
SuppliedTab == [t \in TopoNames |-> [h \in 0..4 |-> [s1 \in BOOLEAN |-> [s2 \in BOOLEAN |-> [s3 \in BOOLEAN |->
                   Grow(EdgesT(t) \cup FuseSet(h), {b \in 1..3 : (b = 1 /\ s1) \/ (b = 2 /\ s2) \/ (b = 3 /\ s3)})]]]]]
Supplied(c) == SuppliedTab[c.topo][FuseKey(c)][HasSlack(c, 1)][HasSlack(c, 2)][HasSlack(c, 3)]   \* ext_grids: buses 1..3

\* ---- transformer vector group: decision of pd2ppc_zero._add_trafo_sc_impedance_zero in mode "pf_3ph" ---------------
VgClass(vg) == CASE vg \in {"Yy", "Yd", "Dy", "Dd"} -> "open"        \* pd2ppc_zero.py:184  `continue` (no zero-seq path)
                 [] vg \in {"YNyn", "Dyn", "Yzn"} -> "modelled"      \* pd2ppc_zero.py:256
                 [] OTHER -> "rejected"                              \* pd2ppc_zero.py:257  NotImplementedError
\* the groupby loop (pd2ppc_zero.py:180) runs over every trafo ROW, in service or not
Rejects(c) == TopoTrafo(c.topo) # "absent" /\ VgClass(c.vg) = "rejected"
\* the relations of C11 are required only where the documentation promises a result (runpp_3ph.py:349)
Checked(c) == TopoTrafo(c.topo) = "absent" \/ VgClass(c.vg) = "modelled"

\* ---- elements --------------------------------------------------------------------------------------------------
N(c) == Len(c.elems)
El(c, i) == c.elems[i]
PatP(pat) == CASE pat = "unb" -> <<3, 2, 1>> [] pat = "zero" -> <<3, 0, 2>> [] OTHER -> <<2, 2, 2>>
PatQ(pat) == CASE pat = "unb" -> <<1, 0, 2>> [] pat = "zero" -> <<1, 0, 1>> [] OTHER -> <<1, 1, 1>>
Sum3(t) == t[1] + t[2] + t[3]
\* what the harness writes into the element table, in level units: p_mw/q_mvar (symmetric kinds, the 3-phase total) or
\* p_a_mw.. / q_a_mvar.. (asymmetric kinds)
TabTotal(e, pq) == IF pq = "p" THEN Sum3(PatP(e.pat)) ELSE Sum3(PatQ(e.pat))
TabPhase(e, pq) == IF pq = "p" THEN PatP(e.pat) ELSE PatQ(e.pat)
ScNum(e) == IF e.mod = "half" THEN 1 ELSE 2                          \* scaling column in halves
Sign(e) == IF e.kind \in {"sgen", "asymmetric_sgen"} THEN -1 ELSE 1   \* runpp_3ph.py:54, build_bus.py:640/648
\* auxiliary.py:965 _select_is_elements_numba: in_service element on an in-service bus ...
Active(e) == e.kind # "none" /\ e.mod # "oos"
\* ... and pd2ppc.py:197-201: elements on isolated buses are taken out as well (_is_elements_final)
Live(c, i) == Active(El(c, i)) /\ El(c, i).bus \in Supplied(c)

\* per-phase power of one element as runpp_3ph injects it, half units, load sign convention
\*   load / sgen       : p_mw / 3 * scaling * sign                (runpp_3ph.py:67-70)
\*   asymmetric_*      : p_<phase>_mw * scaling * sign            (runpp_3ph.py:85-88)
PhaseVal(e, ph, pq) == IF e.kind \in SymKinds THEN (TabTotal(e, pq) \div 3) * ScNum(e)
                       ELSE TabPhase(e, pq)[ph] * ScNum(e)
\* 3-phase total of one element as the symmetric power flow sees it (build_bus.py:640 / 646-651, 690-694)
TotalVal(e, pq) == IF e.kind \in SymKinds THEN TabTotal(e, pq) * ScNum(e) ELSE Sum3(TabPhase(e, pq)) * ScNum(e)

\* runpp_3ph._load_mapping (runpp_3ph.py:94-132): S[phase][typ][bus] = sum over the live elements of connection typ
\* (runpp_3ph.py:60  active = _is_elements & (type == typ);  :122-128  _sum_by_group per bus)
\* what ONE pandapower bus b contributes
Term3(c, i, b, ph, typ, pq) == IF Live(c, i) /\ El(c, i).bus = b /\ El(c, i).conn = typ
                               THEN Sign(El(c, i)) * PhaseVal(El(c, i), ph, pq) ELSE 0
RECURSIVE SabcN(_, _, _, _, _, _)
SabcN(c, b, ph, typ, pq, n) == IF n = 0 THEN 0 ELSE Term3(c, n, b, ph, typ, pq) + SabcN(c, b, ph, typ, pq, n - 1)
SabcBus(c, b, ph, typ, pq) == SabcN(c, b, ph, typ, pq, N(c))
\* runpp_3ph.py:121 `bus_lookup[...]` BEFORE the per-bus sum: the solver is given, at a NODE, the sum over all the buses
\* fused into it (the entry is kept under the node's name, the smallest bus of the class; the other buses carry 0)
\* (lv[i] = Live(c, i), nd[i] = node of element i: evaluated once per configuration)
Term3Node(c, lv, nd, i, n, ph, typ, pq) == IF lv[i] /\ nd[i] = n /\ El(c, i).conn = typ
                                           THEN Sign(El(c, i)) * PhaseVal(El(c, i), ph, pq) ELSE 0
RECURSIVE SabcNodeN(_, _, _, _, _, _, _, _)
SabcNodeN(c, lv, nd, n, ph, typ, pq, k) == IF k = 0 THEN 0
                                           ELSE Term3Node(c, lv, nd, k, n, ph, typ, pq) + SabcNodeN(c, lv, nd, n, ph, typ, pq, k - 1)
LiveVec(c) == [i \in 1..N(c) |-> Live(c, i)]
NodeVec(c) == [i \in 1..N(c) |-> NodeOf(c, El(c, i).bus)]
\* (the same thing bus by bus: used by the model's invariant M_FusedSum)
RECURSIVE SumBuses(_, _, _, _, _, _)
SumBuses(c, S, ph, typ, pq, b) == IF b = 0 THEN 0 ELSE (IF b \in S THEN SabcBus(c, b, ph, typ, pq) ELSE 0) + SumBuses(c, S, ph, typ, pq, b - 1)
Mapping(c) == LET lv == LiveVec(c)
                  nd == NodeVec(c)
              IN [b \in Buses(c) |-> [typ \in Conn |-> [pq \in {"p", "q"} |-> [ph \in Ph |->
                                        SabcNodeN(c, lv, nd, b, ph, typ, pq, N(c))]]]]
\* build_bus._calc_pq_elements_and_add_on_ppc (symmetric route): PD/QD of the ppc bus = node, the same fusion
Term1(c, i, b, pq) == IF Live(c, i) /\ NodeOf(c, El(c, i).bus) = b THEN Sign(El(c, i)) * TotalVal(El(c, i), pq) ELSE 0
RECURSIVE SymBusN(_, _, _, _)
SymBusN(c, b, pq, n) == IF n = 0 THEN 0 ELSE Term1(c, n, b, pq) + SymBusN(c, b, pq, n - 1)
SymBus(c, b, pq) == SymBusN(c, b, pq, N(c))

\* ---- classification ----------------------------------------------------------------------------------------------
ElemSymmetric(e) == e.kind \in SymKinds \/ e.pat = "bal"
\* the antecedent of C11's first sentence: "a network whose loads and generation are all symmetric"
AllSymmetric(c) == \A i \in 1..N(c) : Live(c, i) => ElemSymmetric(El(c, i))
\* physically balanced: what runpp_3ph is given per (bus, connection) is the same in the three phases (m = Mapping(c))
BalancedMap(m, S) == \A b \in S : \A typ \in Conn : \A pq \in {"p", "q"} :
                        m[b][typ][pq][1] = m[b][typ][pq][2] /\ m[b][typ][pq][2] = m[b][typ][pq][3]
NetBalanced(c) == BalancedMap(Mapping(c), Supplied(c))
Class(c) == IF AllSymmetric(c) THEN "balanced" ELSE "unbalanced"
HasDelta(c, b) == \E i \in 1..N(c) : Live(c, i) /\ SameNode(c, El(c, i).bus, b) /\ El(c, i).conn = "delta"
\* A delta-connected element's p_a/p_b/p_c are the powers of the branches ab/bc/ca (runpp_3ph.py:467-472, 490); the
\* phase-to-earth powers it draws equal them only under balanced voltages.  So per PHASE nodal balance is required
\* at a node unless an in-service delta element sits on one of its buses in an unbalanced network; the balance of the
\* three-phase SUM is required at every supplied node.  (b: any bus of the node.)
PerPhase(c, b) == b \in Supplied(c) /\ (AllSymmetric(c) \/ ~HasDelta(c, b))

\* ---- which branch terminal contributes to which bus ------------------------------------------------------------
LineLive(c, l) == TopoLines(c.topo)[l] /\ LineEnds[l][1] \in Supplied(c)
TrafoLive(c) == TopoTrafo(c.topo) = "on" /\ TrafoHv \in Supplied(c)
=============================================================================
