------------------------------- MODULE EquivObs -------------------------------
(* C05 / C23, implementation level.  One case = one state of Equiv.tla instantiated on the real code:                        *)
(*   C.cfg      the configuration (transformation, target, base variant)                                                      *)
(*   C.A, C.B   observations of the original / the transformed network:  table -> element name -> column -> fixed point      *)
(*              (micro-units: MW, Mvar, p.u., degree, kA, percent x 10^6; NaN = Fix!NaN), both solved by                      *)
(*              runpp(tolerance_mva = 1e-10, calculate_voltage_angles = cfg.cva, trafo_model = cfg.tmodel)                     *)
(*   C.okA, C.okB   the power flow of the original / transformed network converged                                            *)
(*   C.applied  the transformation itself returned normally (C23: the toolbox function; C05: the re-index function / rebuild) *)
(*   C.errB     "" | "notconv" (counted, every relation is vacuous) | "error": runpp on the transformed network raised an         *)
(*              exception other than LoadflowNotConverged                                                                     *)
(*   C.projB    structural projection of the real transformed network (who is attached where), see EquivDef!Proj              *)
(* The correspondence is NOT logged: it is computed here, by EquivDef!Corr, from the configuration.                           *)
(* Tolerance between the two independent solves: 30 micro-units + 20 ppm per compared value (x number of summed terms).       *)
EXTENDS EquivDef, Fix, Json, IOUtils
VARIABLE i
Cases == JsonDeserialize(IOEnv.OBS_FILE)
OInit == i \in 1..Len(Cases)
ONext == UNCHANGED i
C == Cases[i]
cfg == C.cfg
Both == C.okA /\ C.okB

Missing == 2000000009                 \* a key the correspondence refers to is absent from the observed tables: close to nothing
Has(mp, k) == k[1] \in DOMAIN mp /\ k[2] \in DOMAIN mp[k[1]] /\ k[3] \in DOMAIN mp[k[1]][k[2]]
Val(side, k) == LET mp == IF side = "A" THEN C.A ELSE C.B IN IF Has(mp, k) THEN mp[k[1]][k[2]][k[3]] ELSE Missing
RECURSIVE SumKeys(_, _)
SumKeys(side, ks) == IF ks = {} THEN 0 ELSE LET k == CHOOSE x \in ks : TRUE IN Val(side, k) + SumKeys(side, ks \ {k})
NumKeys(side, ks) == {k \in ks : IsNum(Val(side, k))}
One(S) == CHOOSE x \in S : TRUE
MaxC(a, b) == IF a >= b THEN a ELSE b
\* an entry holds: single keys are close (NaN matches NaN: a de-energised element is de-energised on both sides); sums need numbers
Holds(m) == IF Cardinality(m.l) = 1 /\ Cardinality(m.r) = 1 THEN Close(Val(m.ls, One(m.l)), Val(m.rs, One(m.r)), 30, 20)
            ELSE /\ NumKeys(m.ls, m.l) = m.l /\ NumKeys(m.rs, m.r) = m.r
                 /\ Close(SumKeys(m.ls, m.l), SumKeys(m.rs, m.r), 30 * MaxC(Cardinality(m.l), Cardinality(m.r)), 20)
\* totals run over every branch row; rows of de-energised branches (NaN) do not contribute
HoldsTotal(m) == Close(SumKeys(m.ls, NumKeys(m.ls, m.l)), SumKeys(m.rs, NumKeys(m.rs, m.r)),
                       30 + 2 * MaxC(Cardinality(m.l), Cardinality(m.r)), 20)
Ok(kind) == Both => \A m \in CorrPart(World(cfg), kind) : m.kind = kind => IF kind = "total" THEN HoldsTotal(m) ELSE Holds(m)

\* ---- C05: equivalent re-representations -----------------------------------------------------------------------------------------------
C05_Applied == Applicable(cfg) => C.applied        \* the re-representation could be carried out (reindex functions are real code)
C05_Solvable == (C.applied /\ C.okA) => C.errB # "error"   \* the power flow does not break on the re-represented network
C05_Eq      == Ok("eq")                            \* same table, same name, same column
C05_Sum     == Ok("sum")                           \* split load / sgen, parallel = n -> n lines, bus sums of fused buses
C05_Ren     == Ok("ren")                           \* loading of each of the n expanded lines = loading of the bundle
C05_Swap    == Ok("swap")                          \* from / to exchanged: the end columns exchange
C05_Fused   == Ok("fused")                         \* buses of one fused class report identical voltages (inside A, inside B, across)
C05_Total   == Ok("total")                         \* total active / reactive losses
\* ---- C23: toolbox transformations -------------------------------------------------------------------------------------------------------
C23_Applied == Applicable(cfg) => C.applied        \* the toolbox function accepts every target that meets its documented preconditions
C23_Solvable == (C.applied /\ C.okA) => C.errB # "error"   \* ... nor on the network the toolbox function returned
C23_Eq      == Ok("eq")
C23_Sum     == Ok("sum")                           \* ward -> load + shunt, xward -> load + shunt + series branch, fused bus sums
C23_Ren     == Ok("ren")                           \* line <-> impedance, ext_grid -> slack gen, ward/xward voltages -> internal elements
C23_Fused   == Ok("fused")
C23_Total   == Ok("total")
\* ---- conformance (a mismatch is a divergence of the model, not a violation of the property) ----------------------------------------------
Conf_Structure == C.applied => LET P == Proj(World(cfg).tn) IN
                     \A t \in AllT : /\ DOMAIN C.projB[t] = DOMAIN P[t]
                                     /\ \A n \in DOMAIN P[t] : C.projB[t][n] = P[t][n]
Conf_KeysA == C.okA => \A k \in KeysA(World(cfg)) : Has(C.A, k)
=============================================================================
