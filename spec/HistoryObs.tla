------------------------------- MODULE HistoryObs -------------------------------
(* C09, implementation level.  Each case: hist (ending in a power flow), and for that last step               *)
(*   live  = res_bus of the long-lived net,  copy = same call on copy.deepcopy(net) taken just before,          *)
(*   fresh = same call (init results -> auto) on a copy with results/caches/options reset;                      *)
(* each [conv, vm, va, p, q] with fixed-point sequences over the buses (or the NaN sentinel), plus the other result      *)
(* tables flattened: act (active powers of res_gen/res_line/res_trafo/res_ext_grid/res_load, res_gen vm), ang (res_gen    *)
(* va_degree), rea (reactive powers, loadings).                                                                          *)
EXTENDS HistoryDef, Fix, Json, IOUtils
VARIABLE i
Cases == JsonDeserialize(IOEnv.OBS_FILE)
OInit == i \in 1..Len(Cases)
ONext == UNCHANGED i
C == Cases[i]
H == C.hist
Last == H[Len(H)]
Pre == Run(S0, SubSeq(H, 1, Len(H) - 1), 1)
AbsTol == 30      \* 3e-5 p.u. / degree / MW: two independent solves with tolerance_mva = 1e-9
RelPpm == 20
Same(x, y) == /\ CloseSeq(x.vm, y.vm, AbsTol, RelPpm) /\ CloseSeq(x.va, y.va, 10 * AbsTol, RelPpm)
              /\ CloseSeq(x.p, y.p, AbsTol, RelPpm) /\ CloseSeq(x.q, y.q, AbsTol, RelPpm)
SameTabs(x, y, dc) == /\ CloseSeq(x.act, y.act, AbsTol, RelPpm) /\ CloseSeq(x.ang, y.ang, 10 * AbsTol, RelPpm)
                      /\ (dc \/ CloseSeq(x.rea, y.rea, 10 * AbsTol, RelPpm))
C09_SameAsDeepCopy == (C.live.conv /\ C.copy.conv) => Same(C.live, C.copy) /\ SameTabs(C.live, C.copy, FALSE)
C09_ConvergesLikeDeepCopy == C.live.conv = C.copy.conv
\* a DC power flow computes no reactive power: res_bus.q_mvar keeps whatever an earlier AC run left there (NaN on a
\* fresh net).  That column is outside what rundcpp reports, so it is not compared against the fresh reference.
SameDC(x, y) == /\ CloseSeq(x.vm, y.vm, AbsTol, RelPpm) /\ CloseSeq(x.va, y.va, 10 * AbsTol, RelPpm)
                /\ CloseSeq(x.p, y.p, AbsTol, RelPpm)
C09_SameAsFresh == (C.live.conv /\ C.fresh.conv) =>
                      IF Last.op = "rundcpp" THEN SameDC(C.live, C.fresh) ELSE Same(C.live, C.fresh)
\* the element result tables (generators, branches, loads): the same for the long-lived and the fresh net
C09_ElementTablesSameAsFresh == (C.live.conv /\ C.fresh.conv) => SameTabs(C.live, C.fresh, Last.op = "rundcpp")
C09_ConvergesLikeFresh == (Last.init # "results" \/ MustConverge(Pre, Last)) => (C.fresh.conv => C.live.conv)
\* a plain AC power flow that fails on both nets leaves the same res_bus behind (blank: every row NaN) - not the numbers
\* of an earlier state of the long-lived net.  (rundcpp and init="results" read the previous tables as their input and
\* keep them when they fail; for those the deep-copy clauses are the reference.)  Without a reference bus it does fail.
C09_FailedLikeFresh == (~C.live.conv /\ ~C.fresh.conv /\ Last.op = "runpp" /\ Last.init # "results") => C.live.fvm = C.fresh.fvm
C09_FailsWithoutReference == MustFail(Pre.n) => ~C.live.conv
\* NaN mask = the spec's unsupplied set (buses are numbered 0..3 in the sequences)
C09_NaNMask == C.live.conv => \A b \in 0..3 : (C.live.vm[b + 1] = NaN) <=> (b \in Unsupplied(Pre.n))
=============================================================================
