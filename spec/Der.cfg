INIT Init
NEXT Next
CONSTANTS
  AreaSet = {"none", "poly", "a4110", "a4120v2"}
  PIdx = {2, 5, 9}
  VIdx = {1, 5, 7}
  PCore = {2, 5, 9}
  VCore = {1, 5, 7}
  QSeries = {1000, 11000, 19000}
  QConst = {14000}
  Q0Set = {10000, 17000}
  Sats = {0, 6000, 10001}
  Damps = {1, 2}
  Geos = {1, 3}
  RmoSet = {TRUE, FALSE}
  MaxSteps = 3
INVARIANT TypeOK
INVARIANT TargetFeasible
INVARIANT StepFeasible
INVARIANT SettledFeasible
INVARIANT SaturationReduces
INVARIANT ClipIdempotent
INVARIANT PriorityKept
