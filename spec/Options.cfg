INIT Init
NEXT Next
INVARIANT PassedWins
INVARIANT StoredOnlyIfNotPassed
INVARIANT DefaultOtherwise
