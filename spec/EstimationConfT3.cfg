INIT OInit
NEXT ONext
CONSTANT Tpl = "T3"
INVARIANT C19_Conf_Winding
INVARIANT C19_Conf_TableCreated
INVARIANT C19_Conf_ZLayout
INVARIANT C19_Conf_ZWeights
INVARIANT C19_Conf_CountCheck
INVARIANT C19_Conf_LP
