--------------------------------- MODULE NetEdit ---------------------------------
(* C22, model level: every history of at most MaxLen enabled edit operations; the required cascades keep       *)
(* RefIntegrity, ResSubset and GroupRowsNonEmpty (checked by TLC on every reachable abstract net).               *)
EXTENDS NetEditDef
CONSTANT MaxLen
VARIABLES hist, n
Init == hist = <<>> /\ n = N0
Next == Len(hist) < MaxLen /\ \E a \in Ops : Enabled(n, a) /\ hist' = Append(hist, a) /\ n' = Apply(n, a)
C22_RefIntegrity == RefIntegrity(n)
C22_ResSubset == ResSubset(n)
GroupsNonEmpty == GroupRowsNonEmpty(n)
=============================================================================
