INIT Init
NEXT Next
CONSTANTS
  TIER = "quick"
INVARIANT GroupsPartition
INVARIANT ValidBoundary
INVARIANT SeedsInternal
INVARIANT SlackRetained
INVARIANT BoundaryOnlyGrowsBySlack
INVARIANT BoundaryKept
