-------------------------------- MODULE GroupsObs --------------------------------
(* C27, implementation level: after EVERY step of a replayed history the harness logs, per group and type,      *)
(* group_element_index, whether net.group has the row, the in_service index sets, and group_res_p_mw after a     *)
(* power flow.  Divergence from the abstract set model = violation (the statement is the equality).              *)
EXTENDS GroupsDef, Json, IOUtils
VARIABLE i
Cases == JsonDeserialize(IOEnv.OBS_FILE)
OInit == i \in 1..Len(Cases)
ONext == UNCHANGED i
C == Cases[i]
SetOf(q) == {q[k] : k \in 1..Len(q)}
ToAct(a) == [op |-> a.op, g |-> a.g, t |-> a.t, s |-> SetOf(a.s)]
H == [k \in 1..Len(C.hist) |-> ToAct(C.hist[k])]
St(k) == Run(S0, SubSeq(H, 1, k), 1)                   \* abstract state after k steps
Ob(k) == C.obs[k]                                      \* observation after k steps (k = 1..Len(hist))
C27_Members == \A k \in 1..Len(H) : \A g \in G : \A t \in Types :
                  SetOf(Ob(k).members[g + 1][t]) = (IF St(k).exists[g] THEN Reported(St(k), g, t) ELSE {})
C27_Rows == \A k \in 1..Len(H) : \A g \in G : \A t \in Types : Ob(k).rows[g + 1][t] = RowExists(St(k), g, t)
C27_InService == \A k \in 1..Len(H) : \A t \in Types : SetOf(Ob(k).ins[t]) = {j + St(k).shift[t] : j \in St(k).ins[t]}
C27_ResPower == \A k \in 1..Len(H) : \A g \in G : St(k).exists[g] => Ob(k).resp[g + 1] = 1000000 * ResP(St(k), g)
C27_NoError == C.err = ""
=============================================================================
