------------------------------- MODULE CurveObs -------------------------------
(* C32, implementation level.  One case = one state of Curve.tla instantiated on the real classes                 *)
(* (harness/checks/c32.py): the object is constructed from cfg (+ the seeded units `jit` of the thorough tier),      *)
(* the history `ops` is replayed on the net holding it, then the restored object is evaluated at the abscissae       *)
(* CurveDef!AbscSeq chooses.  Logged, all in micro-units (Fix.tla):                                                 *)
(*   xs, ys      support data the object was built from           ax   abscissae used (must equal AbscSeq(xs))       *)
(*   ev / evv    values of the restored object, one scalar call per abscissa / one vector call                       *)
(*   ref         values of a freshly constructed, never serialised twin object  ("before")                           *)
(*   constructed, ser_raised, raised, ref_raised   whether construction / a history step / the evaluations raised    *)
(*   cache_obs   whether the restored object carries `_interpolator` before it is evaluated                          *)
(* The REQUIRED values are computed here from xs, ys by the operators of CurveDef — Python compares nothing.        *)
(* Tolerances: support points and enclosure 2 micro-units + 2 ppm (spline solves reproduce the data to ~1e-14        *)
(* relative; fixed-point rounding 0.5); before/after serialisation 1 micro-unit (rounding of a bit-identical value).  *)
EXTENDS CurveDef, Fix, Json, IOUtils
VARIABLE i
Cases == JsonDeserialize(IOEnv.OBS_FILE)
OInit == i \in 1..Len(Cases)
ONext == UNCHANGED i
C == Cases[i]
cls == C.cfg.cls
ik == C.cfg.ik
fill == C.cfg.fill
n == Len(C.xs)
IsLog == cls = "log"
Supported == n >= MinPts(ik)
Completed == C.constructed /\ ~C.ser_raised /\ ~C.raised
Sign(a) == IF a > 0 THEN 1 ELSE IF a < 0 THEN 0 - 1 ELSE 0

\* ---- binding of the case to the model (a failure here is a harness error, never a violation) -----------------------
Obs_CaseMatchesModel ==
  /\ n = Len(C.cfg.dx) + 1 /\ Len(C.ys) = n
  /\ StrictlyIncreasing(C.xs)
  /\ \A k \in 1..(n - 1) : Sign(C.ys[k + 1] - C.ys[k]) = Sign(C.cfg.dy[k])
  /\ (IsLog => \A k \in 1..n : C.xs[k] > 0 /\ C.ys[k] > 0)
  /\ C.ax = AbscSeq(C.xs, IsLog)
  /\ C.cache = CacheOf(cls, C.ops)
  /\ Len(C.ev) = NPts(n) /\ Len(C.evv) = NPts(n) /\ Len(C.ref) = NPts(n)

\* ---- the property ------------------------------------------------------------------------------------------------
\* a characteristic that scipy / numpy can build from the data is constructed, survives the history and evaluates
C32_Evaluates == Supported => (Completed /\ ~C.ref_raised)
\* y(x_i) = y_i at every support point
C32_SupportPoints ==
  Completed => \A j \in 1..n : Close(C.ev[j], ReqSupport(C.ys, j), 2, 2) /\ Close(C.evv[j], ReqSupport(C.ys, j), 2, 2)
\* monotone data + shape-preserving kind: every interior value lies between its two neighbouring support values
Enclosed(v, j) == IsNum(v) /\ EnclLo(C.ys, n, j) - 2 <= v /\ v <= EnclHi(C.ys, n, j) + 2
C32_ShapePreserved ==
  (Completed /\ EnclosureRequired(cls, ik, C.ys)) =>
     \A j \in (n + 1)..(n + 3 * (n - 1)) : Enclosed(C.ev[j], j) /\ Enclosed(C.evv[j], j)
\* the restored object evaluates like the fresh one, at support points, inside and outside the range (NaN = NaN)
C32_SerialisationUnchanged ==
  (Completed /\ ~C.ref_raised) => \A j \in 1..NPts(n) : Close(C.ev[j], C.ref[j], 1, 0) /\ Close(C.evv[j], C.ref[j], 1, 0)

\* ---- conformance of the model (divergences, not violations) ---------------------------------------------------------
Model_Exact ==
  Completed => \A j \in 1..NPts(n) : HasExact(cls, ik, fill, n, j) => Close(C.ev[j], Exact(cls, ik, fill, C.ys, n, j), 2, 2)
Model_Cache == Completed => (C.cache_obs = C.cache)
Model_Unsupported == ~Supported => (C.constructed /\ ~C.ser_raised /\ C.raised)
=============================================================================
