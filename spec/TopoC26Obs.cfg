INIT Init
NEXT Next
INVARIANT C26_NoError
INVARIANT C26_Nodes
INVARIANT C26_Edges
INVARIANT C26_Partition
INVARIANT C26_Components
INVARIANT C26_Distances
INVARIANT C26_WeightedDistances
