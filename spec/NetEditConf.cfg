INIT OInit
NEXT ONext
INVARIANT Conf_Initial
INVARIANT Conf_PostState
INVARIANT Conf_NoError
