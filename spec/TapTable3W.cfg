INIT Init3
NEXT Next
CONSTANTS
  Ids = {0, 1}
  Positions = {1, 2, 3}
INVARIANT OneRowPerKey3
INVARIANT OwnRow3
INVARIANT Independent3
INVARIANT OffOnlyAtTerminal3
