INIT OInit
NEXT ONext
INVARIANT Obs_CaseMatchesModel
INVARIANT C32_Evaluates
INVARIANT C32_SupportPoints
INVARIANT C32_ShapePreserved
INVARIANT C32_SerialisationUnchanged
INVARIANT Model_Exact
INVARIANT Model_Cache
INVARIANT Model_Unsupported
