INIT OInit
NEXT ONext
INVARIANT C15_ParallelEqualsSequential
