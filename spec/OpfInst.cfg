INIT OInit
NEXT ONext
