----------------------------- MODULE DiagnosticObs -----------------------------
(* C30, implementation level: each case is a history replayed on real Diagnostic objects; calls[k] is what   *)
(* the recording probe functions saw during the k-th action (empty for new/reg).                              *)
EXTENDS DiagnosticDef, Json, IOUtils
VARIABLE i
Cases == JsonDeserialize(IOEnv.OBS_FILE)
OInit == i \in 1..Len(Cases)
ONext == UNCHANGED i
C == Cases[i]
H == C.hist
Pre(k) == Run(S0, SubSeq(H, 1, k - 1), 1)
C30_Calls == \A k \in 1..Len(H) : H[k].op = "diag" =>
               LET e == Calls(Pre(k), H[k]) IN
               /\ Len(C.calls[k]) = Len(e)
               /\ \A j \in 1..Len(e) : C.calls[k][j] = e[j]
C30_NetUnchanged == \A k \in 1..Len(H) : ~C.net_changed[k]
C30_NoError == C.err = ""
=============================================================================
