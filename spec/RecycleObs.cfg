INIT OInit
NEXT ONext
INVARIANT C12_RecordsEveryVariable
INVARIANT C12_EqualsFreshPowerFlow
INVARIANT DIV_ControllerFlags
INVARIANT DIV_BatchDecision
