-------------------------------- MODULE Options --------------------------------
(* C34, model level: every (stored, passed) assignment touching at most K parameters; see OptionsDef.tla. *)
EXTENDS OptionsDef
VARIABLES stored, passed, exp
K == 2      \* at most K parameters are touched per configuration (pairwise coverage)
Touch == (({"Unset", "D", "A"} \X {"NotPassed", "D", "A"}) \ {<<"Unset", "NotPassed">>})
Cfgs == UNION {{[st |-> [p \in Params |-> IF p \in S THEN a[p][1] ELSE "Unset"],
                 pa |-> [p \in Params |-> IF p \in S THEN a[p][2] ELSE "NotPassed"]] : a \in {f \in [S -> Touch] : "init_vm_pu" \in S => f["init_vm_pu"][1] # "D"}}
               : S \in {S \in SUBSET Params : Cardinality(S) <= K}}
\* (storing the neutral value None of a keyword-only option is not enumerated: it means "nothing stored")
Init == \E c \in Cfgs : stored = c.st /\ passed = c.pa
                        /\ exp = IF Rejected(c.st, c.pa) THEN [rejected |-> TRUE] ELSE Expected(c.st, c.pa) @@ [rejected |-> FALSE]
Next == UNCHANGED <<stored, passed, exp>>

\* model-level sanity of the required resolution
PassedWins == ~exp.rejected => \A p \in Params \ Derived : passed[p] # "NotPassed" => exp[p] = passed[p]
StoredOnlyIfNotPassed == ~exp.rejected => \A p \in Params \ Derived :
                            (passed[p] = "NotPassed" /\ stored[p] # "Unset") => exp[p] = stored[p]
DefaultOtherwise == ~exp.rejected => \A p \in Params \ Derived :
                            (passed[p] = "NotPassed" /\ stored[p] = "Unset") => exp[p] = "D"
=============================================================================
