------------------------------- MODULE Topology -------------------------------
(* Abstract switching/topology model of a pandapower network (template T4, harness/templates.py builds     *)
(* exactly this wiring).  Two separately modelled algorithms are defined here:                            *)
(*   - the POWER-FLOW route   (pd2ppc: select in-service, fuse buses, auxiliary buses, connectivity BFS)  *)
(*   - the TOPOLOGY route     (topology.create_nxgraph + connected components + unsupplied_buses)         *)
(* Properties C07 (unsupplied <=> NaN <=> topology module) and C26 (graph = energising connections) are   *)
(* stated over them in TopoC07.tla / TopoC26.tla.                                                         *)
EXTENDS Integers, Sequences, FiniteSets, TLC

Bus == 0..3
BusFlag == <<"b0", "b1", "b2", "b3">>          \* BusFlag[b+1] is the in_service flag of bus b

\* every free boolean of a configuration: in_service of buses/branches/sources, closed of switches,
\* z0 = "switch s0 has z_ohm > 0"
Flags == {"b0","b1","b2","b3","l0","l1","l2","l3","t0","w0","w1","e0","e1","g0","g1","s0","s1","s2","s3","s4","s5","z0"}

\* branches: n = numeric id used for auxiliary node numbers, idx = index in its pandapower table, km = line length
\* (the edge weight of create_nxgraph; transformers and switches weigh 0).  l3 is parallel to l0 and longer; w1 shares
\* bus 0 and bus 3 with w0.
Branch == [ l0 |-> [kind |-> "line",    n |-> 0, idx |-> 0, ends |-> <<0, 1>>, km |-> 1],
            l1 |-> [kind |-> "line",    n |-> 1, idx |-> 1, ends |-> <<1, 2>>, km |-> 2],
            l2 |-> [kind |-> "line",    n |-> 2, idx |-> 2, ends |-> <<0, 2>>, km |-> 1],
            l3 |-> [kind |-> "line",    n |-> 5, idx |-> 3, ends |-> <<0, 1>>, km |-> 4],
            t0 |-> [kind |-> "trafo",   n |-> 3, idx |-> 0, ends |-> <<2, 3>>, km |-> 0],      \* hv, lv
            w0 |-> [kind |-> "trafo3w", n |-> 4, idx |-> 0, ends |-> <<0, 1, 3>>, km |-> 0],   \* hv, mv, lv
            w1 |-> [kind |-> "trafo3w", n |-> 6, idx |-> 1, ends |-> <<0, 2, 3>>, km |-> 0] ]
BranchIds == DOMAIN Branch

\* switches: et, bus, (ebus | ebr) = element, zf = flag name carrying "z_ohm > 0" ("" = always 0)
Switch == [ s0 |-> [et |-> "b",  bus |-> 1, ebus |-> 2, ebr |-> "",   zf |-> "z0", idx |-> 0],
            s1 |-> [et |-> "l",  bus |-> 1, ebus |-> 0, ebr |-> "l0", zf |-> "",   idx |-> 1],
            s2 |-> [et |-> "t",  bus |-> 3, ebus |-> 0, ebr |-> "t0", zf |-> "",   idx |-> 2],
            s3 |-> [et |-> "t3", bus |-> 1, ebus |-> 0, ebr |-> "w0", zf |-> "",   idx |-> 3],
            s4 |-> [et |-> "l",  bus |-> 0, ebus |-> 0, ebr |-> "l0", zf |-> "",   idx |-> 4],
            s5 |-> [et |-> "t3", bus |-> 0, ebus |-> 0, ebr |-> "w1", zf |-> "",   idx |-> 5] ]
SwitchIds == DOMAIN Switch

\* sources: ext_grids and gens (slack = may serve as reference)
Source == [ e0 |-> [bus |-> 0, slack |-> TRUE],  e1 |-> [bus |-> 2, slack |-> TRUE],
            g0 |-> [bus |-> 3, slack |-> TRUE],  g1 |-> [bus |-> 1, slack |-> FALSE] ]

EtOf(kind) == CASE kind = "line" -> "l" [] kind = "trafo" -> "t" [] kind = "trafo3w" -> "t3"
Range(s) == {s[i] : i \in DOMAIN s}
MinOf(S) == CHOOSE x \in S : \A y \in S : x <= y

\* undirected reachability over a set of 2-tuples
RECURSIVE Reach(_, _)
Reach(S, E) == LET N == S \cup {e[2] : e \in {e \in E : e[1] \in S}} \cup {e[1] : e \in {e \in E : e[2] \in S}}
               IN IF N = S THEN S ELSE Reach(N, E)

-----------------------------------------------------------------------------
(* POWER-FLOW route *)
BusIS(f) == {b \in Bus : f[BusFlag[b + 1]]}                                   \* auxiliary.py _select_is_elements

ZPos(f, s) == Switch[s].zf # "" /\ f[Switch[s].zf]
\* build_bus.py ds_create: closed bus-bus switch, z_ohm = 0, both buses in service  -> fused
FuseSw(f) == {s \in SwitchIds : Switch[s].et = "b" /\ f[s] /\ ~ZPos(f, s)
                               /\ Switch[s].bus \in BusIS(f) /\ Switch[s].ebus \in BusIS(f)}
FuseE(f)  == {<<Switch[s].bus, Switch[s].ebus>> : s \in FuseSw(f)}
Class(f, b) == Reach({b}, FuseE(f))
Rep(f, b) == MinOf(Class(f, b))
\* build_branch.py _switches: closed bus-bus switch with z_ohm > 0 becomes an impedance branch
ZSwE(f) == {<<Rep(f, Switch[s].bus), Rep(f, Switch[s].ebus)>> :
              s \in {s \in SwitchIds : Switch[s].et = "b" /\ f[s] /\ ZPos(f, s)
                                      /\ Switch[s].bus \in BusIS(f) /\ Switch[s].ebus \in BusIS(f)}}

OpenAt(f, br, b) == \E s \in SwitchIds : /\ Switch[s].et = EtOf(Branch[br].kind) /\ Switch[s].ebr = br
                                         /\ Switch[s].bus = b /\ ~f[s]
AuxNode(br, i) == 10 + 3 * Branch[br].n + i           \* auxiliary bus of end i of branch br
StarNode(br)   == 40 + Branch[br].n                    \* internal star point of a trafo3w

\* node a branch end is attached to in the ppc, or -1 when that end makes the (sub)branch unusable
EndNode(f, br, i) ==
  LET b == Branch[br].ends[i] IN
  IF OpenAt(f, br, b) THEN AuxNode(br, i)                              \* _switch_branches: aux bus
  ELSE IF b \in BusIS(f) THEN Rep(f, b)
  ELSE IF Branch[br].kind = "line" THEN AuxNode(br, i)                 \* _branches_with_oos_buses (lines only)
  ELSE -1                                                              \* trafo at oos bus: removed in _ppc2ppci

BranchE(f, br) ==
  IF ~f[br] THEN {}
  ELSE IF Branch[br].kind = "trafo3w"
       THEN {<<EndNode(f, br, i), StarNode(br)>> : i \in {i \in 1..3 : EndNode(f, br, i) # -1}}
       ELSE LET a == EndNode(f, br, 1)  b == EndNode(f, br, 2)
            IN IF a = -1 \/ b = -1 THEN {} ELSE {<<a, b>>}
PFEdges(f) == ZSwE(f) \cup UNION {BranchE(f, br) : br \in BranchIds}

SrcIS(f, s) == f[s] /\ Source[s].bus \in BusIS(f)
RefNodes(f) == {Rep(f, Source[s].bus) : s \in {s \in DOMAIN Source : Source[s].slack /\ SrcIS(f, s)}}
\* auxiliary.py _check_connectivity: BFS from all reference buses
SuppliedPF(f) == LET R == Reach(RefNodes(f), PFEdges(f)) IN {b \in BusIS(f) : Rep(f, b) \in R}

-----------------------------------------------------------------------------
(* TOPOLOGY route: create_graph.py create_nxgraph; an option record o has the fields                      *)
(*   rs (respect_switches) inc (set of included kinds: "line","trafo","trafo3w","switch")                 *)
(*   oos (include_out_of_service)  nogo, notrav (sets of buses)                                           *)
DefaultOpt == [rs |-> TRUE, inc |-> {"line", "trafo", "trafo3w", "switch"}, oos |-> FALSE, nogo |-> {}, notrav |-> {}]

AnyOpen(f, br) == \E s \in SwitchIds : Switch[s].et = EtOf(Branch[br].kind) /\ Switch[s].ebr = br /\ ~f[s]
\* undirected edges <<u, v, kind, idx>> before node removal
RawEdges(f, o) ==
  LET live(br) == f[br] \/ o.oos
      two == {br \in BranchIds : Branch[br].kind \in {"line", "trafo"} /\ Branch[br].kind \in o.inc
                                   /\ live(br) /\ ~(o.rs /\ AnyOpen(f, br))}
      three == {br \in BranchIds : Branch[br].kind = "trafo3w" /\ "trafo3w" \in o.inc /\ live(br)}
      pairs == {<<1, 2>>, <<1, 3>>, <<2, 3>>}
      sw == {s \in SwitchIds : Switch[s].et = "b" /\ "switch" \in o.inc /\ (f[s] \/ ~o.rs)}
  IN  {<<Branch[br].ends[1], Branch[br].ends[2], Branch[br].kind, Branch[br].idx>> : br \in two}
      \cup {<<Branch[x[1]].ends[x[2][1]], Branch[x[1]].ends[x[2][2]], "trafo3w", Branch[x[1]].idx>> :
              x \in {x \in three \X pairs :
                      ~(o.rs /\ (OpenAt(f, x[1], Branch[x[1]].ends[x[2][1]]) \/ OpenAt(f, x[1], Branch[x[1]].ends[x[2][2]])))}}
      \cup {<<Switch[s].bus, Switch[s].ebus, "switch", Switch[s].idx>> : s \in sw}

Nodes(f, o) == (Bus \ o.nogo) \ (IF o.oos THEN {} ELSE Bus \ BusIS(f))
Edges(f, o) == {e \in RawEdges(f, o) : e[1] \in Nodes(f, o) /\ e[2] \in Nodes(f, o)}
\* directed adjacency as networkx stores it; "edges pointing away from notravbuses are removed"
Adj(f, o) == {<<e[1], e[2], e[3], e[4]>> : e \in {e \in Edges(f, o) : e[1] \notin o.notrav}}
             \cup {<<e[2], e[1], e[3], e[4]>> : e \in {e \in Edges(f, o) : e[2] \notin o.notrav}}

UE(f, o) == {<<e[1], e[2]>> : e \in Edges(f, o)}
Comp(f, o, b) == Reach({b}, UE(f, o))
Comps(f, o) == {Comp(f, o, b) : b \in Nodes(f, o)}
Slacks(f) == {Source[s].bus : s \in {s \in DOMAIN Source : Source[s].slack /\ f[s]}}   \* graph_searches.py:134
UnsuppliedTopo(f) == UNION {c \in Comps(f, DefaultOpt) : c \cap Slacks(f) = {}}

\* BFS layers from bus src following the directed adjacency (dijkstra with weight=None)
RECURSIVE Layers(_, _, _, _, _)
Layers(A, seen, frontier, d, acc) ==
  IF frontier = {} THEN acc
  ELSE LET nxt == {a[2] : a \in {a \in A : a[1] \in frontier}} \ seen
       IN Layers(A, seen \cup nxt, nxt, d + 1, acc @@ [b \in nxt |-> d + 1])
Dist(f, o, src) == IF src \in Nodes(f, o)
                   THEN Layers({<<a[1], a[2]>> : a \in Adj(f, o)}, {src}, {src}, 0, [b \in {src} |-> 0])
                   ELSE <<>>

\* weighted shortest paths (dijkstra with weight='weight' on the MultiGraph: the lightest of parallel edges counts)
LineKm == [idx \in {Branch[br].idx : br \in {x \in BranchIds : Branch[x].kind = "line"}} |->
             Branch[CHOOSE br \in BranchIds : Branch[br].kind = "line" /\ Branch[br].idx = idx].km]
KmOf(kind, idx) == IF kind = "line" THEN LineKm[idx] ELSE 0
InfD == 999
MinI(S) == CHOOSE x \in S : \A y \in S : x <= y
\* Bellman-Ford over the four buses; the distance vector is a TUPLE (d[b + 1] = distance of bus b): TLC evaluates
\* [b \in S |-> e] lazily, and nesting such functions over the relaxation rounds re-evaluates them exponentially often
Best(A, d, b) == MinI({d[b + 1]} \cup {d[a[1] + 1] + KmOf(a[3], a[4]) : a \in {a \in A : a[2] = b /\ d[a[1] + 1] < InfD}})
RECURSIVE Relax(_, _, _)
Relax(A, d, k) == IF k = 0 THEN d ELSE Relax(A, <<Best(A, d, 0), Best(A, d, 1), Best(A, d, 2), Best(A, d, 3)>>, k - 1)
WDist(f, o, src) == IF src \in Nodes(f, o)
                    THEN LET adj == Adj(f, o)
                             nodes == Nodes(f, o)
                             d == Relax(adj, <<IF src = 0 THEN 0 ELSE InfD, IF src = 1 THEN 0 ELSE InfD, IF src = 2 THEN 0 ELSE InfD,
                                               IF src = 3 THEN 0 ELSE InfD>>, 4)
                         IN [b \in {b \in nodes : d[b + 1] < InfD} |-> d[b + 1]]
                    ELSE <<>>

IsPartition(P, S) == /\ UNION P = S /\ {} \notin P
                     /\ \A x, y \in P : x # y => x \cap y = {}
=============================================================================
