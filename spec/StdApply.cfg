INIT Init
NEXT Next
