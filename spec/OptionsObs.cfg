INIT OInit
NEXT ONext
INVARIANT C34_Rejection
INVARIANT C34_algorithm
INVARIANT C34_calculate_voltage_angles
INVARIANT C34_init
INVARIANT C34_max_iteration
INVARIANT C34_tolerance_mva
INVARIANT C34_trafo_model
INVARIANT C34_trafo_loading
INVARIANT C34_enforce_q_lims
INVARIANT C34_check_connectivity
INVARIANT C34_voltage_depend_loads
INVARIANT C34_consider_line_temperature
INVARIANT C34_distributed_slack
INVARIANT C34_numba
INVARIANT C34_switch_rx_ratio
INVARIANT C34_delta_q
INVARIANT C34_trafo3w_losses
INVARIANT C34_neglect_open_switch_branches
