INIT OInit
NEXT ONext
INVARIANT Harness_Instantiated
INVARIANT C17_CostIsUserFunction
INVARIANT C17_ReportedCostIsOptimum
