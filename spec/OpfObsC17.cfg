INIT OInit
NEXT ONext
INVARIANT Harness_Instantiated
INVARIANT Conf_CodeObjective
INVARIANT C17_CostIsUserFunction
INVARIANT C17_ReportedCostIsOptimum
