----------------------------- MODULE ShortCircuit -----------------------------
(* C18, model level.  A state is one obligation of the property:                                                    *)
(*   cfg   network feature set and the options that are NOT claimed to be irrelevant (case, ip / kappa method,       *)
(*         branch_results, lv_tol_percent),                                                                          *)
(*   run   the options the property says results must not depend on (+ the fault type): fault, net.sn_mva,           *)
(*         inverse_y, the set of buses faulted in the same call, the labelling of the bus table,                     *)
(*   ref   the run it is compared with (run with exactly ONE dimension reset to its canonical value),               *)
(*   kind  that dimension ("base": the canonical run itself),                                                       *)
(*   call  the calc_sc call that realises `run` (CallOf), req  the clauses the spec requires on this state.         *)
(* Init chooses the configuration and the canonical run; every Next step varies one option dimension that is still  *)
(* canonical, so the reachable states are exactly: every run once per non-canonical dimension, paired with the run  *)
(* that differs in that dimension only.  Equality is then required along every edge of this "option cube", which    *)
(* chains every run to the canonical one.  (The labelling is varied LAST and only on runs with sn_mva 1, inverse_y   *)
(* True and a bus set of LabelBuses: every fault type x every such bus set is relabelled in every way of Labels.)     *)
(* The harness executes every distinct (cfg, run) on the real calc_sc and                                            *)
(* ShortCircuitObs.tla evaluates the required clauses on the recorded results.                                       *)
EXTENDS ShortCircuitDef
CONSTANTS Gens, Sgens, Rings, CaseVals, IpVals, BranchVals, LvTols,     \* value sets of the cfg fields
          InitFaults,          \* subset of {"3ph", "1ph"}: fault of the canonical run
          With2ph,             \* BOOLEAN: vary 3ph -> 2ph
          SnVals,              \* subset of {1, 10, 100}, contains 1
          SubsetSizes,         \* cardinalities of the proper bus subsets passed as calc_sc(bus=...)
          ExtraSubsets,        \* additional proper subsets
          Labels,              \* subset of LabelSet \ {"default"}: labellings of the bus table that are tried
          LabelBuses           \* bus sets (of the call) on which the labelling is varied; contains Bus
VARIABLES cfg, run, ref, kind, call, req
vars == <<cfg, run, ref, kind, call, req>>

Cfgs == {c \in CfgType : c.gen \in Gens /\ c.sgen \in Sgens /\ c.ring \in Rings /\ c.case \in CaseVals /\ c.ipm \in IpVals
                         /\ c.branch \in BranchVals /\ c.lvtol \in LvTols}
ProperSubsets == ({S \in SUBSET Bus : Cardinality(S) \in SubsetSizes} \cup ExtraSubsets) \ {{}, Bus}
Canonical(f) == [fault |-> f, sn |-> 1, inv |-> TRUE, buses |-> Bus, lab |-> "default"]

Init == /\ cfg \in Cfgs
        /\ \E f \in InitFaults : Supported(cfg, f) /\ run = Canonical(f)
        /\ ref = run /\ kind = "base"
        /\ call = CallOf(cfg, run) /\ req = Required(cfg, run, run, "base")

Step(r, k) == /\ Supported(cfg, r.fault)
              /\ run' = r /\ ref' = run /\ kind' = k
              /\ call' = CallOf(cfg, r) /\ req' = Required(cfg, r, run, k)
              /\ UNCHANGED cfg
Unlabelled == run.lab = "default"
VaryFault == Unlabelled /\ With2ph /\ run.fault = "3ph" /\ Step([run EXCEPT !.fault = "2ph"], "fault")
VarySn == Unlabelled /\ run.sn = 1 /\ \E s \in SnVals \ {1} : Step([run EXCEPT !.sn = s], "sn")
VaryInv == Unlabelled /\ run.inv /\ Step([run EXCEPT !.inv = FALSE], "inv")
VarySubset == Unlabelled /\ run.buses = Bus /\ \E S \in ProperSubsets : Step([run EXCEPT !.buses = S], "subset")
\* the same electrical network, the bus table labelled differently (create_bus(index=...))
VaryLabel == Unlabelled /\ run.sn = 1 /\ run.inv /\ run.buses \in LabelBuses
             /\ \E l \in Labels \ {"default"} : Step([run EXCEPT !.lab = l], "label")
Next == VaryFault \/ VarySn \/ VaryInv \/ VarySubset \/ VaryLabel

\* ---- model-level invariants ---------------------------------------------------------------------------------------
TypeOK == cfg \in CfgType /\ run \in RunType /\ ref \in RunType /\ kind \in Kinds /\ call = CallOf(cfg, run)
\* a pair differs in exactly the named dimension and the reference is canonical there; the base state is canonical
PairWellFormed == IF kind = "base" THEN ref = run /\ NonCanon(run) = {}
                  ELSE Differ(run, ref) = {kind} /\ IsCanon(ref, kind) /\ ~IsCanon(run, kind)
\* single-run clauses are attached to exactly the primary state of a run; pair clauses only to their own kind
ReqWellFormed == /\ req = Required(cfg, run, ref, kind)
                 /\ (ReqSingle(cfg, run) \subseteq req) = (kind = PrimaryKind(run))
                 /\ ("C18_TwoPhaseRatio" \in req => run.fault = "2ph" /\ ref.fault = "3ph" /\ ~cfg.sgen)
                 /\ ("C18_IkssThevenin" \in req => run.fault = "3ph" /\ ~CurrentSourceActive(cfg))
\* the voltage factor is the one of IEC 60909-0 Table 1
CFactorTable == \A b \in Bus : /\ CPct(b, cfg) \in {95, 100, 105, 110}
                               /\ CMinPct(b) <= CMaxPct(b, cfg.lvtol)
                               /\ (Vn(b) >= 1000 => CPct(b, cfg) = IF cfg.case = "max" THEN 110 ELSE 100)
                               /\ (Vn(b) < 1000 => CPct(b, cfg) = IF cfg.case = "min" THEN 95 ELSE IF cfg.lvtol = 6 THEN 105 ELSE 110)
\* the clause predicate "no current source" is at least as strong as the code's own condition for a contribution
ConservativeCS == NoCurrentSource(cfg) => ~CurrentSourceActive(cfg)
OnlySupported == Supported(cfg, run.fault) /\ Supported(cfg, ref.fault)
RowsAreFaultedBuses == ReportedRows(run) = call.bus /\ call.bus # {}
\* a labelling is a bijection of the buses; the call addresses buses by label; "rot" and "sparse" send every bus that
\* carries a generator / a current source to the row position of a bus with another rated voltage, or to no row at all
LabelsWellFormed == /\ \A l \in LabelSet : Cardinality(AllLabels(l)) = Cardinality(Bus) /\ \A b \in Bus : BusOf(l, LabelOf(l, b)) = b
                    /\ call.labels = LabelSeq(run.lab) /\ call.bus \subseteq AllLabels(run.lab)
                    /\ Cardinality(call.bus) = Cardinality(run.buses)
                    /\ \A b \in {2, 3} : /\ LabelOf("rot", b) \in Bus /\ Vn(LabelOf("rot", b)) # Vn(b)
                                          /\ LabelOf("sparse", b) \notin Bus
=============================================================================
