---------------------------- MODULE CalcPipelineDef ----------------------------
(* C08 — calculation pipelines as staged state machines.  One stage per hook point of the implementation       *)
(* (pandapower/_verif.py point(name), placed AFTER the stage's effect):                                        *)
(*   powerflow.py _powerflow/_ppci_to_net, optimal_powerflow.py _optimal_powerflow,                            *)
(*   shortcircuit/calc_sc.py _calc_sc/_calc_sc_1ph, pf/runpp_3ph.py runpp_3ph,                                 *)
(*   contingency/contingency.py run_contingency (outer frame around one runpp per N-1 case).                   *)
EXTENDS Integers, Sequences, FiniteSets, TLC

Kinds == {"runpp", "rundcpp", "runopp", "rundcopp", "runpp3ph", "sc3ph", "sc2ph", "sc1ph", "contingency", "estimate"}
Stages(k) ==
  CASE k \in {"runpp", "rundcpp"}  -> <<"pf.add_aux", "pf.pd2ppc", "pf.solve", "pf.copy_results", "pf.extract", "pf.clean_up">>
    [] k \in {"runopp", "rundcopp"} -> <<"opf.add_aux", "opf.pd2ppc", "opf.solve", "opf.extract", "opf.clean_up">>
    [] k \in {"sc3ph", "sc2ph"}    -> <<"sc.init_ppc", "sc.currents", "sc.extract", "sc.clean_up">>
    [] k = "sc1ph"                 -> <<"sc1.add_aux", "sc1.init_ppc", "sc1.zero_seq", "sc1.currents", "sc1.extract", "sc1.clean_up">>
    [] k = "runpp3ph"              -> <<"pf3.init", "pf3.solve", "pf3.extract", "pf3.clean_up">>
    [] k = "estimate"              -> <<"se.done">>     \* estimation/state_estimation.py estimate(): no hook inside, one synthetic event on return
    [] k = "contingency"           -> <<"cont.case1", "cont.case2", "cont.n0", "cont.done">>   \* N-1 cases first, N-0 last (contingency.py:99-117)
AddAux   == {"pf.add_aux", "opf.add_aux", "sc1.add_aux"}
CleanUp  == {"pf.clean_up", "opf.clean_up", "sc.clean_up", "sc1.clean_up", "pf3.clean_up"}
Nested   == {"cont.n0", "cont.case1", "cont.case2"}         \* stages that run an inner runpp
Outage   == {"cont.case1", "cont.case2"}                    \* stages that take an element out of service meanwhile

\* network features that create auxiliary / temporary state inside a calculation
Features == {"dcline", "taptable", "usergens", "ideal"}      \* "ideal": an ideal phase shifter next to NaN tap data
AuxRows(feats) == IF "dcline" \in feats THEN 2 ELSE 0       \* two auxiliary gens per dcline (one dcline in the template)

\* natural failures: the stage DURING which the implementation raises (before the stage's hook point)
NaturalAt(k, nat) ==
  CASE nat = "no_slack"      -> IF k \in {"runpp", "rundcpp"} THEN "pf.pd2ppc" ELSE IF k \in {"runopp", "rundcopp"} THEN "opf.pd2ppc" ELSE "-"
    [] nat = "not_converged" -> IF k = "runpp" THEN "pf.extract" ELSE IF k = "runopp" THEN "opf.extract" ELSE "-"
    [] OTHER -> "-"

\* combinations the library does not support: the stage DURING which it raises on its own (named so that the
\* trace spec predicts the recorded events; the property still demands a restored net after these failures)
UnsupportedAt(k, fs) ==
  CASE k = "runpp3ph" /\ "usergens" \in fs -> "pf3.extract"                       \* gens have no 3ph result table
    [] k \in {"sc3ph", "sc2ph"} /\ "dcline" \in fs -> IF "usergens" \in fs THEN "sc.currents" ELSE "sc.init_ppc"
    [] k = "sc1ph" /\ "dcline" \in fs -> IF "usergens" \in fs THEN "sc1.zero_seq" ELSE "sc1.init_ppc"
    [] OTHER -> "-"
=============================================================================
