--------------------------------- MODULE Equiv ---------------------------------
(* Model level of C05 / C23.  TLC enumerates  transformation x target x base variant:  every (transformation, target)      *)
(* candidate on one or two corner base variants plus, per transformation, a seeded random subset (-seed) of candidates x base     *)
(* variants, keeps the APPLICABLE                                                                                          *)
(* ones (EquivDef!Applicable: the documented / physical preconditions of neutrality), and computes for each                  *)
(*     anets  the abstract original network(s)          tnet  the abstract transformed network (EquivDef!TNet)               *)
(*     changed  whether the transformation changes the representation at all                                                 *)
(* The harness (harness/equiv.py) builds the original from `anets`; for C05 it builds the transformed network from `tnet`    *)
(* (re-indexing is done with the real reindex functions), for C23 it applies the REAL toolbox function to the original.      *)
(* Both are solved and EquivObs.tla evaluates the correspondence Corr(cfg) on the two result sets.                           *)
(* The invariants below state the design of the correspondence itself.                                                       *)
EXTENDS EquivDef, Randomization
CONSTANTS Prop,           \* "C05" | "C23"
          NCorner,        \* 1 | 2: number of corner base variants every candidate is run on
          NRandom         \* size of the random subset of (candidate x base variant) per transformation
VARIABLES cfg, anets, tnet, changed

Bases == [lvl : {"low", "high"}, ring : BOOLEAN, cva : BOOLEAN, tmodel : {"t", "pi"}, sn : {1, 10}, layout : {"id", "rot", "gap"},
          swend : {"near", "far"}, tsw : TswLevels]
\* both corners carry OPEN transformer switches: the position of a transformer in its table matters only for those
Corner1 == [lvl |-> "low", ring |-> TRUE, cva |-> TRUE, tmodel |-> "t", sn |-> 1, layout |-> "id", swend |-> "near", tsw |-> "t1lv_w1mv"]
Corner2 == [lvl |-> "high", ring |-> FALSE, cva |-> FALSE, tmodel |-> "pi", sn |-> 10, layout |-> "gap", swend |-> "far", tsw |-> "t0hv_w0lv"]
T(tr, tgt, n, perm, at) == [tr |-> tr, tgt |-> tgt, n |-> n, perm |-> perm, at |-> at]
LineNames == DOMAIN Line0(TRUE)
AddKinds == {"load", "sgen", "gen", "ext_grid", "ward", "xward", "shunt", "line", "impedance", "trafo", "bus"}
Cands(tr) ==
    CASE tr = "sn" -> {T(tr, "-", n, "-", "-") : n \in {1, 10, 100}}
      [] tr = "reidx_bus" -> {T(tr, "-", 0, p, "-") : p \in PermClasses}
      [] tr = "reidx_elm" -> {T(tr, t, 0, p, "-") : t \in AllT \ {"bus"}, p \in PermClasses}
      [] tr = "rowperm" -> {T(tr, t, 0, p, "-") : t \in AllT, p \in {"rev", "rot"}}
      [] tr = "split" -> {T(tr, e, n, "-", "-") : e \in DOMAIN Load0(1) \cup DOMAIN Sgen0, n \in {2, 3}}
      [] tr \in {"par_expand", "swap", "line2imp", "line_rt", "merge_par"} -> {T(tr, l, 0, "-", "-") : l \in LineNames}
      [] tr = "add_oos" -> {T(tr, k, 0, "-", at) : k \in AddKinds, at \in {"b1", "b5", "b7"}}
      [] tr = "add_zero" -> {T(tr, k, 0, "-", at) : k \in {"load", "sgen", "ward", "shunt"}, at \in {"b1", "b5", "b7"}}
      [] tr \in {"fuse_move", "fuse_buses"} -> {T(tr, b, 0, "-", "-") : b \in DOMAIN Bus0}
      [] tr \in {"cont_bus", "cont_elm", "drop_oos", "drop_inactive"} -> {T(tr, "-", 0, "-", "-")}
      [] tr \in {"imp2line", "imp_rt"} -> {T(tr, e, 0, "-", "-") : e \in DOMAIN Imp0}
      [] tr = "eg2gen" -> {T(tr, e, 0, "-", "-") : e \in DOMAIN Eg0}
      [] tr = "ward2int" -> {T(tr, e, 0, "-", "-") : e \in DOMAIN Ward0}
      [] tr = "xward2int" -> {T(tr, e, 0, "-", "-") : e \in DOMAIN Xward0}
      [] tr = "merge" -> {T(tr, o, 0, "-", "-") : o \in {"12", "21"}}
      [] tr = "subnet" -> {T(tr, b, 0, "-", "-") : b \in {"b0", "b6", "b8"}}
Trs == IF Prop = "C05" THEN C05Tr ELSE C23Tr
Mk(t, b) == [prop |-> Prop] @@ t @@ b
\* candidates that are applicable on at least one corner (the final filter in Init decides per base variant)
CandsOK(tr) == {t \in Cands(tr) : Applicable(Mk(t, Corner1)) \/ Applicable(Mk(t, Corner2))}
Corners == {Mk(t, b) : t \in UNION {CandsOK(tr) : tr \in Trs}, b \in IF NCorner = 1 THEN {Corner1} ELSE {Corner1, Corner2}}
\* NRandom (candidate, base variant) pairs PER TRANSFORMATION, so that transformations with few targets are sampled as often as
\* those with many
MinI(a, b) == IF a <= b THEN a ELSE b
\* (drawn from the candidates x a random subset of 4 * NRandom base variants: the full product need not be enumerated)
SampleOf(tr) == LET B == RandomSubset(MinI(4 * NRandom, Cardinality(Bases)), Bases)
                    S == CandsOK(tr) \X B IN RandomSubset(MinI(NRandom, Cardinality(S)), S)
Sampled == {Mk(p[1], p[2]) : p \in UNION {SampleOf(tr) : tr \in Trs}}
Init == /\ cfg \in {c \in Corners \cup Sampled : Applicable(c)}
        /\ anets = ANetsOf(BaseNet(cfg), cfg)
        /\ tnet = TNetOf(BaseNet(cfg), cfg)
        /\ changed = (Len(anets) = 2 \/ tnet # anets[1])
Next == UNCHANGED <<cfg, anets, tnet, changed>>

\* ---- model-level invariants: the design of the correspondence -------------------------------------------------------------------------
net0 == IF Len(anets) = 1 THEN anets[1] ELSE tnet               \* the template of this base variant
W == [cfg |-> cfg, net |-> net0, an |-> anets, tn |-> tnet]
BusNamesA == IF Len(anets) = 1 THEN Names(anets[1], "bus") ELSE Names(anets[1], "bus") \cup Names(anets[2], "bus")
\* every transformation relates something beyond the loss totals, and every entry refers to keys that exist on its side
CorrKeysExist == LET corr == CorrOf(W)  ka == KeysA(W)  kb == KeysB(W) IN
                 /\ \E m \in corr : m.kind # "total"
                 /\ \A m \in corr : /\ m.l \subseteq (IF m.ls = "A" THEN ka ELSE kb) /\ m.r \subseteq (IF m.rs = "A" THEN ka ELSE kb)
                                     /\ m.l # {} /\ m.r # {}
\* the correspondence is total on the voltages of the buses that exist on both sides, and a bus that disappears is
\* represented by a bus of its fused class
CorrBusTotal == LET corr == CorrOf(W) IN
                /\ \A b \in BusNamesA \cap Names(tnet, "bus") : \A c \in {"vm", "va"} : EqM(<<"bus", b, c>>) \in corr
                /\ \A b \in BusNamesA \ Names(tnet, "bus") :
                      cfg.tr \in {"fuse_move", "fuse_buses"} => \E m \in corr : m.kind = "fused" /\ m.l = {<<"bus", b, "vm">>} /\ m.rs = "B"
\* no key of the original is related twice across the two networks (except to the identical parts of a parallel line), and a
\* key of the original that is not related belongs to an element that no longer exists under that table and name or is
\* explicitly re-related (Excl)
CorrFunctional == LET cross == {m \in CorrOf(W) : m.ls = "A" /\ m.rs = "B" /\ m.kind # "total"}
                      kb == KeysB(W)  ex == Excl(W) IN
                  \* (two distinct "eq" entries relate two distinct single keys: only pairs with another kind of entry can overlap)
                  /\ \A m1 \in {m \in cross : m.kind # "eq"}, m2 \in cross : (m1 # m2 /\ m1.l \cap m2.l # {}) => (m1.kind = "ren" /\ m2.kind = "ren")
                  /\ \A k \in KeysA(W) \ Covered(cross, "A") : k \notin kb \/ k \in ex
\* Sum targets partition the original: the parts of a split carry exactly the power of the original at the same bus, the
\* expanded parallel systems are `parallel` single systems with the parameters of the original
RECURSIVE SumOf(_, _)
SumOf(S, f) == IF S = {} THEN 0 ELSE LET x == CHOOSE y \in S : TRUE IN f[x] + SumOf(S \ {x}, f)
SumPartition ==
    /\ cfg.tr = "split" =>
          LET t == TabOf(net0, cfg.tgt)  ps == {Part(cfg.tgt, k) : k \in 1..cfg.n}
              P == [n \in ps |-> tnet[t][n].p]   Q == [n \in ps |-> tnet[t][n].q]
          IN /\ ps \subseteq Names(tnet, t) /\ cfg.tgt \notin Names(tnet, t)
             /\ SumOf(ps, P) = net0[t][cfg.tgt].p /\ SumOf(ps, Q) = net0[t][cfg.tgt].q
             /\ \A n \in ps : tnet[t][n].bus = net0[t][cfg.tgt].bus /\ tnet[t][n].ins
    /\ cfg.tr = "par_expand" =>
          LET e == net0.line[cfg.tgt]  ps == {Part(cfg.tgt, k) : k \in 1..e.par}
          IN /\ ps \subseteq Names(tnet, "line") /\ cfg.tgt \notin Names(tnet, "line") /\ Cardinality(ps) = e.par
             /\ \A n \in ps : [tnet.line[n] EXCEPT !.pos = 0, !.idx = 0] = [e EXCEPT !.par = 1, !.pos = 0, !.idx = 0]
\* the networks are well formed: references resolve, index labels and row positions are unique per table
WellFormed(net) == /\ \A t \in AllT : \A n \in Names(net, t) : BusesOf(net, t, n) \subseteq Names(net, "bus")
                   /\ \A s \in Names(net, "switch") : /\ net.switch[s].elem \in Names(net, SwTab(net.switch[s].et))
                                                        /\ net.switch[s].et # "b" => net.switch[s].bus \in BusesOf(net, SwTab(net.switch[s].et), net.switch[s].elem)
                   /\ \A t \in AllT : \A n1 \in Names(net, t), n2 \in Names(net, t) :
                         n1 # n2 => (net[t][n1].idx # net[t][n2].idx /\ net[t][n1].pos # net[t][n2].pos)
NetsWellFormed == WellFormed(tnet) /\ \A k \in 1..Len(anets) : WellFormed(anets[k])
\* neutrality of the topology: a bus that exists before and after is energised after iff it was before, and the template keeps
\* every bus but b8 energised
SuppliedA == IF Len(anets) = 1 THEN Supplied(anets[1]) ELSE Supplied(anets[1]) \cup Supplied(anets[2])
EnergisationKept == LET sa == SuppliedA  sb == Supplied(tnet) IN
                    /\ \A b \in BusNamesA \cap Names(tnet, "bus") : (b \in sa) = (b \in sb)
                    /\ Supplied(net0) = Names(net0, "bus") \ {"b8"}
=============================================================================
