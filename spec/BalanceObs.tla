------------------------------- MODULE BalanceObs -------------------------------
(* C01 / C03 / C04 / C10, implementation level: every configuration of BalanceNet.tla instantiated on the template,    *)
(* solved by runpp / rundcpp, result tables logged in fixed point under the element / terminal names of BalanceDef.    *)
(*   C.cfg   the configuration          C.conv  the run reported convergence                                          *)
(*   C.node  [name -> [p, q, vm]]       C.term  [terminal -> [p, q]]     C.pl / C.ql  [branch -> losses]               *)
(*   C.bus   [vm, va, p, q : Seq over buses 0..5]                        C.inp  the inputs the response laws refer to  *)
(* All relations have the antecedent "the run converged".                                                              *)
EXTENDS BalanceDef, Fix, Wide, Json, IOUtils
VARIABLE i
Cases == JsonDeserialize(IOEnv.OBS_FILE)
OInit == i \in 1..Len(Cases)
ONext == UNCHANGED i
C == Cases[i]
cfg == C.cfg
AC == cfg.mode = "ac"
PQ == IF AC THEN {"p", "q"} ELSE {"p"}

\* ---- C01: Kirchhoff at every fused class, bus result = net consumption -------------------------------------------------
NodeCons(n, x) == Sign(Node[n].kind) * C.node[n][x]
InjClass(k, x) == SumSet(NodesInClass(cfg, k), [n \in NodesInClass(cfg, k) |-> NodeCons(n, x)])
FlowClass(k, x) == SumSet(TermsInClass(cfg, k), [t \in TermsInClass(cfg, k) |-> C.term[TermName(t)][x]])
NTerms(k) == Cardinality(NodesInClass(cfg, k)) + Cardinality(TermsInClass(cfg, k))
KclTol(k) == 3 + NTerms(k)                       \* micro-units: rounding of every logged term + solver tolerance 1e-10 MVA
C01_KCL_P == C.conv => \A k \in Classes : AbsI(InjClass(k, "p") + FlowClass(k, "p")) <= KclTol(k)
C01_KCL_Q == (C.conv /\ AC) => \A k \in Classes : AbsI(InjClass(k, "q") + FlowClass(k, "q")) <= KclTol(k)
\* res_bus p_mw / q_mvar of bus b = consumption of the elements AT b, dcline terminals included (property statement)
DcAt(b) == {t \in TermsAtBus(cfg, b) : Branch[t[1]].kind = "dcline"}
BusCons(b, x) == SumSet(NodesAtBus(cfg, b), [n \in NodesAtBus(cfg, b) |-> NodeCons(n, x)])
                 + SumSet(DcAt(b), [t \in DcAt(b) |-> C.term[TermName(t)][x]])
C01_BusResult_P == C.conv => \A b \in Buses : AbsI(C.bus.p[b + 1] - BusCons(b, "p")) <= 3 + Cardinality(NodesAtBus(cfg, b))
C01_BusResult_Q == (C.conv /\ AC) => \A b \in Buses : AbsI(C.bus.q[b + 1] - BusCons(b, "q")) <= 3 + Cardinality(NodesAtBus(cfg, b))

\* ---- C03: conservation, loss = sum of terminal powers, non-negative losses of passive branches --------------------------
OnNodes == {n \in NodeNames : On(cfg, n)}
OnBranches == {b \in BranchNames : On(cfg, b)}
TotalCons == SumSet(OnNodes, [n \in OnNodes |-> NodeCons(n, "p")])            \* consumption minus generation
TotalLoss == SumSet(OnBranches, [b \in OnBranches |-> IF Branch[b].kind = "switch" THEN C.term["z0_f"].p + C.term["z0_t"].p ELSE C.pl[b]])
C03_Conservation == C.conv => AbsI(TotalCons + TotalLoss) <= 5 + Cardinality(OnNodes) + 3 * Cardinality(OnBranches)
BrTermSum(b, x) == SumSet(1..Len(Branch[b].ends), [j \in 1..Len(Branch[b].ends) |-> C.term[Branch[b].ends[j]][x]])
HasLossCol(b) == Branch[b].kind # "switch"
C03_LossIsTerminalSum == C.conv => \A b \in OnBranches : HasLossCol(b) => AbsI(C.pl[b] - BrTermSum(b, "p")) <= 4
\* every branch of the template is passive (r, g, pfe >= 0; the dcline has loss_percent, loss_mw >= 0)
C03_LossNonNegative == (C.conv /\ AC) => \A b \in OnBranches : BrTermSum(b, "p") >= -4
C03_DcLossless == (C.conv /\ ~AC) => /\ \A b \in OnBranches : Branch[b].kind # "dcline" => AbsI(BrTermSum(b, "p")) <= 3
                                     /\ AbsI(TotalCons + (IF On(cfg, "d0") THEN C.pl["d0"] ELSE 0)) <= 5 + Cardinality(OnNodes)

\* ---- C04: setpoints and response laws -------------------------------------------------------------------------------------
Vm(b) == C.bus.vm[b + 1]
C04_ExtGridSetpoint == C.conv => /\ (AC => Vm(0) = C.inp.e0.vm)
                                 /\ AbsI(C.bus.va[1] - C.inp.e0.va) <= 1
Gens == {g \in {"g0", "g1", "g2", "g3"} : On(cfg, g)}
GenBus(g) == Node[g].bus
\* total reactive power of the gens at one bus against their total limits (several gens on a bus share the bus)
QSum(b) == SumSet({g \in Gens : GenBus(g) = b}, [g \in {g \in Gens : GenBus(g) = b} |-> C.node[g].q])
QMin(b) == SumSet({g \in Gens : GenBus(g) = b}, [g \in {g \in Gens : GenBus(g) = b} |-> C.inp[g].qmin])
QMax(b) == SumSet({g \in Gens : GenBus(g) = b}, [g \in {g \in Gens : GenBus(g) = b} |-> C.inp[g].qmax])
QTol == 30
\* a gen bus holds the setpoint, unless the limit is enforced and the gens of the bus sit exactly at a limit.  (Which of the
\* two limits is not prescribed by the property: the classical PV->PQ switching fixes every gen at the limit it violated in
\* the iteration it was switched, which need not be the one that explains the final voltage deviation.)
\* "Sits at the limit" refers to the CONVERGED STATE, not only to the reported number: the limit value is the injection the solved
\* voltages and flows carry, i.e. the reactive nodal balance of the gen's (fused) bus closes with it.  The injection cannot be
\* derived that way where a ZIP load under voltage_depend_loads shares the bus (its reported consumption is not the one the
\* solver used: finding C01|C01_KCL_Q|zip_load_shares_bus) -- there only the reported value is required.
IsConstPower(n) == C.inp[n].cz = 0 /\ C.inp[n].ci = 0
QBalanced(k) == AbsI(InjClass(k, "q") + FlowClass(k, "q")) <= KclTol(k)
ZipAt(k) == cfg.vdl /\ \E n \in {"ld0", "ld1", "ld2", "ld3"} : On(cfg, n) /\ Class(Node[n].bus) = k /\ ~IsConstPower(n)
AtLimit(b) == /\ (AbsI(QSum(b) - QMax(b)) <= QTol \/ AbsI(QSum(b) - QMin(b)) <= QTol)
              /\ (ZipAt(Class(b)) \/ QBalanced(Class(b)))
C04_GenVoltageOrLimit == (C.conv /\ AC) => \A g \in Gens :
     \/ AbsI(Vm(GenBus(g)) - C.inp[g].vm) <= 2
     \/ (cfg.qlims /\ AtLimit(GenBus(g)))
C04_QWithinLimits == (C.conv /\ AC /\ cfg.qlims) => \A g \in Gens : C.node[g].q >= C.inp[g].qmin - QTol /\ C.node[g].q <= C.inp[g].qmax + QTol
\* p * scaling for non-slack gens (not under distributed slack), sgens, constant-power loads, storages
MulSc(p, sc) == WMul(WInt(p), WInt(sc))                      \* p [micro] * scaling [micro]
EqScaled(res, p, sc) == WClose(WShift(WScale(WInt(res), 100), 1), MulSc(p, sc), 3000000, 5)      \* res * 10^6 = p * sc (3 micro abs)
C04_PSetpoints == C.conv =>
     /\ \A g \in Gens : ~cfg.dslack => EqScaled(C.node[g].p, C.inp[g].p, C.inp[g].sc)
     /\ \A n \in {"sg0", "sg1", "st0"} : On(cfg, n) => (EqScaled(C.node[n].p, C.inp[n].p, C.inp[n].sc) /\ (AC => EqScaled(C.node[n].q, C.inp[n].q, C.inp[n].sc)))
     /\ \A n \in {"ld0", "ld1", "ld2", "ld3"} : (On(cfg, n) /\ (IsConstPower(n) \/ ~cfg.vdl \/ ~AC)) =>
             (EqScaled(C.node[n].p, C.inp[n].p, C.inp[n].sc) /\ (AC => EqScaled(C.node[n].q, C.inp[n].q, C.inp[n].sc)))
\* ZIP law: res * 100 = p * scaling * (cp + ci * v + cz * v^2), v = solved voltage magnitude at the load's bus (all in micro units):
\*   res * 10^6 * 100 * 10^12  =  p * sc * (cp * 10^12 + ci * v * 10^6 + cz * v^2)
ZipPoly(n, v) == WAdd(WAdd(WShift(WInt(100 - C.inp[n].cz - C.inp[n].ci), 3), WScale(WShift(WScale(WInt(v), C.inp[n].ci), 1), 100)),
                      WScale(WSq(WInt(v)), C.inp[n].cz))
ZipOK(n, x) == WRelClose(WShift(WInt(C.node[n][x]), 5), WMul(MulSc(C.inp[n][x], C.inp[n].sc), ZipPoly(n, Vm(Node[n].bus))), 40)
C04_ZipLaw == (C.conv /\ AC /\ cfg.vdl) => \A n \in {"ld0", "ld1", "ld2", "ld3"} : On(cfg, n) => (ZipOK(n, "p") /\ ZipOK(n, "q"))
\* shunt: res = step * p * (v * vn_bus / vn_shunt)^2   <=>   res * vn_shunt^2 * 10^12 = step * p * v^2 * vn_bus^2   (vn in 0.1 kV)
ShuntOK(x) == WRelClose(WShift(WScale(WScale(WInt(C.node.sh0[x]), C.inp.sh0.vn), C.inp.sh0.vn), 3),
                        WScale(WScale(WScale(WMul(WInt(C.inp.sh0[x]), WSq(WInt(Vm(1)))), C.inp.sh0.step), C.inp.sh0.vnbus), C.inp.sh0.vnbus), 40)
C04_ShuntLaw == (C.conv /\ AC /\ On(cfg, "sh0")) => (ShuntOK("p") /\ ShuntOK("q"))

\* ---- C10: distributed slack ---------------------------------------------------------------------------------------------------
\* participants and their deviation from the setpoint: ext_grid (setpoint 0), gens (p * scaling), xward (ps_mw at its internal gen
\* is NOT a result column; the xward takes part through its internal generator: deviation = result - consumption at the bus
\* is not observable from the result table, so the xward is checked through the balance only)
Part == {n \in {"e0", "g0", "g1", "g2", "g3"} : On(cfg, n) /\ C.inp[n].w > 0}
NonPart == {n \in {"g0", "g1", "g2", "g3"} : On(cfg, n) /\ C.inp[n].w = 0}
Dev(n) == IF n = "e0" THEN C.node.e0.p ELSE C.node[n].p - (C.inp[n].p \div 1000) * (C.inp[n].sc \div 1000)
C10_Proportional == (C.conv /\ AC /\ cfg.dslack) => \A a \in Part, b \in Part : AbsI(Dev(a) * C.inp[b].w - Dev(b) * C.inp[a].w) <= 20 * (C.inp[a].w + C.inp[b].w)
C10_NonParticipantsKeepSetpoint == (C.conv /\ AC /\ cfg.dslack) => \A n \in NonPart : AbsI(Dev(n)) <= 5
C10_BalanceHolds == (C.conv /\ AC /\ cfg.dslack) => \A k \in Classes : AbsI(InjClass(k, "p") + FlowClass(k, "p")) <= KclTol(k)
=============================================================================
