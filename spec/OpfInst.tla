------------------------------- MODULE OpfInst -------------------------------
(* Instantiation service: for the configurations selected by the harness (a JSON list of cfg records taken from the   *)
(* dump of Opf.tla) write the concrete network data Inst(cfg) -- limits, set points, cost rows -- as JSON.  The       *)
(* harness builds the pandapower nets from this file only, so the numbers of the template exist in one place.         *)
EXTENDS OpfDef, Json, IOUtils
Cfgs == JsonDeserialize(IOEnv.OBS_FILE)
ASSUME JsonSerialize(IOEnv.INST_FILE, [k \in 1..Len(Cfgs) |-> Inst(Cfgs[k])])
VARIABLE i
OInit == i = 0
ONext == UNCHANGED i
=============================================================================
