INIT Init
NEXT Next
CONSTANTS
  Kinds = {"DTOC", "IDMT", "IDTOC", "FUSE"}
  ILevels = {8, 16, 24}
  TLevels = {2}
  DLevels = {2}
  MLevels = {1}
  GLevels = {4}
  Curves = {"very_inverse"}
  PRoutes = {"manual", "auto"}
  TRoutes = {"frame", "list"}
  Envs = {0, 11}
  FRoutes = {"direct", "std"}
  StdSets = {{"m", "t"}}
  Sels = {0, 1}
  Places = {0, 1, 10}
  NPoints = {3}
  XLevels = {8, 16, 24}
  YLevels = {1, 3}
  Probe = "reps"
  Depth = 2
INVARIANT Consistent
INVARIANT TripIffPickup
INVARIANT GradedIsMonotone
INVARIANT BoundariesProbed
INVARIANT RepsCoverStages
INVARIANT DecoyFlips
INVARIANT Stateless
INVARIANT SwitchFollows
