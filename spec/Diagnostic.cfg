INIT Init
NEXT Next
CONSTANT MaxLen = 4
INVARIANT Consistent
INVARIANT Stateless
