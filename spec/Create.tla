--------------------------------- MODULE Create ---------------------------------
(* C24 — batch creation equals one-by-one creation (create/*.py).                                               *)
(* A configuration chooses the create pair, which optional parameter groups are passed explicitly, the SHAPE of   *)
(* the standard type (which optional groups the type defines), and an error condition.  Every value has a         *)
(* distinct sentinel per source (explicit argument / standard type / library default), so that the created rows   *)
(* show the PROVENANCE of each parameter.                                                                          *)
(* REQUIRED: rows(batch) = rows(single_1 ; single_2) and  batch rejects <=> some single call rejects, with no     *)
(* partial creation.  Parameter-group names are expanded by harness/checks/c24.py (GROUPS).                       *)
EXTENDS Integers, FiniteSets, TLC
Pairs == {"bus", "line_std", "line_par", "trafo_std", "trafo_par", "trafo3w_std", "trafo3w_par", "load", "sgen", "gen",
          "storage", "shunt", "ward", "switch", "impedance", "poly_cost", "pwl_cost"}
Opt(p) ==
  CASE p = "bus"         -> {"max_vm_pu", "zone", "in_service"}
    [] p = "line_std"    -> {"df", "parallel", "max_loading_percent"}
    [] p = "line_par"    -> {"df", "g_us_per_km", "zero_seq_line", "alpha"}
    [] p = "trafo_std"   -> {"tap_pos", "parallel", "df", "max_loading_percent"}
    [] p = "trafo_par"   -> {"shift_degree", "tapgroup", "zero_seq_trafo", "parallel"}
    [] p = "trafo3w_std" -> {"tap_pos", "max_loading_percent", "tap_at_star_point"}
    [] p = "trafo3w_par" -> {"shift3w", "tapgroup3w", "max_loading_percent"}
    [] p = "load"        -> {"q_mvar", "zip", "scaling", "limits"}
    [] p = "sgen"        -> {"q_mvar", "scaling", "limits", "sc_sgen"}
    [] p = "gen"         -> {"vm_pu", "limits", "slack", "sc_gen"}
    [] p = "storage"     -> {"q_mvar", "soc_percent", "limits"}
    [] p = "shunt"       -> {"p_mw", "vn_kv", "step"}
    [] p = "ward"        -> {"in_service"}
    [] p = "switch"      -> {"closed", "z_ohm", "in_ka"}
    [] p = "impedance"   -> {"rtf_xtf", "zero_seq_imp", "shunt_imp"}
    [] p = "poly_cost"   -> {"cp0_eur", "cq1_eur_per_mvar", "cp2_eur_per_mw2"}
    [] p = "pwl_cost"    -> {"power_type"}
Shape(p) ==      \* optional groups a standard type may define
  CASE p = "line_std"    -> {"std_type_q", "std_alpha", "std_endtemp"}
    [] p = "trafo_std"   -> {"std_shift", "std_tap", "std_zero"}
    [] p = "trafo3w_std" -> {"std_shift3w", "std_tap3w"}
    [] OTHER -> {}
\* "none_pre_pq": not an error - ANOTHER element already carries both a 'p' and a 'q' pwl cost (legal, two rows for one element)
Errs(p) == {"none", "dup_index_net", "dup_index_batch"}
           \cup (IF p \in {"bus"} THEN {} ELSE IF p \in {"poly_cost", "pwl_cost"} THEN {"dup_cost_net", "dup_cost_batch", "none_pre_pq"} ELSE {"missing_bus"})
\* part: 0 = every parameter of the chosen groups is passed; k > 0 = the k-th optional parameter (cyclically) is left out, so
\* that partially specified groups (one of a pair of to-side values ...) are enumerated too
Parts == 0..3
Cfgs == UNION {[pair : {p}, opts : SUBSET Opt(p), shape : SUBSET Shape(p), err : Errs(p), part : IF Opt(p) = {} THEN {0} ELSE Parts] : p \in Pairs}
Rejects(c) == c.err \notin {"none", "none_pre_pq"}
VARIABLES cfg
Init == cfg \in Cfgs
Next == UNCHANGED cfg
\* sanity of the enumeration
EveryPairWithEveryError == \A p \in Pairs : \A e \in Errs(p) : \E c \in Cfgs : c.pair = p /\ c.err = e
=============================================================================
