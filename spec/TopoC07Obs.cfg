INIT Init
NEXT Next
INVARIANT C07_NaN_eq_TopoModule_AC
INVARIANT C07_NaN_eq_TopoModule_DC
INVARIANT C07_NaN_eq_Unconnected_AC
INVARIANT C07_NaN_eq_Unconnected_DC
INVARIANT C07_TopoModule_eq_Spec
INVARIANT C07_DeadElementsZero
INVARIANT C07_LiveBusesFinite
