---------------------------------- MODULE Wide ----------------------------------
(* Multi-limb integer arithmetic in pure TLA+ (DESIGN 2.3).  TLC integers are 32 bit and overflow is an error, so   *)
(* every operand of a product that does not fit is logged as a WIDE integer:                                       *)
(*     [s |-> sign, m |-> little-endian sequence of limbs in base 10^4]                                            *)
(* s = 1 / -1 for numbers (zero is [s |-> 1, m |-> <<>>]; magnitudes carry no leading zero limb), s = 0 marks a     *)
(* NON-NUMBER with m = <<1>> NaN, <<2>> +inf, <<3>> -inf (harness: harness.common.wide() for finite floats).        *)
(* Limb products are < 10^8 and a column of a schoolbook product sums at most 20 of them (< 2^31): operands of     *)
(* WMul must have at most 20 limbs (80 decimal digits) -- beyond that TLC raises an overflow error, it never wraps. *)
(* Nothing here is overridden by Java code; the ASSUMEs at the end cross-check every operator against TLC's native *)
(* arithmetic at each start.                                                                                       *)
EXTENDS Integers, Sequences
WBase == 10000

\* ---- magnitudes (sequences of limbs, least significant first) -------------------------------------------------
RECURSIVE MNorm(_)
MNorm(a) == IF a = <<>> THEN a ELSE IF a[Len(a)] = 0 THEN MNorm(SubSeq(a, 1, Len(a) - 1)) ELSE a
Limb(a, k) == IF k <= Len(a) THEN a[k] ELSE 0
RECURSIVE MCmpR(_, _, _)
MCmpR(a, b, k) == IF k = 0 THEN 0 ELSE IF a[k] < b[k] THEN -1 ELSE IF a[k] > b[k] THEN 1 ELSE MCmpR(a, b, k - 1)
MCmp(a, b) == IF Len(a) < Len(b) THEN -1 ELSE IF Len(a) > Len(b) THEN 1 ELSE MCmpR(a, b, Len(a))   \* normalised operands
RECURSIVE MAddR(_, _, _, _)
MAddR(a, b, k, c) == IF k > Len(a) /\ k > Len(b) THEN (IF c = 0 THEN <<>> ELSE <<c>>)
                     ELSE LET x == Limb(a, k) + Limb(b, k) + c IN <<x % WBase>> \o MAddR(a, b, k + 1, x \div WBase)
MAdd(a, b) == MAddR(a, b, 1, 0)
RECURSIVE MSubR(_, _, _, _)
MSubR(a, b, k, borrow) == IF k > Len(a) THEN <<>>                                 \* requires a >= b
                          ELSE LET x == a[k] - Limb(b, k) - borrow
                               IN IF x < 0 THEN <<x + WBase>> \o MSubR(a, b, k + 1, 1) ELSE <<x>> \o MSubR(a, b, k + 1, 0)
MSub(a, b) == MNorm(MSubR(a, b, 1, 0))
RECURSIVE MColSum(_, _, _, _)
MColSum(a, b, p, k) == IF k > Len(a) \/ k > p THEN 0                              \* sum of a[k] * b[p + 1 - k]
                       ELSE (IF p + 1 - k <= Len(b) THEN a[k] * b[p + 1 - k] ELSE 0) + MColSum(a, b, p, k + 1)
RECURSIVE MMulR(_, _, _, _)
MMulR(a, b, p, c) == IF p > Len(a) + Len(b) THEN (IF c = 0 THEN <<>> ELSE <<c>>)
                     ELSE LET x == MColSum(a, b, p, IF p > Len(b) THEN p + 1 - Len(b) ELSE 1) + c
                          IN <<x % WBase>> \o MMulR(a, b, p + 1, x \div WBase)
MMul(a, b) == IF a = <<>> \/ b = <<>> THEN <<>> ELSE MNorm(MMulR(a, b, 1, 0))
RECURSIVE MSmallR(_, _, _, _)
MSmallR(a, n, k, c) == IF k > Len(a) THEN (IF c = 0 THEN <<>> ELSE <<c % WBase>> \o MSmallR(a, n, k, c \div WBase))
                       ELSE LET x == a[k] * n + c IN <<x % WBase>> \o MSmallR(a, n, k + 1, x \div WBase)
MSmall(a, n) == IF n = 0 THEN <<>> ELSE MSmallR(a, n, 1, 0)                        \* 0 <= n <= 200000
RECURSIVE MFromNat(_)
MFromNat(n) == IF n = 0 THEN <<>> ELSE <<n % WBase>> \o MFromNat(n \div WBase)
Zeros(n) == [k \in 1..n |-> 0]

\* ---- signed wide integers --------------------------------------------------------------------------------------
IsW(w) == w.s # 0                                           \* a number (not NaN / inf)
WZero == [s |-> 1, m |-> <<>>]
WMk(s, m) == IF m = <<>> THEN WZero ELSE [s |-> s, m |-> m]
WInt(n) == IF n < 0 THEN WMk(-1, MFromNat(-n)) ELSE WMk(1, MFromNat(n))
WNeg(a) == WMk(-a.s, a.m)
WAbs(a) == WMk(1, a.m)
WAdd(a, b) == IF a.s = b.s THEN WMk(a.s, MAdd(a.m, b.m))
              ELSE LET c == MCmp(a.m, b.m)
                   IN IF c = 0 THEN WZero ELSE IF c > 0 THEN WMk(a.s, MSub(a.m, b.m)) ELSE WMk(b.s, MSub(b.m, a.m))
WSub(a, b) == WAdd(a, WNeg(b))
WMul(a, b) == WMk(a.s * b.s, MMul(a.m, b.m))
WSq(a) == WMk(1, MMul(a.m, a.m))
WScale(a, n) == IF n < 0 THEN WMk(-a.s, MSmall(a.m, -n)) ELSE WMk(a.s, MSmall(a.m, n))    \* |n| <= 200000
WShift(a, n) == IF a.m = <<>> THEN a ELSE WMk(a.s, Zeros(n) \o a.m)                  \* times 10^(4n)
WCmp(a, b) == IF a.m = <<>> /\ b.m = <<>> THEN 0
              ELSE IF a.s # b.s THEN (IF a.s < b.s THEN -1 ELSE 1)
              ELSE a.s * MCmp(a.m, b.m)
WLe(a, b) == WCmp(a, b) <= 0
WMax(a, b) == IF WCmp(a, b) >= 0 THEN a ELSE b
\* |a - b| <= abs + rel_ppm * 10^-6 * max(|a|, |b|); non-numbers are close only to the same non-number
WClose(a, b, abs, relppm) ==
  IF a = b THEN TRUE                                        \* fast path: identical values (and identical non-numbers)
  ELSE IF IsW(a) /\ IsW(b) THEN WLe(WShift(WScale(WAbs(WSub(a, b)), 100), 1),            \* 10^6 * |a - b|
                               WAdd(WShift(WScale(WInt(abs), 100), 1), WScale(WMax(WAbs(a), WAbs(b)), relppm)))
  ELSE FALSE
\* |a - b| <= rel_ppm * 10^-6 * max(|a|, |b|)   (for products of observations; no absolute part)
WRelClose(a, b, relppm) == WLe(WShift(WScale(WAbs(WSub(a, b)), 100), 1), WScale(WMax(WAbs(a), WAbs(b)), relppm))

\* ---- self test against native arithmetic (evaluated at every TLC start) ----------------------------------------
WTestVals == {-46000, -10001, -10000, -9999, -123, -1, 0, 1, 7, 9999, 10000, 10001, 20808, 46000}
ASSUME \A a \in WTestVals, b \in WTestVals :
         /\ WAdd(WInt(a), WInt(b)) = WInt(a + b)
         /\ WSub(WInt(a), WInt(b)) = WInt(a - b)
         /\ WMul(WInt(a), WInt(b)) = WInt(a * b)
         /\ WScale(WInt(a), b) = WInt(a * b)
         /\ (WCmp(WInt(a), WInt(b)) = -1) = (a < b)
         /\ (WCmp(WInt(a), WInt(b)) = 0) = (a = b)
ASSUME \A a \in WTestVals : WShift(WInt(a), 1) = WInt(a * 10000) /\ WSq(WInt(a)) = WInt(a * a) /\ WAbs(WInt(a)) = WInt(IF a < 0 THEN -a ELSE a)
\* beyond 32 bit: 99999999^2 = 9999999800000001, (10^8 + 1)(10^8 - 1) = 10^16 - 1, and 12345678901234567890 * 98765 = 1219320976680432097655850
ASSUME WSq(WInt(99999999)) = [s |-> 1, m |-> <<1, 0, 9998, 9999>>]
ASSUME WMul(WInt(100000001), WInt(-99999999)) = [s |-> -1, m |-> <<9999, 9999, 9999, 9999>>]
ASSUME WMul([s |-> 1, m |-> <<7890, 3456, 9012, 5678, 1234>>], WInt(98765)) = [s |-> 1, m |-> <<5850, 9765, 4320, 6680, 2097, 2193, 1>>]
ASSUME WSub(WShift(WInt(1), 4), WInt(1)) = [s |-> 1, m |-> <<9999, 9999, 9999, 9999>>]
ASSUME WClose(WInt(1000000), WInt(1000001), 0, 1) /\ ~WClose(WInt(1000000), WInt(1000002), 0, 1)
ASSUME WClose(WInt(5), WInt(8), 3, 0) /\ ~WClose(WInt(5), WInt(9), 3, 0) /\ ~WClose([s |-> 0, m |-> <<1>>], WInt(1), 3, 0)
ASSUME WClose([s |-> 0, m |-> <<1>>], [s |-> 0, m |-> <<1>>], 0, 0) /\ ~WClose([s |-> 0, m |-> <<1>>], [s |-> 0, m |-> <<2>>], 0, 0)
=============================================================================
