INIT Init
NEXT Next
CONSTANTS
  Topos = {"radial", "loop1", "loop2"}
  SlackKinds = {"ext_grid", "gen"}
  SlackPos = {0, 1}
  PVs = {FALSE, TRUE}
  XSs = {FALSE, TRUE}
  TrafoKinds = {"none", "t150"}
  Loads = {"moderate"}
  PVsA = {FALSE}
  TrafoKindsA = {"none"}
  LoadsA = {"moderate"}
  Topos2 = {"radial", "loop1", "loop2"}
  SlackKinds2 = {"ext_grid", "gen"}
  SlackPos2 = {0}
  PV2s = {FALSE}
  TrafoKinds2 = {"t150"}
  MaxIslands = 2
INVARIANT M_TypeOK
INVARIANT M_ClassSound
INVARIANT M_PlanSane
INVARIANT M_StepShape
