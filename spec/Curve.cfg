INIT Init
NEXT Next
CONSTANTS
  NSet = {2, 3, 4}
  X1Set = {3}
  DXSet = {1, 3}
  DYSet = {0, 1, 2}
  Interp = {"linear", "quadratic", "cubic", "previous", "pchip"}
  Conts = {"list", "array"}
  Routes = {"netjson", "objjson", "deepcopy", "pickle"}
  MaxSer = 1
  SerMaxN = 4
  FullMaxN = 3
INVARIANT TypeOK
INVARIANT CacheIsFoldOfHistory
INVARIANT CacheMeaning
INVARIANT DataWellFormed
INVARIANT AbscissaeOrdered
INVARIANT ExactModelMeetsRequirement
PROPERTY RequirementIndependentOfHistory
