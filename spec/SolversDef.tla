------------------------------ MODULE SolversDef ------------------------------
(* C06 -- all power flow algorithms and back-ends agree on the solution.                                          *)
(*                                                                                                                *)
(* Shared definitions of the model (Solvers.tla) and of the observation module (SolversObs.tla):                  *)
(*   1. the abstract NETWORK CLASS (1..2 islands, each a copy of a 4-bus template) and its graph-theoretic         *)
(*      classification (islands, slack elements per island, cyclomatic number) -- uses Reach of Topology.tla;      *)
(*   2. the DECISION FUNCTIONS of the code between runpp() and the numerical kernels, transcribed with file:line:  *)
(*      option resolution, lightsim2grid compatibility, algorithm dispatch, call sequence, pfsoln selection;       *)
(*   3. a model of the INDEX ARITHMETIC of the backward/forward sweep (BIBC/BCBV columns, ordered BFS tree,         *)
(*      transformer phase-shift post-processing) from which the spec PREDICTS where the sweep breaks;              *)
(*   4. the REQUIRED outcome set of every solver run (what the property allows), computed from the class.          *)
(* No numerics: voltages and flows are left to the implementation and compared by SolversObs.tla.                 *)
EXTENDS Integers, Sequences, FiniteSets, TLC
Topo == INSTANCE Topology          \* shared topology model: Reach (undirected reachability), MinOf, IsPartition

(* Switches of the CODE MODEL (not of the property).  They describe the tree as repaired by the two "fix:" commits    *)
(* recorded in known_findings.jsonl; the alternatives are the pinned rules that produced the defects.               *)
ColRule   == "rank_nonroot"        \* run_bfswpf.py: column of a bus = its rank among the non-root buses   | pinned: "bus_minus_norefs"
ShiftRule == "tree_trafos"         \* run_bfswpf.py: angle rotation only across transformers of the tree   | pinned: "all_trafos"
Ls2gInstalled  == TRUE             \* lightsim2grid importable (auxiliary.py:1313)
NumbaInstalled == TRUE             \* numba importable (run_newton_raphson_pf.py:24-30)

-----------------------------------------------------------------------------
(* 1. NETWORK CLASS.  A class c is a sequence of 1..2 island descriptors                                          *)
(*      d = [topo, slack, spos, pv, xs, trafo, load]                                                              *)
(*    topo  "radial" | "loop1" | "loop2"   slack "ext_grid" | "gen" (gen with slack=True)   spos  template bus of *)
(*    the slack   pv  PV generator at template bus 2   xs  a second ext_grid at template bus 2   trafo "none" |    *)
(*    "t0" | "t150" (branches into bus 3 are 20/0.4 kV transformers with 0 / 150 degree shift)  load level.        *)
(*    Template wiring of island k (harness/checks/c06.py builds exactly this; from -> to as in the tables):        *)
(*      a: 0->1   b: 1->2   c: 2->3 (line or trafo hv=2)   d: 0->2 (loop1, loop2)   e: 1->3 (loop2; like c)        *)
(*    Bus j of island k is pandapower bus 4(k-1)+j.  All buses are in service and nothing is fused, so this is     *)
(*    also the ppci bus number: pd2ppc.py:300-306 (_ppc2ppci) keeps the table order and only moves out-of-service *)
(*    buses to the end -- it does NOT put the reference buses first.                                              *)
NB == 4
BusOf(k, j) == NB * (k - 1) + j
IslandIdx(b) == (b \div NB) + 1
NoBus(c) == NB * Len(c)
Buses(c) == 0..(NoBus(c) - 1)
Block(k) == {BusOf(k, j) : j \in 0..(NB - 1)}
HasTrafo(d) == d.trafo # "none"
ShiftOf(d) == IF d.trafo = "t150" THEN 1 ELSE 0          \* in units of 150 degrees
DeclaredLoops(d) == CASE d.topo = "radial" -> 0 [] d.topo = "loop1" -> 1 [] d.topo = "loop2" -> 2

\* directed branches <<from, to, kind>>
IslandArcs(d, k) ==
  LET B(j) == BusOf(k, j)
      ck == IF HasTrafo(d) THEN "trafo" ELSE "line"
  IN  {<<B(0), B(1), "line">>, <<B(1), B(2), "line">>, <<B(2), B(3), ck>>}
      \cup (IF d.topo \in {"loop1", "loop2"} THEN {<<B(0), B(2), "line">>} ELSE {})
      \cup (IF d.topo = "loop2" THEN {<<B(1), B(3), ck>>} ELSE {})
Arcs(c) == UNION {IslandArcs(c[k], k) : k \in DOMAIN c}
Edges(c) == {<<a[1], a[2]>> : a \in Arcs(c)}             \* the template has no parallel branches
NoBranch(c) == Cardinality(Arcs(c))

\* slack elements <<bus, kind>>; reference / PV / PQ buses as bustypes() sees them (pypower/bustypes.py)
SlackElems(c) == {<<BusOf(k, c[k].spos), c[k].slack>> : k \in DOMAIN c}
                 \cup {<<BusOf(k, 2), "ext_grid">> : k \in {k \in DOMAIN c : c[k].xs}}
RefBuses(c) == {s[1] : s \in SlackElems(c)}
PVBuses(c) == {BusOf(k, 2) : k \in {k \in DOMAIN c : c[k].pv}} \ RefBuses(c)
PQBuses(c) == (Buses(c) \ RefBuses(c)) \ PVBuses(c)
NoRefs(c) == Cardinality(RefBuses(c))
\* rows of ppci["gen"]: one per in-service ext_grid and gen (build_gen.py)
NGen(c) == Cardinality(SlackElems(c)) + Cardinality({k \in DOMAIN c : c[k].pv})

\* graph-theoretic classification (independent of the block structure; Solvers!M_ClassSound ties the two together)
Island(c, b) == Topo!Reach({b}, Edges(c))
RECURSIVE Components(_, _)
Components(c, rest) == IF rest = {} THEN {} ELSE LET I == Island(c, Topo!MinOf(rest)) IN {I} \cup Components(c, rest \ I)
Islands(c) == Components(c, Buses(c))                  \* connected components of the branch graph
EdgesIn(c, I) == {e \in Edges(c) : e[1] \in I}
Cyclomatic(c, I) == Cardinality(EdgesIn(c, I)) - Cardinality(I) + 1
SlacksIn(c, I) == {s \in SlackElems(c) : s[1] \in I}
PVIn(c, I) == PVBuses(c) \cap I

\* The property's antecedents.  "weakly meshed" is read narrowly (at most WeakLoopMax independent loops per island) so
\* that the check never demands more than the property states.
WeakLoopMax == 1
BfswApplicable(c) == \A I \in Islands(c) : Cardinality(SlacksIn(c, I)) = 1 /\ Cyclomatic(c, I) <= WeakLoopMax
\* sub-class where convergence of the sweep is not in question: PQ-only radial islands, light or moderate loading
BfswMustSolve(c) == /\ BfswApplicable(c)
                    /\ \A k \in DOMAIN c : LET I == Island(c, BusOf(k, 0)) IN
                         Cyclomatic(c, I) = 0 /\ PVIn(c, I) = {} /\ c[k].load \in {"light", "moderate"}

-----------------------------------------------------------------------------
(* 2. DECISION FUNCTIONS between runpp() and the kernels                                                          *)

\* solver configurations = what the harness passes to runpp (besides tolerance_mva = 1e-9, calculate_voltage_angles);
\* ls2g: "auto" = keyword not passed (run.py default), "on"/"off" = lightsim2grid=True/False
SolverCfg == [
  nr         |-> [alg |-> "nr",         init |-> "auto",    ls2g |-> "auto", numba |-> TRUE,  maxit |-> 30],
  nr_pp      |-> [alg |-> "nr",         init |-> "auto",    ls2g |-> "off",  numba |-> TRUE,  maxit |-> 30],
  nr_ls2g    |-> [alg |-> "nr",         init |-> "auto",    ls2g |-> "on",   numba |-> TRUE,  maxit |-> 30],
  nr_nonumba |-> [alg |-> "nr",         init |-> "auto",    ls2g |-> "off",  numba |-> FALSE, maxit |-> 30],
  nr_dc      |-> [alg |-> "nr",         init |-> "dc",      ls2g |-> "auto", numba |-> TRUE,  maxit |-> 30],
  nr_flat    |-> [alg |-> "nr",         init |-> "flat",    ls2g |-> "auto", numba |-> TRUE,  maxit |-> 30],
  nr_results |-> [alg |-> "nr",         init |-> "results", ls2g |-> "auto", numba |-> TRUE,  maxit |-> 30],
  iwamoto_nr |-> [alg |-> "iwamoto_nr", init |-> "auto",    ls2g |-> "auto", numba |-> TRUE,  maxit |-> 30],
  bfsw       |-> [alg |-> "bfsw",       init |-> "auto",    ls2g |-> "auto", numba |-> TRUE,  maxit |-> 500],
  gs         |-> [alg |-> "gs",         init |-> "auto",    ls2g |-> "auto", numba |-> TRUE,  maxit |-> 20000],
  gs_it3     |-> [alg |-> "gs",         init |-> "auto",    ls2g |-> "auto", numba |-> TRUE,  maxit |-> 3],
  fdbx       |-> [alg |-> "fdbx",       init |-> "auto",    ls2g |-> "auto", numba |-> TRUE,  maxit |-> 500],
  fdxb       |-> [alg |-> "fdxb",       init |-> "auto",    ls2g |-> "auto", numba |-> TRUE,  maxit |-> 500] ]
Solvers == DOMAIN SolverCfg
RefSolver == "nr"
AltSolvers == Solvers \ {RefSolver}

\* auxiliary.py:1768-1791 (_init_runpp_options).  hasRes = "net.res_bus is not empty" (:1771)
ResolveInit(init, cva, hasRes) ==
  LET i1 == IF init = "results" /\ ~hasRes THEN "auto" ELSE init
  IN  CASE i1 = "auto" -> [vm |-> "mean", va |-> IF cva THEN "dc" ELSE "flat"]       \* :1777-1785 (mean of the setpoints)
        [] i1 = "dc"   -> [vm |-> "flat", va |-> "dc"]                                \* :1786-1788
        [] OTHER       -> [vm |-> i1, va |-> i1]                                      \* :1789-1791

\* auxiliary.py:1302-1337 (_check_lightsim2grid_compatibility); the template has no ZIP loads (voltage_depend_loads is
\* switched off at :1729-1734), no distributed slack, tdpf, FACTS or controllable shunts
Ls2gCompat(c, alg, req) ==
  IF req = "off" THEN "off"                                                           \* :1310
  ELSE IF ~Ls2gInstalled THEN "off"                                                   \* :1313-1317
  ELSE IF alg # "nr" THEN (IF req = "auto" THEN "off" ELSE "unsupported")             \* :1318-1321
  ELSE IF Cardinality(SlackElems(c)) > 1 THEN (IF req = "auto" THEN "off" ELSE "unsupported")   \* :1326-1332
  ELSE "on"

Resolve(c, cva, s, hasRes) ==
  LET q == SolverCfg[s]  i == ResolveInit(q.init, cva, hasRes)
  IN  [alg |-> q.alg, init_vm |-> i.vm, init_va |-> i.va, ls2g |-> Ls2gCompat(c, q.alg, q.ls2g),
       numba |-> q.numba /\ NumbaInstalled, maxit |-> q.maxit]

\* powerflow.py:151-173 (_run_pf_algorithm)
Routine(c, alg) ==
  IF PQBuses(c) = {} /\ PVBuses(c) = {} THEN "bypass"                                 \* :158-161
  ELSE CASE alg = "bfsw" -> "bfsw"                                                    \* :162
         [] alg \in {"nr", "iwamoto_nr"} -> "newton"                                  \* :164
         [] alg \in {"fdbx", "fdxb", "gs"} -> "pypower"                               \* :166

\* run_newton_raphson_pf.py:119-135 (_get_numba_functions); the template has no shunts, wards or ZIP loads
Pfsoln(c, r) == IF r.numba THEN (IF NGen(c) = 1 THEN "pfsoln_single_slack" ELSE "pfsoln_numba") ELSE "pfsoln_pypower"

Rep(n, x) == [k \in 1..n |-> x]
\* the calls a run makes when nothing raises, in call order
Calls(c, r) ==
  IF r.ls2g = "unsupported" THEN <<>>                                                 \* raised in _init_runpp_options
  ELSE LET dc == IF r.init_va = "dc" THEN <<"dcpf">> ELSE <<>>
           rt == Routine(c, r.alg) IN
       CASE rt = "newton"  -> <<"run_newton">> \o dc                                  \* run_newton_raphson_pf.py:49-57
                              \o <<IF r.ls2g = "on" THEN "newton_ls" ELSE "newtonpf">>  \* :159-164
                              \o <<Pfsoln(c, r)>>                                     \* :63, :92-103
         [] rt = "pypower" -> <<"run_pypower">> \o dc                                 \* runpf_pypower.py:53-54
                              \o <<IF r.alg = "gs" THEN "gausspf" ELSE "fdpf">>       \* :212-216
                              \o <<"pfsoln_pypower">>                                 \* :132
         [] rt = "bfsw"    -> <<"run_bfsw">>                                          \* no DC initialisation in run_bfswpf.py
                              \o Rep(NoRefs(c), "make_bibc_bcbv")                     \* :396-400: rebuilt once per reference bus
                              \o <<"bfswpf", "pfsoln_pypower">>                       \* :412, :446
         [] rt = "bypass"  -> <<"bypass">>

-----------------------------------------------------------------------------
(* 3. INDEX ARITHMETIC OF THE BACKWARD/FORWARD SWEEP (pf/run_bfswpf.py)                                            *)
Range(s) == {s[i] : i \in DOMAIN s}
RECURSIVE Asc(_)
Asc(S) == IF S = {} THEN <<>> ELSE LET m == Topo!MinOf(S) IN <<m>> \o Asc(S \ {m})
RECURSIVE SumF(_, _)
SumF(f, S) == IF S = {} THEN 0 ELSE LET x == CHOOSE x \in S : TRUE IN f[x] + SumF(f, S \ {x})

NonRoot(c) == Buses(c) \ RefBuses(c)
\* position of bus b in Iinj[mask_root] / V[mask_root] (:275-276): what a DLF row / column MUST mean
Rank(c, b) == Cardinality({x \in NonRoot(c) : x < b})
OneRefPerIsland(c) == \A I \in Islands(c) : Cardinality(RefBuses(c) \cap I) = 1
RefSeq(c) == Asc(RefBuses(c))                                                         \* :44 (ascending BUS_I)
LoopsOfRef(c, n) == Cyclomatic(c, Island(c, RefSeq(c)[n]))                            \* :76-88 (sub-network of ref n)

\* column the code gives to a non-root bus (tree_down entries, :102) and to the i-th loop (0-based) of reference n
BusCol(c, b) == IF ColRule = "bus_minus_norefs" THEN b - NoRefs(c)                    \* :140 "assuming root bus is always 0"
                ELSE Rank(c, b)
LoopCol(c, n, i) ==
  IF ColRule = "bus_minus_norefs" THEN NoBus(c) + i - NoRefs(c)                       \* :117, :140; loop_i restarts per ref (:107)
  ELSE NoBus(c) - NoRefs(c) + SumF([m \in 1..(n - 1) |-> LoopsOfRef(c, m)], 1..(n - 1)) + i
KronSplit(c) == IF ColRule = "bus_minus_norefs" THEN NoBus(c) - 1 ELSE NoBus(c) - NoRefs(c)   \* :145-151
LoopSlots(c) == {<<n, i>> \in (1..NoRefs(c)) \X (0..2) : i < LoopsOfRef(c, n)}
AllCols(c) == {BusCol(c, b) : b \in NonRoot(c)} \cup {LoopCol(c, x[1], x[2]) : x \in LoopSlots(c)}

\* "index_error": scipy's coo_matrix._check raises ValueError for a negative or too large column (BIBC is nobranch x nobranch)
\* "misaligned" : the matrix can be built but its rows/columns do not mean what _bfswpf assumes
BfswPred(c) ==
  IF ~OneRefPerIsland(c) THEN "unspecified"
  ELSE IF \E x \in AllCols(c) : x < 0 \/ x >= NoBranch(c) THEN "index_error"
  ELSE IF \/ \E b \in NonRoot(c) : BusCol(c, b) # Rank(c, b)
          \/ \E x, y \in LoopSlots(c) : x # y /\ LoopCol(c, x[1], x[2]) = LoopCol(c, y[1], y[2])
          \/ LoopSlots(c) # {} /\ KronSplit(c) # NoBus(c) - NoRefs(c)
       THEN "misaligned"
  ELSE "sound"

\* ordered breadth-first search as scipy.sparse.csgraph.breadth_first_order(G, r, directed=False) performs it on
\* G = csr((1, (F_BUS, T_BUS))) (:391): per dequeued node first the out-arcs, then the in-arcs, each in ascending order
\* (A = set of arcs)
Nbrs(A, n) == Asc({a[2] : a \in {a \in A : a[1] = n}}) \o Asc({a[1] : a \in {a \in A : a[2] = n}})
RECURSIVE Bfs(_, _, _, _)
Bfs(A, order, i, pred) ==
  IF i > Len(order) THEN [order |-> order, pred |-> pred]
  ELSE LET n == order[i]
           fresh == SelectSeq(Nbrs(A, n), LAMBDA x : x \notin Range(order))
       IN  Bfs(A, order \o fresh, i + 1,
               [x \in DOMAIN pred \cup Range(fresh) |-> IF x \in DOMAIN pred THEN pred[x] ELSE n])
BfsFrom(c, r) == Bfs(Arcs(c), <<r>>, 1, [x \in {r} |-> r])          \* [order: visiting order, pred: BFS tree]
Pos(t, b) == CHOOSE i \in DOMAIN t.order : t.order[i] = b
RECURSIVE PathUp(_, _, _)
PathUp(t, r, x) == IF x = r THEN {x} ELSE {x} \cup PathUp(t, r, t.pred[x])             \* buses on the tree path r .. x
Subtree(t, r, n) == {x \in Range(t.order) : n \in PathUp(t, r, x)}
IsTreeEdge(t, a) == (a[2] # t.order[1] /\ t.pred[a[2]] = a[1]) \/ (a[1] # t.order[1] /\ t.pred[a[1]] = a[2])

ArcShift(c, a) == IF a[3] = "trafo" THEN ShiftOf(c[IslandIdx(a[1])]) ELSE 0
ShiftedTrafos(c) == {a \in Arcs(c) : ArcShift(c, a) # 0}
\* rotation (units of 150 degrees) the post-processing applies to bus b of the island with BFS tree t rooted at r
\* (:417-441): for every shifted trafo (T = those of the island) the BFS sub-tree below its later-visited end is turned
\* by -/+ shift
CodeRot(c, T, t, r, b) ==
  LET S == {a \in T : ShiftRule = "all_trafos" \/ IsTreeEdge(t, a)}                   \* :422 / fix
      by(a) == LET down == Pos(t, a[1]) < Pos(t, a[2])                                \* :432-437
                   lvb == IF down THEN a[2] ELSE a[1]
               IN IF b \in Subtree(t, r, lvb) THEN (IF down THEN -1 ELSE 1) * ArcShift(c, a) ELSE 0
  IN  SumF([a \in S |-> by(a)], S)
\* rotation the bus really has w.r.t. the shift-free network the sweep solves (:402-409): the shifts met on the tree path
ReqRot(c, T, t, r, b) ==
  LET P == PathUp(t, r, b) \ {r}
      step(x) == LET dn == {a \in T : a[1] = t.pred[x] /\ a[2] = x}
                     up == {a \in T : a[2] = t.pred[x] /\ a[1] = x}
                 IN IF dn # {} THEN -ArcShift(c, CHOOSE a \in dn : TRUE)
                    ELSE IF up # {} THEN ArcShift(c, CHOOSE a \in up : TRUE) ELSE 0
  IN  SumF([x \in P |-> step(x)], P)
\* predicted error of the bfsw voltage angle per bus, in units of 150 degrees (0 unless voltage angles are calculated:
\* build_branch.py writes SHIFT only then, and :417 tests the option; 0 where the model makes no prediction)
BfswAngleErrs(c, cva) ==
  IF ~cva \/ ~OneRefPerIsland(c) \/ ShiftedTrafos(c) = {} THEN [b \in Buses(c) |-> 0]
  ELSE LET A == Arcs(c)
           ST == ShiftedTrafos(c)
           tree == [r \in RefBuses(c) |-> Bfs(A, <<r>>, 1, [x \in {r} |-> r])]
           root == [b \in Buses(c) |-> CHOOSE r \in RefBuses(c) : b \in Range(tree[r].order)]
       IN  [b \in Buses(c) |->
              LET r == root[b]  t == tree[r]  T == {a \in ST : a[1] \in Range(t.order)}
              IN  CodeRot(c, T, t, r, b) - ReqRot(c, T, t, r, b)]
BfswAngleErr(c, cva, b) == BfswAngleErrs(c, cva)[b]
BfswAngleSound(c, cva) == LET e == BfswAngleErrs(c, cva) IN \A b \in Buses(c) : e[b] = 0

-----------------------------------------------------------------------------
(* 4. REQUIRED OUTCOMES.  Outcome classes of one run: "ok" (returned, net.converged), "not_converged"              *)
(*    (LoadflowNotConverged), "error" (any other exception).  Given that the reference Newton-Raphson run solved   *)
(*    the class, the property allows:                                                                             *)
Outcomes == {"ok", "not_converged", "error"}
Allowed(c, s) ==
  IF SolverCfg[s].alg = "bfsw"
  THEN (IF BfswMustSolve(c) THEN {"ok"} ELSE IF BfswApplicable(c) THEN {"ok", "not_converged"} ELSE Outcomes)
  ELSE Outcomes          \* "whenever it returns without raising": raising is outside the property for the other solvers
\* a returned result must equal the reference ... except where "the solution" is not unique for the start point: a flat
\* start 150 degrees away from the solution converges to the low-voltage solution (run.py:111-112 documents this)
Comparable(c, cva, s, hasRes) ==
  ~(Resolve(c, cva, s, hasRes).init_va = "flat" /\ cva /\ \E k \in DOMAIN c : ShiftOf(c[k]) # 0)

Plan(c, cva, s, hasRes) ==
  LET r == Resolve(c, cva, s, hasRes)
  IN  [req |-> SolverCfg[s], r |-> r, calls |-> Calls(c, r), allowed |-> Allowed(c, s),
       comparable |-> Comparable(c, cva, s, hasRes)]

\* spec-computed features of a class (used by the harness for structural finding keys and coverage counts only)
Feat(c, cva) ==
  [nisl |-> Cardinality(Islands(c)), nslack |-> Cardinality(SlackElems(c)), npv |-> Cardinality(PVBuses(c)),
   maxloops |-> LET L == {Cyclomatic(c, I) : I \in Islands(c)} IN CHOOSE m \in L : \A x \in L : x <= m,
   applicable |-> BfswApplicable(c), mustsolve |-> BfswMustSolve(c),
   rootsfirst |-> RefBuses(c) = 0..(NoRefs(c) - 1),
   bfswpred |-> BfswPred(c), angleerr |-> ~BfswAngleSound(c, cva),
   shifted |-> cva /\ \E k \in DOMAIN c : ShiftOf(c[k]) # 0]
=============================================================================
