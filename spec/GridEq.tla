------------------------------- MODULE GridEq -------------------------------
(* C28, model level.  TLC enumerates the calls get_equivalent(net, eq, boundary, internal seeds) on template        *)
(* Tmesh7 x network variants (slack location, PV gens, spur) and computes for each the bus groups the function has to *)
(* form, the required outcome and the feature classes (GridEqDef.tla).  Every dumped state is executed on the real   *)
(* code by harness/checks/c28.py.  The invariants are the theorems behind "valid boundary".                          *)
EXTENDS GridEqDef
CONSTANT TIER          \* "quick" | "thorough"
VARIABLES cfg, out

MaxBnd == IF TIER = "quick" THEN 3 ELSE 4
SeedSizes == IF TIER = "quick" THEN {1} ELSE {1, 2, 3}
\* network variants <<slack, gens, spur, ghost>>   (ghost: the PV units exist but are out of service, with set points that
\* differ from the solved voltages - they must not influence anything)
Variants == IF TIER = "quick" THEN {<<0, FALSE, TRUE, FALSE>>, <<0, TRUE, TRUE, FALSE>>, <<5, TRUE, TRUE, FALSE>>, <<0, FALSE, TRUE, TRUE>>}
            ELSE {<<0, FALSE, TRUE, FALSE>>, <<0, TRUE, TRUE, FALSE>>, <<5, FALSE, TRUE, FALSE>>, <<5, TRUE, TRUE, FALSE>>, <<0, TRUE, FALSE, FALSE>>,
                  <<0, FALSE, TRUE, TRUE>>, <<5, FALSE, TRUE, TRUE>>}
Configs ==
  { c \in { [bnd |-> B, seed |-> S, eq |-> e, slack |-> v[1], gens |-> v[2], spur |-> v[3], ghost |-> v[4]] :
              B \in {B \in SUBSET Bus : Cardinality(B) \in 1..MaxBnd}, S \in {S \in SUBSET Bus : Cardinality(S) \in SeedSizes},
              e \in {"ward", "xward", "rei"}, v \in Variants } : WellFormed(c) }

Init == cfg \in Configs /\ out = Derive(cfg)
Next == UNCHANGED <<cfg, out>>

G == out.g
Live == LiveLines(cfg)
\* the groups partition the buses (an unsupplied seed bus may be "internal": it is isolated and harmless)
GroupsPartition == /\ G.int \cup G.bnd \cup G.ext \cup G.unsup = Bus
                   /\ G.int \cap G.bnd = {} /\ G.int \cap G.ext = {} /\ G.bnd \cap G.ext = {} /\ G.ext \cap G.unsup = {}
\* VALID BOUNDARY: every path from an internal to an external bus passes a boundary bus (no live branch int - ext)
ValidBoundary == \A e \in Live : ~({e[1], e[2]} \cap G.int # {} /\ {e[1], e[2]} \cap G.ext # {})
SeedsInternal == cfg.seed \subseteq G.int
\* whenever an equivalent is built, the retained part holds the reference bus and every supplied internal bus is kept
SlackRetained == out.expected = "equiv" => cfg.slack \in out.retained
BoundaryOnlyGrowsBySlack == G.bnd \ cfg.bnd \subseteq {cfg.slack} /\ (G.moved <=> G.bnd # cfg.bnd)
\* the given boundary is never dropped
BoundaryKept == cfg.bnd \subseteq G.bnd
=============================================================================
