INIT Init
NEXT Next
CONSTANT Prop = "C23"
CONSTANT NCorner = 1
CONSTANT NRandom = 10
INVARIANT CorrKeysExist
INVARIANT CorrBusTotal
INVARIANT CorrFunctional
INVARIANT SumPartition
INVARIANT NetsWellFormed
INVARIANT EnergisationKept
