--------------------------- MODULE ShortCircuitDef ---------------------------
(* C18 -- short-circuit results are consistent with IEC 60909 relations (pandapower/shortcircuit).                  *)
(* Shared definitions of the model (ShortCircuit.tla) and of the observation module (ShortCircuitObs.tla):          *)
(*   * the template network and its rated voltages,                                                                 *)
(*   * the DECISION FUNCTIONS of the short-circuit route that the relations depend on, transcribed from the code    *)
(*     (voltage factor c, when a current source contributes, which call is made, which rows are reported),          *)
(*   * which clause of the property is REQUIRED on which (configuration, run, reference run) -- computed here,      *)
(*     never in Python,                                                                                             *)
(*   * the relations themselves over wide integers (Wide.tla): an observed float x is round(x * 10^10).             *)
(* Not modelled (and not decided, see the check's assumptions): the Thevenin impedance of an independently built    *)
(* network of the elements' short-circuit models -- that needs complex-valued network reduction.  What IS decided   *)
(* about the network that calc_sc builds: it is a function of the ELECTRICAL network only -- the same template      *)
(* whose bus table carries other labels (net.bus.index permuted / sparse, rows still in creation order) must give   *)
(* the same row for every bus (dimension "label"); every element model that looks a bus quantity up by label        *)
(* instead of by ppc row (or vice versa) breaks this.                                                               *)
EXTENDS Wide, FiniteSets

\* ---- template network (harness/checks/c18.py:build_net mirrors this table one to one) --------------------------
\*   bus 0: 110 kV, ext_grid (s_sc_max/min_mva, rx_max/min, x0x, r0x0)        bus 1..3: 20 kV         bus 4: 0.4 kV
\*   trafo T0 0->1 (110/20 kV, Dyn, kt correction)   lines L0 1-2, L1 2-3, L2 1-3 (in service iff cfg.ring; endtemp_degree set)
\*   trafo T1 3->4 (20/0.4 kV, Dyn)   gen at bus 2 iff cfg.gen (vn_kv 21, xdss_pu, rdss_ohm, cos_phi: K_G correction)
\*   sgen at bus 3 iff cfg.sgen (current source: sn_mva, k, kappa)
Bus == 0..4
VnVolt == <<110000, 20000, 20000, 20000, 400>>
Vn(b) == VnVolt[b + 1]                           \* rated voltage Un of bus b in volt
NLine == 3
NTrafo == 2
\* ---- bus labellings: the pandapower index (label) of template bus b; the ROW order of net.bus is always 0..4 -------
\*   default  label = row position (what create_bus does without index=)
\*   rot      a permutation without fixed point: the label of the buses 0, 2, 3, 4 is the row position of a bus of
\*            ANOTHER voltage level (gen bus 2 -> row of the 0.4 kV bus, sgen bus 3 -> row of the 110 kV bus)
\*   rev      the reversed order (bus 2 keeps its label)
\*   sparse   labels that are no row positions at all (what remains after buses were dropped / merged from other nets)
LabelSet == {"default", "rot", "rev", "sparse"}
LabelSeq(lab) == CASE lab = "default" -> <<0, 1, 2, 3, 4>>
                   [] lab = "rot" -> <<2, 3, 4, 0, 1>>
                   [] lab = "rev" -> <<4, 3, 2, 1, 0>>
                   [] lab = "sparse" -> <<12, 7, 30, 9, 21>>
LabelOf(lab, b) == LabelSeq(lab)[b + 1]
AllLabels(lab) == {LabelOf(lab, b) : b \in Bus}
BusOf(lab, l) == CHOOSE b \in Bus : LabelOf(lab, b) = l

FaultSet == {"3ph", "2ph", "1ph"}
CaseSet == {"max", "min"}
IpModes == {"off", "C", "B", "radial"}           \* ip not requested / kappa method C / method B (topology "auto") / topology "radial"
CfgType == [gen : BOOLEAN, sgen : BOOLEAN, ring : BOOLEAN, case : CaseSet, ipm : IpModes, branch : BOOLEAN, lvtol : {6, 10}]
RunType == [fault : FaultSet, sn : {1, 10, 100}, inv : BOOLEAN, buses : (SUBSET Bus) \ {{}}, lab : LabelSet]
Dims == {"fault", "sn", "inv", "subset", "label"}
Kinds == Dims \cup {"base"}

\* ---- decision functions transcribed from the code ---------------------------------------------------------------
\* voltage factor c (in percent): build_bus.py:1061-1075 (_add_c_to_ppc: C_MAX = 1.1, C_MIN = 1.0; buses below 1 kV:
\* C_MAX = 1.1 for lv_tol_percent = 10, 1.05 for 6, C_MIN = 0.95) and currents.py:28 (c = C_MIN if case == "min" else
\* C_MAX) -- this is Table 1 of IEC 60909-0.
CMaxPct(b, lvtol) == IF Vn(b) < 1000 THEN (IF lvtol = 10 THEN 110 ELSE 105) ELSE 110
CMinPct(b) == IF Vn(b) < 1000 THEN 95 ELSE 100
CPct(b, cfg) == IF cfg.case = "max" THEN CMaxPct(b, cfg.lvtol) ELSE CMinPct(b)

\* currents.py:131-140 (_current_source_current): "sgen current source contribution only for Type A and case max";
\* the contribution IKSS2 is added for 3ph, 2ph (currents.py:86-88) and 1ph (currents.py:128, results.py:88).
CurrentSourceActive(cfg) == cfg.sgen /\ cfg.case = "max"
\* the predicate the property's clauses use ("without current-source contributions"): no sgen in service at all
\* (conservative: it implies ~CurrentSourceActive, model invariant ConservativeCS)
NoCurrentSource(cfg) == ~cfg.sgen

\* test/shortcircuit/test_1ph.py:350, :361 "1ph gen-close sc calculation still under develop": not a supported input
Supported(cfg, fault) == ~(fault = "1ph" /\ cfg.gen)

\* the public call that realises (cfg, run): calc_sc.py:29-33 (argument names), net.sn_mva set before the call
Topology(ipm) == IF ipm = "radial" THEN "radial" ELSE "auto"
KappaMethod(ipm) == IF ipm = "B" THEN "B" ELSE "C"
CallOf(cfg, run) == [fault |-> run.fault, case |-> cfg.case, lv_tol_percent |-> cfg.lvtol, ip |-> cfg.ipm # "off",
                     topology |-> Topology(cfg.ipm), kappa_method |-> KappaMethod(cfg.ipm), branch_results |-> cfg.branch,
                     inverse_y |-> run.inv, bus |-> {LabelOf(run.lab, b) : b \in run.buses}, sn_mva |-> run.sn,
                     labels |-> LabelSeq(run.lab)]          \* labels: net.bus.index of the template, in row order
\* results.py:112 (net.res_bus_sc = net.res_bus_sc.loc[bus, :]): one row per requested (in-service) bus, by LABEL
ReportedRows(run) == {LabelOf(run.lab, b) : b \in run.buses}

\* ---- runs, pairs of runs ----------------------------------------------------------------------------------------
\* canonical value of each option dimension: fault 3ph (or 1ph: a family of its own, no 2ph partner), sn_mva 1,
\* inverse_y True, all buses faulted, default bus labels.  A non-base state pairs a run with the run that has ONE dimension reset.
IsCanon(run, d) == CASE d = "fault" -> run.fault # "2ph"
                     [] d = "sn" -> run.sn = 1
                     [] d = "inv" -> run.inv
                     [] d = "subset" -> run.buses = Bus
                     [] d = "label" -> run.lab = "default"
NonCanon(run) == {d \in Dims : ~IsCanon(run, d)}
Differ(r1, r2) == {d \in Dims : CASE d = "fault" -> r1.fault # r2.fault [] d = "sn" -> r1.sn # r2.sn
                                  [] d = "inv" -> r1.inv # r2.inv [] d = "subset" -> r1.buses # r2.buses
                                  [] d = "label" -> r1.lab # r2.lab}
\* every run is the `run` of |NonCanon(run)| states (or of the base state); its single-run clauses are decided on ONE of them
\* (a relabelled run is the run of exactly one state, the one of kind "label": the model varies the labels last)
PrimaryKind(run) == IF NonCanon(run) = {} THEN "base"
                    ELSE IF "label" \in NonCanon(run) THEN "label"
                    ELSE IF "fault" \in NonCanon(run) THEN "fault" ELSE IF "sn" \in NonCanon(run) THEN "sn"
                    ELSE IF "inv" \in NonCanon(run) THEN "inv" ELSE "subset"

\* ---- which clause is required where -----------------------------------------------------------------------------
ReqSingle(cfg, run) ==
  {"C18_FaultedBusesReported"}
  \cup (IF run.fault = "3ph" /\ NoCurrentSource(cfg) THEN {"C18_IkssThevenin"} ELSE {})
  \cup (IF run.fault = "3ph" THEN {"C18_SkssPower"} ELSE {})           \* 2ph: skss = ikss*Un/sqrt(3) by design (currents.py:92)
  \cup (IF cfg.ipm # "off" THEN {"C18_IpBounds"} ELSE {})
ReqPair(cfg, run, ref, kind) ==
  CASE kind = "sn" -> {"C18_SnMvaInvariantBus"} \cup (IF cfg.branch THEN {"C18_SnMvaInvariantBranch"} ELSE {})
    [] kind = "inv" -> {"C18_InverseYInvariantBus"} \cup (IF cfg.branch THEN {"C18_InverseYInvariantBranch"} ELSE {})
    [] kind = "subset" -> {"C18_BusSubsetInvariant"}
    [] kind = "label" -> {"C18_LabelInvariantBus"} \cup (IF cfg.branch THEN {"C18_LabelInvariantBranch"} ELSE {})
    [] kind = "fault" -> IF run.fault = "2ph" /\ ref.fault = "3ph" /\ NoCurrentSource(cfg) THEN {"C18_TwoPhaseRatio"} ELSE {}
    [] kind = "base" -> {}
Required(cfg, run, ref, kind) == (IF kind = PrimaryKind(run) THEN ReqSingle(cfg, run) ELSE {}) \cup ReqPair(cfg, run, ref, kind)

\* ---- the relations (wide integers, observation x -> round(x * 10^10)) ---------------------------------------------
RelSq == 10             \* ppm: relative 1e-5 for the squared relations
RelEq == 1              \* ppm: relative 1e-6 for equality between two runs ...
AbsEq == 100            \* ... plus 1e-8 absolute (the code zeroes p.u. magnitudes below 1e-10, currents.py:72)
UnW(b) == WShift(WScale(WInt(Vn(b)), 1000), 1)                                      \* Un [kV] * 10^10
\* ikss = c*Un/(sqrt(3)*|Zk|)   <=>   3 * ikss^2 * (rk^2 + xk^2) = c^2 * Un^2                     (scale 10^40)
IkssRel(b, cfg, I, R, X) ==
  WRelClose(WScale(WMul(WSq(I), WAdd(WSq(R), WSq(X))), 3),
            WShift(WMul(WSq(WInt(CPct(b, cfg))), WSq(UnW(b))), 4), RelSq)
\* skss = sqrt(3)*Un*ikss   <=>   skss^2 = 3 * Un^2 * ikss^2                                       (scale 10^40)
SkssRel(b, S, I) == WRelClose(WShift(WSq(S), 5), WScale(WMul(WSq(UnW(b)), WSq(I)), 3), RelSq)
\* ikss_2ph = sqrt(3)/2 * ikss_3ph   <=>   4 * ikss_2ph^2 = 3 * ikss_3ph^2
RatioRel(I2, I3) == WRelClose(WScale(WSq(I2), 4), WScale(WSq(I3), 3), RelSq)
\* ip = kappa*sqrt(2)*ikss, kappa in [1.02, 2]   <=>   2*1.02^2 * ikss^2 <= ip^2 <= 8 * ikss^2.  With an active current
\* source ip = sqrt(2)*(kappa*IKSS1 + IKSS2) and ikss = IKSS1 + IKSS2 (currents.py:88, :218; IEC 60909-0:2016 eq. for
\* full-converter units), so the effective factor lies in [1, 2]: lower bound 2 * ikss^2.
IpLowE4(cfg) == IF CurrentSourceActive(cfg) THEN 20000 ELSE 20808
IpRel(cfg, P, I) == /\ IsW(P) /\ IsW(I)
                    /\ WLe(WScale(WScale(WSq(I), IpLowE4(cfg)), 99999), WShift(WScale(WSq(P), 100000), 1))
                    /\ WLe(WScale(WSq(P), 100000), WScale(WScale(WSq(I), 8), 100001))
SameW(a, b) == WClose(a, b, AbsEq, RelEq)
SameSeq(s, t) == Len(s) = Len(t) /\ \A k \in 1..Len(s) : SameW(s[k], t[k])
=============================================================================
