SPECIFICATION Spec
CONSTANTS
  MaxW = 2
  MaxO = 1
INVARIANT Coherent
INVARIANT BatchSound
INVARIANT TrafoNeverBatch
