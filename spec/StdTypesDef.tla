------------------------------- MODULE StdTypesDef -------------------------------
(* C25 — the standard type library as a state machine (std_types.py) over two nets.                               *)
(* Data tokens d1, d2 are two complete line types with distinct values.  "none" = the name is unknown.             *)
EXTENDS Integers, Sequences, TLC
Nets == {1, 2}
Names == {"a", "b"}
Data == {"d1", "d2"}
Actions == [op : {"create"}, net : Nets, name : Names, data : Data, ow : BOOLEAN]
           \cup [op : {"rename"}, net : Nets, name : Names, data : {"a", "b", "c"}, ow : {TRUE}]   \* data = new name
           \cup [op : {"delete"}, net : Nets, name : Names, data : {"-"}, ow : {TRUE}]
           \cup [op : {"copy"}, net : Nets, name : {"-"}, data : {"-"}, ow : BOOLEAN]               \* into net, from the other net
AllNames == Names \cup {"c"}
L0 == [n \in Nets |-> [x \in AllNames |-> "none"]]
Other(n) == 3 - n
\* which calls raise (UserWarning): the library and every element stay as they are
Raises(l, a) == CASE a.op = "rename" -> l[a.net][a.name] = "none" \/ l[a.net][a.data] # "none"
                  [] a.op = "delete" -> l[a.net][a.name] = "none"
                  [] OTHER -> FALSE
Step(l, a) ==
  IF Raises(l, a) THEN l ELSE
  CASE a.op = "create" -> IF a.ow \/ l[a.net][a.name] = "none" THEN [l EXCEPT ![a.net][a.name] = a.data] ELSE l
    [] a.op = "rename" -> [l EXCEPT ![a.net][a.data] = l[a.net][a.name], ![a.net][a.name] = "none"]
    [] a.op = "delete" -> [l EXCEPT ![a.net][a.name] = "none"]
    [] a.op = "copy"   -> [l EXCEPT ![a.net] = [x \in AllNames |->
                               IF l[Other(a.net)][x] # "none" /\ (a.ow \/ l[a.net][x] = "none") THEN l[Other(a.net)][x] ELSE l[a.net][x]]]
RECURSIVE Run(_, _, _)
Run(l, h, k) == IF k > Len(h) THEN l ELSE Run(Step(l, h[k]), h, k + 1)
=============================================================================
