--------------------------------- MODULE History ---------------------------------
(* C09, model level: every history of at most MaxLen steps; the ones ending in a power flow are the tests. *)
EXTENDS HistoryDef
CONSTANTS MaxLen, UseOps, UseInits      \* alphabet of this run (quick: reduced; thorough: all)
VARIABLES hist, s
Alphabet == {a \in Steps : a.op \in UseOps /\ (a.op # "runpp" \/ a.init \in UseInits)}
Init == hist = <<>> /\ s = S0
Next == Len(hist) < MaxLen /\ \E a \in Alphabet : hist' = Append(hist, a) /\ s' = Step(s, a)
Consistent == s = Run(S0, hist, 1)
\* the required result is a function of the element state only: two histories reaching the same element state
\* demand the same result (this is what the fresh-copy reference of the harness implements)
StateOnly == s.n = Run(S0, SelectSeq(hist, LAMBDA a : ~IsCalc(a)), 1).n
=============================================================================
