SPECIFICATION Spec
CONSTANT NProcs = 2
INVARIANT C15_ScheduleIndependent
PROPERTY AllComplete
