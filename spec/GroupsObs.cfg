INIT OInit
NEXT ONext
INVARIANT C27_Members
INVARIANT C27_Rows
INVARIANT C27_InService
INVARIANT C27_ResPower
INVARIANT C27_NoError
