INIT OInit
NEXT ONext
INVARIANT C10_Proportional
INVARIANT C10_NonParticipantsKeepSetpoint
INVARIANT C10_BalanceHolds
