------------------------------ MODULE ConvertObs ------------------------------
(* C21, implementation level.  One case = one configuration of Convert.tla instantiated on the real converters:   *)
(*   orig : runpp on the generated net                 (tolerance_mva = 1e-9, trafo_model = "pi", voltage angles)   *)
(*   conv : runpp on from_ppc(to_ppc(net)) resp. from_mpc(<tmp>.mat written by to_mpc(net)), same options          *)
(*   corr : for every original bus the row of the case file that to_ppc reports for it (net._pd2ppc_lookups["bus"],*)
(*          from_ppc creates the converted bus under exactly that number), raw, -1 / out of range when there is none*)
(* vm [µ p.u.], va [µ degree], p/q/loss [µ MW, µ Mvar] as fixed-point integers (Fix.tla); orig.* indexed by bus + 1, *)
(* conv.vm / conv.va indexed by converted bus number + 1.  The REQUIRED correspondence (which buses must have a    *)
(* counterpart) and inventory are computed here from the case's abstract configuration with ConvertDef.tla.       *)
EXTENDS ConvertDef, Fix, Json, IOUtils
VARIABLE i
Cases == JsonDeserialize(IOEnv.OBS_FILE)
OInit == i \in 1..Len(Cases)
ONext == UNCHANGED i
C == Cases[i]
D == Derive(C.cfg)

\* tolerances between two independent solves with tolerance_mva = 1e-9: 30 µ-units + 20 ppm (angles: 300 µ degree)
AbsTol == 30
RelPpm == 20

Ran == C.orig.conv                              \* antecedent: the generated network itself solves
Ok == Ran /\ C.outcome = "ok"                   \* ... and the round trip produced a solved network
Has(k) == k >= 0 /\ k < C.conv.nbus             \* the reported row exists in the converted network
Corr(b) == C.corr[b + 1]
OVm(b) == C.orig.vm[b + 1]
OVa(b) == C.orig.va[b + 1]
CVm(k) == C.conv.vm[k + 1]
CVa(k) == C.conv.va[k + 1]

\* "Converting ... and back yields a network whose power flow gives ...": no exception, and the result solves
C21_RoundTripCompletes == Ran => C.outcome = "ok"
\* same bus voltages through the correspondence: every energised bus (by the spec's supply model) has a counterpart
\* with the same vm / va; a bus without voltage in the original has no energised counterpart
C21_BusVoltages ==
  Ok => \A b \in Bus :
          IF b \in D.sup
          THEN Has(Corr(b)) /\ Close(OVm(b), CVm(Corr(b)), AbsTol, RelPpm) /\ Close(OVa(b), CVa(Corr(b)), 10 * AbsTol, RelPpm)
          ELSE Has(Corr(b)) => ~IsNum(CVm(Corr(b)))
C21_SlackPower == Ok => /\ Close(C.orig.slack_p, C.conv.slack_p, AbsTol, RelPpm)
                        /\ Close(C.orig.slack_q, C.conv.slack_q, AbsTol, RelPpm)
C21_TotalLosses == Ok => Close(C.orig.loss, C.conv.loss, AbsTol, RelPpm)

\* ---- conformance of the pipeline model (ConvertConf.cfg; reported as divergence, never as violation) -------------
Conf_SupplyModel == Ran => {b \in Bus : IsNum(OVm(b))} = D.sup
Conf_FusedShareCounterpart == Ok => \A K \in D.classes : \A a, b \in K : Corr(a) = Corr(b)
Conf_ClassesDistinct == Ok => \A K, L \in D.classes : K # L => Corr(MinOf(K)) # Corr(MinOf(L))
Conf_DeadHaveNone == Ok => \A b \in Bus \ D.sup : ~Has(Corr(b))
Conf_Inventory == Ok => C.conv.inv = D.inv

\* ---- tags (ConvertTags.cfg): feature classes for finding keys, evaluated by TLC on the failing cases only ---------
Tag_NothingLost == D.lost = {}
Tag_NoOneRowTable == D.onerow = {}
=============================================================================
