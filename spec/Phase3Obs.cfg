INIT OInit
NEXT ONext
INVARIANT H_Shape
INVARIANT Div_Rejected
INVARIANT Div_Supplied
INVARIANT Div_NoCrash
INVARIANT C11_Finite
INVARIANT C11_BalancedVm
INVARIANT C11_BalancedAngles
INVARIANT C11_BalancedThirdsLine
INVARIANT C11_BalancedThirdsTrafo
INVARIANT C11_BalancedThirdsExtGrid
INVARIANT C11_BalancedThirdsBus_Slack
INVARIANT C11_BalancedThirdsBus_Other
INVARIANT C11_ElementAsGiven
INVARIANT C11_PhaseSumTotal
INVARIANT C11_NodalBalance_Slack
INVARIANT C11_NodalBalance_Other
INVARIANT C11_BusInjection
