INIT TInit
NEXT TNext
INVARIANT C08_NoRowsAddedOrRemoved
INVARIANT C08_InputValuesUnchanged
