INIT Init
NEXT Next
CONSTANTS
  NSlots = 2
  ElemBuses = {1, 2, 4}
  Pats = {"bal", "unb"}
  Mods = {"none"}
  VGs = {"Dyn", "YNyn", "Yzn"}
  Topos = {"radial", "cut"}
INVARIANT M_TotalsAgree
INVARIANT M_SymmetricImpliesBalanced
INVARIANT M_BalancedThird
INVARIANT M_DeadElementsInert
INVARIANT M_PerPhaseScope
INVARIANT M_RejectedUnchecked
INVARIANT M_RowsConsistent
