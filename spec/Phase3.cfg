INIT Init
NEXT Next
CONSTANTS
  NSlots = 2
  ElemBuses = {1, 2, 4}
  Pats = {"bal", "unb"}
  Mods = {"none"}
  VGs = {"Dyn", "YNyn", "Yzn"}
  Topos = {"radial", "cut"}
  Cpls = {"c4", "c2", "o4"}
  EgSets = {"g13", "g31"}
  StrideB = 3
  StrideC = 8
  Offset = 0
INVARIANT M_TotalsAgree
INVARIANT M_SymmetricImpliesBalanced
INVARIANT M_BalancedThird
INVARIANT M_DeadElementsInert
INVARIANT M_PerPhaseScope
INVARIANT M_RejectedUnchecked
INVARIANT M_RowsConsistent
INVARIANT M_FusedSum
INVARIANT M_OpenSwitchFusesNothing
INVARIANT M_FusedSameSupply
