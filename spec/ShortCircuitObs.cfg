INIT OInit
NEXT ONext
INVARIANT Bind_Template
INVARIANT C18_FaultedBusesReported
INVARIANT C18_IkssThevenin
INVARIANT C18_SkssPower
INVARIANT C18_IpBounds
INVARIANT C18_SnMvaInvariantBus
INVARIANT C18_SnMvaInvariantBranch
INVARIANT C18_InverseYInvariantBus
INVARIANT C18_InverseYInvariantBranch
INVARIANT C18_BusSubsetInvariant
INVARIANT C18_TwoPhaseRatio
INVARIANT C18_LabelInvariantBus
INVARIANT C18_LabelInvariantBranch
