INIT OInit
NEXT ONext
INVARIANT C30_Calls
INVARIANT C30_NetUnchanged
INVARIANT C30_NoError
