INIT OInit
NEXT ONext
INVARIANT C01_KCL_P
INVARIANT C01_KCL_Q
INVARIANT C01_BusResult_P
INVARIANT C01_BusResult_Q
