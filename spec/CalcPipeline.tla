------------------------------ MODULE CalcPipeline ------------------------------
(* C08, model level: the REQUIRED design — every frame restores what it added/changed on every exit path —    *)
(* explored for every (kind, feature set, crash point) triple.  Each initial state is one implementation test; *)
(* the terminal state carries the expected hook-event sequence and outcome.                                    *)
EXTENDS CalcPipelineDef
VARIABLES test,      \* [kind, feats, crash: [stage, when \in {"after","during","never"}, hit, exc]]  (constant along a behaviour)
                     \* exc: what an injected crash raises - "injected" (a foreign exception) or "lfnc" (LoadflowNotConverged,
                     \* which some frames treat specially); the REQUIRED behaviour does not depend on it
          stack,     \* Seq([kind, pc, added])
          aux,       \* auxiliary rows currently in the element tables
          tmp,       \* set of temporarily changed inputs (outaged element of a contingency case)
          hits,      \* how often the crash stage has been reached so far
          events,    \* hook events emitted so far
          outcome    \* "running" | "returned" | "raised"
vars == <<test, stack, aux, tmp, hits, events, outcome>>

Crashes(k) ==
  {[stage |-> "-", when |-> "never", hit |-> 0, exc |-> "none"]}
  \cup (IF k \in {"contingency", "estimate"} THEN {}     \* no hook points of their own
        ELSE {[stage |-> Stages(k)[n], when |-> "after", hit |-> 1, exc |-> x] : n \in 1..Len(Stages(k)), x \in {"injected", "lfnc"}})
  \cup {[stage |-> NaturalAt(k, nat), when |-> "during", hit |-> 1, exc |-> "none"] : nat \in {m \in {"no_slack", "not_converged"} : NaturalAt(k, m) # "-"}}
  \cup (IF k = "contingency"
        THEN {[stage |-> Stages("runpp")[n], when |-> "after", hit |-> h, exc |-> x] : n \in 1..Len(Stages("runpp")), h \in 1..3, x \in {"injected", "lfnc"}}
        ELSE {})
Tests == UNION {{[kind |-> k, feats |-> fs, crash |-> c] : fs \in SUBSET Features, c \in Crashes(k)} : k \in Kinds}

Init == /\ test \in Tests
        /\ stack = <<[kind |-> test.kind, pc |-> 1, added |-> 0]>>
        /\ aux = 0 /\ tmp = {} /\ hits = 0 /\ events = <<>> /\ outcome = "running"

Top == stack[Len(stack)]
Pop == SubSeq(stack, 1, Len(stack) - 1)
CurStage == Stages(Top.kind)[Top.pc]
\* REQUIRED unwinding: every active frame removes exactly the auxiliary rows it added and restores its temporaries
\* run_contingency catches an exception of the inner power flow of an N-1 case, restores the outage and goes on
\* (contingency.py:104-113); an exception in the N-0 run propagates.
Caught == /\ Len(stack) > 1
          /\ LET p == stack[Len(stack) - 1] IN Stages(p.kind)[p.pc - 1] \in Outage
Unwind == IF Caught
          THEN /\ aux' = 0 /\ tmp' = {} /\ stack' = Pop /\ outcome' = "running"
          ELSE /\ aux' = 0 /\ tmp' = {} /\ stack' = <<>> /\ outcome' = "raised"

Advance ==
  /\ outcome = "running" /\ stack # <<>>
  /\ LET f == Top  st == CurStage
         reach == IF st = test.crash.stage THEN hits + 1 ELSE hits
         crashNow == st = test.crash.stage /\ reach = test.crash.hit
         during == (crashNow /\ test.crash.when = "during") \/ st = UnsupportedAt(f.kind, test.feats)
     IN
     IF st \in Nested /\ ~during
     THEN \* outer stage: take the element out (tmp), run an inner power flow as a nested frame
          /\ stack' = Append([stack EXCEPT ![Len(stack)].pc = f.pc + 1], [kind |-> "runpp", pc |-> 1, added |-> 0])
          /\ tmp' = IF st \in Outage THEN tmp \cup {st} ELSE tmp
          /\ hits' = reach /\ events' = Append(events, st)
          /\ UNCHANGED <<aux, outcome, test>>
     ELSE IF during
     THEN /\ Unwind /\ hits' = reach /\ UNCHANGED <<events, test>>
     ELSE LET add == IF st \in AddAux THEN AuxRows(test.feats) ELSE 0
              rem == IF st \in CleanUp THEN f.added ELSE 0
              f2 == [f EXCEPT !.pc = f.pc + 1, !.added = f.added + add - rem]
              done == f.pc = Len(Stages(f.kind))
          IN /\ events' = Append(events, st) /\ hits' = reach /\ UNCHANGED test
             /\ IF crashNow
                THEN Unwind
                ELSE /\ aux' = aux + add - rem
                     /\ IF done
                        THEN /\ stack' = Pop
                             /\ tmp' = IF Len(stack) > 1 THEN {} ELSE tmp      \* inner runpp returned: outer frame restores the outage
                             /\ outcome' = IF Len(stack) = 1 THEN "returned" ELSE "running"
                        ELSE /\ stack' = [stack EXCEPT ![Len(stack)] = f2] /\ UNCHANGED <<tmp, outcome>>
Next == Advance
Spec == Init /\ [][Next]_vars /\ WF_vars(Next)

C08_Restored == outcome \in {"returned", "raised"} => aux = 0 /\ tmp = {} /\ stack = <<>>
AuxBounded == aux >= 0 /\ aux <= 2
Terminates == <>(outcome # "running")
CrashHonoured == (outcome = "returned") => (test.crash.when = "never" \/ hits < test.crash.hit \/ test.kind = "contingency")
UnsupportedRaises == (outcome = "returned" /\ test.kind # "contingency") => UnsupportedAt(test.kind, test.feats) = "-"
=============================================================================
