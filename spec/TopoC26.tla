------------------------------- MODULE TopoC26 -------------------------------
(* C26, model level: configurations x create_nxgraph option combinations.  Model-level theorems: components *)
(* partition the node set (no notravbuses), BFS layers are shortest-path lengths.  The dumped states are     *)
(* replayed by harness/checks/c26.py.                                                                        *)
EXTENDS Topology, FiniteSetsExt
CONSTANTS PinTrue, PinFalse, BallK
VARIABLES f, o

Free == (Flags \ PinTrue) \ PinFalse
Configs == {[x \in Flags |-> IF x \in PinTrue THEN TRUE ELSE IF x \in PinFalse THEN FALSE ELSE h[x]] :
              h \in [Free -> BOOLEAN]}
\* every configuration within BallK flag flips of the base point (all in service / closed, no switch impedance);
\* BallK = 0 selects the pinned sub-cube instead
Base == [x \in Flags |-> x # "z0"]
Ball == {[x \in Flags |-> IF x \in S THEN ~Base[x] ELSE Base[x]] : S \in UNION {kSubset(k, Flags) : k \in 0..BallK}}
AllKinds == {"line", "trafo", "trafo3w", "switch"}
Opts == [rs : BOOLEAN, oos : BOOLEAN, inc : {AllKinds} \cup {AllKinds \ {k} : k \in AllKinds},
         nogo : {{}, {1}}, notrav : {{}, {2}}]

Init == f \in (IF BallK = 0 THEN Configs ELSE Ball) /\ o \in Opts
Next == UNCHANGED <<f, o>>

DistOpt == [o EXCEPT !.inc = AllKinds, !.oos = FALSE]       \* calc_distance_to_bus passes only rs/nogo/notrav
D == Dist(f, DistOpt, 0)
A == {<<a[1], a[2]>> : a \in Adj(f, DistOpt)}

CompPartition == o.notrav = {} => IsPartition(Comps(f, o), Nodes(f, o))
EdgesBetweenNodes == \A e \in Edges(f, o) : e[1] \in Nodes(f, o) /\ e[2] \in Nodes(f, o)
RespectSwitchesMonotone == Edges(f, o) \subseteq Edges(f, [o EXCEPT !.rs = FALSE])
DistIsShortestPath ==
  0 \in Nodes(f, DistOpt) =>
    /\ D[0] = 0
    /\ \A a \in A : a[1] \in DOMAIN D => (a[2] \in DOMAIN D /\ D[a[2]] <= D[a[1]] + 1)
    /\ \A b \in DOMAIN D \ {0} : \E a \in A : a[2] = b /\ a[1] \in DOMAIN D /\ D[a[1]] = D[b] - 1
\* the weighted distances are shortest: no edge can shorten them, and every distance is realised by a predecessor
WDistIsShortestPath ==
  0 \in Nodes(f, DistOpt) =>
    LET wd == WDist(f, DistOpt, 0)        \* bound once: the operator runs a Bellman-Ford relaxation
        adj == Adj(f, DistOpt)
    IN /\ wd[0] = 0
       /\ \A a \in adj : a[1] \in DOMAIN wd => (a[2] \in DOMAIN wd /\ wd[a[2]] <= wd[a[1]] + KmOf(a[3], a[4]))
       /\ \A b \in DOMAIN wd \ {0} : \E a \in adj : a[2] = b /\ a[1] \in DOMAIN wd /\ wd[a[1]] + KmOf(a[3], a[4]) = wd[b]
=============================================================================
