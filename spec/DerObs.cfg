INIT OInit
NEXT ONext
INVARIANT Obs_CaseMatchesModel
INVARIANT C33_ApparentPower
INVARIANT C33_ReactiveWithinArea
INVARIANT C33_SettledWithinCapability
INVARIANT Model_Builds
INVARIANT Model_Raises
INVARIANT Model_Converges
INVARIANT Model_Trajectory
INVARIANT Model_Flex
