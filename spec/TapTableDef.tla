------------------------------ MODULE TapTableDef ------------------------------
(* C31, three-winding family: definitions shared by the model (TapTable.tla, Init3) and the observation module   *)
(* (TapTableObs.tla), so that the table contents and the reference network are derived in ONE place.             *)
(*                                                                                                                *)
(* Network: one 110 kV feeder bus; three-winding transformer W (110/20/10 kV), a second three-winding            *)
(* transformer O3 and a two-winding transformer O2 (different ratings / impedances / tap data) on the same bus.   *)
(* A configuration c is a record                                                                                  *)
(*   c.w      = [dep, id, pos, side, star, type]   W's tap_dependency_table, id_characteristic_table, tap_pos      *)
(*              (in this family every transformer has tap_neutral = 1 and position p stands for tap_pos = p - 1,   *)
(*              table step = tap_pos; p = Neutral is the neutral position), tap_side, tap_at_star_point,           *)
(*              tap_changer_type                                                                                   *)
(*   c.o      = [kind, pos]   kind = "none": O3 and O2 are not table dependent;  kind = "t3w" / "t2w": O3 / O2 is  *)
(*              table dependent with THE SAME characteristic id as W at the different position c.o.pos             *)
(*   c.member = "lin" | "off"   which oracle applies to W (below)                                                  *)
(*                                                                                                                *)
(* Table rule (one row per (id, pos)); Src3 names where the numbers of a row come from:                            *)
(*   "w_own"  the values W's own tap changer gives at this step, i.e. what tap_dependency_table = False computes:  *)
(*            Ratio / Symmetrical: complex ratio 1 + tap_step_percent/100 * (step - neutral) * e^(j tap_step_degree)*)
(*            (for tap_step_degree = 0: ratio = 1 + tap_step_percent/100 * (step - neutral), angle 0);             *)
(*            Ideal: ratio 1, angle = tap_step_degree * (step - neutral);  vk/vkr columns = W's own vk_*/vkr_*.    *)
(*   "o_own"  the same for the other table-dependent transformer (O3: six 3W columns, O2: vk_percent/vkr_percent). *)
(*   "w_off"  values that deliberately differ from W's tap model (ratio 1.03 at the neutral step, other vk/vkr).   *)
(*   "junk"   distinct values different from every own / off row (must never be used).                             *)
(*                                                                                                                *)
(* Oracles (RefW): network A = the configuration with the table; network B = same network, every                  *)
(* tap_dependency_table = False, and                                                                               *)
(*   member "lin": B otherwise IDENTICAL (self consistency: W's row holds what W's own tap changer gives, so A = B *)
(*                 iff the lookup uses exactly W's own (id, step) row and treats tap side / star point as the      *)
(*                 non-tabular path does).  All (dep, id, pos, side, star, type) except Ideal at the star point    *)
(*                 (there the non-tabular reference is itself not meaningful: the star-point step is built from    *)
(*                 tap_step_percent, which is 0 for an ideal phase shifter).                                       *)
(*   member "off": W table dependent, tap at a TERMINAL (star = FALSE); B has the row's values entered directly:   *)
(*                 side mv / lv: vn_<side>_kv scaled by the ratio, shift_<side>_degree reduced by the angle,       *)
(*                 tap_pos = neutral; side hv (net.trafo3w has no hv shift and vn_hv_kv is shared by the three     *)
(*                 equivalent branches): a one-step Ratio tap changer whose single step IS the row                 *)
(*                 (tap_pos = neutral + 1, step = ratio * e^(j angle) - 1);  vk_*/vkr_* = the row's six values.     *)
(* O3 / O2 always follow the self-consistency oracle.                                                              *)
EXTENDS Integers
Neutral == 2
Sides == {"hv", "mv", "lv"}
Types == {"Ratio", "Symmetrical", "Ideal"}
OKinds == {"none", "t3w", "t2w"}
LinOK(w) == ~(w.star /\ w.type = "Ideal")
OffOK(w) == w.dep /\ ~w.star
Src3(c, id, pos) ==
  IF c.w.dep /\ id = c.w.id /\ pos = c.w.pos THEN (IF c.member = "off" THEN "w_off" ELSE "w_own")
  ELSE IF c.o.kind # "none" /\ id = c.w.id /\ pos = c.o.pos THEN "o_own"
  ELSE "junk"
RefW(c) == IF c.member = "off" THEN "entered" ELSE "dep_off"
Tab3(c, ids, poss) == {[id |-> d, pos |-> p, src |-> Src3(c, d, p)] : d \in ids, p \in poss}
Eff3(c, ids, poss) == [tab |-> Tab3(c, ids, poss), ref |-> RefW(c)]
=============================================================================
