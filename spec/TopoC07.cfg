INIT Init
NEXT Next
CONSTANTS
  PinTrue = {"b0", "b1", "b3", "l2", "e1", "g0", "g1"}
  PinFalse = {}
  BallK = 0
INVARIANT RoutesAgree
INVARIANT UnsupInIS
INVARIANT CompPartition
INVARIANT SlackSupplied
