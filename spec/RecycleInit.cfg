INIT Init
NEXT Stop
CONSTANTS
  MaxW = 2
  MaxO = 1
