SPECIFICATION Spec
CONSTANTS
  Bases = {960000, 1000000, 1045000}
  MaxIters = {2, 30}
  Tap0s = {0, 2000}
  FailRuns = {0, 2}
INVARIANT ModelAccepted
INVARIANT TapInRange
INVARIANT ReturnFresh
INVARIANT RunsBounded
INVARIANT ReturnConverged
PROPERTY Terminates
