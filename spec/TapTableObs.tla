------------------------------ MODULE TapTableObs ------------------------------
(* C31, implementation level: net A uses the characteristic table, net B has tap_dependency_table = False with the *)
(* spec-chosen row's values entered directly; both solved by runpp.  a / b = [vm, va, p_hv, q_hv, p_lv, q_lv].    *)
EXTENDS Fix, Json, IOUtils
VARIABLE i
Cases == JsonDeserialize(IOEnv.OBS_FILE)
OInit == i \in 1..Len(Cases)
ONext == UNCHANGED i
C == Cases[i]
AbsTol == 30
RelPpm == 20
C31_BothSolve == C.a.conv /\ C.b.conv
C31_BusVoltages == (C.a.conv /\ C.b.conv) => CloseSeq(C.a.vm, C.b.vm, AbsTol, RelPpm) /\ CloseSeq(C.a.va, C.b.va, 10 * AbsTol, RelPpm)
C31_TrafoFlows == (C.a.conv /\ C.b.conv) => /\ CloseSeq(C.a.p_hv, C.b.p_hv, AbsTol, RelPpm) /\ CloseSeq(C.a.q_hv, C.b.q_hv, AbsTol, RelPpm)
                                            /\ CloseSeq(C.a.p_lv, C.b.p_lv, AbsTol, RelPpm) /\ CloseSeq(C.a.q_lv, C.b.q_lv, AbsTol, RelPpm)
C31_InputsUntouched == Len(C.changed) = 0       \* C08 on the same run: the lookup must not write into net.trafo
=============================================================================
