------------------------------ MODULE TapTableObs ------------------------------
(* C31, implementation level.  Every case carries its family C.fam:                                              *)
(* "w2" (three 2W transformers, TapTable.tla Init): net A uses the characteristic table, net B has               *)
(*   tap_dependency_table = False with the spec-chosen row's values entered directly; both solved by runpp.       *)
(*   a / b = [vm, va, p_hv, q_hv, p_lv, q_lv].                                                                    *)
(* "w3" (three-winding family, TapTable.tla Init3 / TapTableDef.tla): C.cfg = [w, o, member], C.eff = [tab, ref]  *)
(*   as dumped by the model run, C.rows = the numbers the harness put into the table for every C.eff.tab row      *)
(*   (micro-units: ratio, angle, vk = <<vk_hv, vk_mv, vk_lv, vk_percent>>), a / b = [conv, vm, va, p3, q3 (hv, mv, *)
(*   lv terminal flows of both trafo3w), p2, q2 (hv, lv flows of the 2W transformer)].  Which oracle a member     *)
(*   uses (self consistency "dep_off" / row "entered" directly) is RefW(C.cfg) of TapTableDef.                    *)
(* Tolerance for all comparisons of two independent solves (tolerance_mva = 1e-9): Close(a, b, 30, 20) =          *)
(* 30 micro-units + 20 ppm; voltage angles 300 micro-degrees + 20 ppm.                                            *)
(* Non-converged 3W runs satisfy the clauses vacuously (counted by the harness, not flagged).                     *)
EXTENDS Fix, Json, IOUtils, TapTableDef
VARIABLE i
Cases == JsonDeserialize(IOEnv.OBS_FILE)
OInit == i \in 1..Len(Cases)
ONext == UNCHANGED i
C == Cases[i]
AbsTol == 30
RelPpm == 20
W2 == C.fam = "w2"
W3 == C.fam = "w3"
Both == C.a.conv /\ C.b.conv
C31_BothSolve == W2 => Both
C31_BusVoltages == (W2 /\ Both) => CloseSeq(C.a.vm, C.b.vm, AbsTol, RelPpm) /\ CloseSeq(C.a.va, C.b.va, 10 * AbsTol, RelPpm)
C31_TrafoFlows == (W2 /\ Both) => /\ CloseSeq(C.a.p_hv, C.b.p_hv, AbsTol, RelPpm) /\ CloseSeq(C.a.q_hv, C.b.q_hv, AbsTol, RelPpm)
                                  /\ CloseSeq(C.a.p_lv, C.b.p_lv, AbsTol, RelPpm) /\ CloseSeq(C.a.q_lv, C.b.q_lv, AbsTol, RelPpm)
\* C08 on the same run: the lookup must not write into net.trafo / net.trafo3w / the table (any input table, both families)
C31_InputsUntouched == Len(C.changed) = 0
-----------------------------------------------------------------------------
\* three-winding family: A (table) = B (reference RefW(C.cfg)) on all bus voltages and all transformer terminal flows
C31_3W_BusVoltages == (W3 /\ Both) => CloseSeq(C.a.vm, C.b.vm, AbsTol, RelPpm) /\ CloseSeq(C.a.va, C.b.va, 10 * AbsTol, RelPpm)
C31_3W_Flows == (W3 /\ Both) => /\ CloseSeq(C.a.p3, C.b.p3, AbsTol, RelPpm) /\ CloseSeq(C.a.q3, C.b.q3, AbsTol, RelPpm)
                                /\ CloseSeq(C.a.p2, C.b.p2, AbsTol, RelPpm) /\ CloseSeq(C.a.q2, C.b.q2, AbsTol, RelPpm)
\* integrity of the binding (a failure is a harness error, never a finding): the case is a state of the model family,
\* the table sources / reference kind it carries are the ones the spec derives from C.cfg, and the numbers of every
\* non-junk row differ from those of every other row (ratio by >= 0.002 or angle by >= 0.1 deg, and vk_hv, vk_mv,
\* vk_lv, vk_percent each by >= 0.1), so that reading any other row is observable.
C31_3W_CaseFromSpec ==
  W3 => /\ (C.cfg.member = "lin" => LinOK(C.cfg.w)) /\ (C.cfg.member = "off" => OffOK(C.cfg.w))
        /\ C.cfg.w.side \in Sides /\ C.cfg.w.type \in Types /\ C.cfg.o.kind \in OKinds
        /\ (IF C.cfg.o.kind = "none" THEN C.cfg.o.pos = C.cfg.w.pos ELSE C.cfg.o.pos # C.cfg.w.pos)
        /\ C.eff.ref = RefW(C.cfg)
        /\ Len(C.rows) = Len(C.eff.tab)
        /\ \A k \in 1..Len(C.eff.tab) : /\ C.eff.tab[k].src = Src3(C.cfg, C.eff.tab[k].id, C.eff.tab[k].pos)
                                        /\ C.rows[k].id = C.eff.tab[k].id /\ C.rows[k].pos = C.eff.tab[k].pos
        /\ \A k, m \in 1..Len(C.eff.tab) : k # m => (C.eff.tab[k].id # C.eff.tab[m].id \/ C.eff.tab[k].pos # C.eff.tab[m].pos)
        /\ (C.cfg.w.dep => \E k \in 1..Len(C.eff.tab) : C.eff.tab[k].id = C.cfg.w.id /\ C.eff.tab[k].pos = C.cfg.w.pos)
Far(x, y, d) == Abs(x - y) >= d
C31_3W_RowsDistinct ==
  W3 => \A k, m \in 1..Len(C.rows) : (k # m /\ C.eff.tab[k].src # "junk") =>
          /\ (Far(C.rows[k].ratio, C.rows[m].ratio, 2000) \/ Far(C.rows[k].angle, C.rows[m].angle, 100000))
          /\ \A n \in 1..4 : Far(C.rows[k].vk[n], C.rows[m].vk[n], 100000)
=============================================================================
