------------------------------- MODULE EquivDef -------------------------------
(* C05 / C23 -- power flow results are invariant under equivalent re-representations of a network (C05) and under the   *)
(* toolbox transformations documented as electrically neutral (C23).                                                     *)
(*                                                                                                                       *)
(* This module is the abstract model shared by Equiv.tla (model level) and EquivObs.tla (observation level):            *)
(*   1. an ABSTRACT NETWORK: tables of NAMED elements (the name is the identity of an element; its table row `pos` and   *)
(*      its index label `idx` are representation), small integer parameters (kW, kvar, m, mOhm/km, ...);                 *)
(*   2. the TEMPLATE network BaseNet(cfg) with its base variants (load level, ring line, options, sn_mva, index layout,  *)
(*      end of the open line switch);                                                                                    *)
(*   3. its TOPOLOGY (fused classes, energised buses, wiring components) -- the preconditions of the transformations     *)
(*      are stated with it;                                                                                              *)
(*   4. every TRANSFORMATION as an operator  abstract net x target -> abstract net  (TNet), with the preconditions under  *)
(*      which it is electrically neutral (Applicable) -- file:line of the toolbox counterpart in the comments;           *)
(*   5. the CORRESPONDENCE Corr(cfg) between the observation keys <<table, name, column>> of the original and of the      *)
(*      transformed network that the two properties require to agree: eq / renamed / sum / swapped ends / fused class /  *)
(*      total losses.  Keys that have no entry disappear (dropped elements) or are new (unconstrained).                  *)
(* No numerics: voltages and flows are observed from the implementation and compared by EquivObs.tla.                    *)
(*                                                                                                                       *)
(* Units of the abstract parameters (harness/equiv.py converts): bus vn 0.1 kV; line len m, r/x mOhm/km, c nF/km,        *)
(* g uS/km, maxi A; impedance r/x 1e-4 pu on sn MVA; powers kW / kvar; voltages setpoints milli-pu; xward r/x mOhm.        *)
EXTENDS Integers, Sequences, FiniteSets, TLC
\* undirected reachability over a set E of 2-tuples (same definition as Topology!Reach; kept local so that this domain does not
\* depend on the template constants of Topology.tla)
RECURSIVE Reach(_, _)
Reach(S, E) == LET N == S \cup {e[2] : e \in {e \in E : e[1] \in S}} \cup {e[1] : e \in {e \in E : e[2] \in S}}
               IN IF N = S THEN S ELSE Reach(N, E)

\* ---- tables ------------------------------------------------------------------------------------------------------------
NodeT == {"ext_grid", "gen", "sgen", "load", "ward", "xward", "shunt"}          \* one bus reference `bus`
FtT   == {"line", "impedance"}                                                  \* bus references `from`, `to`
ResT  == {"bus", "line", "trafo", "trafo3w", "impedance"} \cup NodeT             \* tables with a result table
AllT  == ResT \cup {"switch"}
\* result columns logged per table (harness/equiv.py COLS is the same table)
Cols(t) == CASE t = "bus"       -> {"vm", "va", "p", "q"}
             [] t = "line"      -> {"pf", "qf", "pt", "qt", "pl", "ql", "if", "it", "ika", "load"}
             [] t = "trafo"     -> {"ph", "qh", "plv", "qlv", "pl", "ql", "ih", "ilv", "load"}
             [] t = "trafo3w"   -> {"ph", "qh", "pm", "qm", "plv", "qlv", "pl", "ql", "ih", "im", "ilv", "load"}
             [] t = "impedance" -> {"pf", "qf", "pt", "qt", "pl", "ql", "if", "it"}
             [] t = "ext_grid"  -> {"p", "q"}
             [] t = "gen"       -> {"p", "q", "vm", "va"}
             [] t \in {"sgen", "load"} -> {"p", "q"}
             [] t = "ward"      -> {"p", "q", "vm"}
             [] t = "xward"     -> {"p", "q", "vm", "vmi", "vai"}
             [] t = "shunt"     -> {"p", "q", "vm"}
ImpCols == Cols("impedance")                                   \* the columns a line and an impedance have in common
EndCols == {"pf", "qf", "pt", "qt", "if", "it"}                \* line columns that belong to one END of the line
OtherEnd(c) == CASE c = "pf" -> "pt" [] c = "pt" -> "pf" [] c = "qf" -> "qt" [] c = "qt" -> "qf" [] c = "if" -> "it" [] c = "it" -> "if"

\* ---- index labels and row order -------------------------------------------------------------------------------------------
\* permutation / relabelling classes of the n rows 0..n-1 of a table: identity, reversed, rotated, with gaps, offset
PermClasses == {"id", "rev", "rot", "gap", "off"}
Perm(c, n, k) == CASE c = "id" -> k [] c = "rev" -> n - 1 - k [] c = "rot" -> (k + 1) % n [] c = "gap" -> 3 * k + 2 [] c = "off" -> k + 100
Card(f) == Cardinality(DOMAIN f)
WithIdx(tab, layout) == [n \in DOMAIN tab |-> tab[n] @@ [idx |-> Perm(layout, Card(tab), tab[n].pos)]]
RECURSIVE MaxOf(_)
MaxOf(S) == IF S = {} THEN -1 ELSE LET x == CHOOSE y \in S : TRUE IN LET m == MaxOf(S \ {x}) IN IF x > m THEN x ELSE m
NextIdx(tab) == MaxOf({tab[n].idx : n \in DOMAIN tab}) + 1                     \* what create_* assigns to a new row
NextPos(tab) == MaxOf({tab[n].pos : n \in DOMAIN tab}) + 1
Rank(tab, n) == Cardinality({m \in DOMAIN tab : tab[m].idx < tab[n].idx})        \* position after sort_index()
Drop(tab, names) == [n \in (DOMAIN tab) \ names |-> tab[n]]
Put(tab, name, rec) == [n \in (DOMAIN tab) \cup {name} |-> IF n = name THEN rec ELSE tab[n]]
AddRow(tab, name, rec) == Put(tab, name, [pos |-> NextPos(tab), idx |-> NextIdx(tab)] @@ rec)     \* f @@ g: f wins

\* ---- the template ------------------------------------------------------------------------------------------------------------
(* Buses b0..b5 + b8 are the main part: b0 20 kV (ext_grid e0), b1 (gen g0, load ld0), b2 (sgen sg0, ward wa0, transformer   *)
(* t0 to b3 0.4 kV with load ld2), b4 joined to b2 by the closed zero-impedance bus-bus switch s0 (load ld1), b5 (xward     *)
(* xw0, zero-power sgen sg1, out-of-service load ld3), b8 behind line l6 whose line switch s1 is OPEN (load ld5: b8 is      *)
(* not energised).  b6 (ext_grid e1) - b7 (load ld4, sgen sg2) is a second, separately supplied island.                     *)
(* Lines: l0 b0-b1, l1 b1-b2 parallel=2, l2 b0-b2 (the ring line, in/out of service per variant), l3 b4-b5 without shunt    *)
(* admittance (c = g = 0), l4 b1-b5 out of service (c = g = 0), l5 b6-b7 parallel=3, l6 b5-b8; impedance i0 b1-b2.          *)
(* Transformers: t0 b2-b3 and t1 b1-b3 supply the 0.4 kV bus b3 from two sides, t2 b7-b11 (0.4 kV, load ld8) belongs to the  *)
(* second island; the three-winding transformers w0 (hv b5) and w1 (hv b1) both supply b9 (10 kV, load ld6) and b10 (0.4 kV, *)
(* load ld7).  Base variant `tsw`: the switches at transformers -- none, closed ones, or an OPEN switch at one side of a      *)
(* two-winding and of a three-winding transformer (every bus stays energised through the parallel transformer; the open      *)
(* switch re-routes one end of the ppc branch row of exactly that transformer to an auxiliary bus).                          *)
Bs(vn, pos) == [vn |-> vn, ins |-> TRUE, pos |-> pos]
Bus0 == [b0 |-> Bs(200, 0), b1 |-> Bs(200, 1), b2 |-> Bs(200, 2), b3 |-> Bs(4, 3), b4 |-> Bs(200, 4), b5 |-> Bs(200, 5),
         b6 |-> Bs(200, 6), b7 |-> Bs(200, 7), b8 |-> Bs(200, 8), b9 |-> Bs(100, 9), b10 |-> Bs(4, 10), b11 |-> Bs(4, 11)]
Ln(f, t, len, r, x, c, g, par, maxi, ins, pos) ==
    [from |-> f, to |-> t, len |-> len, r |-> r, x |-> x, c |-> c, g |-> g, par |-> par, maxi |-> maxi, ins |-> ins, pos |-> pos]
Line0(ring) == [l0 |-> Ln("b0", "b1", 4000, 120, 110, 200, 2, 1, 400, TRUE, 0),
                l1 |-> Ln("b1", "b2", 3000, 240, 220, 100, 0, 2, 300, TRUE, 1),
                l2 |-> Ln("b0", "b2", 6000, 120, 110, 200, 0, 1, 400, ring, 2),
                l3 |-> Ln("b4", "b5", 2000, 200, 100, 0, 0, 1, 300, TRUE, 3),
                l4 |-> Ln("b1", "b5", 2500, 200, 100, 0, 0, 1, 300, FALSE, 4),
                l5 |-> Ln("b6", "b7", 1500, 360, 330, 60, 0, 3, 200, TRUE, 5),
                l6 |-> Ln("b5", "b8", 1000, 200, 100, 150, 0, 1, 300, TRUE, 6)]
Tr(hv, lv, pos) == [hv |-> hv, lv |-> lv, ins |-> TRUE, pos |-> pos]
Trafo0 == [t0 |-> Tr("b2", "b3", 0), t1 |-> Tr("b1", "b3", 1), t2 |-> Tr("b7", "b11", 2)]
Trafo3w0 == [w0 |-> [hv |-> "b5", mv |-> "b9", lv |-> "b10", ins |-> TRUE, pos |-> 0],
             w1 |-> [hv |-> "b1", mv |-> "b9", lv |-> "b10", ins |-> TRUE, pos |-> 1]]
Imp0 == [i0 |-> [from |-> "b1", to |-> "b2", r |-> 100, x |-> 500, sn |-> 10, ins |-> TRUE, pos |-> 0]]       \* symmetric (rft = rtf)
NoTab == [n \in {} |-> 0]
Sw(bus, et, elem, closed, pos) == [bus |-> bus, et |-> et, elem |-> elem, closed |-> closed, pos |-> pos]
\* switches at transformers (et "t": elem is a two-winding, "t3": a three-winding transformer); an open one never de-energises a bus
TswLevels == {"none", "closed", "t1lv_w1mv", "t0hv_w0lv", "t1hv_w1hv"}
TSwitch0(tsw) == CASE tsw = "none"      -> NoTab
                   [] tsw = "closed"    -> [s2 |-> Sw("b3", "t", "t1", TRUE, 2),  s3 |-> Sw("b9", "t3", "w1", TRUE, 3)]
                   [] tsw = "t1lv_w1mv" -> [s2 |-> Sw("b3", "t", "t1", FALSE, 2), s3 |-> Sw("b9", "t3", "w1", FALSE, 3)]
                   [] tsw = "t0hv_w0lv" -> [s2 |-> Sw("b2", "t", "t0", FALSE, 2), s3 |-> Sw("b10", "t3", "w0", FALSE, 3)]
                   [] tsw = "t1hv_w1hv" -> [s2 |-> Sw("b1", "t", "t1", FALSE, 2), s3 |-> Sw("b1", "t3", "w1", FALSE, 3)]
Switch0(swend, tsw) == [s0 |-> Sw("b2", "b", "b4", TRUE, 0),
                        s1 |-> Sw(IF swend = "near" THEN "b5" ELSE "b8", "l", "l6", FALSE, 1)] @@ TSwitch0(tsw)
Eg0 == [e0 |-> [bus |-> "b0", vm |-> 1020, ins |-> TRUE, pos |-> 0], e1 |-> [bus |-> "b6", vm |-> 1010, ins |-> TRUE, pos |-> 1]]
Gen0 == [g0 |-> [bus |-> "b1", p |-> 800, vm |-> 1015, slack |-> FALSE, ins |-> TRUE, pos |-> 0]]
Pq(bus, p, q, ins, pos) == [bus |-> bus, p |-> p, q |-> q, ins |-> ins, pos |-> pos]
Sgen0 == [sg0 |-> Pq("b2", 800, 120, TRUE, 0), sg1 |-> Pq("b5", 0, 0, TRUE, 1), sg2 |-> Pq("b7", 200, 40, TRUE, 2)]
\* load level: "low" = the values below, "high" = doubled (all divisible by 4: a split into quarters is exact)
Load0(k) == [ld0 |-> Pq("b1", 1200 * k, 400 * k, TRUE, 0), ld1 |-> Pq("b4", 480 * k, 120 * k, TRUE, 1),
             ld2 |-> Pq("b3", 200 * k, 40 * k, TRUE, 2),   ld3 |-> Pq("b5", 400 * k, 80 * k, FALSE, 3),
             ld4 |-> Pq("b7", 320 * k, 80 * k, TRUE, 4),   ld5 |-> Pq("b8", 100 * k, 20 * k, TRUE, 5),
             ld6 |-> Pq("b9", 300 * k, 60 * k, TRUE, 6),   ld7 |-> Pq("b10", 100 * k, 20 * k, TRUE, 7),
             ld8 |-> Pq("b11", 60 * k, 20 * k, TRUE, 8)]
Ward0 == [wa0 |-> [bus |-> "b2", ps |-> 100, qs |-> 50, pz |-> 100, qz |-> 20, ins |-> TRUE, pos |-> 0]]
Xward0 == [xw0 |-> [bus |-> "b5", ps |-> 100, qs |-> 50, pz |-> 100, qz |-> 20, r |-> 1000, x |-> 5000, vm |-> 1010, ins |-> TRUE, pos |-> 0]]

(* a configuration: [prop, tr, tgt, n, perm, at]  (transformation, its target)  +  base variant                             *)
(*   lvl "low"|"high", ring BOOLEAN, cva (calculate_voltage_angles), tmodel "t"|"pi", sn (net.sn_mva) 1|10,                 *)
(*   layout: index labels of the ORIGINAL net ("id" continuous, "rot" permuted, "gap" with gaps), swend "near"|"far",       *)
(*   tsw: the switches at transformers (TswLevels).                                                                        *)
BaseNet(cfg) ==
    LET L == cfg.layout IN
    [sn |-> cfg.sn, bus |-> WithIdx(Bus0, L), line |-> WithIdx(Line0(cfg.ring), L), trafo |-> WithIdx(Trafo0, L),
     trafo3w |-> WithIdx(Trafo3w0, L), impedance |-> WithIdx(Imp0, L), switch |-> WithIdx(Switch0(cfg.swend, cfg.tsw), L), ext_grid |-> WithIdx(Eg0, L),
     gen |-> WithIdx(Gen0, L), sgen |-> WithIdx(Sgen0, L), load |-> WithIdx(Load0(IF cfg.lvl = "high" THEN 2 ELSE 1), L),
     ward |-> WithIdx(Ward0, L), xward |-> WithIdx(Xward0, L), shunt |-> NoTab]

\* ---- topology of an abstract net ------------------------------------------------------------------------------------------------
Names(net, t) == DOMAIN net[t]
Live(net) == {b \in Names(net, "bus") : net.bus[b].ins}
ElSw(net, et, e) == {s \in Names(net, "switch") : net.switch[s].et = et /\ net.switch[s].elem = e}     \* switches of one branch element
OpenAtE(net, et, e, b) == \E s \in ElSw(net, et, e) : net.switch[s].bus = b /\ ~net.switch[s].closed
LineSw(net, l) == ElSw(net, "l", l)
OpenAt(net, l, b) == OpenAtE(net, "l", l, b)
SwTab(et) == CASE et = "l" -> "line" [] et = "t" -> "trafo" [] et = "t3" -> "trafo3w" [] et = "b" -> "bus"   \* table a switch element lives in
BBClosed(net) == {s \in Names(net, "switch") : net.switch[s].et = "b" /\ net.switch[s].closed}
\* closed bus-bus switches have z_ohm = 0 in this template: they FUSE their buses (build_bus.py create_bus_lookup)
FuseE(net) == {<<net.switch[s].bus, net.switch[s].elem>> : s \in BBClosed(net)}
Class(net, b) == Reach({b}, FuseE(net))
\* conducting connections (topology.unsupplied_buses, respect_switches): an open switch at either end interrupts a line or a
\* two-winding transformer; a three-winding transformer connects those of its sides that have no open switch
LiveLines(net) == {l \in Names(net, "line") : net.line[l].ins /\ ~OpenAt(net, l, net.line[l].from) /\ ~OpenAt(net, l, net.line[l].to)}
LiveTrafos(net) == {t \in Names(net, "trafo") : net.trafo[t].ins /\ ~OpenAtE(net, "t", t, net.trafo[t].hv) /\ ~OpenAtE(net, "t", t, net.trafo[t].lv)}
Sides3(net, w) == {net.trafo3w[w].hv, net.trafo3w[w].mv, net.trafo3w[w].lv}
LiveSides3(net, w) == IF net.trafo3w[w].ins THEN {b \in Sides3(net, w) : ~OpenAtE(net, "t3", w, b)} ELSE {}
CondE(net) == {e \in FuseE(net) \cup {<<net.line[l].from, net.line[l].to>> : l \in LiveLines(net)}
                     \cup {<<net.trafo[t].hv, net.trafo[t].lv>> : t \in LiveTrafos(net)}
                     \cup UNION {LiveSides3(net, w) \X LiveSides3(net, w) : w \in Names(net, "trafo3w")}
                     \cup {<<net.impedance[i].from, net.impedance[i].to>> : i \in {i \in Names(net, "impedance") : net.impedance[i].ins}}
                : e[1] \in Live(net) /\ e[2] \in Live(net)}
SlackBuses(net) == {net.ext_grid[e].bus : e \in {e \in Names(net, "ext_grid") : net.ext_grid[e].ins}}
                   \cup {net.gen[g].bus : g \in {g \in Names(net, "gen") : net.gen[g].ins /\ net.gen[g].slack}}
Supplied(net) == Reach(SlackBuses(net) \cap Live(net), CondE(net))
\* wiring components: everything that is attached to a bus by any branch or switch, whatever its status
WireE(net) == {<<net.switch[s].bus, net.switch[s].elem>> : s \in {s \in Names(net, "switch") : net.switch[s].et = "b"}}
              \cup {<<net.line[l].from, net.line[l].to>> : l \in Names(net, "line")}
              \cup {<<net.trafo[t].hv, net.trafo[t].lv>> : t \in Names(net, "trafo")}
              \cup UNION {Sides3(net, w) \X Sides3(net, w) : w \in Names(net, "trafo3w")}
              \cup {<<net.impedance[i].from, net.impedance[i].to>> : i \in Names(net, "impedance")}
Component(net, b) == Reach({b}, WireE(net))
\* buses of an element
BusesOf(net, t, n) == IF t \in NodeT THEN {net[t][n].bus} ELSE IF t \in FtT THEN {net[t][n].from, net[t][n].to}
                      ELSE IF t = "trafo" THEN {net.trafo[n].hv, net.trafo[n].lv} ELSE IF t = "trafo3w" THEN Sides3(net, n)
                      ELSE IF t = "bus" THEN {n}
                      ELSE IF net.switch[n].et = "b" THEN {net.switch[n].bus, net.switch[n].elem} ELSE {net.switch[n].bus}
\* the part of a network on a set S of buses (select_subnet, grid_modification.py:40: bus elements at S, branches with all
\* ends in S, switches at S whose element -- bus, line, transformer, three-winding transformer -- is kept)
Sub(net, S) ==
    LET keep(t) == {n \in Names(net, t) : BusesOf(net, t, n) \subseteq S}
        sw == {s \in keep("switch") : net.switch[s].elem \in keep(SwTab(net.switch[s].et))}
    IN [t \in AllT |-> [n \in (IF t = "switch" THEN sw ELSE keep(t)) |-> net[t][n]]] @@ [sn |-> net.sn]
\* index labels a part gets when it is built as a network of its own (merge_nets: both parts use overlapping labels)
Relabel(net, layout) ==
    LET re(tab) == [n \in DOMAIN tab |-> [tab[n] EXCEPT !.idx = Perm(layout, Card(tab), Cardinality({m \in DOMAIN tab : tab[m].pos < tab[n].pos}))]]
    IN [t \in AllT |-> re(net[t])] @@ [sn |-> net.sn]

\* ---- transformations ----------------------------------------------------------------------------------------------------------------
C05Tr == {"sn", "reidx_bus", "reidx_elm", "rowperm", "split", "par_expand", "swap", "add_oos", "add_zero", "fuse_move"}
C23Tr == {"cont_bus", "cont_elm", "line2imp", "line_rt", "imp2line", "imp_rt", "eg2gen", "ward2int", "xward2int", "merge",
          "subnet", "drop_oos", "drop_inactive", "fuse_buses", "merge_par"}
TabOf(net, name) == CHOOSE t \in {"load", "sgen"} : name \in Names(net, t)           \* table of a split target

\* re-route every reference from bus `gone` to bus `keep`, drop bus `gone` and the bus-bus switches that now join keep with
\* itself (fuse_buses, grid_modification.py:613; the same edit done by hand is the C05 transformation "fuse_move")
Fuse(net, keep, gone) ==
    LET mv(b) == IF b = gone THEN keep ELSE b
        node(tab) == [n \in DOMAIN tab |-> [tab[n] EXCEPT !.bus = mv(@)]]
        ft(tab) == [n \in DOMAIN tab |-> [tab[n] EXCEPT !.from = mv(@), !.to = mv(@)]]
        sw0 == [s \in Names(net, "switch") |-> IF net.switch[s].et = "b" THEN [net.switch[s] EXCEPT !.bus = mv(@), !.elem = mv(@)]
                                               ELSE [net.switch[s] EXCEPT !.bus = mv(@)]]
        inner == {s \in DOMAIN sw0 : sw0[s].et = "b" /\ sw0[s].bus = sw0[s].elem}
    IN [sn |-> net.sn, bus |-> Drop(net.bus, {gone}), line |-> ft(net.line), impedance |-> ft(net.impedance),
        trafo |-> [t \in Names(net, "trafo") |-> [net.trafo[t] EXCEPT !.hv = mv(@), !.lv = mv(@)]],
        trafo3w |-> [w \in Names(net, "trafo3w") |-> [net.trafo3w[w] EXCEPT !.hv = mv(@), !.mv = mv(@), !.lv = mv(@)]], switch |-> Drop(sw0, inner),
        ext_grid |-> node(net.ext_grid), gen |-> node(net.gen), sgen |-> node(net.sgen), load |-> node(net.load),
        ward |-> node(net.ward), xward |-> node(net.xward), shunt |-> node(net.shunt)]

\* drop_out_of_service_elements (grid_modification.py:996): out-of-service branches go first (lines / transformers with their switches), then
\* out-of-service buses that no remaining branch refers to (with everything attached to them), then out-of-service bus elements
DropOos(net) ==
    LET lines == {l \in Names(net, "line") : net.line[l].ins}
        trafos == {t \in Names(net, "trafo") : net.trafo[t].ins}
        imps == {i \in Names(net, "impedance") : net.impedance[i].ins}
        t3s == {w \in Names(net, "trafo3w") : net.trafo3w[w].ins}
        held == UNION ({{net.line[l].from, net.line[l].to} : l \in lines} \cup {{net.trafo[t].hv, net.trafo[t].lv} : t \in trafos}
                       \cup {{net.impedance[i].from, net.impedance[i].to} : i \in imps} \cup {Sides3(net, w) : w \in t3s})
        gone == {b \in Names(net, "bus") : ~net.bus[b].ins /\ b \notin held}
        n1 == [net EXCEPT !.line = Drop(@, Names(net, "line") \ lines), !.trafo = Drop(@, Names(net, "trafo") \ trafos),
                          !.impedance = Drop(@, Names(net, "impedance") \ imps), !.trafo3w = Drop(@, Names(net, "trafo3w") \ t3s),
                          !.switch = Drop(@, {s \in Names(net, "switch") : (net.switch[s].et = "l" /\ net.switch[s].elem \notin lines)
                                                                          \/ (net.switch[s].et = "t" /\ net.switch[s].elem \notin trafos)
                                                                          \/ (net.switch[s].et = "t3" /\ net.switch[s].elem \notin t3s)})]
        n2 == Sub(n1, Names(net, "bus") \ gone)
    IN [t \in AllT |-> IF t \in NodeT THEN Drop(n2[t], {n \in DOMAIN n2[t] : ~n2[t][n].ins}) ELSE n2[t]] @@ [sn |-> net.sn]
\* set_isolated_areas_out_of_service (grid_modification.py:307): buses that are not energised go out of service together with the
\* elements connected to them (get_connected_elements: a line is NOT connected to a bus where it has an open switch); a line
\* whose open switch looks at an out-of-service bus on the other side goes out of service as well.  Transformers: the open
\* transformer switches of the template never de-energise a bus (Equiv!EnergisationKept), so a transformer goes out of service
\* exactly when one of its buses does
Isolate(net) ==
    LET U == Names(net, "bus") \ Supplied(net)
        conn(l) == \E b \in {net.line[l].from, net.line[l].to} : b \in U /\ ~OpenAt(net, l, b)
        far(l) == \E s \in LineSw(net, l) : ~net.switch[s].closed /\ ~(({net.line[l].from, net.line[l].to} \ {net.switch[s].bus}) \subseteq (Live(net) \ U))
        node(tab) == [n \in DOMAIN tab |-> [tab[n] EXCEPT !.ins = tab[n].ins /\ tab[n].bus \notin U]]
    IN [net EXCEPT !.bus = [b \in Names(net, "bus") |-> [net.bus[b] EXCEPT !.ins = net.bus[b].ins /\ b \notin U]],
                   !.line = [l \in Names(net, "line") |-> [net.line[l] EXCEPT !.ins = net.line[l].ins /\ ~conn(l) /\ ~far(l)]],
                   !.trafo = [t \in Names(net, "trafo") |-> [net.trafo[t] EXCEPT !.ins = net.trafo[t].ins /\ net.trafo[t].hv \notin U /\ net.trafo[t].lv \notin U]],
                   !.trafo3w = [w \in Names(net, "trafo3w") |-> [net.trafo3w[w] EXCEPT !.ins = net.trafo3w[w].ins /\ Sides3(net, w) \cap U = {}]],
                   !.impedance = [j \in Names(net, "impedance") |-> [net.impedance[j] EXCEPT !.ins = net.impedance[j].ins /\ net.impedance[j].from \notin U /\ net.impedance[j].to \notin U]],
                   !.ext_grid = node(net.ext_grid), !.gen = node(net.gen), !.sgen = node(net.sgen), !.load = node(net.load),
                   !.ward = node(net.ward), !.xward = node(net.xward), !.shunt = node(net.shunt)]

\* names of the parts of a split / expanded element, shares of a split in quarters
Part(name, k) == name \o "_" \o ToString(k)
Shares(n) == IF n = 2 THEN <<1, 3>> ELSE <<2, 1, 1>>
Parts(tab, name, n, rec(_)) ==                     \* replace row `name` by n rows; the first keeps the place of the original
    LET rest == Drop(tab, {name})
    IN [m \in (DOMAIN rest) \cup {Part(name, k) : k \in 1..n} |->
          IF m \in DOMAIN rest THEN rest[m]
          ELSE LET k == CHOOSE j \in 1..n : m = Part(name, j)
               IN [rec(k) EXCEPT !.pos = IF k = 1 THEN tab[name].pos ELSE NextPos(tab) + k - 2,
                                 !.idx = IF k = 1 THEN tab[name].idx ELSE NextIdx(tab) + k - 2]]
OtherBus(at) == CASE at = "b1" -> "b5" [] at = "b5" -> "b1" [] at = "b7" -> "b6"
\* the element a transformation adds (out of service: typical non-zero parameters; zero power: in service, all powers zero)
NewElem(net, kind, at, ins, z) ==
    LET nm == "x_" \o kind
        add(t, rec) == [net EXCEPT ![t] = AddRow(@, nm, rec)]
        pw(v) == IF z THEN 0 ELSE v
    IN CASE kind \in {"load", "sgen"} -> add(kind, [bus |-> at, p |-> pw(300), q |-> pw(100), ins |-> ins])
         [] kind = "gen"       -> add("gen", [bus |-> at, p |-> 300, vm |-> 1030, slack |-> FALSE, ins |-> ins])
         [] kind = "ext_grid"  -> add("ext_grid", [bus |-> at, vm |-> 1040, ins |-> ins])
         [] kind = "ward"      -> add("ward", [bus |-> at, ps |-> pw(100), qs |-> pw(50), pz |-> pw(100), qz |-> pw(20), ins |-> ins])
         [] kind = "xward"     -> add("xward", [bus |-> at, ps |-> 100, qs |-> 50, pz |-> 100, qz |-> 20, r |-> 1000, x |-> 5000, vm |-> 1000, ins |-> ins])
         [] kind = "shunt"     -> add("shunt", [bus |-> at, p |-> pw(50), q |-> pw(200), ins |-> ins])
         [] kind = "line"      -> add("line", Ln(at, OtherBus(at), 1000, 120, 110, 200, 0, 1, 300, ins, 0))
         [] kind = "impedance" -> add("impedance", [from |-> at, to |-> OtherBus(at), r |-> 100, x |-> 500, sn |-> 10, ins |-> ins])
         [] kind = "trafo"     -> add("trafo", [hv |-> at, lv |-> "b3", ins |-> ins])
         [] kind = "bus"       -> [add("bus", [vn |-> 200, ins |-> ins]) EXCEPT !.load = AddRow(@, "x_busload", [bus |-> nm, p |-> 300, q |-> 100, ins |-> TRUE])]

\* does replace_line_by_impedance(only_valid_replace=True) replace the line?  (grid_modification.py:1236: lines with capacitance
\* or conductance are skipped -- "lines will only replaced, if a replacement leads to equal power flow results")
Replaceable(net, l) == net.line[l].c = 0 /\ net.line[l].g = 0

\* The transformed abstract network.
TNetOf(net, cfg) ==
    LET tr == cfg.tr  tg == cfg.tgt IN
    CASE tr = "sn" -> [net EXCEPT !.sn = cfg.n]                                         \* net.sn_mva only; no parameter is per unit of it
      [] tr = "reidx_bus" -> [net EXCEPT !.bus = [b \in Names(net, "bus") |-> [net.bus[b] EXCEPT !.idx = Perm(cfg.perm, Card(net.bus), net.bus[b].pos)]]]
      [] tr = "reidx_elm" -> [net EXCEPT ![tg] = [n \in Names(net, tg) |-> [net[tg][n] EXCEPT !.idx = Perm(cfg.perm, Card(net[tg]), net[tg][n].pos)]]]
      [] tr = "rowperm"   -> [net EXCEPT ![tg] = [n \in Names(net, tg) |-> [net[tg][n] EXCEPT !.pos = Perm(cfg.perm, Card(net[tg]), net[tg][n].pos)]]]
      [] tr = "split" -> LET t == TabOf(net, tg)  e == net[t][tg]
                             rec(k) == [e EXCEPT !.p = (e.p * Shares(cfg.n)[k]) \div 4, !.q = (e.q * Shares(cfg.n)[k]) \div 4]
                         IN [net EXCEPT ![t] = Parts(@, tg, cfg.n, rec)]
      [] tr = "par_expand" -> LET e == net.line[tg]  rec(k) == [e EXCEPT !.par = 1]
                              IN [net EXCEPT !.line = Parts(@, tg, e.par, rec)]
      [] tr = "swap" -> [net EXCEPT !.line[tg] = [net.line[tg] EXCEPT !.from = net.line[tg].to, !.to = net.line[tg].from]]
      [] tr = "add_oos" -> NewElem(net, tg, cfg.at, FALSE, FALSE)
      [] tr = "add_zero" -> NewElem(net, tg, cfg.at, TRUE, TRUE)
      [] tr \in {"fuse_move", "fuse_buses"} -> Fuse(net, tg, CHOOSE b \in Class(net, tg) : b # tg)
      \* create_continuous_bus_index (data_modification.py:188): sort_index, relabel 0..n-1
      [] tr = "cont_bus" -> [net EXCEPT !.bus = [b \in Names(net, "bus") |-> [net.bus[b] EXCEPT !.idx = Rank(net.bus, b), !.pos = Rank(net.bus, b)]]]
      \* create_continuous_elements_index (data_modification.py:352): the same for every table
      [] tr = "cont_elm" -> [t \in AllT |-> [n \in DOMAIN net[t] |-> [net[t][n] EXCEPT !.idx = Rank(net[t], n), !.pos = Rank(net[t], n)]]] @@ [sn |-> net.sn]
      \* replace_line_by_impedance (grid_modification.py:1211): the impedance carries the series impedance of all parallel systems
      \* in per unit of net.sn_mva; drop_lines removes the line's switches
      [] tr = "line2imp" -> IF ~Replaceable(net, tg) THEN net
                            ELSE LET e == net.line[tg] IN
                                 [net EXCEPT !.line = Drop(@, {tg}), !.switch = Drop(@, LineSw(net, tg)),
                                             !.impedance = AddRow(@, tg, [from |-> e.from, to |-> e.to, r |-> 0, x |-> 0, sn |-> net.sn, ins |-> e.ins])]
      \* ... and back by replace_impedance_by_line (grid_modification.py:1158): one 1 km line, parallel = 1, no capacitance
      [] tr = "line_rt" -> LET e == net.line[tg] IN
                           [net EXCEPT !.switch = Drop(@, LineSw(net, tg)),
                                       !.line = AddRow(Drop(@, {tg}), tg, [e EXCEPT !.len = 1000, !.par = 1, !.c = 0, !.g = 0])]
      [] tr = "imp2line" -> LET e == net.impedance[tg] IN
                            [net EXCEPT !.impedance = Drop(@, {tg}),
                                        !.line = AddRow(@, tg, Ln(e.from, e.to, 1000, 0, 0, 0, 0, 1, 0, e.ins, 0))]
      [] tr = "imp_rt" -> [net EXCEPT !.impedance = AddRow(Drop(@, {tg}), tg, [net.impedance[tg] EXCEPT !.sn = net.sn])]
      \* replace_ext_grid_by_gen(slack=True) (grid_modification.py:1273)
      [] tr = "eg2gen" -> LET e == net.ext_grid[tg] IN
                          [net EXCEPT !.ext_grid = Drop(@, {tg}), !.gen = AddRow(@, tg, [bus |-> e.bus, p |-> 0, vm |-> e.vm, slack |-> TRUE, ins |-> e.ins])]
      \* replace_ward_by_internal_elements (grid_modification.py:1712): constant-power part -> load, constant-impedance part -> shunt
      [] tr = "ward2int" -> LET e == net.ward[tg] IN
                            [net EXCEPT !.ward = Drop(@, {tg}), !.load = AddRow(@, tg, [bus |-> e.bus, p |-> e.ps, q |-> e.qs, ins |-> e.ins]),
                                        !.shunt = AddRow(@, tg, [bus |-> e.bus, p |-> e.pz, q |-> e.qz, ins |-> e.ins])]
      \* replace_xward_by_internal_elements (grid_modification.py:1768): + internal bus with a PV generator behind an impedance
      [] tr = "xward2int" -> LET e == net.xward[tg] IN
                             [net EXCEPT !.xward = Drop(@, {tg}), !.bus = AddRow(@, tg, [vn |-> net.bus[e.bus].vn, ins |-> e.ins]),
                                         !.load = AddRow(@, tg, [bus |-> e.bus, p |-> e.ps, q |-> e.qs, ins |-> e.ins]),
                                         !.shunt = AddRow(@, tg, [bus |-> e.bus, p |-> e.pz, q |-> e.qz, ins |-> e.ins]),
                                         !.gen = AddRow(@, tg, [bus |-> tg, p |-> 0, vm |-> e.vm, slack |-> FALSE, ins |-> e.ins]),
                                         !.impedance = AddRow(@, tg, [from |-> e.bus, to |-> tg, r |-> 0, x |-> 0, sn |-> net.sn, ins |-> e.ins])]
      [] tr = "merge" -> net                                                            \* the ORIGINAL is the pair of parts, see ANets
      [] tr = "subnet" -> Sub(net, Component(net, tg))
      [] tr = "drop_oos" -> DropOos(net)
      [] tr = "drop_inactive" -> DropOos(Isolate(net))
      \* merge_parallel_line (grid_modification.py:461): one system with the impedance of the parallel ones
      [] tr = "merge_par" -> [net EXCEPT !.line[tg] = [net.line[tg] EXCEPT !.par = 1, !.r = @ \div net.line[tg].par, !.x = @ \div net.line[tg].par,
                                                                !.c = @ * net.line[tg].par, !.g = @ * net.line[tg].par, !.maxi = @ * net.line[tg].par]]
\* the original network(s): one, except for merge_nets whose input are the two wiring components as networks of their own
MainPart(net) == Component(net, "b0")
ANetsOf(net, cfg) == IF cfg.tr # "merge" THEN <<net>>
                     ELSE LET p1 == Relabel(Sub(net, MainPart(net)), cfg.layout)
                              p2 == Relabel(Sub(net, Names(net, "bus") \ MainPart(net)), cfg.layout)
                          IN IF cfg.tgt = "12" THEN <<p1, p2>> ELSE <<p2, p1>>
\* everything the correspondence is computed from: configuration, template, original network(s), transformed network
World(cfg) == LET net == BaseNet(cfg) IN [cfg |-> cfg, net |-> net, an |-> ANetsOf(net, cfg), tn |-> TNetOf(net, cfg)]
TNet(cfg) == TNetOf(BaseNet(cfg), cfg)
ANets(cfg) == ANetsOf(BaseNet(cfg), cfg)

\* ---- applicability: the targets for which the transformation is documented / physically neutral -------------------------------------
InService(net, t, n) == net[t][n].ins /\ BusesOf(net, t, n) \subseteq Supplied(net)
Applicable(cfg) ==
    LET net == BaseNet(cfg)  tr == cfg.tr  tg == cfg.tgt IN
    CASE tr = "sn" -> cfg.n \in {1, 10, 100} \ {cfg.sn}
      [] tr = "reidx_bus" -> cfg.perm \in PermClasses \ {cfg.layout}
      [] tr = "reidx_elm" -> tg \in AllT \ {"bus"} /\ Card(net[tg]) > 0 /\ cfg.perm \in PermClasses \ {cfg.layout}
      [] tr = "rowperm" -> tg \in AllT /\ Card(net[tg]) > 1 /\ cfg.perm \in {"rev", "rot"}
      [] tr = "split" -> tg \in Names(net, "load") \cup Names(net, "sgen") /\ InService(net, TabOf(net, tg), tg) /\ cfg.n \in {2, 3}
      [] tr = "par_expand" -> tg \in Names(net, "line") /\ net.line[tg].par > 1 /\ LineSw(net, tg) = {}
      [] tr = "swap" -> tg \in Names(net, "line")
      [] tr = "add_oos" -> tg \in {"load", "sgen", "gen", "ext_grid", "ward", "xward", "shunt", "line", "impedance", "trafo", "bus"} /\ cfg.at \in {"b1", "b5", "b7"}
      [] tr = "add_zero" -> tg \in {"load", "sgen", "ward", "shunt"} /\ cfg.at \in {"b1", "b5", "b7"}
      [] tr \in {"fuse_move", "fuse_buses"} -> tg \in Names(net, "bus") /\ Cardinality(Class(net, tg)) = 2
      [] tr \in {"cont_bus", "cont_elm", "drop_oos", "drop_inactive"} -> tg = "-"
      \* a line switch would be lost with the line: only lines without switches; lines with shunt admittance are legal targets
      \* (the function must leave them alone)
      [] tr = "line2imp" -> tg \in Names(net, "line") /\ LineSw(net, tg) = {}
      [] tr = "line_rt" -> tg \in Names(net, "line") /\ LineSw(net, tg) = {} /\ Replaceable(net, tg)
      [] tr \in {"imp2line", "imp_rt"} -> tg \in Names(net, "impedance")                 \* i0 is symmetric
      [] tr = "eg2gen" -> tg \in Names(net, "ext_grid")                                  \* va_degree = 0 in the template
      [] tr = "ward2int" -> tg \in Names(net, "ward")
      [] tr = "xward2int" -> tg \in Names(net, "xward")
      [] tr = "merge" -> tg \in {"12", "21"}
      \* a wiring component that is supplied: nothing that carries current is cut off
      [] tr = "subnet" -> tg \in {"b0", "b6"} /\ tg \in Supplied(net)
      [] tr = "merge_par" -> tg \in Names(net, "line")

\* ---- observation keys and the correspondence ------------------------------------------------------------------------------------------------
ObsKeys(net) == UNION {{<<t, n, c>> : n \in Names(net, t), c \in Cols(t)} : t \in ResT}
OverA(W, f(_)) == IF Len(W.an) = 1 THEN f(W.an[1]) ELSE f(W.an[1]) \cup f(W.an[2])
KeysA(W) == OverA(W, ObsKeys)
KeysB(W) == ObsKeys(W.tn)
\* one entry: the sum of the values of keys l in map ls is required to equal the sum of the keys r in map rs
M(kind, ls, l, rs, r) == [kind |-> kind, ls |-> ls, l |-> l, rs |-> rs, r |-> r]
EqM(k) == M("eq", "A", {k}, "B", {k})
RenM(ka, kb) == M("ren", "A", {ka}, "B", {kb})
SumM(ka, kbs) == M("sum", "A", ka, "B", kbs)
LossKeys(net) == UNION {{<<t, n, "pl">> : n \in Names(net, t)} : t \in {"line", "trafo", "trafo3w", "impedance"}}
LossKeysQ(net) == {<<k[1], k[2], "ql">> : k \in LossKeys(net)}

\* keys with the same name on both sides whose meaning changes
Excl(W) ==
    LET net == W.net  cfg == W.cfg  tg == cfg.tgt IN
    CASE cfg.tr = "swap" -> {<<"line", tg, c>> : c \in EndCols}
      [] cfg.tr = "xward2int" -> {<<"bus", net.xward[tg].bus, c>> : c \in {"p", "q"}}    \* the xward's series branch leaves the bus sum
      [] cfg.tr \in {"fuse_move", "fuse_buses"} -> {<<"bus", tg, c>> : c \in {"p", "q"}}
      [] OTHER -> {}
Special(W) ==
    LET net == W.net  cfg == W.cfg  tr == cfg.tr  tg == cfg.tgt IN
    CASE tr = "split" -> LET t == TabOf(net, tg) IN {SumM({<<t, tg, c>>}, {<<t, Part(tg, k), c>> : k \in 1..cfg.n}) : c \in {"p", "q"}}
      \* n identical parallel systems share powers, losses and current equally; each is loaded like the bundle
      [] tr = "par_expand" -> LET ps == {Part(tg, k) : k \in 1..net.line[tg].par} IN
                              {SumM({<<"line", tg, c>>}, {<<"line", p, c>> : p \in ps}) : c \in Cols("line") \ {"load"}}
                              \cup {RenM(<<"line", tg, "load">>, <<"line", p, "load">>) : p \in ps}
      [] tr = "swap" -> {M("swap", "A", {<<"line", tg, c>>}, "B", {<<"line", tg, OtherEnd(c)>>}) : c \in EndCols}
      \* the bus that disappears reported the voltage of its class; the kept bus collects the bus sums of both
      [] tr \in {"fuse_move", "fuse_buses"} ->
            LET gone == CHOOSE b \in Class(net, tg) : b # tg IN
            {M("fused", "A", {<<"bus", gone, c>>}, "B", {<<"bus", tg, c>>}) : c \in {"vm", "va"}}
            \cup {SumM({<<"bus", tg, c>>, <<"bus", gone, c>>}, {<<"bus", tg, c>>}) : c \in {"p", "q"}}
      [] tr = "line2imp" -> IF Replaceable(net, tg) THEN {RenM(<<"line", tg, c>>, <<"impedance", tg, c>>) : c \in ImpCols} ELSE {}
      [] tr = "imp2line" -> {RenM(<<"impedance", tg, c>>, <<"line", tg, c>>) : c \in ImpCols}
      [] tr = "eg2gen" -> {RenM(<<"ext_grid", tg, c>>, <<"gen", tg, c>>) : c \in {"p", "q"}}
      [] tr = "ward2int" -> {SumM({<<"ward", tg, c>>}, {<<"load", tg, c>>, <<"shunt", tg, c>>}) : c \in {"p", "q"}}
                            \cup {RenM(<<"ward", tg, "vm">>, <<"shunt", tg, "vm">>)}
      [] tr = "xward2int" -> {SumM({<<"xward", tg, "p">>}, {<<"load", tg, "p">>, <<"shunt", tg, "p">>, <<"impedance", tg, "pf">>}),
                              SumM({<<"xward", tg, "q">>}, {<<"load", tg, "q">>, <<"shunt", tg, "q">>, <<"impedance", tg, "qf">>}),
                              RenM(<<"xward", tg, "vm">>, <<"shunt", tg, "vm">>), RenM(<<"xward", tg, "vmi">>, <<"bus", tg, "vm">>),
                              RenM(<<"xward", tg, "vai">>, <<"bus", tg, "va">>)}
      [] OTHER -> {}
\* buses of one fused class report identical voltages -- inside each of the two networks
FusedPairs(net, side) ==
    LET E == FuseE(net)
        cand == {e[1] : e \in E} \cup {e[2] : e \in E}
        prs == {p \in cand \X cand : p[1] # p[2] /\ net.bus[p[1]].pos < net.bus[p[2]].pos /\ p[2] \in Reach({p[1]}, E)}
    IN {M("fused", side, {<<"bus", p[1], c>>}, side, {<<"bus", p[2], c>>}) : p \in prs, c \in {"vm", "va"}}
\* total losses: the sum over all branch rows (not for the xward replacement, whose series branch has no row before, and
\* not when only a part of the network is kept)
Total(W) == IF W.cfg.tr \in {"xward2int", "subnet"} THEN {}
            ELSE {M("total", "A", OverA(W, LossKeys), "B", LossKeys(W.tn)), M("total", "A", OverA(W, LossKeysQ), "B", LossKeysQ(W.tn))}
FusedA(net) == FusedPairs(net, "A")
\* the correspondence, in four parts (EquivObs evaluates each clause on the part that can contain its kind)
CorrEq(W) == {EqM(k) : k \in (KeysA(W) \cap KeysB(W)) \ Excl(W)}
CorrFused(W) == OverA(W, FusedA) \cup FusedPairs(W.tn, "B")
CorrOf(W) == CorrEq(W) \cup Special(W) \cup Total(W) \cup CorrFused(W)
CorrPart(W, kind) == CASE kind = "eq" -> CorrEq(W) [] kind = "total" -> Total(W) [] kind = "fused" -> Special(W) \cup CorrFused(W)
                       [] OTHER -> Special(W)
Corr(cfg) == CorrOf(World(cfg))
\* keys of the original that have no counterpart (dropped / replaced elements)
Covered(corr, side) == UNION {IF m.ls = side THEN m.l ELSE {} : m \in corr} \cup UNION {IF m.rs = side THEN m.r ELSE {} : m \in corr}

\* ---- structural projection (conformance of the real transformed network with TNet) ----------------------------------------------------
ProjRow(net, t, n) == CASE t = "bus" -> [ins |-> net.bus[n].ins]
                        [] t \in NodeT -> [bus |-> net[t][n].bus, ins |-> net[t][n].ins]
                        [] t = "line" -> [from |-> net.line[n].from, to |-> net.line[n].to, ins |-> net.line[n].ins, par |-> net.line[n].par]
                        [] t = "impedance" -> [from |-> net.impedance[n].from, to |-> net.impedance[n].to, ins |-> net.impedance[n].ins]
                        [] t = "trafo" -> [hv |-> net.trafo[n].hv, lv |-> net.trafo[n].lv, ins |-> net.trafo[n].ins]
                        [] t = "trafo3w" -> [hv |-> net.trafo3w[n].hv, mv |-> net.trafo3w[n].mv, lv |-> net.trafo3w[n].lv, ins |-> net.trafo3w[n].ins]
                        [] t = "switch" -> [bus |-> net.switch[n].bus, elem |-> net.switch[n].elem, et |-> net.switch[n].et]
Proj(net) == [t \in AllT |-> [n \in Names(net, t) |-> ProjRow(net, t, n)]]
=============================================================================
