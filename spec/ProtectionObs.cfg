INIT OInit
NEXT ONext
INVARIANT C29_Reports
INVARIANT C29_Trip
INVARIANT C29_TimeNone
INVARIANT C29_TimeGG
INVARIANT C29_TimeG
INVARIANT C29_TimeBlown
INVARIANT C29_Monotone
INVARIANT C29_FuseBracket
INVARIANT C29_Activation
INVARIANT C29_DeviceState
INVARIANT Bind_Settings
INVARIANT Bind_Fed
INVARIANT Bind_Refused
INVARIANT Bind_ThresholdsExact
INVARIANT Bind_Finite
INVARIANT Bind_InverseExact
