INIT Init
NEXT Next
CONSTANTS
  PinTrue = {"b1", "b3", "l2", "e0", "e1", "g0", "g1", "l1", "t0", "z0", "s4"}
  PinFalse = {}
  BallK = 0
INVARIANT CompPartition
INVARIANT EdgesBetweenNodes
INVARIANT RespectSwitchesMonotone
INVARIANT DistIsShortestPath
INVARIANT WDistIsShortestPath
