-------------------------------- MODULE CreateObs --------------------------------
(* C24, implementation level: for every configuration the rows created by the sequence of single calls and by   *)
(* the batch call (tokenised values per column), whether each route raised, and the table length afterwards.    *)
EXTENDS Integers, Sequences, Json, IOUtils, TLC
VARIABLE i
Cases == JsonDeserialize(IOEnv.OBS_FILE)
OInit == i \in 1..Len(Cases)
ONext == UNCHANGED i
C == Cases[i]
Rej == C.cfg.err \notin {"none", "none_pre_pq"}
C24_SameRows == (~C.single.rejected /\ ~C.batch.rejected) => C.single.rows = C.batch.rows
C24_BatchRejectsIffSingleRejects == C.batch.rejected = C.single.rejected
\* with a partially specified parameter group (part # 0) the library may reject the arguments as inconsistent; what is
\* required then is only that both routes agree
C24_RejectsAsRequired == C.cfg.part = 0 => C.single.rejected = Rej
C24_NoPartialCreation == C.batch.rejected => C.batch.added = 0
=============================================================================
