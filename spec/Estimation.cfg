INIT Init
NEXT Next
CONSTANTS
  Tpl = "T4"
  MaxV = 1
  FlowPats = {"none", "f", "t"}
  Surplus = 0
  Reds = {"none", "v_all", "p_inj", "pq_to", "p_from_q_to", "i_from", "all_but_i", "all"}
  Dups = {"none", "first", "all"}
  Ords = {"created", "reversed", "interleaved"}
  Depth = 1
  Winds = {"rated", "both_off"}
  Deficient = TRUE
INVARIANT M_ObservableImpliesCount
INVARIANT M_RedundancyMonotone
INVARIANT M_NoCriticalImpliesObservable
INVARIANT M_LayoutOrderFree
INVARIANT M_LayoutDupFree
INVARIANT M_TableSound
INVARIANT M_WindWellFormed
PROPERTY M_ActionsKeepRequirement
