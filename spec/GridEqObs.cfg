INIT OInit
NEXT ONext
INVARIANT C28_EquivalentReturned
INVARIANT C28_SameVoltages
INVARIANT C28_OriginalUnchanged
