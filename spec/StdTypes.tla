-------------------------------- MODULE StdTypes --------------------------------
EXTENDS StdTypesDef
CONSTANT MaxLen
VARIABLES hist, lib
Init == hist = <<>> /\ lib = L0
Next == Len(hist) < MaxLen /\ \E a \in Actions : hist' = Append(hist, a) /\ lib' = Step(lib, a)
\* model-level laws
OnlyStoredData == \A n \in Nets, x \in AllNames : lib[n][x] \in Data \cup {"none"}
RenameKeepsData == [][\A a \in Actions : (hist' = Append(hist, a) /\ a.op = "rename" /\ ~Raises(lib, a))
                        => lib'[a.net][a.data] = lib[a.net][a.name]]_<<hist, lib>>
OtherNetUntouched == [][\A a \in Actions : hist' = Append(hist, a) => lib'[Other(a.net)] = lib[Other(a.net)]]_<<hist, lib>>
=============================================================================
