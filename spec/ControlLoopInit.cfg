INIT Init
NEXT Stop
CONSTANTS
  Bases = {960000, 1045000}
  MaxIters = {3}
  Tap0s = {0}
  FailRuns = {0}
