INIT OInit
NEXT ONext
INVARIANT C25_LoadReturnsStored
INVARIANT C25_RaisesAsSpecified
INVARIANT C25_AppliedCompletely
INVARIANT C25_SameInCalculation
