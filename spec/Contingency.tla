------------------------------- MODULE Contingency -------------------------------
(* C14/C15, model level: configurations x worker-pool schedules.  The parallel driver dispatches the task list    *)
(* to n workers; workers complete in ANY order; results are collected in task order (Pool.map) and folded.         *)
(* Theorem checked by TLC: the aggregated result does not depend on the schedule and equals the sequential fold.   *)
EXTENDS ContingencyDef
CONSTANT NProcs
VARIABLES cfg, queue, busy, done, order_done, phase
vars == <<cfg, queue, busy, done, order_done, phase>>
Orders == {<<0, 1, 2>>, <<0, 2, 1>>, <<1, 0, 2>>, <<1, 2, 0>>, <<2, 0, 1>>, <<2, 1, 0>>, <<0, 1>>, <<1, 0>>, <<2, 1>>}
Mats == [1..3 -> [1..3 -> {1, 3}]]
Cfgs == [order : Orders, res : {m \in Mats : \A k \in 1..3 : m[k][k] = 1}, own : {0, 1}, fail : {9, 0, 1, 2}]
W == 1..NProcs
Init == /\ cfg \in Cfgs /\ queue = cfg.order /\ busy = [w \in W |-> 9] /\ done = {} /\ order_done = <<>> /\ phase = "run"
Dispatch(w) == /\ phase = "run" /\ busy[w] = 9 /\ queue # <<>>
               /\ busy' = [busy EXCEPT ![w] = Head(queue)] /\ queue' = Tail(queue)
               /\ UNCHANGED <<cfg, done, order_done, phase>>
Complete(w) == /\ phase = "run" /\ busy[w] # 9
               /\ done' = done \cup {busy[w]} /\ order_done' = Append(order_done, busy[w])
               /\ busy' = [busy EXCEPT ![w] = 9] /\ UNCHANGED <<cfg, queue, phase>>
Collect == /\ phase = "run" /\ queue = <<>> /\ \A w \in W : busy[w] = 9
           /\ phase' = "aggregated" /\ UNCHANGED <<cfg, queue, busy, done, order_done>>
Next == (\E w \in W : Dispatch(w) \/ Complete(w)) \/ Collect
Spec == Init /\ [][Next]_vars /\ WF_vars(Next)
\* the fold over collected results in TASK order (what Pool.map returns), written as a running maximum
RECURSIVE FoldMax(_, _, _, _)
FoldMax(c, e, k, acc) == IF k > Len(c.order) THEN acc
                         ELSE LET t == c.order[k]
                                  v == IF t = c.fail \/ t = e THEN NaNv ELSE c.res[t + 1][e + 1]
                              IN FoldMax(c, e, k + 1, IF v > acc THEN v ELSE acc)
C15_ScheduleIndependent == phase = "aggregated" => /\ done = Range(cfg.order)
                                                   /\ \A e \in E : FoldMax(cfg, e, 1, NaNv) = TrueMax(cfg, e)
AllComplete == <>(phase = "aggregated")
=============================================================================
