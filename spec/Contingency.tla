------------------------------- MODULE Contingency -------------------------------
(* C14/C15, model level: configurations x worker-pool schedules.  The parallel driver dispatches the task list    *)
(* to n workers; workers complete in ANY order; results are collected in task order (Pool.map) and folded.         *)
(* Theorem checked by TLC: the aggregated result does not depend on the schedule and equals the sequential fold.   *)
EXTENDS ContingencyDef
CONSTANT NProcs
VARIABLES cfg, queue, busy, done, order_done, phase
vars == <<cfg, queue, busy, done, order_done, phase>>
Orders == {<<0, 1, 2>>, <<0, 2, 1>>, <<1, 0, 2>>, <<1, 2, 0>>, <<2, 0, 1>>, <<2, 1, 0>>, <<0, 1>>, <<1, 0>>, <<2, 1>>}
Mats == [1..3 -> [1..3 -> {1, 3}]]
M3 == {m \in Mats : \A k \in 1..3 : m[k][k] = 1}
Cfgs3 == [n : {3}, order : Orders, res : M3, own : {0, 1}, fail : {99}, fkind : {"rt"}, oos : {99}]
         \cup [n : {3}, order : Orders, res : M3, own : {0, 1}, fail : {0, 1, 2}, fkind : {"rt", "lfnc"}, oos : {99}]
         \cup [n : {3}, order : Orders, res : M3, own : {0}, fail : {99, 0}, fkind : {"rt"}, oos : {2}]      \* a line already out of service
\* a wider family (10 lines, case list = all lines in index order or reversed) so that the pool's chunks (chunksize =
\* ceil(cases / (4 * n_procs)), multiprocessing.Pool.map) hold several cases: loadings follow a pattern, one case may fail
Pat(k, r) == [c \in 1..10 |-> [e \in 1..10 |-> IF c # e /\ ((c + e) % k) = r THEN 3 ELSE 1]]
Up == [j \in 1..10 |-> j - 1]
Down == [j \in 1..10 |-> 10 - j]
Cfgs10 == [n : {10}, order : {Up, Down}, res : {Pat(2, 0), Pat(3, 1), Pat(5, 2)}, own : {0, 1}, fail : {99, 0, 1, 4, 8}, fkind : {"rt"}, oos : {99, 3}]
Cfgs == Cfgs3 \cup Cfgs10
W == 1..NProcs
\* multiprocessing.Pool.map hands the task list out in CHUNKS of ceil(cases / (4 * processes)) consecutive tasks; a worker
\* works through its chunk one case at a time on the net instance that was pickled for that chunk
ChunkSize(c) == (Len(c.order) + 4 * NProcs - 1) \div (4 * NProcs)
Take(q, k) == IF Len(q) <= k THEN q ELSE SubSeq(q, 1, k)
Drop(q, k) == IF Len(q) <= k THEN <<>> ELSE SubSeq(q, k + 1, Len(q))
\* the task list of the parallel driver holds the in-service elements of the case list only (contingency_parallel.py:101-104)
Init == /\ cfg \in Cfgs /\ queue = SelectSeq(cfg.order, LAMBDA t : t # cfg.oos) /\ busy = [w \in W |-> <<>>] /\ done = {} /\ order_done = <<>> /\ phase = "run"
Dispatch(w) == /\ phase = "run" /\ busy[w] = <<>> /\ queue # <<>>
               /\ busy' = [busy EXCEPT ![w] = Take(queue, ChunkSize(cfg))] /\ queue' = Drop(queue, ChunkSize(cfg))
               /\ UNCHANGED <<cfg, done, order_done, phase>>
Complete(w) == /\ phase = "run" /\ busy[w] # <<>>
               /\ done' = done \cup {Head(busy[w])} /\ order_done' = Append(order_done, Head(busy[w]))
               /\ busy' = [busy EXCEPT ![w] = Tail(busy[w])] /\ UNCHANGED <<cfg, queue, phase>>
Collect == /\ phase = "run" /\ queue = <<>> /\ \A w \in W : busy[w] = <<>>
           /\ phase' = "aggregated" /\ UNCHANGED <<cfg, queue, busy, done, order_done>>
Next == (\E w \in W : Dispatch(w) \/ Complete(w)) \/ Collect
Spec == Init /\ [][Next]_vars /\ WF_vars(Next)
Stop == FALSE /\ UNCHANGED vars          \* NEXT of ContingencyInit.cfg: enumerate the configurations only
\* the fold over collected results in TASK order (what Pool.map returns), written as a running maximum
RECURSIVE FoldMax(_, _, _, _)
FoldMax(c, e, k, acc) == IF k > Len(c.order) THEN acc
                         ELSE LET t == c.order[k]
                                  v == IF t = c.fail \/ t = e \/ t = c.oos \/ e = c.oos THEN NaNv ELSE c.res[t + 1][e + 1]
                              IN FoldMax(c, e, k + 1, IF v > acc THEN v ELSE acc)
C15_ScheduleIndependent == phase = "aggregated" => /\ done = Range(cfg.order) \ {cfg.oos}
                                                   /\ \A e \in El(cfg) : FoldMax(cfg, e, 1, NaNv) = TrueMax(cfg, e)
AllComplete == <>(phase = "aggregated")
=============================================================================
