------------------------------- MODULE HistoryDef -------------------------------
(* C09 — histories of edits and calculations on ONE long-lived net object (template: harness build_hist_net:   *)
(* 20 kV ring b0-b1-b2 + 0.4 kV bus b3, line switches sA (line b0-b1 at b1) and sB (line b1-b2 at b1), so that  *)
(* bus b1 is unsupplied iff both are open).                                                                      *)
EXTENDS Integers, Sequences, FiniteSets, TLC
Edits == {"toggleA", "toggleB", "load", "toggleG", "toggleE"}      \* toggleG: in_service of PV generator 0; toggleE: of the only ext_grid
                                                                   \* (without it the conversion stage of every calculation fails: no reference bus)
Inits == {"auto", "flat", "dc", "results"}
PFs   == {[op |-> "runpp", init |-> x] : x \in Inits} \cup {[op |-> "rundcpp", init |-> "-"]}
Other == {[op |-> o, init |-> "-"] : o \in {"runopp", "calc_sc", "runpp_3ph"}}
Steps == {[op |-> e, init |-> "-"] : e \in Edits} \cup PFs \cup Other
IsCalc(a) == a.op \notin Edits

\* abstract element state of the net
N0 == [sA |-> FALSE, sB |-> TRUE, lvl |-> 1, g |-> TRUE, e |-> TRUE]      \* sA starts open: one toggle of sB isolates bus b1
Edit(n, a) == CASE a.op = "toggleA" -> [n EXCEPT !.sA = ~@]
                [] a.op = "toggleB" -> [n EXCEPT !.sB = ~@]
                [] a.op = "load"    -> [n EXCEPT !.lvl = 3 - @]
                [] a.op = "toggleG" -> [n EXCEPT !.g = ~@]
                [] a.op = "toggleE" -> [n EXCEPT !.e = ~@]
                [] OTHER -> n
Unsupplied(n) == IF ~n.sA /\ ~n.sB THEN {1} ELSE {}          \* bus b1 hangs on the two switched lines only
Hamming(n, m) == (IF n.sA # m.sA THEN 1 ELSE 0) + (IF n.sB # m.sB THEN 1 ELSE 0)

\* state: n = element state, res = element state the result tables were computed from ("none" if no power flow yet;
\* only power-flow calculations write res_bus)
S0 == [n |-> N0, has |-> FALSE, resn |-> N0]
MustFail(n) == ~n.e                                          \* no reference bus: every calculation raises while converting
Step(s, a) == IF ~IsCalc(a) THEN [s EXCEPT !.n = Edit(s.n, a)]
              ELSE IF a \in PFs /\ ~MustFail(s.n) THEN [s EXCEPT !.has = TRUE, !.resn = s.n]
              ELSE IF a \in PFs THEN [s EXCEPT !.has = FALSE]      \* a failed power flow leaves no usable results behind
              ELSE s
RECURSIVE Run(_, _, _)
Run(s, h, k) == IF k > Len(h) THEN s ELSE Run(Step(s, h[k]), h, k + 1)

\* REQUIRED: a power flow depends only on (element state, options): its result is Solve(n, op) for every history.
\* For init="results" the previous results are only a starting point; it must converge whenever the fresh
\* calculation does and the previous result belongs to a switching state at Hamming distance <= 1.
MustConverge(s, a) == a.op = "runpp" /\ a.init = "results" /\ s.has /\ Hamming(s.resn, s.n) <= 1
=============================================================================
