------------------------------ MODULE TopoC26Obs ------------------------------
(* C26, implementation level: graphs returned by create_nxgraph / connected_components /                   *)
(* calc_distance_to_bus for each replayed (configuration, options) pair, compared with the spec.            *)
EXTENDS Topology, Json, IOUtils
VARIABLE i
Cases == JsonDeserialize(IOEnv.OBS_FILE)
Init == i \in 1..Len(Cases)
Next == UNCHANGED i
C == Cases[i]
F == C.f
SetOf(s) == {s[k] : k \in 1..Len(s)}
O == [rs |-> C.o.rs, oos |-> C.o.oos, inc |-> SetOf(C.o.inc), nogo |-> SetOf(C.o.nogo), notrav |-> SetOf(C.o.notrav)]
DO == [O EXCEPT !.inc = {"line", "trafo", "trafo3w", "switch"}, !.oos = FALSE]
ObsComps == {SetOf(C.comps[k]) : k \in 1..Len(C.comps)}
\* directed reachability (what connected_component's DFS does when notravbuses are not traversed)
RECURSIVE DReach(_, _)
DReach(S, A) == LET N == S \cup {a[2] : a \in {a \in A : a[1] \in S}} IN IF N = S THEN S ELSE DReach(N, A)
SpecComps == LET A == {<<a[1], a[2]>> : a \in Adj(F, O)} IN {DReach({b}, A) : b \in Nodes(F, O) \ O.notrav}

C26_NoError == C.err = ""
C26_Nodes == SetOf(C.nodes) = Nodes(F, O)
C26_Edges == SetOf(C.adj) = Adj(F, O)
C26_Partition == O.notrav = {} => IsPartition(ObsComps, SetOf(C.nodes)) /\ Len(C.comps) = Cardinality(ObsComps)
C26_Components == ObsComps = SpecComps
C26_Distances == LET Dm == Dist(F, DO, 0) IN
                   IF C.dist_err THEN 0 \notin Nodes(F, DO)
                   ELSE SetOf(C.dist) = {<<b, Dm[b]>> : b \in DOMAIN Dm}
\* weighted distances (length_km of lines, 0 for transformers and switches), logged in metres
C26_WeightedDistances == LET Dm == WDist(F, DO, 0) IN
                   IF C.wdist_err THEN 0 \notin Nodes(F, DO)
                   ELSE SetOf(C.wdist) = {<<b, 1000 * Dm[b]>> : b \in DOMAIN Dm}
=============================================================================
