-------------------------------- MODULE OpfDef --------------------------------
(* C16 / C17 -- optimal power flow (runopp / rundcopp): shared definitions of the model (Opf.tla) and of the        *)
(* observation relations (OpfObs.tla).                                                                               *)
(*                                                                                                                    *)
(* TEMPLATE (harness/checks/c16.py build_net instantiates exactly the record Inst(cfg) defined below):               *)
(*   bus 0 (110 kV) --trafo T (20 MVA)-- bus 1 --line A-- bus 2 --line B-- bus 3      (all 20 kV, lines 20 MVA)      *)
(*   optional mesh line C: bus 1 -- bus 3;   transformer phase shift 0 / 30 / 150 / -30 degree (cfg.shift)             *)
(*   up to three dclines (cfg.dcl names the sequence; slot 1: bus 1 -> 3, slot 2: bus 2 -> 1, slot 3: bus 3 -> 2), each  *)
(*   operated forward (p_mw > 0) or in reverse (p_mw < 0), lossless or lossy                                            *)
(*   ext_grid @0, gen @2, storage @2, fixed "base" load @2 (3 MW, 1 Mvar), sgen @3, load @3;   net.sn_mva = cfg.sn      *)
(*   optional "ghost" (cfg.ghost): one of sgen / load / storage is OUT OF SERVICE but keeps its cost row                 *)
(* One element of every kind that can carry a cost: Et.  All powers are INTEGER MW / Mvar, all cost coefficients     *)
(* integers, so that the spec can evaluate cost functions exactly and enumerate the integer dispatch grid.           *)
(*                                                                                                                    *)
(* USER-SIDE SIGN CONVENTION (stated once, used by every clause): the power of an element is the value in its own    *)
(* result table: res_gen/res_sgen/res_ext_grid.p_mw = generation, res_load/res_storage.p_mw = consumption,            *)
(* res_dcline.p_from_mw = power taken from the from-bus (negative when the line is operated in reverse).  The dcline  *)
(* cost row belongs to the LAST dcline of the table.  A cost row of element e contributes                             *)
(*     c2*p^2 + c1*p + c0  (+ cq2*q^2 + cq1*q + cq0)        resp.       Pwl(points, p)                                *)
(* with p, q in THAT convention; no element kind is negated on the user side.                                         *)
EXTENDS Fix, FiniteSets, TLC

M == 1000000                                   \* micro-units per unit
Et == {"ext_grid", "gen", "sgen", "load", "storage", "dcline"}
EtSeq == <<"ext_grid", "gen", "sgen", "load", "storage", "dcline">>      \* the order in which the harness creates cost rows
Flex == {"gen", "sgen", "load", "storage"}     \* kinds with a `controllable` flag
PQ == {"sgen", "load", "storage"}              \* PQ elements: enter the OPF as a generator only when controllable
\* elements entered into the solver as NEGATIVE generators: build_gen.py:97-99 (inverted=True), auxiliary.py:1605 (dcline
\* from-gen p = -p_mw), make_objective.py:60, 85 (`signs`)
Inverted(et) == et \in {"load", "storage", "dcline"}
BusOf(et) == CASE et = "ext_grid" -> 0 [] et = "gen" -> 2 [] et = "storage" -> 2 [] et = "sgen" -> 3 [] et = "load" -> 3
               [] et = "dcline" -> 1           \* from-bus of slot 1 (the dclines' buses: DclFrom / DclTo)

Kinds == {"none", "lin", "lin0", "quad", "quad0", "pwl1", "pwl2", "pwl3", "linq", "quadq"}
PolyKinds == {"lin", "lin0", "quad", "quad0", "linq", "quadq"}
PwlKinds == {"pwl1", "pwl2", "pwl3"}
QuadKinds == {"quad", "quad0", "quadq"}
QKinds == {"linq", "quadq"}
\* kinds whose function vanishes at p = q = 0 (no constant term): the rows a ghost may carry, see Valid
ZeroAtZeroKinds == {"lin", "quad", "pwl1", "pwl2", "pwl3"}

-----------------------------------------------------------------------------
(* dclines.  cfg.dcl is a level name; the letters give the lines in table order:                                      *)
(*   f forward lossless, F forward lossy, r reverse lossless, R reverse lossy                                          *)
(* The direction is the sign of the set point dcline.p_mw (auxiliary.py:1588-1597: p_mw > 0: the aux generator at the    *)
(* to-bus gets [0, max_p_mw] and the one at the from-bus [-max_p_mw, 0]; otherwise the ranges are mirrored), the OPF     *)
(* does not change the direction.                                                                                       *)
DclLines(level) ==
  CASE level = "none" -> <<>>
    [] level = "f"    -> <<"f">>
    [] level = "F"    -> <<"F">>
    [] level = "r"    -> <<"r">>
    [] level = "R"    -> <<"R">>
    [] level = "fr"   -> <<"f", "r">>
    [] level = "rf"   -> <<"r", "f">>
    [] level = "ff"   -> <<"f", "f">>
    [] level = "rr"   -> <<"r", "r">>
    [] level = "Fr"   -> <<"F", "r">>
    [] level = "frf"  -> <<"f", "r", "f">>
    [] level = "rfr"  -> <<"r", "f", "r">>
DclLevels == {"none", "f", "F", "r", "R", "fr", "rf", "ff", "rr", "Fr", "frf", "rfr"}
PlainDcl == {"none", "f", "F"}                 \* at most one dcline, operated forward
DclRev(code) == code \in {"r", "R"}
DclLossy(code) == code \in {"F", "R"}
DclFrom(k) == CASE k = 1 -> 1 [] k = 2 -> 2 [] k = 3 -> 3
DclTo(k) == CASE k = 1 -> 3 [] k = 2 -> 1 [] k = 3 -> 2
DclPMax(k, lim) == CASE k = 1 -> (IF lim = "loose" THEN 2 ELSE 1)      \* max_p_mw: different per slot, so that two lines
                     [] k = 2 -> (IF lim = "loose" THEN 3 ELSE 2)      \* at their limits carry different powers
                     [] k = 3 -> 1
DclLossPercent(code) == IF DclLossy(code) THEN 2 ELSE 0
DclLossKw(code) == IF DclLossy(code) THEN 50 ELSE 0

-----------------------------------------------------------------------------
(* Numeric tables (integers; MW, Mvar, percent, micro-p.u.)                                                           *)
PLim(et, lim) ==       \* <<min_p_mw, max_p_mw>> of the elements with limit columns (dclines: DclPLim below)
  CASE et = "ext_grid" -> IF lim = "loose" THEN <<-10, 10>> ELSE <<0, 6>>
    [] et = "gen"      -> IF lim = "loose" THEN <<0, 5>>   ELSE <<1, 3>>
    [] et = "sgen"     -> IF lim = "loose" THEN <<0, 4>>   ELSE <<1, 2>>
    [] et = "load"     -> IF lim = "loose" THEN <<0, 5>>   ELSE <<2, 4>>
    [] et = "storage"  -> IF lim = "loose" THEN <<-2, 2>>  ELSE <<-1, 1>>
QLim(et, lim) ==       \* <<min_q_mvar, max_q_mvar>>; dcline: symmetric, the same at both ends (sign convention of the
                       \* dcline q limits is not documented, so only symmetric intervals are generated)
  CASE et = "ext_grid" -> IF lim = "loose" THEN <<-10, 10>> ELSE <<-3, 3>>
    [] et = "gen"      -> IF lim = "loose" THEN <<-5, 5>>   ELSE <<-1, 2>>
    [] et = "sgen"     -> IF lim = "loose" THEN <<-2, 2>>   ELSE <<-1, 1>>
    [] et = "load"     -> IF lim = "loose" THEN <<0, 2>>    ELSE <<1, 2>>
    [] et = "storage"  -> IF lim = "loose" THEN <<-1, 1>>   ELSE <<0, 1>>
    [] et = "dcline"   -> IF lim = "loose" THEN <<-2, 2>>   ELSE <<-1, 1>>
PSet(et) == CASE et = "gen" -> 2 [] et = "sgen" -> 1 [] et = "load" -> 3 [] et = "storage" -> 1 [] et = "dcline" -> 1
              [] et = "ext_grid" -> 0
QSet(et) == CASE et = "load" -> 1 [] OTHER -> 0
VSet(et) == CASE et = "ext_grid" -> 1020000 [] et = "gen" -> 1010000 [] OTHER -> 1000000     \* vm_pu set points
\* voltage set point of a dcline end: that of the generator when the end sits on the generator's bus (a power flow
\* refuses different set points of voltage controlling elements at one bus)
DclVm(bus) == IF bus = BusOf("gen") THEN VSet("gen") ELSE 1000000
BaseP == 3
BaseQ == 1
VBand(b) == IF b = "wide" THEN <<900000, 1100000>> ELSE <<990000, 1030000>>
Branches == {"T", "A", "B", "C"}
Sn(br) == 20                                   \* MVA at 100 % loading (trafo sn_mva; lines sqrt(3)*20 kV*max_i_ka)
\* max_loading_percent; level "trafo": only the transformer is rated tightly (with "tight" line A, which carries everything
\* that passes the transformer except the dcline infeed at bus 1, reaches its rating first)
MaxLoading(br, lvl) == IF lvl = "loose" THEN 100 ELSE IF br = "T" THEN 30 ELSE IF lvl = "trafo" THEN 100 ELSE 20
Cap(br, lvl) == (Sn(br) * MaxLoading(br, lvl)) \div 100                               \* MVA, integer (ASSUMEd in Opf)
\* transformer phase shift: cfg.shift in degree modulo 360 (a cfg file cannot hold a negative number)
ShiftDeg(s) == IF s > 180 THEN s - 360 ELSE s

\* cost coefficient tables: distinct per element kind so that a row attached to the wrong element shows.
\* Variants 1, 2: mixed prices.  Variant 3: "cheap generation behind the transformer" -- the ext_grid pays more than every
\* generating element costs, so the optimum exports through the transformer (power flows lv -> hv).
C1Lin(et, v) == IF v = 1 THEN (CASE et = "ext_grid" -> 10 [] et = "gen" -> 12 [] et = "sgen" -> 8 [] et = "load" -> -15
                                 [] et = "storage" -> 3 [] et = "dcline" -> 2)
                ELSE IF v = 2 THEN (CASE et = "ext_grid" -> 10 [] et = "gen" -> 7 [] et = "sgen" -> 11 [] et = "load" -> 9
                        [] et = "storage" -> -4 [] et = "dcline" -> -3)
                ELSE (CASE et = "ext_grid" -> 20 [] et = "gen" -> 6 [] et = "sgen" -> 4 [] et = "load" -> -2
                        [] et = "storage" -> 3 [] et = "dcline" -> 1)
C2Quad(et, v) == IF v # 2 THEN (CASE et = "sgen" -> 2 [] et = "load" -> 2 [] OTHER -> 1)
                 ELSE (CASE et = "gen" -> 2 [] et = "storage" -> 2 [] et = "dcline" -> 2 [] OTHER -> 1)
C1Quad(et, v) == IF v = 1 THEN (CASE et = "ext_grid" -> 3 [] et = "gen" -> 4 [] et = "sgen" -> 3 [] et = "load" -> -16
                                  [] et = "storage" -> -2 [] et = "dcline" -> -4)
                 ELSE IF v = 2 THEN (CASE et = "ext_grid" -> -2 [] et = "gen" -> 1 [] et = "sgen" -> 6 [] et = "load" -> -13
                         [] et = "storage" -> 5 [] et = "dcline" -> 1)
                 ELSE (CASE et = "ext_grid" -> 20 [] et = "gen" -> 1 [] et = "sgen" -> 2 [] et = "load" -> -3
                         [] et = "storage" -> 2 [] et = "dcline" -> 1)
C0Of(et) == CASE et = "ext_grid" -> 6 [] et = "gen" -> 7 [] et = "sgen" -> 5 [] et = "load" -> 9 [] et = "storage" -> 4
              [] et = "dcline" -> 3
CQ2Of(et) == 1
CQ1Of(et) == CASE et = "gen" -> 2 [] et = "load" -> -1 [] OTHER -> 1
CQ0Of(et) == 3
\* piecewise linear: consecutive areas <<lower, upper, slope>> covering the loose p range, slopes increasing by 5 (convex);
\* dcline: one area covering the range of every slot, mirrored for a line operated in reverse
PwlBreaks(et, n, rev) ==
  CASE et = "ext_grid" -> IF n = 1 THEN <<-10, 10>> ELSE IF n = 2 THEN <<-10, 0, 10>> ELSE <<-10, 0, 4, 10>>
    [] et = "gen"      -> IF n = 1 THEN <<0, 5>> ELSE IF n = 2 THEN <<0, 2, 5>> ELSE <<0, 2, 3, 5>>
    [] et = "sgen"     -> IF n = 1 THEN <<0, 4>> ELSE IF n = 2 THEN <<0, 2, 4>> ELSE <<0, 1, 3, 4>>
    [] et = "load"     -> <<0, 5>>
    [] et = "storage"  -> <<-2, 2>>
    [] et = "dcline"   -> IF rev THEN <<-3, 0>> ELSE <<0, 3>>
PwlS0(et, v) == IF v = 1 THEN (CASE et = "ext_grid" -> 6 [] et = "gen" -> 4 [] et = "sgen" -> 5 [] et = "load" -> -15
                                 [] et = "storage" -> 3 [] et = "dcline" -> 2)
                ELSE IF v = 2 THEN (CASE et = "ext_grid" -> 9 [] et = "gen" -> 8 [] et = "sgen" -> 2 [] et = "load" -> 9
                        [] et = "storage" -> -4 [] et = "dcline" -> -3)
                ELSE (CASE et = "ext_grid" -> 15 [] et = "gen" -> 2 [] et = "sgen" -> 1 [] et = "load" -> -2
                        [] et = "storage" -> 3 [] et = "dcline" -> 1)
PwlPoints(et, n, v, rev) == LET b == PwlBreaks(et, n, rev) IN [k \in 1..n |-> <<b[k], b[k + 1], PwlS0(et, v) + 5 * (k - 1)>>]

NSeg(kind) == CASE kind = "pwl1" -> 1 [] kind = "pwl2" -> 2 [] kind = "pwl3" -> 3 [] OTHER -> 0
CostRow(et, kind, v, rev) ==     \* the row the user enters with create_poly_cost / create_pwl_cost
  [kind |-> IF kind = "none" THEN "none" ELSE IF kind \in PwlKinds THEN "pwl" ELSE "poly",
   c2 |-> IF kind \in QuadKinds THEN C2Quad(et, v) ELSE 0,
   c1 |-> IF kind \in QuadKinds THEN C1Quad(et, v) ELSE IF kind \in PolyKinds THEN C1Lin(et, v) ELSE 0,
   c0 |-> IF kind \in {"lin0", "quad0"} THEN C0Of(et) ELSE 0,
   q2 |-> IF kind = "quadq" THEN CQ2Of(et) ELSE 0,
   q1 |-> IF kind \in QKinds THEN CQ1Of(et) ELSE 0,
   q0 |-> IF kind \in QKinds THEN CQ0Of(et) ELSE 0,
   pts |-> IF kind \in PwlKinds THEN PwlPoints(et, NSeg(kind), v, rev) ELSE <<>>]

-----------------------------------------------------------------------------
(* Configurations.  cfg = [ac, opts, mesh, dcl, ctrl, egc, vband, plim, qlim, rate, kind, var, shift, sn, ghost, gfirst] *)
(*   ac    TRUE: runopp, FALSE: rundcopp           opts  "default" | "tight" (documented PDIPM_* / OPF_VIOLATION kwargs) *)
(*   mesh  line C present                           dcl   level of DclLevels: the sequence of dclines                    *)
(*   ctrl  [Flex -> BOOLEAN] controllable flags    egc   ext_grid.controllable                                        *)
(*   vband / plim / qlim / rate   "wide"|"narrow", "loose"|"tight" limit levels (rate also "trafo")                    *)
(*   kind  [Et -> Kinds] cost kind per element     var   1 | 2 | 3 coefficient variant                                *)
(*   shift transformer shift_degree modulo 360     sn    net.sn_mva (the per-unit base of the solver)                  *)
(*   ghost "none" | an element of PQ that is out of service (in_service = False) and keeps its cost row                *)
(*   gfirst  the ghost's cost row is created before all other cost rows (otherwise at its place in EtSeq)              *)
Lines(cfg) == DclLines(cfg.dcl)
NDcl(cfg) == Len(Lines(cfg))
AnyLossy(cfg) == \E k \in 1..NDcl(cfg) : DclLossy(Lines(cfg)[k])
DclPLim(cfg, k) ==      \* range of res_dcline.p_from_mw of line k
  LET m == DclPMax(k, cfg.plim) IN IF DclRev(Lines(cfg)[k]) THEN <<-m, 0>> ELSE <<0, m>>
CostedDclRev(cfg) == NDcl(cfg) > 0 /\ DclRev(Lines(cfg)[NDcl(cfg)])
\* p limits of the element that a cost row of kind `et` refers to (dcline: the last line)
PLimOf(cfg, et) == IF et = "dcline" THEN (IF NDcl(cfg) = 0 THEN <<0, 0>> ELSE DclPLim(cfg, NDcl(cfg))) ELSE PLim(et, cfg.plim)
InService(cfg, et) == et # cfg.ghost
Present(cfg, et) == (et # "dcline" \/ NDcl(cfg) > 0) /\ InService(cfg, et)
\* is the element an optimisation variable of the OPF?  (ext_grid, gen: always a ppc generator, build_gen.py:92-95;
\* sgen/load/storage: only `controllable` rows in service, pd2ppc / build_gen.py:96-101; dcline: always, run.py docstring:416)
IsVar(cfg, et) == IF et \in PQ THEN cfg.ctrl[et] /\ InService(cfg, et) ELSE Present(cfg, et)
\* may the optimiser move the active power?  a non-controllable gen is a ppc generator with p fixed (build_gen.py:183-201)
PFree(cfg, et) == IF et \in Flex THEN cfg.ctrl[et] /\ InService(cfg, et) ELSE Present(cfg, et)
Costed(cfg) == {e \in Et : cfg.kind[e] # "none"}
CostedVars(cfg) == Costed(cfg) \ {cfg.ghost}                  \* the rows that belong to an optimisation variable
AnyPwl(cfg) == \E e \in Et : cfg.kind[e] \in PwlKinds         \* make_objective.py:21 len(net.pwl_cost): ghost rows count
AnyQuad(cfg) == \E e \in Et : cfg.kind[e] \in QuadKinds       \* make_objective.py:65 is_quadratic (cp2 or cq2 non-zero)
AnyQCost(cfg) == \E e \in Et : cfg.kind[e] \in QKinds
\* inputs the property speaks about (everything else is rejected by the code or documented as unsupported):
Valid(cfg) ==
  /\ CostedVars(cfg) # {}                                 \* no cost rows: the code substitutes "minimise generation" (make_objective.py:34-38)
  /\ \A e \in CostedVars(cfg) : IsVar(cfg, e)             \* rows of IN-SERVICE elements that are not OPF variables are dropped (make_objective.py:42-58)
                                                          \* although the element has a power: not claimed
  \* ghost: the row of an OUT-OF-SERVICE element is dropped as well, but its element has no power, and a cost function
  \* without constant term is zero there -- the user's sum is the same with and without the row.  Only such rows are
  \* generated; the ghost is the only element of its kind (a cost row of an out-of-service element with a LOWER index than an
  \* in-service controllable element of the same table is attributed to another generator: proposed_fixes/C17_3)
  /\ (cfg.ghost # "none" => cfg.ghost \in PQ /\ cfg.kind[cfg.ghost] \in ZeroAtZeroKinds)
  /\ (cfg.ghost = "none" => cfg.gfirst)                   \* canonical
  /\ ~(AnyPwl(cfg) /\ AnyQuad(cfg))                       \* ValueError, make_objective.py:27-28, 72-73
  /\ ~(AnyPwl(cfg) /\ AnyQCost(cfg))                      \* q cost of poly rows is not transferred to pwl form (make_objective.py:146-153): not claimed
  /\ (AnyQCost(cfg) => cfg.ac)                            \* DC OPF has no reactive power
  /\ \A e \in Et : (cfg.kind[e] \in {"pwl2", "pwl3"} => ~Inverted(e))   \* doc/opf/formulation.rst:78 "Loads can only have 2 data points"
  /\ \A e \in Et : (cfg.kind[e] \in QKinds => e \in {"gen", "sgen", "load"})
  /\ (NDcl(cfg) = 0 => cfg.kind["dcline"] = "none")
  /\ (cfg.ac => cfg.shift # 150)                          \* runopp does not converge from its flat start across a 150 degree shift: DC only

ElOf(cfg, e) ==    \* limits, set points and flags of element e (dcline: the costed = last line; all lines: LinesOf)
  [present |-> Present(cfg, e), ins |-> InService(cfg, e),
   ctrl |-> IF e \in Flex THEN cfg.ctrl[e] ELSE IF e = "ext_grid" THEN cfg.egc ELSE TRUE,
   pmin |-> PLimOf(cfg, e)[1], pmax |-> PLimOf(cfg, e)[2], qmin |-> QLim(e, cfg.qlim)[1], qmax |-> QLim(e, cfg.qlim)[2],
   pset |-> PSet(e), qset |-> QSet(e), vset |-> VSet(e), bus |-> BusOf(e)]
LineOf(cfg, k) ==  \* the k-th row of net.dcline
  LET code == Lines(cfg)[k] IN
  [from |-> DclFrom(k), to |-> DclTo(k), rev |-> DclRev(code),
   pset |-> IF DclRev(code) THEN -PSet("dcline") ELSE PSet("dcline"),          \* dcline.p_mw: its sign is the direction
   pmax |-> DclPMax(k, cfg.plim), qmin |-> QLim("dcline", cfg.qlim)[1], qmax |-> QLim("dcline", cfg.qlim)[2],
   loss_percent |-> DclLossPercent(code), loss_kw |-> DclLossKw(code),
   vmf |-> DclVm(DclFrom(k)), vmt |-> DclVm(DclTo(k))]
LinesOf(cfg) == [k \in 1..NDcl(cfg) |-> LineOf(cfg, k)]
CostRowOf(cfg, e) == CostRow(e, cfg.kind[e], cfg.var, e = "dcline" /\ CostedDclRev(cfg))
\* all six rows as a record (built once where it is bound by LET; TLC evaluates a function constructor lazily per application)
RowsOf(cfg) == [ext_grid |-> CostRowOf(cfg, "ext_grid"), gen |-> CostRowOf(cfg, "gen"), sgen |-> CostRowOf(cfg, "sgen"),
                load |-> CostRowOf(cfg, "load"), storage |-> CostRowOf(cfg, "storage"), dcline |-> CostRowOf(cfg, "dcline")]
\* order in which the cost rows are created (poly rows go to net.poly_cost, pwl rows to net.pwl_cost, each in this order)
RECURSIVE SeqWithout(_, _)
SeqWithout(s, x) == IF s = <<>> THEN <<>> ELSE (IF Head(s) = x THEN <<>> ELSE <<Head(s)>>) \o SeqWithout(Tail(s), x)
CostOrder(cfg) == IF cfg.ghost # "none" /\ cfg.gfirst THEN <<cfg.ghost>> \o SeqWithout(EtSeq, cfg.ghost) ELSE EtSeq
Inst(cfg) ==   \* the concrete network data of a configuration; the harness builds the pandapower net from this record
  [vmin |-> VBand(cfg.vband)[1], vmax |-> VBand(cfg.vband)[2], basep |-> BaseP, baseq |-> BaseQ,
   ac |-> cfg.ac, opts |-> cfg.opts, mesh |-> cfg.mesh,
   \* runopp's documented start options: behind a phase shifting transformer the flat start is 30 degree off and the solver
   \* rarely converges from it, so those cases start from a power flow solution (rundcopp has no such option)
   init |-> IF cfg.ac /\ cfg.shift # 0 THEN "pf" ELSE "flat",
   shift_degree |-> ShiftDeg(cfg.shift), sn_mva |-> cfg.sn,
   lines |-> LinesOf(cfg),
   maxload |-> [br \in Branches |-> MaxLoading(br, cfg.rate)],
   el |-> [e \in Et \ {"dcline"} |-> ElOf(cfg, e)],
   cost |-> RowsOf(cfg), order |-> CostOrder(cfg),
   dcl_cost_row |-> IF NDcl(cfg) = 0 THEN 0 ELSE NDcl(cfg) - 1]      \* `element` of the dcline cost row: the last line

-----------------------------------------------------------------------------
(* Cost functions on the integer grid (EUR, MW).  User side.                                                           *)
SetMin(S) == CHOOSE x \in S : \A y \in S : x <= y
SetMax(S) == CHOOSE x \in S : \A y \in S : x >= y
ClampI(x, lo, hi) == IF x < lo THEN lo ELSE IF x > hi THEN hi ELSE x
RECURSIVE SumTo(_, _)
SumTo(f, n) == IF n = 0 THEN 0 ELSE f[n] + SumTo(f, n - 1)
\* Piecewise linear cost as the user states it (create_pwl_cost: "c(n) defines the costs [slope] between p(n) and p(n+1)").
\* The documentation leaves the additive constant open ("can be neglected"); the code fixes it so that the first area's
\* line passes through the origin (make_objective.py:129-133: value lower*slope at the first point) -- that choice is
\* adopted here as part of the user-side definition, it does not influence the optimum.  Outside the areas the end
\* slopes continue (the generated areas always cover [min_p, max_p], so this is never exercised by a feasible result).
PwlAt(pts, p, unit) ==      \* p and the result in `unit`-ths (unit = 1: MW/EUR, unit = M: micro)
  LET n == Len(pts)
      lo == pts[1][1] * unit
      hi == pts[n][2] * unit
      inner == [k \in 1..n |-> pts[k][3] * (ClampI(p, pts[k][1] * unit, pts[k][2] * unit) - pts[k][1] * unit)]
  IN  pts[1][1] * pts[1][3] * unit + SumTo(inner, n)
      + (IF p < lo THEN pts[1][3] * (p - lo) ELSE 0) + (IF p > hi THEN pts[n][3] * (p - hi) ELSE 0)
UserRowP(row, p) == IF row.kind = "poly" THEN row.c2 * p * p + row.c1 * p + row.c0
                    ELSE IF row.kind = "pwl" THEN PwlAt(row.pts, p, 1) ELSE 0

(* The same row as make_objective.py hands it to the solver, as a function of the USER-side power p.                   *)
(* s = -1 for load / storage / dcline (make_objective.py:60, 85), solver variable pg = s*p.                             *)
(*   poly, no pwl rows anywhere (make_objective.py:86-96): gencost = (c2*s, c1*s, c0*s) evaluated at pg                 *)
(*   poly next to pwl rows (make_objective.py:146-153): two points (pmin, pmin*c1*s), (pmax, pmax*c1*s): c1*s*pg, c0 lost *)
(*   pwl (make_objective.py:113-143): break points x = lower/upper UNNEGATED, y accumulated with slope*s, evaluated at pg *)
RECURSIVE AreaY(_, _, _)
AreaY(pts, s, k) == IF k = 0 THEN pts[1][1] * pts[1][3] * s ELSE AreaY(pts, s, k - 1) + (pts[k][2] - pts[k][1]) * pts[k][3] * s
CodePwlAt(pts, s, pg) ==     \* linear interpolation through (x_k, y_k), end segments extended (pips treats pwl costs as the
                             \* upper envelope of the segment lines, which for convex data is this function)
  LET n == Len(pts)
      seg == IF pg <= pts[1][2] THEN 1 ELSE SetMax({k \in 1..n : pts[k][1] <= pg})
  IN  AreaY(pts, s, seg - 1) + (pg - pts[seg][1]) * pts[seg][3] * s
\* The transcription follows the tree under test.  Set a flag to TRUE when the corresponding proposed fix is applied to
\* the repository (proposed_fixes/C17_1.diff, C17_2.diff, C16_1.diff); the predictions (req.dev, req.lawdiff) then change
\* and the check reports a stale transcription as a divergence, never as a violation.
TreeHasC17_1 == TRUE        \* sign applied to the odd-degree coefficient only (repaired in the repository, see known_findings)
TreeHasC17_2 == FALSE       \* cp0 kept when a polynomial row is rewritten as pwl
TreeHasC16_1 == FALSE       \* OPF dcline constraint uses the power-flow loss law
CodeRowP(row, et, anyPwl, p) ==
  LET s == IF Inverted(et) THEN -1 ELSE 1
      se == IF TreeHasC17_1 THEN 1 ELSE s      \* factor on the even-degree coefficients
      pg == s * p
  IN  IF row.kind = "poly" THEN (IF anyPwl THEN row.c1 * s * pg + (IF TreeHasC17_2 THEN row.c0 ELSE 0)
                                 ELSE row.c2 * se * pg * pg + row.c1 * s * pg + row.c0 * se)
      ELSE IF row.kind = "pwl" THEN CodePwlAt(row.pts, s, pg) ELSE 0
\* reactive part: sign -1 for load and storage only (make_objective.py:100), quadratic iff is_quadratic
UserRowQ(row, q) == IF row.kind = "poly" THEN row.q2 * q * q + row.q1 * q + row.q0 ELSE 0
CodeRowQ(row, et, q) == LET s == IF et \in {"load", "storage"} THEN -1 ELSE 1
                            se == IF TreeHasC17_1 THEN 1 ELSE s
                            qg == s * q
                        IN  IF row.kind = "poly" THEN row.q2 * se * qg * qg + row.q1 * s * qg + row.q0 * se ELSE 0
\* What the objective SHOULD be in solver coordinates: only odd powers change sign under pg = -p.
ReqGenCost(row, et) == LET s == IF Inverted(et) THEN -1 ELSE 1 IN <<row.c2, row.c1 * s, row.c0>>
PRange(cfg, e) == PLimOf(cfg, e)[1]..PLimOf(cfg, e)[2]
QRange(cfg, e) == QLim(e, cfg.qlim)[1]..QLim(e, cfg.qlim)[2]
\* deviation classes of the transcribed objective from the user's function, on the integer grid of the element's range
\* (rows of optimisation variables; a ghost's row is dropped by the code and is zero on the user side)
DevClasses(cfg) ==
  LET rows == RowsOf(cfg)
      pwl == AnyPwl(cfg)
      pd == {e \in CostedVars(cfg) : \E p \in PRange(cfg, e) : CodeRowP(rows[e], e, pwl, p) # UserRowP(rows[e], p)}
      qd == {e \in CostedVars(cfg) : \E q \in QRange(cfg, e) : CodeRowQ(rows[e], e, q) # UserRowQ(rows[e], q)}
  IN  {x \in {"inverted_poly_c2_c0", "poly_c0_dropped_next_to_pwl", "inverted_qpoly_c2_c0", "other_p", "other_q"} :
         \/ x = "inverted_poly_c2_c0" /\ \E e \in pd : ~pwl /\ Inverted(e) /\ rows[e].kind = "poly"
         \/ x = "poly_c0_dropped_next_to_pwl" /\ \E e \in pd : pwl /\ rows[e].kind = "poly"
         \/ x = "inverted_qpoly_c2_c0" /\ \E e \in qd : Inverted(e)
         \/ x = "other_p" /\ \E e \in pd : ~(rows[e].kind = "poly" /\ (pwl \/ Inverted(e)))
         \/ x = "other_q" /\ \E e \in qd : ~Inverted(e)}

-----------------------------------------------------------------------------
(* DC OPF on the RADIAL template is a transshipment problem: lossless, every branch flow is the sum of the injections    *)
(* behind it, all data integer.  With linear / convex piecewise linear costs on integer break points the constraint      *)
(* matrix (nested 0/1 rows over the chain 0-1-2-3, plus the dcline arcs) is a network matrix, totally unimodular, so an   *)
(* optimum lies on the integer grid: GridOpt is THE optimum.  With convex quadratic costs every grid point is still       *)
(* feasible, so GridOpt is an upper bound of the optimum.  The transformer is a bridge of the network (also with the      *)
(* mesh line), so its phase shift moves the angles behind it and no flow: the oracle does not depend on cfg.shift; nor    *)
(* does it depend on the per-unit base cfg.sn.                                                                           *)
DRange(cfg, e) == IF ~Present(cfg, e) THEN {0} ELSE IF PFree(cfg, e) THEN PRange(cfg, e) ELSE {PSet(e)}
DcRange(cfg, k) == IF k < 1 \/ k > NDcl(cfg) THEN {0} ELSE DclPLim(cfg, k)[1]..DclPLim(cfg, k)[2]
Dispatches(cfg) == [gen : DRange(cfg, "gen"), sgen : DRange(cfg, "sgen"), load : DRange(cfg, "load"),
                    storage : DRange(cfg, "storage"), dc1 : DcRange(cfg, 1), dc2 : DcRange(cfg, 2), dc3 : DcRange(cfg, 3)]
GridSize(cfg) == Cardinality(DRange(cfg, "gen")) * Cardinality(DRange(cfg, "sgen")) * Cardinality(DRange(cfg, "load"))
                 * Cardinality(DRange(cfg, "storage")) * Cardinality(DcRange(cfg, 1)) * Cardinality(DcRange(cfg, 2))
                 * Cardinality(DcRange(cfg, 3))
DcP(d, k) == CASE k = 1 -> d.dc1 [] k = 2 -> d.dc2 [] k = 3 -> d.dc3 [] OTHER -> 0      \* p_from of line k (0: absent)
\* power that the dclines deliver to bus b (lossless): slot 1: 1 -> 3, slot 2: 2 -> 1, slot 3: 3 -> 2
Inj1(d) == d.dc2 - d.dc1
Inj2(d) == d.dc3 - d.dc2
Inj3(d) == d.dc1 - d.dc3
ASSUME \A k \in 1..3 : /\ DclFrom(k) = (CASE k = 1 -> 1 [] k = 2 -> 2 [] k = 3 -> 3)       \* Inj1..3 are written for these ends
                       /\ DclTo(k) = (CASE k = 1 -> 3 [] k = 2 -> 1 [] k = 3 -> 2)
PExt(d) == BaseP + d.load + d.storage - d.gen - d.sgen             \* slack injection = total net demand (no losses, no dcline at bus 0)
FlowT(d) == PExt(d)                                                 \* bus 0 -> 1
FlowA(d) == BaseP + d.storage - d.gen - Inj2(d) + d.load - d.sgen - Inj3(d)  \* bus 1 -> 2: net demand of buses 2 and 3
FlowB(d) == d.load - d.sgen - Inj3(d)                               \* bus 2 -> 3: net demand of bus 3
Feasible(cfg, d) == /\ PExt(d) \in PRange(cfg, "ext_grid")
                    /\ Abs(FlowT(d)) <= Cap("T", cfg.rate) /\ Abs(FlowA(d)) <= Cap("A", cfg.rate) /\ Abs(FlowB(d)) <= Cap("B", cfg.rate)
RECURSIVE SumSet(_, _)
SumSet(f, S) == IF S = {} THEN 0 ELSE LET x == CHOOSE y \in S : TRUE IN f[x] + SumSet(f, S \ {x})
\* user cost of a grid dispatch: the sum over the cost rows (a "none" row contributes 0; a ghost has p = 0 and a row that
\* vanishes there), ext_grid at the balance power, the dcline row at the power of the last line (n = NDcl(cfg))
GridCostR(rows, n, d) == UserRowP(rows["ext_grid"], PExt(d)) + UserRowP(rows["gen"], d.gen) + UserRowP(rows["sgen"], d.sgen)
                         + UserRowP(rows["load"], d.load) + UserRowP(rows["storage"], d.storage) + UserRowP(rows["dcline"], DcP(d, n))
GridCost(cfg, d) == GridCostR(RowsOf(cfg), NDcl(cfg), d)
GridMax == 4000                                                     \* larger grids are not enumerated (several dclines with all elements free)
GridApplicable(cfg) == ~cfg.ac /\ ~cfg.mesh /\ ~AnyLossy(cfg) /\ ~AnyQCost(cfg) /\ GridSize(cfg) <= GridMax
GridExact(cfg) == GridApplicable(cfg) /\ ~AnyQuad(cfg)
\* The brute force itself, written for TLC's interpreter: per element the row's cost over its integer range is tabulated
\* once (a tuple, index p - lo + 1), the limits are plain integers, and every feasible dispatch contributes one tuple
\* <<cost, slack power>>.
RECURSIVE TabFrom(_, _, _)
TabFrom(row, p, hi) == IF p > hi THEN <<>> ELSE <<UserRowP(row, p)>> \o TabFrom(row, p + 1, hi)
FeasiblePoints(cfg) ==
  LET rows == RowsOf(cfg)
      n == NDcl(cfg)
      elo == PLim("ext_grid", cfg.plim)[1]     ehi == PLim("ext_grid", cfg.plim)[2]
      cT == Cap("T", cfg.rate)   cA == Cap("A", cfg.rate)   cB == Cap("B", cfg.rate)
      lo(e) == SetMin(DRange(cfg, e))
      te == TabFrom(rows["ext_grid"], elo, ehi)
      tg == TabFrom(rows["gen"], lo("gen"), SetMax(DRange(cfg, "gen")))            lg == lo("gen")
      ts == TabFrom(rows["sgen"], lo("sgen"), SetMax(DRange(cfg, "sgen")))         ls == lo("sgen")
      tl == TabFrom(rows["load"], lo("load"), SetMax(DRange(cfg, "load")))         ll == lo("load")
      tb == TabFrom(rows["storage"], lo("storage"), SetMax(DRange(cfg, "storage"))) lb == lo("storage")
      ld == SetMin(DcRange(cfg, n))
      td == TabFrom(rows["dcline"], ld, SetMax(DcRange(cfg, n)))
      ok(d) == LET pe == PExt(d) fa == FlowA(d) fb == FlowB(d)
               IN  pe >= elo /\ pe <= ehi /\ pe <= cT /\ -pe <= cT /\ fa <= cA /\ -fa <= cA /\ fb <= cB /\ -fb <= cB
  IN  {<<te[PExt(d) - elo + 1] + tg[d.gen - lg + 1] + ts[d.sgen - ls + 1] + tl[d.load - ll + 1] + tb[d.storage - lb + 1]
         + td[DcP(d, n) - ld + 1], PExt(d)>> : d \in {x \in Dispatches(cfg) : ok(x)}}
NoOpt == 1000000000                                                 \* "no feasible grid point"
GridOptOf(fp) == IF fp = {} THEN NoOpt ELSE SetMin({x[1] : x \in fp})
GridOpt(cfg) == GridOptOf(FeasiblePoints(cfg))
\* which transformer limit is active at an optimal grid dispatch ("T-": at its rating with power flowing lv -> hv, "T+":
\* hv -> lv, "T0": the rating is not active at some optimal dispatch); used to stratify the sampled configurations
GridBindOf(cfg, fp) ==
  LET opt == SetMin({x[1] : x \in fp})
      pes == {x[2] : x \in {y \in fp : y[1] = opt}}
      cT == Cap("T", cfg.rate)
  IN  IF fp = {} THEN {} ELSE {b \in {"T-", "T+", "T0"} : \/ b = "T-" /\ -cT \in pes
                                                          \/ b = "T+" /\ cT \in pes
                                                          \/ b = "T0" /\ \E pe \in pes : pe # cT /\ pe # -cT}
\* bound on |cost| over the whole box, for the fixed-point range (model invariant CostInRange)
RowAbsBound(cfg, e) == LET row == CostRowOf(cfg, e)
                           pm == SetMax({Abs(x) : x \in PRange(cfg, e)})
                           qm == SetMax({Abs(x) : x \in QRange(cfg, e)})
                       IN  IF row.kind = "poly" THEN row.c2 * pm * pm + Abs(row.c1) * pm + row.c0 + row.q2 * qm * qm + Abs(row.q1) * qm + row.q0
                           ELSE IF row.kind = "pwl" THEN SetMax({Abs(PwlAt(row.pts, p, 1)) : p \in PRange(cfg, e)}) ELSE 0
CostAbsBound(cfg) == SumSet([e \in Et |-> RowAbsBound(cfg, e)], Et)

(* dcline loss laws (micro-MW).  Power flow / documentation (auxiliary.py:1587, doc/elements/dcline.rst), forward:      *)
(*     p_to = -(p_from*(1 - loss_percent/100) - loss_mw);   reverse (p_mw < 0): the to-bus is the sending end,             *)
(*     p_from = -(p_to*(1 - loss_percent/100) - loss_mw)                                                                *)
(* OPF constraint (optimal_powerflow.py:105-129), whatever the direction: (1 + loss_percent/100)*Pg_to + Pg_from = -loss_mw *)
(*     with Pg_from = -p_from, Pg_to = -p_to, i.e. (1 + loss_percent/100)*p_to + p_from = loss_mw.                          *)
(* They agree iff loss_percent = 0 (and loss_mw = 0 for a reverse line).  C16_1 states the forward power-flow law in the   *)
(* OPF constraint; a lossy line operated in reverse still differs then.                                                  *)
DclPfLawDiffers(cfg) == \E k \in 1..NDcl(cfg) : DclLossy(Lines(cfg)[k]) /\ (~TreeHasC16_1 \/ DclRev(Lines(cfg)[k]))

-----------------------------------------------------------------------------
(* Strata of the configuration space (used by the harness to spread the sampled configurations: every stratum is        *)
(* sampled, however small).  focus: which of the structural dimensions leaves the plain template; costs: which branch of  *)
(* make_objective.py / the solver's cost handling the cost tables take.                                                  *)
Focus(cfg) ==
  {x \in {"plain", "dcl_reverse", "dcl_multi", "dcl_opposite", "shift", "sn", "ghost"} :
     \/ x = "dcl_reverse" /\ NDcl(cfg) = 1 /\ DclRev(Lines(cfg)[1])
     \/ x = "dcl_multi" /\ NDcl(cfg) > 1 /\ \A j, k \in 1..NDcl(cfg) : DclRev(Lines(cfg)[j]) = DclRev(Lines(cfg)[k])
     \/ x = "dcl_opposite" /\ \E j, k \in 1..NDcl(cfg) : DclRev(Lines(cfg)[j]) # DclRev(Lines(cfg)[k])
     \/ x = "shift" /\ cfg.shift # 0
     \/ x = "sn" /\ cfg.sn # 1
     \/ x = "ghost" /\ cfg.ghost # "none"
     \/ x = "plain" /\ cfg.dcl \in PlainDcl /\ cfg.shift = 0 /\ cfg.sn = 1 /\ cfg.ghost = "none"}
CostClass(cfg) ==
  LET ks == {cfg.kind[e] : e \in Costed(cfg)}
  IN  IF ks \cap QKinds # {} THEN "q"
      ELSE IF ks \cap PwlKinds # {} THEN (IF ks \subseteq PwlKinds THEN "pwl" ELSE IF "lin0" \in ks THEN "pwl_poly_c0" ELSE "pwl_poly")
      ELSE IF ks \cap QuadKinds # {} THEN "quad"
      ELSE IF "lin0" \in ks THEN "lin_c0" ELSE "lin"
=============================================================================
