------------------------------- MODULE CurveDef -------------------------------
(* C32 — shared definitions of the characteristic-curve model (Curve.tla) and of its observation module        *)
(* (CurveObs.tla).  Counterpart: pandapower/control/util/characteristic.py.                                    *)
(*                                                                                                             *)
(* A characteristic object is described abstractly by                                                          *)
(*   cls  : "char"   Characteristic            (characteristic.py:20,  __call__ = numpy.interp, :126-135)       *)
(*          "spline" SplineCharacteristic      (characteristic.py:141, lazily built scipy interpolator :171-178) *)
(*          "log"    LogSplineCharacteristic   (characteristic.py:195, log10 of x and y stored :209-218,         *)
(*                                              __call__ = 10^interpolator(log10 x) :220-221)                     *)
(*   ik   : interpolation kind.  "none" for cls = "char"; for the spline classes one of the interp1d kinds       *)
(*          (interpolator_kind = "interp1d", kwargs kind = ik; characteristic.py:174, default_interp1d :224)      *)
(*          or "pchip" (interpolator_kind = "Pchip", characteristic.py:176)                                      *)
(*   fill : "na" (char) | "extrapolate" (the class default) | "ends" (interp1d fill_value = (y_1, y_n), the       *)
(*          behaviour the class docstring :146-149 describes) | "noextrap" (PchipInterpolator extrapolate=False)  *)
(* and by its support data xs (strictly increasing), ys — integers in micro-units (value * 10^6).               *)
(*                                                                                                             *)
(* All numbers here are fixed point micro-units; the data are multiples of 1000 micro-units so that every        *)
(* division by 2 or 4 below is exact.                                                                           *)
EXTENDS Integers, Sequences, FiniteSets

Interp1dKinds == {"linear", "slinear", "quadratic", "cubic", "nearest", "previous", "next", "zero"}
AllInterp == Interp1dKinds \cup {"pchip"}

\* scipy needs order+1 points: interp1d(kind="quadratic") raises for 2 points, "cubic" for < 4 (documented scipy limits)
MinPts(ik) == CASE ik = "quadratic" -> 3 [] ik = "cubic" -> 4 [] OTHER -> 2

\* "shape preserving": the interpolant on [x_i, x_i+1] is a convex combination of / one of the two neighbouring values
\* (piecewise linear, step functions) or is the monotone cubic Hermite interpolant (PCHIP, Fritsch-Carlson)
ShapePreserving(cls, ik) == cls = "char" \/ ik \in {"linear", "slinear", "nearest", "previous", "next", "zero", "pchip"}

MinI(a, b) == IF a <= b THEN a ELSE b
MaxI2(a, b) == IF a >= b THEN a ELSE b

Increasing(s) == \A k \in 1..(Len(s) - 1) : s[k] <= s[k + 1]
Decreasing(s) == \A k \in 1..(Len(s) - 1) : s[k] >= s[k + 1]
Monotone(s) == Increasing(s) \/ Decreasing(s)
StrictlyIncreasing(s) == \A k \in 1..(Len(s) - 1) : s[k] < s[k + 1]

(* ---- the abscissae the specification evaluates a curve at ------------------------------------------------- *)
(* position j of the evaluation vector:                                                                        *)
(*   1..n                     support point x_j                                                                *)
(*   n+1 .. n+3(n-1)          interior grid: interval i, quarter k (k = 1, 2, 3):  x_i + k (x_i+1 - x_i) / 4      *)
(*   n+3(n-1)+1               left of the range : x_1 - (x_2 - x_1)/2   (log: x_1 / 2, must stay positive)        *)
(*   n+3(n-1)+2               right of the range: x_n + (x_n - x_n-1)/2                                          *)
NPts(n) == n + 3 * (n - 1) + 2
IsSupport(n, j) == j <= n
IsInterior(n, j) == j > n /\ j <= n + 3 * (n - 1)
IsLeft(n, j) == j = n + 3 * (n - 1) + 1
IsRight(n, j) == j = n + 3 * (n - 1) + 2
IntervalOf(n, j) == ((j - n - 1) \div 3) + 1
QuarterOf(n, j) == ((j - n - 1) % 3) + 1
Absc(xs, islog, j) ==
  LET n == Len(xs) IN
  IF IsSupport(n, j) THEN xs[j]
  ELSE IF IsInterior(n, j) THEN LET i == IntervalOf(n, j) k == QuarterOf(n, j) IN xs[i] + (k * (xs[i + 1] - xs[i])) \div 4
  ELSE IF IsLeft(n, j) THEN (IF islog THEN xs[1] \div 2 ELSE xs[1] - (xs[2] - xs[1]) \div 2)
  ELSE xs[n] + (xs[n] - xs[n - 1]) \div 2
AbscSeq(xs, islog) == [j \in 1..NPts(Len(xs)) |-> Absc(xs, islog, j)]

(* ---- REQUIRED results (the property) ----------------------------------------------------------------------- *)
\* clause 1: at support point j the curve returns ys[j]
ReqSupport(ys, j) == ys[j]
\* clause 2: enclosure of an interior point by the two neighbouring support values
EnclLo(ys, n, j) == MinI(ys[IntervalOf(n, j)], ys[IntervalOf(n, j) + 1])
EnclHi(ys, n, j) == MaxI2(ys[IntervalOf(n, j)], ys[IntervalOf(n, j) + 1])
EnclosureRequired(cls, ik, ys) == ShapePreserving(cls, ik) /\ Monotone(ys)

(* ---- exact model of the kinds whose value is a rational function of the data -------------------------------- *)
(* (used for conformance only — a mismatch is a divergence between this model and the code, not a violation)      *)
\* numpy.interp / interp1d(kind=linear|slinear): piecewise linear
Lin(ys, i, k) == ys[i] + (k * (ys[i + 1] - ys[i])) \div 4
\* HasExact / Exact: value the model predicts at position j (log kinds: only what does not need a logarithm)
StepKinds == {"previous", "next", "zero", "nearest"}
HasExact(cls, ik, fill, n, j) ==
  \/ IsSupport(n, j)
  \/ cls # "log" /\ (cls = "char" \/ ik \in {"linear", "slinear"})
  \/ ik \in {"previous", "zero", "next"} /\ IsInterior(n, j)
  \/ ik = "nearest" /\ IsInterior(n, j) /\ QuarterOf(n, j) # 2     \* the midpoint is a tie (rounding decides)
  \/ cls # "log" /\ fill = "ends" /\ (IsLeft(n, j) \/ IsRight(n, j)) /\ ik # "pchip"
Exact(cls, ik, fill, ys, n, j) ==
  IF IsSupport(n, j) THEN ys[j]
  ELSE IF IsInterior(n, j) THEN
    LET i == IntervalOf(n, j) k == QuarterOf(n, j) IN
    IF ik \in {"previous", "zero"} THEN ys[i]
    ELSE IF ik = "next" THEN ys[i + 1]
    ELSE IF ik = "nearest" THEN (IF k = 1 THEN ys[i] ELSE ys[i + 1])
    ELSE Lin(ys, i, k)
  ELSE IF IsLeft(n, j) THEN
    \* Characteristic: "Values are constant beyond the first and last defined points" (characteristic.py:54-58);
    \* fill_value=(y_1, y_n) gives the same; interp1d(linear, "extrapolate") continues the first segment
    (IF cls = "char" \/ fill = "ends" THEN ys[1] ELSE ys[1] - (ys[2] - ys[1]) \div 2)
  ELSE (IF cls = "char" \/ fill = "ends" THEN ys[n] ELSE ys[n] + (ys[n] - ys[n - 1]) \div 2)

(* ---- abstract object state over a history of operations ---------------------------------------------------- *)
(* ops : sequence over {"E"} \cup routes.  "E" = the object is called once (builds the cached scipy interpolator   *)
(* of the spline classes, characteristic.py:171-178); a route serialises and restores the net holding the object: *)
(*   "netjson"  pp.to_json(net) -> pp.from_json_string      "objjson"  obj.to_json() -> cls.from_json                *)
(*   "deepcopy" copy.deepcopy(net)                           "pickle"   pp.to_pickle -> pp.from_pickle               *)
JsonRoutes == {"netjson", "objjson"}
AllRoutes == JsonRoutes \cup {"deepcopy", "pickle"}
\* the `_interpolator` attribute: created by a call, excluded from JSON (json_excludes, characteristic.py:151),
\* carried along by deepcopy / pickle (plain __dict__ copies)
CacheAfter(cls, cache, op) ==
  IF op = "E" THEN cls # "char"
  ELSE IF op \in JsonRoutes THEN FALSE
  ELSE cache
RECURSIVE CacheOf(_, _)
CacheOf(cls, ops) == IF Len(ops) = 0 THEN FALSE ELSE CacheAfter(cls, CacheOf(cls, SubSeq(ops, 1, Len(ops) - 1)), ops[Len(ops)])
NSer(ops) == Cardinality({k \in 1..Len(ops) : ops[k] # "E"})
=============================================================================
