SPECIFICATION Spec
CONSTANTS
  Bases = {960000, 1045000}
  MaxIters = {6}
  Tap0s = {0}
  FailRuns = {0}
INVARIANT ReturnConvergedAll
