INIT TInit
NEXT TNext
INVARIANT Conf_Events
INVARIANT Conf_Outcome
