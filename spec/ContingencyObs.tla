----------------------------- MODULE ContingencyObs -----------------------------
(* C14/C15, implementation level: run_contingency / run_contingency_parallel executed with the stub evaluation    *)
(* function on the model's matrices.  seq / par = projection of the returned dict and of the columns written to    *)
(* net.res_* (NaN -> -1; a cause outside 0..2 -> -2).                                                               *)
EXTENDS ContingencyDef, Json, IOUtils
VARIABLE i
Cases == JsonDeserialize(IOEnv.OBS_FILE)
OInit == i \in 1..Len(Cases)
ONext == UNCHANGED i
C == Cases[i]
Cfg == [n |-> C.cfg.n, order |-> C.cfg.order, res |-> C.cfg.res, own |-> C.cfg.own, fail |-> C.cfg.fail, fkind |-> C.cfg.fkind, oos |-> C.cfg.oos]
E == El(Cfg)
S == C.seq
C14_NoError == S.err = ""
C14_Max == S.err = "" => \A e \in E : S.max[e + 1] = TrueMax(Cfg, e)
C14_Min == S.err = "" => \A e \in E : S.min[e + 1] = TrueMin(Cfg, e)
C14_Cause == S.err = "" => \A e \in E : TrueMax(Cfg, e) # NaNv =>
                 (S.cause_is_line[e + 1] /\ S.cause[e + 1] \in E /\ CauseOK(Cfg, e, S.cause[e + 1]))
C14_CausesOverloading == S.err = "" => \A c \in E : S.overload[c + 1] = Overloads(Cfg, c)
C14_N0 == S.err = "" => \A e \in E : S.n0[e + 1] = (IF e = Cfg.oos THEN NaNv ELSE N0Val(e))
C14_BusExtremes == S.err = "" => \A b \in 0..1 : S.busmax[b + 1] = BusMax(Cfg, b) /\ S.busmin[b + 1] = BusMin(Cfg, b)
C14_WrittenToNet == S.err = "" => S.written_max = S.max /\ S.written_min = S.min
C14_InServiceRestored == S.restored /\ S.seen_ok
\* C15: all keys, all values, for the worker count of this case
C15_ParallelEqualsSequential == C.has_par => (C.par.err = "" /\ S.err = "" /\
     C.par.max = S.max /\ C.par.min = S.min /\ C.par.overload = S.overload /\ C.par.n0 = S.n0 /\
     C.par.busmax = S.busmax /\ C.par.busmin = S.busmin /\ C.par.keys = S.keys /\
     (\A e \in E : TrueMax(Cfg, e) # NaNv => (C.par.cause[e + 1] = S.cause[e + 1] /\ C.par.cause_is_line[e + 1])) /\ C.par.restored /\ C.par.seen_ok)
\* (the cause of an element without any valid case is uninitialised memory in both paths and is not compared)
=============================================================================
