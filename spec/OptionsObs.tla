------------------------------ MODULE OptionsObs ------------------------------
(* C34, implementation level: net._options projected after set_user_pf_options(stored); runpp(passed). *)
EXTENDS OptionsDef, Json, IOUtils, Sequences
VARIABLE i
Cases == JsonDeserialize(IOEnv.OBS_FILE)
OInit == i \in 1..Len(Cases)
ONext == UNCHANGED i
C == Cases[i]
\* only touched parameters are logged
St == [p \in Params |-> IF p \in DOMAIN C.stored THEN C.stored[p] ELSE "Unset"]
Pa == [p \in Params |-> IF p \in DOMAIN C.passed THEN C.passed[p] ELSE "NotPassed"]
Rej == Rejected(St, Pa)
E == Expected(St, Pa)
Ok(k) == (~Rej /\ ~C.rejected) => C.obs[k] = E[k]
\* attribution only: does the named deviation model explain this observation exactly?
KnownDeviation == /\ C.rejected = RejectedImpl(St, Pa)
                  /\ ~C.rejected => \A k \in DOMAIN C.obs : C.obs[k] = ExpectedImpl(St, Pa)[k]
C34_Rejection == C.rejected = Rej
C34_algorithm == Ok("algorithm")
C34_calculate_voltage_angles == Ok("calculate_voltage_angles")
C34_init == Ok("init_vm_pu") /\ Ok("init_va_degree")
C34_max_iteration == Ok("max_iteration")
C34_tolerance_mva == Ok("tolerance_mva")
C34_trafo_model == Ok("trafo_model")
C34_trafo_loading == Ok("trafo_loading")
C34_enforce_q_lims == Ok("enforce_q_lims")
C34_check_connectivity == Ok("check_connectivity")
C34_voltage_depend_loads == Ok("voltage_depend_loads")
C34_consider_line_temperature == Ok("consider_line_temperature")
C34_distributed_slack == Ok("distributed_slack")
C34_numba == Ok("numba")
C34_switch_rx_ratio == Ok("switch_rx_ratio")
C34_delta_q == Ok("delta_q")
C34_trafo3w_losses == Ok("trafo3w_losses")
C34_neglect_open_switch_branches == Ok("neglect_open_switch_branches")
=============================================================================
