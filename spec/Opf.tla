---------------------------------- MODULE Opf ----------------------------------
(* C16 / C17 -- model of one optimal power flow call on the template of OpfDef.tla.                                   *)
(*                                                                                                                    *)
(* A state is an abstract configuration cfg (which elements are OPF variables, which limit levels apply, AC or DC,     *)
(* solver options, cost kind per element, coefficient variant) together with what the specification REQUIRES of the    *)
(* result, computed from cfg alone:                                                                                    *)
(*   req.feasible    the integer dispatch grid of the DC problem has a feasible point (radial DC cases)                *)
(*   req.gridopt     the exact optimum of the DC problem by brute force over the integer grid (NoOpt if not applicable) *)
(*   req.applicable / req.exact   whether that optimum is an oracle (radial lossless DC) and whether it is two-sided    *)
(*   req.dev         classes in which the objective AS TRANSCRIBED FROM make_objective.py differs from the user's       *)
(*                   cost function (empty = the code's objective is the user's); used to predict, not to decide         *)
(*   req.lawdiff     the dcline loss law of the OPF constraint differs from the power-flow law                          *)
(* TLC enumerates the configurations (Slice "feas": controllable sets x limit levels x AC/DC x cost profiles for C16;  *)
(* Slice "cost": cost kinds x element types x coefficient variants x limit levels for C17); every dumped state is       *)
(* instantiated (record Inst(cfg), serialised by OpfInst.tla) and run through the real runopp / rundcopp; OpfObs.tla     *)
(* evaluates the property clauses on the observations.                                                                  *)
EXTENDS OpfDef
CONSTANTS Slice,            \* "feas" | "cost"
          AcSet, OptSet, MeshSet, DclSet, EgcSet, VbandSet, PlimSet, QlimSet, RateSet, VarSet,
          CtrlSets,         \* feas: the sets of controllable Flex elements to enumerate
          Profiles,         \* feas: cost profiles to enumerate
          MaxCosted         \* cost: at most this many elements carry a cost row
VARIABLES cfg, req

AllCtrl == [e \in Flex |-> TRUE]
CtrlOf(S) == [e \in Flex |-> e \in S]
\* "feas" slice: the cost kinds follow from a profile; only OPF variables get a row
ProfileKind(p, e) ==
  CASE p = "lin"  -> "lin"
    [] p = "lin0" -> "lin0"
    [] p = "quad" -> IF Inverted(e) THEN "lin" ELSE "quad0"
    [] p = "pwl"  -> IF Inverted(e) THEN "pwl1" ELSE IF e = "gen" THEN "pwl2" ELSE "pwl3"
KindOfProfile(p, ctrl, dcl) ==
  [e \in Et |-> IF (IF e \in PQ THEN ctrl[e] ELSE (e # "dcline" \/ dcl # 0)) THEN ProfileKind(p, e) ELSE "none"]
\* "cost" slice: every assignment of kinds to at most MaxCosted elements
KindVecs == UNION {{[e \in Et |-> IF e \in S THEN f[e] ELSE "none"] : f \in [S -> Kinds \ {"none"}]} :
                     S \in {T \in SUBSET Et : Cardinality(T) \in 1..MaxCosted}}
Base == [ac : AcSet, opts : OptSet, mesh : MeshSet, dcl : DclSet, egc : EgcSet, vband : VbandSet, plim : PlimSet,
         qlim : QlimSet, rate : RateSet, var : VarSet]
Ext(b, ctrl, kind) == [ac |-> b.ac, opts |-> b.opts, mesh |-> b.mesh, dcl |-> b.dcl, egc |-> b.egc, vband |-> b.vband,
                       plim |-> b.plim, qlim |-> b.qlim, rate |-> b.rate, var |-> b.var, ctrl |-> ctrl, kind |-> kind]
\* levels that cannot influence a DC OPF are fixed there (no voltage magnitudes, no reactive power); the DC problem is an
\* LP / QP that the default solver options already solve to 1e-7, so the tightened options are enumerated for AC only
Canonical(c) == c.ac \/ (c.vband = "wide" /\ c.qlim = "loose" /\ c.egc /\ c.opts = "default")
\* cost slice: a dcline only when it carries a cost; AC cases with loose limits (the limit levels matter for the optimum,
\* which is decided for DC cases only)
CanonicalCost(c) == (c.kind["dcline"] = "none" => c.dcl = 0) /\ (c.ac => (c.plim = "loose" /\ c.rate = "loose"))
FeasConfigs == {Ext(b, CtrlOf(S), KindOfProfile(p, CtrlOf(S), b.dcl)) : b \in Base, S \in CtrlSets, p \in Profiles}
\* cost slice: controllable = everything, or exactly the costed elements (the others keep their set points)
CostConfigs == UNION {{Ext(b, AllCtrl, k), Ext(b, [e \in Flex |-> k[e] # "none"], k)} : b \in Base, k \in KindVecs}
Configs == IF Slice = "feas" THEN {c \in FeasConfigs : Valid(c) /\ Canonical(c)}
           ELSE {c \in CostConfigs : Valid(c) /\ Canonical(c) /\ CanonicalCost(c)}

Pending == [done |-> FALSE]
Required(c) ==
  LET opt == IF GridApplicable(c) THEN GridOpt(c) ELSE NoOpt
  IN  [done |-> TRUE, applicable |-> GridApplicable(c), exact |-> GridExact(c), gridopt |-> opt,
       feasible |-> opt # NoOpt \/ ~GridApplicable(c),
       dev |-> DevClasses(c), lawdiff |-> DclPfLawDiffers(c)]

\* (initial states are generated sequentially by TLC, successor states in parallel: the derivation is an action)
Init == cfg \in Configs /\ req = Pending
Run == ~req.done /\ req' = Required(cfg) /\ UNCHANGED cfg
Next == Run

-----------------------------------------------------------------------------
(* Model-level statements of the required design (checked by TLC on every configuration)                               *)
ASSUME \A br \in Branches, l \in {"loose", "tight"} : Cap(br, l) * 100 = Sn(br) * MaxLoading(br, l)   \* integer capacities
\* (1) the objective the solver must be given: only odd-degree coefficients change sign for negative generators; with
\*     that transformation the solver-side polynomial at pg = -p IS the user's polynomial at p, for every grid power
ObjectiveConvention ==
  \A e \in Costed(cfg) : LET row == Inst(cfg).cost[e]
                             g == ReqGenCost(row, e)
                             s == IF Inverted(e) THEN -1 ELSE 1
                         IN  row.kind = "poly" => \A p \in PRange(cfg, e) : g[1] * (s * p) * (s * p) + g[2] * (s * p) + g[3] = UserRowP(row, p)
\* (2) generated piecewise linear costs are well formed: consecutive, increasing slopes (convex), covering [min_p, max_p]
PwlWellFormed ==
  \A e \in Costed(cfg) : LET row == Inst(cfg).cost[e] IN row.kind = "pwl" =>
      /\ \A k \in 1..(Len(row.pts) - 1) : row.pts[k][2] = row.pts[k + 1][1] /\ row.pts[k][3] < row.pts[k + 1][3]
      /\ \A k \in 1..Len(row.pts) : row.pts[k][1] < row.pts[k][2]
      /\ row.pts[1][1] <= PLim(e, cfg.plim)[1] /\ row.pts[Len(row.pts)][2] >= PLim(e, cfg.plim)[2]
\* (3) every cost stays inside the fixed-point range of the observations (|cost| < 1000 EUR)
CostInRange == CostAbsBound(cfg) < 1000
\* (4) the transcribed pwl objective of the code equals the user's pwl function wherever the model generates pwl rows
\*     (single area for negative generators, any number of areas otherwise): a deviation there would be a new finding
PwlTranscriptionAgrees ==
  \A e \in Costed(cfg) : LET row == Inst(cfg).cost[e] IN row.kind = "pwl" =>
      \A p \in PRange(cfg, e) : CodeRowP(row, e, TRUE, p) = UserRowP(row, p)
\* (5) sanity of the brute-force optimum: it is the cost of a feasible grid dispatch, and widening the p limits (every
\*     tight range lies inside the loose one) can only lower it
GridOptSane ==
  (req.done /\ req.applicable /\ req.feasible) =>
      /\ LET rows == Inst(cfg).cost IN \E d \in Dispatches(cfg) : Feasible(cfg, d) /\ GridCostR(rows, d) = req.gridopt
      /\ (cfg.plim = "tight" => GridOpt([cfg EXCEPT !.plim = "loose"]) <= req.gridopt)
\* (6) the grid stays within the enumeration budget
GridSmall == Cardinality(Dispatches(cfg)) <= 6 * 6 * 6 * 6 * 3
=============================================================================
