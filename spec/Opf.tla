---------------------------------- MODULE Opf ----------------------------------
(* C16 / C17 -- model of one optimal power flow call on the template of OpfDef.tla.                                   *)
(*                                                                                                                    *)
(* A state is an abstract configuration cfg (which elements are OPF variables, which limit levels apply, AC or DC,     *)
(* solver options, cost kind per element, coefficient variant, the sequence of dclines with their directions, the      *)
(* transformer's phase shift, the per-unit base net.sn_mva, an out-of-service element that keeps its cost row) together *)
(* with what the specification REQUIRES of the result, computed from cfg alone:                                        *)
(*   req.applicable / req.exact   whether the brute-force optimum over the integer dispatch grid is an oracle for this     *)
(*                   configuration (radial lossless DC) and whether it is two-sided (linear / convex pwl costs)          *)
(*   req.gridopt     that optimum (NoOpt: grid infeasible, or not derived in the model because the grid is larger than   *)
(*                   GridModelMax -- OpfObs.tla derives it for every executed case)                                       *)
(*   req.dev         classes in which the objective AS TRANSCRIBED FROM make_objective.py differs from the user's       *)
(*                   cost function (empty = the code's objective is the user's); used to predict, not to decide         *)
(*   req.lawdiff     the dcline loss law of the OPF constraint differs from the power-flow law                          *)
(*   req.focus / req.stratum   the stratum of the configuration space (OpfDef: Focus, CostClass; plus, where the grid    *)
(*                   oracle is derived, which transformer limit is active at the optimum): the harness samples EVERY     *)
(*                   stratum                                                                                              *)
(* TLC enumerates the configurations (Slice "feas": controllable sets x limit levels x AC/DC x cost profiles for C16;  *)
(* Slice "cost": cost kinds x element types x coefficient variants x limit levels for C17); every dumped state is       *)
(* instantiated (record Inst(cfg), serialised by OpfInst.tla) and run through the real runopp / rundcopp; OpfObs.tla     *)
(* evaluates the property clauses on the observations.                                                                  *)
(* The structural dimensions dcl (beyond one forward line), shift, sn, ghost leave their default in at most MaxDev of    *)
(* them at a time; configurations that leave it are combined with a reduced set of the limit / option levels.            *)
EXTENDS OpfDef
CONSTANTS Slice,            \* "feas" | "cost"
          AcSet, OptSet, MeshSet, DclSet, EgcSet, VbandSet, PlimSet, QlimSet, RateSet, VarSet,
          ShiftSet, SnSet, GhostSet,
          MaxDev,           \* at most this many of (dcl, shift, sn, ghost) leave the plain template in one configuration
          CtrlSets,         \* feas: the sets of controllable Flex elements to enumerate
          Profiles,         \* feas: cost profiles to enumerate
          MaxCosted,        \* cost: at most this many elements carry a cost row
          GridModelMax      \* the model derives the grid optimum itself for dispatch grids up to this size (OpfObs always does)
VARIABLES cfg, req
ASSUME DclSet \subseteq DclLevels /\ ShiftSet \subseteq {0, 30, 150, 330} /\ GhostSet \subseteq PQ \cup {"none"}
ASSUME 0 \in ShiftSet /\ 1 \in SnSet /\ "none" \in GhostSet

AllCtrl == [e \in Flex |-> TRUE]
CtrlOf(S) == [e \in Flex |-> e \in S]
\* the structural dimensions
DevOf(x) == (IF x.dcl \in PlainDcl THEN 0 ELSE 1) + (IF x.shift = 0 THEN 0 ELSE 1) + (IF x.sn = 1 THEN 0 ELSE 1)
            + (IF x.ghost = "none" THEN 0 ELSE 1)
NewCombos == {x \in [dcl : DclSet, shift : ShiftSet, sn : SnSet, ghost : GhostSet, gfirst : BOOLEAN] :
                /\ (x.ghost = "none" \/ Slice = "feas") => x.gfirst      \* the order of the cost rows is a matter of the cost slice
                /\ DevOf(x) <= MaxDev
                \* a lossy line (known finding of C16, and a loss_mw that the OPF constraint does not convert to per unit) is
                \* not combined with a deviation of another dimension
                /\ (x.dcl = "F" => DevOf(x) = 0)
                /\ (x.sn # 1 => \A k \in 1..Len(DclLines(x.dcl)) : ~DclLossy(DclLines(x.dcl)[k]))
                \* a phase shift or a ghost has nothing to do with a dcline: combined with the template without one (feas slice;
                \* in the cost slice the presence of dclines follows from the cost rows)
                /\ ((Slice = "feas" /\ MaxDev = 1 /\ (x.shift # 0 \/ x.ghost # "none")) => x.dcl = "none")}
\* "feas" slice: the cost kinds follow from a profile; only OPF variables and the ghost get a row
ProfileKind(p, e) ==
  CASE p = "lin"  -> "lin"
    [] p = "lin0" -> "lin0"
    [] p = "quad" -> IF Inverted(e) THEN "lin" ELSE "quad0"
    [] p = "pwl"  -> IF Inverted(e) THEN "pwl1" ELSE IF e = "gen" THEN "pwl2" ELSE "pwl3"
GhostKind(k) == IF k = "lin0" THEN "lin" ELSE IF k = "quad0" THEN "quad" ELSE k       \* the same without constant term
KindOfProfile(p, ctrl, x) ==
  [e \in Et |-> IF e = x.ghost THEN GhostKind(ProfileKind(p, e))
                ELSE IF (IF e \in PQ THEN ctrl[e] ELSE (e # "dcline" \/ x.dcl # "none")) THEN ProfileKind(p, e) ELSE "none"]
\* "cost" slice: every assignment of kinds to at most MaxCosted elements that the code accepts (OpfDef!Valid states the
\* reasons); the sets are built from admissible parts only, so that no large intermediate set has to be filtered.
\* (TLC evaluates constant definitions eagerly: each slice's sets are empty in the other slice)
AllowedKinds(e) == (Kinds \ {"none"}) \ ((IF Inverted(e) THEN {"pwl2", "pwl3"} ELSE {}) \cup (IF e \in {"gen", "sgen", "load"} THEN {} ELSE QKinds))
Compatible(f, S) == LET ks == {f[e] : e \in S} IN ~(ks \cap PwlKinds # {} /\ (ks \cap QuadKinds # {} \/ ks \cap QKinds # {}))
KindVecs == IF Slice # "cost" THEN {} ELSE
            UNION {{[e \in Et |-> IF e \in S THEN f[e] ELSE "none"] : f \in {g \in [S -> Kinds \ {"none"}] : (\A e \in S : g[e] \in AllowedKinds(e)) /\ Compatible(g, S)}} :
                     S \in {T \in SUBSET Et : Cardinality(T) \in 1..MaxCosted}}
Base == [ac : AcSet, opts : OptSet, mesh : MeshSet, egc : EgcSet, vband : VbandSet, plim : PlimSet,
         qlim : QlimSet, rate : RateSet, var : VarSet]
Ext(b, x, ctrl, kind) == [ac |-> b.ac, opts |-> b.opts, mesh |-> b.mesh, dcl |-> x.dcl, egc |-> b.egc, vband |-> b.vband,
                          plim |-> b.plim, qlim |-> b.qlim, rate |-> b.rate, var |-> b.var, ctrl |-> ctrl, kind |-> kind,
                          shift |-> x.shift, sn |-> x.sn, ghost |-> x.ghost, gfirst |-> x.gfirst]
\* levels that cannot influence a DC OPF are fixed there (no voltage magnitudes, no reactive power); the DC problem is an
\* LP / QP that the default solver options already solve to 1e-7, so the tightened options are enumerated for AC only
Canon(S) == CHOOSE x \in S : TRUE
DcOpts == "default"
Canonical(c) == c.ac \/ (c.vband = Canon(VbandSet) /\ c.qlim = Canon(QlimSet) /\ c.egc = Canon(EgcSet) /\ c.opts = DcOpts)
FullBase == {b \in Base : Canonical(b)}
\* reduced base for the configurations that leave the plain template: one voltage band, one ext_grid flag; AC with the
\* tightened options (the sharp check)
RedOpts == IF "tight" \in OptSet THEN "tight" ELSE Canon(OptSet)
RedBase == {b \in FullBase : b.vband = Canon(VbandSet) /\ b.egc = Canon(EgcSet) /\ (b.ac => b.opts = RedOpts)}
BaseOf(x) == IF DevOf(x) = 0 THEN FullBase ELSE RedBase
FeasConfigs == IF Slice # "feas" THEN {} ELSE
               UNION {{Ext(b, x, CtrlOf(S), KindOfProfile(p, CtrlOf(S), x)) : b \in BaseOf(x), S \in CtrlSets, p \in Profiles} : x \in NewCombos}
\* cost slice: a dcline only when it carries a cost (lossless or lossy); AC cases with loose limits (the limit levels matter
\* for the optimum, which is decided for DC cases only); reactive costs in AC only; controllable = everything, or exactly
\* the costed elements (the others keep their set points; plain template only)
\* configurations that leave the plain template (red): radial, loose ratings, the tightened options only
RedMesh == IF FALSE \in MeshSet THEN {FALSE} ELSE MeshSet
RedRate == IF "loose" \in RateSet THEN {"loose"} ELSE RateSet
CostBase(k, red) ==
  LET hasq == \E e \in Et : k[e] \in QKinds
      meshes == IF red THEN RedMesh ELSE MeshSet
      acp == IF TRUE \in AcSet THEN [ac : {TRUE}, opts : IF red THEN {RedOpts} ELSE OptSet, mesh : meshes, egc : {Canon(EgcSet)}, vband : {Canon(VbandSet)},
                                     plim : {"loose"}, qlim : {Canon(QlimSet)}, rate : {"loose"}, var : VarSet] ELSE {}
      dcp == IF FALSE \in AcSet /\ ~hasq THEN [ac : {FALSE}, opts : {DcOpts}, mesh : meshes, egc : {Canon(EgcSet)}, vband : {Canon(VbandSet)},
                                               plim : PlimSet, qlim : {Canon(QlimSet)}, rate : IF red THEN RedRate ELSE RateSet, var : VarSet] ELSE {}
  IN  acp \cup dcp
CombosOf(k) == {x \in NewCombos : /\ (k["dcline"] = "none") = (x.dcl = "none")
                                  /\ (x.ghost # "none" => k[x.ghost] \in ZeroAtZeroKinds)}
CostConfigs == IF Slice # "cost" THEN {} ELSE
               UNION {UNION {UNION {{Ext(b, x, AllCtrl, k)} \cup (IF DevOf(x) = 0 THEN {Ext(b, x, [e \in Flex |-> k[e] # "none"], k)} ELSE {})
                                      : b \in CostBase(k, DevOf(x) > 0)} : x \in CombosOf(k)} : k \in KindVecs}
Configs == {c \in (IF Slice = "feas" THEN FeasConfigs ELSE CostConfigs) : Valid(c)}

Pending == [done |-> FALSE]
DevLevels(c) == <<IF c.dcl \in PlainDcl THEN "-" ELSE c.dcl, c.shift, c.sn, c.ghost>>
Required(c) ==
  LET app == GridApplicable(c)
      known == app /\ GridSize(c) <= GridModelMax
      fp == FeasiblePoints(c)                                   \* (evaluated once, and only where `known`)
      bind == IF known THEN GridBindOf(c, fp) ELSE {}
  IN  [done |-> TRUE, applicable |-> app, exact |-> GridExact(c), gridknown |-> known,
       gridopt |-> IF known THEN GridOptOf(fp) ELSE NoOpt,
       dev |-> DevClasses(c), lawdiff |-> DclPfLawDiffers(c),
       focus |-> Focus(c), bind |-> bind,
       stratum |-> <<IF c.ac THEN "ac" ELSE "dc", DevLevels(c), CostClass(c), bind>>]

\* (initial states are generated sequentially by TLC, successor states in parallel: the derivation is an action)
Init == cfg \in Configs /\ req = Pending
Run == ~req.done /\ req' = Required(cfg) /\ UNCHANGED cfg
Next == Run

-----------------------------------------------------------------------------
(* Model-level statements of the required design (checked by TLC on every configuration)                               *)
ASSUME \A br \in Branches, l \in {"loose", "tight", "trafo"} : Cap(br, l) * 100 = Sn(br) * MaxLoading(br, l)   \* integer capacities
\* (1) the objective the solver must be given: only odd-degree coefficients change sign for negative generators; with
\*     that transformation the solver-side polynomial at pg = -p IS the user's polynomial at p, for every grid power
ObjectiveConvention ==
  req.done => \A e \in Costed(cfg) : LET row == CostRowOf(cfg, e)
                             g == ReqGenCost(row, e)
                             s == IF Inverted(e) THEN -1 ELSE 1
                         IN  row.kind = "poly" => \A p \in PRange(cfg, e) : g[1] * (s * p) * (s * p) + g[2] * (s * p) + g[3] = UserRowP(row, p)
\* (2) generated piecewise linear costs are well formed: consecutive, increasing slopes (convex), covering [min_p, max_p]
PwlWellFormed ==
  req.done => \A e \in Costed(cfg) : LET row == CostRowOf(cfg, e) IN row.kind = "pwl" =>
      /\ \A k \in 1..(Len(row.pts) - 1) : row.pts[k][2] = row.pts[k + 1][1] /\ row.pts[k][3] < row.pts[k + 1][3]
      /\ \A k \in 1..Len(row.pts) : row.pts[k][1] < row.pts[k][2]
      /\ row.pts[1][1] <= PLimOf(cfg, e)[1] /\ row.pts[Len(row.pts)][2] >= PLimOf(cfg, e)[2]
\* (3) every cost stays inside the fixed-point range of the observations (|cost| < 1000 EUR)
CostInRange == req.done => CostAbsBound(cfg) < 1000
\* (4) the transcribed pwl objective of the code equals the user's pwl function wherever the model generates pwl rows
\*     (single area for negative generators -- also for a dcline operated in reverse, whose range [-max_p, 0] lies outside
\*     the solver-side range of its generator --, any number of areas otherwise): a deviation there would be a new finding
PwlTranscriptionAgrees ==
  req.done => \A e \in Costed(cfg) : LET row == CostRowOf(cfg, e) IN row.kind = "pwl" =>
      \A p \in PRange(cfg, e) : CodeRowP(row, e, TRUE, p) = UserRowP(row, p)
\* (5) sanity of the brute-force optimum: it is the cost of a feasible grid dispatch, and widening the p limits (every
\*     tight range lies inside the loose one) can only lower it
GridOptSane ==
  (req.done /\ req.gridknown /\ req.gridopt # NoOpt) =>
      /\ LET rows == RowsOf(cfg) IN \E d \in Dispatches(cfg) : Feasible(cfg, d) /\ GridCostR(rows, NDcl(cfg), d) = req.gridopt
      /\ req.bind # {}
      /\ LET loose == [cfg EXCEPT !.plim = "loose"]
         IN  (cfg.plim = "tight" /\ GridApplicable(loose) /\ GridSize(loose) <= GridModelMax) => GridOpt(loose) <= req.gridopt
\* (6) the transcription of make_objective.py deviates from the user's functions only in the classes that are recorded as
\*     findings; a deviation of another kind (e.g. after a change of the transcription) must not pass unnoticed
NoUnclassifiedDeviation == req.done => req.dev \subseteq {"inverted_poly_c2_c0", "poly_c0_dropped_next_to_pwl", "inverted_qpoly_c2_c0"}
\* (7) the grid stays within the enumeration budget where the oracle is declared applicable
GridSmall == req.done => /\ (req.applicable => GridSize(cfg) <= GridMax)
                         /\ (req.gridknown => GridSize(cfg) = Cardinality(Dispatches(cfg)))
\* (8) a ghost's cost row is zero where its element stands (p = q = 0), so the user's sum does not depend on the reading of
\*     "cost of an element that is out of service"; every other cost row belongs to an optimisation variable
GhostRowVanishes ==
  req.done => /\ (cfg.ghost # "none" => LET row == CostRowOf(cfg, cfg.ghost) IN row.kind # "none" /\ UserRowP(row, 0) = 0 /\ UserRowQ(row, 0) = 0)
              /\ \A e \in CostedVars(cfg) : IsVar(cfg, e)
\* (9) every dcline has a non-empty range on the side of its direction and its set point inside
DclWellFormed ==
  req.done => \A k \in 1..NDcl(cfg) : LET l == LineOf(cfg, k) IN
      /\ l.pmax > 0 /\ l.pset # 0 /\ (l.pset < 0) = l.rev /\ Abs(l.pset) <= l.pmax
      /\ DclPLim(cfg, k)[1] <= l.pset /\ l.pset <= DclPLim(cfg, k)[2]
      /\ l.from # l.to /\ l.from \in 1..3 /\ l.to \in 1..3
=============================================================================
