---------------------------------- MODULE Opf ----------------------------------
(* C16 / C17 -- model of one optimal power flow call on the template of OpfDef.tla.                                   *)
(*                                                                                                                    *)
(* A state is an abstract configuration cfg (which elements are OPF variables, which limit levels apply, AC or DC,     *)
(* solver options, cost kind per element, coefficient variant) together with what the specification REQUIRES of the    *)
(* result, computed from cfg alone:                                                                                    *)
(*   req.applicable / req.exact   whether the brute-force optimum over the integer dispatch grid is an oracle for this     *)
(*                   configuration (radial lossless DC) and whether it is two-sided (linear / convex pwl costs)          *)
(*   req.gridopt     that optimum (NoOpt: grid infeasible, or not derived in the model because the grid is larger than   *)
(*                   GridModelMax -- OpfObs.tla derives it for every executed case)                                       *)
(*   req.dev         classes in which the objective AS TRANSCRIBED FROM make_objective.py differs from the user's       *)
(*                   cost function (empty = the code's objective is the user's); used to predict, not to decide         *)
(*   req.lawdiff     the dcline loss law of the OPF constraint differs from the power-flow law                          *)
(* TLC enumerates the configurations (Slice "feas": controllable sets x limit levels x AC/DC x cost profiles for C16;  *)
(* Slice "cost": cost kinds x element types x coefficient variants x limit levels for C17); every dumped state is       *)
(* instantiated (record Inst(cfg), serialised by OpfInst.tla) and run through the real runopp / rundcopp; OpfObs.tla     *)
(* evaluates the property clauses on the observations.                                                                  *)
EXTENDS OpfDef
CONSTANTS Slice,            \* "feas" | "cost"
          AcSet, OptSet, MeshSet, DclSet, EgcSet, VbandSet, PlimSet, QlimSet, RateSet, VarSet,
          CtrlSets,         \* feas: the sets of controllable Flex elements to enumerate
          Profiles,         \* feas: cost profiles to enumerate
          MaxCosted,        \* cost: at most this many elements carry a cost row
          GridModelMax      \* the model derives the grid optimum itself for dispatch grids up to this size (OpfObs always does)
VARIABLES cfg, req

AllCtrl == [e \in Flex |-> TRUE]
CtrlOf(S) == [e \in Flex |-> e \in S]
\* "feas" slice: the cost kinds follow from a profile; only OPF variables get a row
ProfileKind(p, e) ==
  CASE p = "lin"  -> "lin"
    [] p = "lin0" -> "lin0"
    [] p = "quad" -> IF Inverted(e) THEN "lin" ELSE "quad0"
    [] p = "pwl"  -> IF Inverted(e) THEN "pwl1" ELSE IF e = "gen" THEN "pwl2" ELSE "pwl3"
KindOfProfile(p, ctrl, dcl) ==
  [e \in Et |-> IF (IF e \in PQ THEN ctrl[e] ELSE (e # "dcline" \/ dcl # 0)) THEN ProfileKind(p, e) ELSE "none"]
\* "cost" slice: every assignment of kinds to at most MaxCosted elements that the code accepts (OpfDef!Valid states the
\* reasons); the sets are built from admissible parts only, so that no large intermediate set has to be filtered.
\* (TLC evaluates constant definitions eagerly: each slice's sets are empty in the other slice)
AllowedKinds(e) == (Kinds \ {"none"}) \ ((IF Inverted(e) THEN {"pwl2", "pwl3"} ELSE {}) \cup (IF e \in {"gen", "sgen", "load"} THEN {} ELSE QKinds))
Compatible(f, S) == LET ks == {f[e] : e \in S} IN ~(ks \cap PwlKinds # {} /\ (ks \cap QuadKinds # {} \/ ks \cap QKinds # {}))
KindVecs == IF Slice # "cost" THEN {} ELSE
            UNION {{[e \in Et |-> IF e \in S THEN f[e] ELSE "none"] : f \in {g \in [S -> Kinds \ {"none"}] : (\A e \in S : g[e] \in AllowedKinds(e)) /\ Compatible(g, S)}} :
                     S \in {T \in SUBSET Et : Cardinality(T) \in 1..MaxCosted}}
Base == [ac : AcSet, opts : OptSet, mesh : MeshSet, dcl : DclSet, egc : EgcSet, vband : VbandSet, plim : PlimSet,
         qlim : QlimSet, rate : RateSet, var : VarSet]
Ext(b, ctrl, kind) == [ac |-> b.ac, opts |-> b.opts, mesh |-> b.mesh, dcl |-> b.dcl, egc |-> b.egc, vband |-> b.vband,
                       plim |-> b.plim, qlim |-> b.qlim, rate |-> b.rate, var |-> b.var, ctrl |-> ctrl, kind |-> kind]
\* levels that cannot influence a DC OPF are fixed there (no voltage magnitudes, no reactive power); the DC problem is an
\* LP / QP that the default solver options already solve to 1e-7, so the tightened options are enumerated for AC only
Canon(S) == CHOOSE x \in S : TRUE
DcOpts == "default"
Canonical(c) == c.ac \/ (c.vband = Canon(VbandSet) /\ c.qlim = Canon(QlimSet) /\ c.egc = Canon(EgcSet) /\ c.opts = DcOpts)
FeasBase == {b \in Base : Canonical(b)}
FeasConfigs == IF Slice # "feas" THEN {} ELSE {Ext(b, CtrlOf(S), KindOfProfile(p, CtrlOf(S), b.dcl)) : b \in FeasBase, S \in CtrlSets, p \in Profiles}
\* cost slice: a dcline only when it carries a cost (lossless or lossy); AC cases with loose limits (the limit levels matter
\* for the optimum, which is decided for DC cases only); reactive costs in AC only; controllable = everything, or exactly
\* the costed elements (the others keep their set points)
CostBase(k) ==
  LET dcls == IF k["dcline"] = "none" THEN {0} ELSE DclSet \ {0}
      hasq == \E e \in Et : k[e] \in QKinds
      acp == IF TRUE \in AcSet THEN [ac : {TRUE}, opts : OptSet, mesh : MeshSet, dcl : dcls, egc : {Canon(EgcSet)}, vband : {Canon(VbandSet)},
                                     plim : {"loose"}, qlim : {Canon(QlimSet)}, rate : {"loose"}, var : VarSet] ELSE {}
      dcp == IF FALSE \in AcSet /\ ~hasq THEN [ac : {FALSE}, opts : {DcOpts}, mesh : MeshSet, dcl : dcls, egc : {Canon(EgcSet)}, vband : {Canon(VbandSet)},
                                               plim : PlimSet, qlim : {Canon(QlimSet)}, rate : RateSet, var : VarSet] ELSE {}
  IN  acp \cup dcp
CostConfigs == IF Slice # "cost" THEN {} ELSE
               UNION {UNION {{Ext(b, AllCtrl, k), Ext(b, [e \in Flex |-> k[e] # "none"], k)} : b \in CostBase(k)} : k \in KindVecs}
Configs == {c \in (IF Slice = "feas" THEN FeasConfigs ELSE CostConfigs) : Valid(c)}

Pending == [done |-> FALSE]
Required(c) ==
  LET known == GridApplicable(c) /\ Cardinality(Dispatches(c)) <= GridModelMax
  IN  [done |-> TRUE, applicable |-> GridApplicable(c), exact |-> GridExact(c), gridknown |-> known,
       gridopt |-> IF known THEN GridOpt(c) ELSE NoOpt,
       dev |-> DevClasses(c), lawdiff |-> DclPfLawDiffers(c)]

\* (initial states are generated sequentially by TLC, successor states in parallel: the derivation is an action)
Init == cfg \in Configs /\ req = Pending
Run == ~req.done /\ req' = Required(cfg) /\ UNCHANGED cfg
Next == Run

-----------------------------------------------------------------------------
(* Model-level statements of the required design (checked by TLC on every configuration)                               *)
ASSUME \A br \in Branches, l \in {"loose", "tight"} : Cap(br, l) * 100 = Sn(br) * MaxLoading(br, l)   \* integer capacities
\* (1) the objective the solver must be given: only odd-degree coefficients change sign for negative generators; with
\*     that transformation the solver-side polynomial at pg = -p IS the user's polynomial at p, for every grid power
ObjectiveConvention ==
  req.done => \A e \in Costed(cfg) : LET row == CostRowOf(cfg, e)
                             g == ReqGenCost(row, e)
                             s == IF Inverted(e) THEN -1 ELSE 1
                         IN  row.kind = "poly" => \A p \in PRange(cfg, e) : g[1] * (s * p) * (s * p) + g[2] * (s * p) + g[3] = UserRowP(row, p)
\* (2) generated piecewise linear costs are well formed: consecutive, increasing slopes (convex), covering [min_p, max_p]
PwlWellFormed ==
  req.done => \A e \in Costed(cfg) : LET row == CostRowOf(cfg, e) IN row.kind = "pwl" =>
      /\ \A k \in 1..(Len(row.pts) - 1) : row.pts[k][2] = row.pts[k + 1][1] /\ row.pts[k][3] < row.pts[k + 1][3]
      /\ \A k \in 1..Len(row.pts) : row.pts[k][1] < row.pts[k][2]
      /\ row.pts[1][1] <= PLim(e, cfg.plim)[1] /\ row.pts[Len(row.pts)][2] >= PLim(e, cfg.plim)[2]
\* (3) every cost stays inside the fixed-point range of the observations (|cost| < 1000 EUR)
CostInRange == req.done => CostAbsBound(cfg) < 1000
\* (4) the transcribed pwl objective of the code equals the user's pwl function wherever the model generates pwl rows
\*     (single area for negative generators, any number of areas otherwise): a deviation there would be a new finding
PwlTranscriptionAgrees ==
  req.done => \A e \in Costed(cfg) : LET row == CostRowOf(cfg, e) IN row.kind = "pwl" =>
      \A p \in PRange(cfg, e) : CodeRowP(row, e, TRUE, p) = UserRowP(row, p)
\* (5) sanity of the brute-force optimum: it is the cost of a feasible grid dispatch, and widening the p limits (every
\*     tight range lies inside the loose one) can only lower it
GridOptSane ==
  (req.done /\ req.gridknown /\ req.gridopt # NoOpt) =>
      /\ LET rows == RowsOf(cfg) IN \E d \in Dispatches(cfg) : Feasible(cfg, d) /\ GridCostR(rows, d) = req.gridopt
      /\ LET loose == [cfg EXCEPT !.plim = "loose"]
         IN  (cfg.plim = "tight" /\ Cardinality(Dispatches(loose)) <= GridModelMax) => GridOpt(loose) <= req.gridopt
\* (6) the transcription of make_objective.py deviates from the user's functions only in the classes that are recorded as
\*     findings; a deviation of another kind (e.g. after a change of the transcription) must not pass unnoticed
NoUnclassifiedDeviation == req.done => req.dev \subseteq {"inverted_poly_c2_c0", "poly_c0_dropped_next_to_pwl", "inverted_qpoly_c2_c0"}
\* (7) the grid stays within the enumeration budget
GridSmall == req.done => Cardinality(Dispatches(cfg)) <= 6 * 6 * 6 * 6 * 3
=============================================================================
