INIT Init
NEXT Next
CONSTANTS
  Slice = "cost"
  AcSet = {TRUE, FALSE}
  OptSet = {"tight"}
  MeshSet = {FALSE}
  DclSet = {0, 1, 2}
  EgcSet = {TRUE}
  VbandSet = {"wide"}
  PlimSet = {"loose", "tight"}
  QlimSet = {"loose"}
  RateSet = {"loose"}
  VarSet = {1}
  CtrlSets = {}
  Profiles = {}
  MaxCosted = 2
  GridModelMax = 150
INVARIANT ObjectiveConvention
INVARIANT PwlWellFormed
INVARIANT CostInRange
INVARIANT PwlTranscriptionAgrees
INVARIANT GridOptSane
INVARIANT NoUnclassifiedDeviation
INVARIANT GridSmall
