INIT Init
NEXT Next
CONSTANTS
  Slice = "cost"
  AcSet = {TRUE, FALSE}
  OptSet = {"default", "tight"}
  MeshSet = {FALSE}
  DclSet = {0, 1, 2}
  EgcSet = {TRUE}
  VbandSet = {"wide"}
  PlimSet = {"loose", "tight"}
  QlimSet = {"loose"}
  RateSet = {"loose", "tight"}
  VarSet = {1, 2}
  CtrlSets = {}
  Profiles = {}
  MaxCosted = 2
INVARIANT ObjectiveConvention
INVARIANT PwlWellFormed
INVARIANT CostInRange
INVARIANT PwlTranscriptionAgrees
INVARIANT GridOptSane
INVARIANT GridSmall
