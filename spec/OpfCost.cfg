INIT Init
NEXT Next
CONSTANTS
  Slice = "cost"
  AcSet = {TRUE, FALSE}
  OptSet = {"tight"}
  MeshSet = {FALSE}
  DclSet = {"none", "f", "F", "r", "fr"}
  EgcSet = {TRUE}
  VbandSet = {"wide"}
  PlimSet = {"loose", "tight"}
  QlimSet = {"loose"}
  RateSet = {"loose"}
  VarSet = {1}
  ShiftSet = {0}
  SnSet = {1, 10}
  GhostSet = {"none", "sgen", "load", "storage"}
  MaxDev = 1
  CtrlSets = {}
  Profiles = {}
  MaxCosted = 2
  GridModelMax = 150
INVARIANT ObjectiveConvention
INVARIANT PwlWellFormed
INVARIANT CostInRange
INVARIANT PwlTranscriptionAgrees
INVARIANT GridOptSane
INVARIANT NoUnclassifiedDeviation
INVARIANT GridSmall
INVARIANT GhostRowVanishes
INVARIANT DclWellFormed
