SPECIFICATION Spec
INVARIANT C08_Restored
INVARIANT AuxBounded
INVARIANT CrashHonoured
PROPERTY Terminates
INVARIANT UnsupportedRaises
