INIT OInit
NEXT ONext
INVARIANT Harness_Instantiated
INVARIANT Conf_DclineLaw
INVARIANT C16_VoltageLimits
INVARIANT C16_ActiveLimits
INVARIANT C16_ReactiveLimits
INVARIANT C16_FixedSetpoints
INVARIANT C16_BranchLoading
INVARIANT C16_DclineLimits
INVARIANT C16_ValidPowerFlow
