INIT OInit
NEXT ONext
INVARIANT Tag_NothingLost
INVARIANT Tag_NoOneRowTable
