INIT OInit
NEXT ONext
INVARIANT Tag_NothingLost
