INIT OInit
NEXT ONext
INVARIANT C04_ExtGridSetpoint
INVARIANT C04_GenVoltageOrLimit
INVARIANT C04_QWithinLimits
INVARIANT C04_PSetpoints
INVARIANT C04_ZipLaw
INVARIANT C04_ShuntLaw
