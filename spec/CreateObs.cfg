INIT OInit
NEXT ONext
INVARIANT C24_SameRows
INVARIANT C24_BatchRejectsIffSingleRejects
INVARIANT C24_RejectsAsRequired
INVARIANT C24_NoPartialCreation
