INIT Init
NEXT Next
CONSTANT MaxLen = 2
INVARIANT C22_RefIntegrity
INVARIANT C22_ResSubset
INVARIANT GroupsNonEmpty
