--------------------------- MODULE CalcPipelineTrace ---------------------------
(* C08, implementation level (trace validation).  Each case is one executed test: the test triple, the hook    *)
(* events recorded by pandapower/_verif.py, the outcome, and the mechanical before/after projection of all      *)
(* element tables (row-count deltas, tables whose digest changed).  The spec machine of CalcPipeline.tla is     *)
(* run on the same test; when it terminates                                                                     *)
(*   - C08_* : the property's own predicate on the OBSERVED final state (violation),                            *)
(*   - Conf_*: recorded events / outcome must be the spec's behaviour (conformance; divergence, not violation). *)
EXTENDS CalcPipeline, Json, IOUtils
VARIABLE i
Cases == JsonDeserialize(IOEnv.OBS_FILE)
SetOf(s) == {s[k] : k \in 1..Len(s)}
TestOf(c) == [kind |-> c.test.kind, feats |-> SetOf(c.test.feats),
              crash |-> [stage |-> c.test.crash.stage, when |-> c.test.crash.when, hit |-> c.test.crash.hit, exc |-> c.test.crash.exc]]
TInit == /\ i \in 1..Len(Cases)
         /\ test = TestOf(Cases[i])
         /\ stack = <<[kind |-> test.kind, pc |-> 1, added |-> 0]>>
         /\ aux = 0 /\ tmp = {} /\ hits = 0 /\ events = <<>> /\ outcome = "running"
TNext == Next /\ UNCHANGED i
C == Cases[i]
Done == outcome # "running"
C08_NoRowsAddedOrRemoved == Done => Len(C.row_delta) = 0
C08_InputValuesUnchanged == Done => Len(C.changed) = 0
Conf_Events  == Done => events = C.events
Conf_Outcome == Done => outcome = C.outcome
=============================================================================
