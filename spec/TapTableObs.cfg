INIT OInit
NEXT ONext
INVARIANT C31_BothSolve
INVARIANT C31_BusVoltages
INVARIANT C31_TrafoFlows
INVARIANT C31_InputsUntouched
INVARIANT C31_3W_BusVoltages
INVARIANT C31_3W_Flows
INVARIANT C31_3W_CaseFromSpec
INVARIANT C31_3W_RowsDistinct
