INIT OInit
NEXT ONext
INVARIANT C31_BothSolve
INVARIANT C31_BusVoltages
INVARIANT C31_TrafoFlows
INVARIANT C31_InputsUntouched
