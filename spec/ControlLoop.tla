------------------------------- MODULE ControlLoop -------------------------------
(* C13, model level: the loop of ControlLoopDef driven by an ABSTRACT PLANT.  Two controllers; the voltage at the    *)
(* controlled bus of controller c is  base[c] + sum_d gain[c][d] * tap[d]  (micro-pu, taps in milli-taps), so TLC     *)
(* explores hunting in a narrow band, running into a tap limit, anti-physical feedback, coupling between the         *)
(* controllers, levels/orders, an out-of-service controller, ConstControl, and max_iter exhaustion.                  *)
(* The harness instantiates every initial state on the real run_control with the real controller classes and a       *)
(* stub run= function that implements exactly this plant (S->I), and ControlLoopObs validates the recorded traces.   *)
EXTENDS ControlLoopDef
CONSTANTS Bases, MaxIters, Tap0s, FailRuns
VARIABLES cfg, s
vars == <<cfg, s>>

G == 15000                                  \* micro-pu per tap: tap_step_percent = 1.5
Band(w) == IF w = "wide" THEN [lo |-> 990000, hi |-> 1010000] ELSE [lo |-> 998000, hi |-> 1002000]
Tap(kind, level, order, ins, coeff, w) ==
  [kind |-> kind, level |-> level, order |-> order, ins |-> ins, initrun |-> TRUE, coeff |-> coeff, lo |-> Band(w).lo, hi |-> Band(w).hi,
   set |-> 1000000, tol |-> IF w = "wide" THEN 5000 ELSE 1000, tmin |-> -2000, tmax |-> 2000, oos |-> FALSE, bounds |-> TRUE, gstep |-> G]
Const(level, order, ins) ==
  [kind |-> "const", level |-> level, order |-> order, ins |-> ins, initrun |-> FALSE, coeff |-> 1, lo |-> 0, hi |-> 0, set |-> 0, tol |-> 0,
   tmin |-> 0, tmax |-> 0, oos |-> FALSE, bounds |-> FALSE, gstep |-> 1]
C1s == {Tap(k, l, o, TRUE, cf, w) : k \in {"disc", "cont"}, l \in {0, 1}, o \in {0, 1}, cf \in {1, -1}, w \in {"wide", "narrow"}}
C2s == {Tap(k, l, o, i, 1, "wide") : k \in {"disc", "cont"}, l \in {0, 1}, o \in {0, 1}, i \in BOOLEAN}
       \cup {Const(l, o, i) : l \in {-1, 0}, o \in {-1, 0}, i \in BOOLEAN}
\* gain[c][d]: own gain physical (-coeff*G: stepping the way the controller steps moves the voltage into the band) or
\* anti-physical (+coeff*G); coupling: controller 2's bus also sees controller 1's tap
Cfgs == {[ctrl |-> <<c1, c2>>, tap0 |-> <<t0, 0>>, applied0 |-> <<FALSE, FALSE>>, max_iter |-> mi, amb |-> 0,
          base |-> <<b, 1045000>>,
          gain |-> << <<IF ph THEN -c1.coeff * G ELSE c1.coeff * G, 0>>, <<IF cp THEN -G ELSE 0, -c2.coeff * G>> >>,
          failrun |-> fr] :
         c1 \in C1s, c2 \in C2s, t0 \in Tap0s, mi \in MaxIters, b \in Bases, ph \in BOOLEAN, cp \in BOOLEAN, fr \in FailRuns}

Plant(c, tap, k) == c.base[k] + (c.gain[k][1] * tap[1]) \div 1000 + (c.gain[k][2] * tap[2]) \div 1000
Ev(ev, c, r, vm, t0, t1, exc) == [ev |-> ev, c |-> c, r |-> r, vm |-> vm, t0 |-> t0, t1 |-> t1, exc |-> exc]

\* the events the implementation would produce next on this plant
ModelEvents(c, st) ==
  IF st.ph = "init" THEN {Ev("init", k, TRUE, 0, 0, 0, "") : k \in AllCands(c, st.vis, 1)}
  ELSE IF st.ph \in {"initrun", "run"} THEN
         {IF c.failrun = st.runs + 1 THEN Ev("raise", 0, TRUE, 0, 0, 0, "LoadflowNotConverged") ELSE Ev("run", 0, TRUE, 0, 0, 0, "")}
  ELSE IF st.ph = "reset" THEN {Ev("reset", k, TRUE, 0, 0, 0, "") : k \in MinOrder(c, InLevel(c, st.li) \ st.vis)}
  ELSE IF st.ph = "sweep" /\ st.pend # 0 THEN
         LET k == Ctl(c, st.pend)  vm == Plant(c, st.tap, st.pend)  t == st.tap[st.pend]
         IN {Ev("step", st.pend, TRUE, vm, IF IsTap(k) THEN t ELSE 0,
                IF k.kind = "disc" THEN t + 1000 * DiscInc(k, vm, t) ELSE IF k.kind = "cont" THEN ContTarget(k, vm, t) ELSE 0, "")}
  ELSE IF st.ph = "sweep" THEN
         {LET k == Ctl(c, x)  vm == Plant(c, st.tap, x)
          IN Ev("conv", x, IF IsTap(k) THEN Converged(c, x, vm, st.tap[x]) ELSE st.applied[x], IF IsTap(k) THEN vm ELSE 0,
                IF IsTap(k) THEN st.tap[x] ELSE 0, 0, "") : x \in MinOrder(c, InLevel(c, st.li) \ st.vis)}
  ELSE IF st.ph = "mustraise" THEN {Ev("raise", 0, TRUE, 0, 0, 0, "ControllerNotConverged")}
  ELSE IF st.ph = "final" THEN {Ev("final", k, TRUE, 0, 0, 0, "") : k \in AllCands(c, st.vis, 1)}
  ELSE IF st.ph = "ret" THEN {Ev("return", 0, TRUE, 0, 0, 0, "")}
  ELSE {}

Init == cfg \in Cfgs /\ s = Norm(cfg, S0(cfg))
Next == \E e \in ModelEvents(cfg, s) : s' = Step(cfg, s, e) /\ UNCHANGED cfg
Spec == Init /\ [][Next]_vars /\ WF_vars(Next)
Stop == FALSE /\ UNCHANGED vars          \* NEXT of the *Init.cfg files: enumerate the configurations only

\* ---- what the design guarantees, for every configuration and every behaviour -------------------------------------------
ModelAccepted == s.err = "" /\ s.div = ""                                     \* the machine accepts its own events (sanity of Step)
TapInRange == \A k \in 1..2 : IsTap(Ctl(cfg, k)) => Ctl(cfg, k).tmin <= s.tap[k] /\ s.tap[k] <= Ctl(cfg, k).tmax
ReturnFresh == s.out = "return" => ~s.dirty
RunsBounded == s.rc <= cfg.max_iter + 1
ConvAtEnd(k) == ~IsTap(Ctl(cfg, k)) \/ Converged(cfg, k, Plant(cfg, s.tap, k), s.tap[k])
\* Levels are run one after the other and an earlier level is NOT revisited (run_control.py:197): the guarantee
\* "returned => every in-service controller converged" holds for controllers of the LAST level and for controllers whose
\* bus does not see a tap moved in a later level.
Decoupled(k) == \A d \in Ids(cfg) : (d # k /\ Ctl(cfg, d).level > Ctl(cfg, k).level) => cfg.gain[k][d] = 0
ReturnConverged == s.out = "return" => \A k \in Ids(cfg) : Decoupled(k) => ConvAtEnd(k)
\* the unrestricted statement of the property; TLC refutes it on the model (ControlLoopDev.cfg) - see DESIGN, known finding
ReturnConvergedAll == s.out = "return" => \A k \in Ids(cfg) : ConvAtEnd(k)
Terminates == <>(s.ph = "end")
=============================================================================
