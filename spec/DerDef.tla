-------------------------------- MODULE DerDef --------------------------------
(* C33 — decision functions of one DERController control step, transcribed from                                  *)
(*   pandapower/control/controller/DERController/der_control.py   (DC)                                            *)
(*   pandapower/control/controller/DERController/PQVAreas.py      (AR)                                            *)
(*   pandapower/control/controller/DERController/QModels.py       (QM),  DERBasics.py (DB)                         *)
(* Shared by the model (Der.tla) and the observation module (DerObs.tla).                                         *)
(*                                                                                                               *)
(* UNITS.  p, q, s : "bp" = 10^-4 of the element's sn_mva (the code's *_pu quantities * 10^4).                     *)
(*         v       : 1/110000 p.u. ("V110": v_pu * 110000), so that the VDE-AR-N 4120 corner voltages 96/110,       *)
(*                   103/110, 120/110, 127/110 and the polygon corners 0.9, 0.95, 1.05, 1.1 are integers.           *)
(* The area constants are rounded to 1 bp (0.328684 -> 3287 ...); every interpolation uses \div.  The model is     *)
(* therefore accurate to a few bp; it decides STRUCTURE (which branch, which region, raise or not) and predicts    *)
(* values to +-6 bp.  The property's numeric clauses are evaluated in DerObs on the logged numbers, with the        *)
(* bounds of the area taken from the real object's q_flexibility, as the property says.                            *)
EXTENDS Integers, Sequences, FiniteSets

Abs(a) == IF a < 0 THEN 0 - a ELSE a
Sgn(a) == IF a > 0 THEN 1 ELSE IF a < 0 THEN 0 - 1 ELSE 0
Min2(a, b) == IF a <= b THEN a ELSE b
Max2(a, b) == IF a >= b THEN a ELSE b
Clip(x, lo, hi) == Min2(Max2(x, lo), hi)              \* np.clip / np.minimum(np.maximum(..))
SetMin(S) == CHOOSE x \in S : \A y \in S : x <= y
SetMax(S) == CHOOSE x \in S : \A y \in S : x >= y
RECURSIVE Bis(_, _, _)
Bis(lo, hi, n) == IF lo >= hi THEN lo ELSE LET m == (lo + hi + 1) \div 2 IN IF m * m <= n THEN Bis(m, hi, n) ELSE Bis(lo, m - 1, n)
ISqrt(n) == IF n <= 0 THEN 0 ELSE Bis(0, 20000, n)    \* floor(sqrt(n)), n < 4 * 10^8
\* truncation toward zero (keeps |.| from growing: a rounded convex combination stays inside a symmetric convex set)
DivT(a, d) == Sgn(a) * (Abs(a) \div d)

\* numpy.interp(x, xs, ys): piecewise linear, constant beyond the ends
RECURSIVE Seg(_, _, _)
Seg(xs, x, k) == IF k >= Len(xs) - 1 \/ x <= xs[k + 1] THEN k ELSE Seg(xs, x, k + 1)
Interp(xs, ys, x) ==
  IF x <= xs[1] THEN ys[1] ELSE IF x >= xs[Len(xs)] THEN ys[Len(ys)]
  ELSE LET k == Seg(xs, x, 1) IN ys[k] + ((ys[k + 1] - ys[k]) * (x - xs[k])) \div (xs[k + 1] - xs[k])

(* ---- areas ---------------------------------------------------------------------------------------------------- *)
Areas == {"none", "poly", "a4105v1", "a4105v2", "a4110", "a4120v1", "a4120v2", "a4120v3", "a4120v2y15", "statcom"}
PolyAreas == {"poly", "a4105v1", "a4105v2", "a4110"}
A4120 == {"a4120v1", "a4120v2", "a4120v3", "a4120v2y15"}
HasQV(a) == a \in PolyAreas \cup A4120
\* VDE-AR-N variant constants (AR:296-319, :462-486): min_q, max_q in bp
MinQ(a) == CASE a = "a4120v1" -> 0 - 2279 [] a \in {"a4120v2", "a4120v2y15"} -> 0 - 3287 [] a = "a4120v3" -> 0 - 4108
             [] a = "statcom" -> 0 - 3000 [] OTHER -> 0
MaxQ(a) == CASE a = "a4120v1" -> 4843 [] a \in {"a4120v2", "a4120v2y15"} -> 4108 [] a = "a4120v3" -> 3287
             [] a = "statcom" -> 4000 [] OTHER -> 0
\* polygon vertex lists <<x, q>> (AR:420-424 PQArea4110, :447-472 PQArea4105, :427-435 QVArea4110, :475-489 QVArea4105,
\* "poly" = the docstring example of PQVAreaPOLYGON AR:166-169); the +-1e-7 of PQArea4110 is 0 here
Q05(a) == IF a = "a4105v1" THEN 3287 ELSE 4843
PQPoly(a) ==
  CASE a = "poly" -> <<<<1000, 1000>>, <<2000, 4108>>, <<10000, 4108>>, <<10000, 0 - 3287>>, <<2000, 0 - 3287>>, <<1000, 0 - 1000>>, <<1000, 1000>>>>
    [] a = "a4110" -> <<<<0, 0>>, <<500, 0>>, <<500, 0 - 196>>, <<10000, 0 - 4843>>, <<10000, 4843>>, <<500, 196>>, <<500, 0>>, <<0, 0>>>>
    [] OTHER -> <<<<0, 0>>, <<10000, 0 - Q05(a)>>, <<10000, Q05(a)>>, <<0, 0>>>>
QVPoly(a) ==
  CASE a = "poly" -> <<<<99000, 1000>>, <<115500, 4108>>, <<121000, 4108>>, <<121000, 0 - 3287>>, <<115500, 0 - 3287>>, <<99000, 0 - 1000>>, <<99000, 1000>>>>
    [] OTHER -> LET m == IF a = "a4110" THEN 4843 ELSE Q05(a) IN
                <<<<99000, 0>>, <<104500, 0 - m>>, <<121000, 0 - m>>, <<121000, 0>>, <<115500, m>>, <<99000, m>>, <<99000, 0>>>>
\* PQAreaPOLYGON.q_flexibility AR:107-121 / QVAreaPOLYGON.q_flexibility AR:148-157: the vertical line through x is
\* intersected with the polygon; no intersection -> [0, 0].  For polygons whose vertical sections are intervals this is
\* the range of the edge crossings.
EdgeYs(e1, e2, x) ==
  IF x < Min2(e1[1], e2[1]) \/ x > Max2(e1[1], e2[1]) THEN {}
  ELSE IF e1[1] = e2[1] THEN {e1[2], e2[2]}
  ELSE {e1[2] + ((e2[2] - e1[2]) * (x - e1[1])) \div (e2[1] - e1[1])}
PolyRange(pts, x) ==
  LET ys == UNION {EdgeYs(pts[k], pts[k + 1], x) : k \in 1..(Len(pts) - 1)} IN
  IF ys = {} THEN <<0, 0>> ELSE <<SetMin(ys), SetMax(ys)>>
\* AR:111-112 / AR:153-154 take `.coords` of the intersection.  When the vertical line runs along a polygon edge that is
\* not the leftmost / rightmost one, shapely returns a multi-part geometry and `.coords` raises NotImplementedError
\* (observed: PQArea4110 at p = 0.05 exactly).  Named deviation: the step then does not complete.
VertInterior(pts, x) == /\ \E k \in 1..(Len(pts) - 1) : pts[k][1] = x /\ pts[k + 1][1] = x /\ pts[k] # pts[k + 1]
                        /\ \E k \in 1..Len(pts) : pts[k][1] < x
                        /\ \E k \in 1..Len(pts) : pts[k][1] > x
PolyRaises(a, p, v) == a \in PolyAreas /\ (VertInterior(PQPoly(a), p) \/ VertInterior(QVPoly(a), v))
\* PQArea4120.q_flexibility AR:236-246 (version 2018: p points 0.05, 0.2; 2015: 0.1, 0.2; AR:210)
P0(a) == IF a = "a4120v2y15" THEN 1000 ELSE 500
P1(a) == 2000
PQ4120(a, p) ==
  IF p < P0(a) THEN <<0 - 500, 0>>                                              \* AR:243-244 (q_max_under_p_point = 0)
  ELSE IF p < P1(a) THEN <<(0 - 1000) + ((p - P0(a)) * (MinQ(a) + 1000)) \div (P1(a) - P0(a)),       \* AR:239-241
                           1000 + ((p - P0(a)) * (MaxQ(a) - 1000)) \div (P1(a) - P0(a))>>
  ELSE <<MinQ(a), MaxQ(a)>>                                                      \* AR:237
\* QVArea4120.q_flexibility AR:263-284, conditions transcribed literally (vm == min_vm_pu falls through to the default)
VMin == 96000
VMax == 127000
VDelta == 7000
QV4120(a, v) ==
  IF v < VMin THEN <<MaxQ(a), MaxQ(a)>>                                                                  \* AR:269-271
  ELSE IF VMin < v /\ v <= VMin + VDelta THEN <<MaxQ(a) - ((MaxQ(a) - MinQ(a)) * (v - VMin)) \div VDelta, MaxQ(a)>>   \* AR:273-275
  ELSE IF VMin + VDelta < v /\ v <= VMax - VDelta THEN <<MinQ(a), MaxQ(a)>>                                \* AR:277-278
  ELSE IF VMax - VDelta < v /\ v <= VMax THEN <<MinQ(a), MinQ(a) + ((MaxQ(a) - MinQ(a)) * (VMax - v)) \div VDelta>>   \* AR:280-282
  ELSE <<MinQ(a), MinQ(a)>>                                                                              \* AR:267 default
PQFlex(a, p) == IF a \in PolyAreas THEN PolyRange(PQPoly(a), p) ELSE IF a \in A4120 THEN PQ4120(a, p) ELSE <<MinQ(a), MaxQ(a)>>
QVFlex(a, v) == IF a \in PolyAreas THEN PolyRange(QVPoly(a), v) ELSE QV4120(a, v)
\* BasePQVArea.q_flexibility AR:49-79: intersection of both ranges; empty -> ValueError (raise_merge_overlap) or midpoint
Merged(a, p, v) == IF HasQV(a) THEN LET f == PQFlex(a, p) g == QVFlex(a, v) IN <<Max2(f[1], g[1]), Min2(f[2], g[2])>> ELSE PQFlex(a, p)
FlexRaises(a, rmo, p, v) == a # "none" /\ rmo /\ (LET m == Merged(a, p, v) IN m[1] > m[2])              \* AR:68-73
Flex(a, p, v) == LET m == Merged(a, p, v) IN
                 IF m[1] > m[2] THEN <<DivT(m[1] + m[2], 2), DivT(m[1] + m[2], 2)>> ELSE m                  \* AR:76-77

(* ---- q models --------------------------------------------------------------------------------------------------- *)
QModels == {"series", "const", "cosphip", "qv"}
SinPhi == 4359                      \* sqrt(1 - 0.9^2) * 10^4: QModelCosphiP(cosphi = +-0.9), QM:78-81
QVX == <<102300, 106700, 113300, 117700>>   \* QVCurve(vm_points_pu = (0.93, 0.97, 1.03, 1.07), q_points_pu = (0.4, 0, 0, -0.4)), DB:50-55
QVY == <<4000, 0, 0, 0 - 4000>>
\* _step_q DC:188-196: q model, otherwise the element's own q ("Q series")
StepQ(qm, qarg, q, p, v) ==
  CASE qm = "series" -> q                                          \* DC:162, :193-196
    [] qm = "const" -> qarg                                        \* QM:40-47
    [] qm = "cosphip" -> Sgn(qarg) * ((p * SinPhi) \div 10000)     \* QM:78-88: p_pu * sign(cosphi) * sqrt(1 - cosphi^2)
    [] OTHER -> Interp(QVX, QVY, v)                                \* QM:162-164 -> DB:54-55 np.interp

(* ---- one pass of _determine_target_powers (DC:159-183) for one element --------------------------------------------- *)
(* el = [p, q] current setpoints (bp), qarg the element's q-model argument; c = [area, rmo, qm, s, qprio, d, v]           *)
PSeries(p) == IF p < 0 THEN 0 ELSE p                 \* DC:161, :166-168 (in place: self.p_mw itself is set to 0)
Requested(c, el, qarg) == StepQ(c.qm, qarg, el.q, PSeries(el.p), c.v)
Raises(c, el) == FlexRaises(c.area, c.rmo, PSeries(el.p), c.v) \/ PolyRaises(c.area, PSeries(el.p), c.v)
\* _saturate DC:198-212, area part: q outside the area is moved to the nearest bound (clipping an inside value is the
\* identity, so the in_area test of DC:203-204 does not change the result — ClipIdempotent in Der.tla)
Clipped(c, el, qarg) ==
  LET r == Requested(c, el, qarg) IN
  IF c.area = "none" THEN r ELSE LET f == Flex(c.area, PSeries(el.p), c.v) IN Clip(r, f[1], f[2])
Region(c, el, qarg) ==
  IF c.area = "none" THEN "noarea"
  ELSE LET f == Flex(c.area, PSeries(el.p), c.v) r == Requested(c, el, qarg) IN
       IF r < f[1] THEN "below" ELSE IF r > f[2] THEN "above" ELSE "inside"
\* _saturate_sn_mva_step DC:214-236
ToSaturate(c, p, q) == c.s > 0 /\ p * p + q * q > c.s * c.s                    \* DC:216-217 (NaN saturate_sn_mva: never)
SatQ(c, p, q) == IF ~ToSaturate(c, p, q) THEN q
                 ELSE IF c.qprio THEN Clip(q, 0 - c.s, c.s)                                           \* DC:229-230
                 ELSE LET p2 == Clip(p, 0, c.s) IN Sgn(q) * ISqrt(c.s * c.s - p2 * p2)                 \* DC:233-235
SatP(c, p, q) == IF ~ToSaturate(c, p, q) THEN p
                 ELSE IF c.qprio THEN LET q2 == Clip(q, 0 - c.s, c.s) IN ISqrt(c.s * c.s - q2 * q2)    \* DC:231
                 ELSE Clip(p, 0, c.s)                                                                 \* DC:233
Target(c, el, qarg) == LET pp == PSeries(el.p) q1 == Clipped(c, el, qarg) IN [p |-> SatP(c, pp, q1), q |-> SatQ(c, pp, q1)]
\* damping DC:182-183, then control_step DC:150-157 writes the damped value
Damped(c, el, qarg) ==
  LET t == Target(c, el, qarg) pp == PSeries(el.p) IN
  [p |-> pp + DivT(t.p - pp, c.d), q |-> el.q + DivT(t.q - el.q, c.d)]
\* is_converged DC:143-148 (at the model's resolution: the damped target equals the current setpoint).  DC:161 binds
\* p_series_mw to the very Series self.p_mw and DC:168 clamps it IN PLACE, so the comparison of DC:148 sees the clamped
\* value: a negative p_mw alone never makes the controller act, and then stays in net.sgen (named deviation; harmless for
\* the property: every area and the circle treat p < 0 like p = 0 or more leniently).
Settled(c, el, qarg) == LET dm == Damped(c, el, qarg) IN dm.p = PSeries(el.p) /\ dm.q = el.q

(* ---- what the property requires of a setpoint ------------------------------------------------------------------------ *)
\* cs / as: slack of the circle (added to s^2) and of the q interval (bp); 0 = exact
InCircle(c, e, cs) == e.p * e.p + e.q * e.q <= c.s * c.s + cs
InArea(c, e, as) == LET f == Flex(c.area, PSeries(e.p), c.v) IN f[1] - as <= e.q /\ e.q <= f[2] + as
\* clause applicable to this configuration
SatActive(c) == c.s > 0
AreaOnly(c) == c.area # "none" /\ c.s = 0
Feasible(c, e, cs, as) == (SatActive(c) => InCircle(c, e, cs)) /\ (AreaOnly(c) => InArea(c, e, as))
\* rounding allowance of one truncated division per coordinate: (|p| + 1)^2 + (|q| + 1)^2 - p^2 - q^2
RoundSlack(e) == 2 * (Abs(e.p) + Abs(e.q)) + 2

(* ---- configurations ------------------------------------------------------------------------------------------------- *)
(* c = [area, rmo, pi, vi, qr = <<q model, argument, q0>>, sat = <<s, q_prio>>, d, geo]  (see Der.tla)                     *)
(* level tables: index 1 negative p | 2 zero | 3 low | 4 first corner | 5 between | 6 second corner | 7 mid | 8 rated | 9 above rated *)
PBase == <<0 - 2000, 0, 300, 1000, 1500, 2000, 6000, 10000, 12000>>
PLevel(a, i) ==
  IF a = "a4110" /\ i = 4 THEN 500                                   \* corner of PQArea4110 at 0.05
  ELSE IF a \in {"a4120v1", "a4120v2", "a4120v3"} /\ i = 4 THEN 500    \* p_points_pu 2018 = [0.05, 0.2]
  ELSE IF a \in {"a4120v1", "a4120v2", "a4120v3"} /\ i = 5 THEN 1200
  ELSE IF a = "a4120v2y15" /\ i = 3 THEN 500                           \* p_points_pu 2015 = [0.1, 0.2]
  ELSE IF a = "poly" /\ i = 3 THEN 500
  ELSE PBase[i]
(* index 1 below | 2 lower corner | 3 lower ramp | 4 lower knee | 5 nominal | 6 upper knee | 7 upper ramp | 8 upper corner | 9 above *)
VLevel(a, i) ==
  IF a \in A4120 THEN <<94600, 96000, 99500, 103000, 110000, 120000, 123500, 127000, 127600>>[i]
  ELSE <<96800, 99000, 101750, 104500, 110000, 115500, 118250, 121000, 123200>>[i]

\* the record the decision functions above take
Ctl(c) == [area |-> c.area, rmo |-> c.rmo, qm |-> c.qr[1], s |-> c.sat[1], qprio |-> c.sat[2], d |-> c.d, v |-> VLevel(c.area, c.vi)]
\* controlled elements: <<p0, q0, q-model argument>>; the mate of geo 3 asks for +0.9 (outside every area), of geo 4 for 0
MateQ(c) == IF c.geo = 3 THEN 9000 ELSE 0
NEl(c) == IF c.geo \in {3, 4} THEN 2 ELSE 1
QArg(c, e) == IF e = 1 THEN c.qr[2] ELSE IF c.qr[1] = "const" THEN MateQ(c) ELSE c.qr[2]
El0(c) == [e \in 1..NEl(c) |-> IF e = 1 THEN [p |-> PLevel(c.area, c.pi), q |-> c.qr[3]] ELSE [p |-> 5000, q |-> MateQ(c)]]

AnyRaises(c, x) == \E e \in 1..Len(x) : Raises(Ctl(c), x[e])
AllSettled(c, x) == \A e \in 1..Len(x) : Settled(Ctl(c), x[e], QArg(c, e))
StepAll(c, x) == [e \in 1..Len(x) |-> Damped(Ctl(c), x[e], QArg(c, e))]

\* the model's trajectory: setpoints after j iterations of the control loop (stops when settled or when q_flexibility raises)
RECURSIVE Traj(_, _, _)
Traj(c, x, j) == IF j = 0 \/ AnyRaises(c, x) \/ AllSettled(c, x) THEN x ELSE Traj(c, StepAll(c, x), j - 1)
RECURSIVE RaisesWithin(_, _, _)
RaisesWithin(c, x, j) == AnyRaises(c, x) \/ (j > 0 /\ ~AllSettled(c, x) /\ RaisesWithin(c, StepAll(c, x), j - 1))
=============================================================================
