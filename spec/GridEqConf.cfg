INIT OInit
NEXT ONext
INVARIANT Conf_Supply
INVARIANT Conf_Outcome
INVARIANT Conf_Groups
INVARIANT Conf_ExternalReplaced
