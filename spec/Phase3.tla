-------------------------------- MODULE Phase3 --------------------------------
(* C11 — model of what runpp_3ph is GIVEN and what C11 therefore REQUIRES, per abstract configuration.               *)
(* TLC enumerates every configuration of the template (Phase3Def.tla): transformer vector group x topology x the    *)
(* placement of up to NSlots elements of kind load / sgen / asymmetric_load / asymmetric_sgen with connection type,  *)
(* per-phase level pattern and modifier (out of service / scaling 0.5).  For each configuration the stages of        *)
(* runpp_3ph up to the solver are stepped as actions:                                                                *)
(*   Convert   runpp_3ph.py:422-427  three pd2ppc conversions: in-service selection, connectivity, vector group      *)
(*   MapLoads  runpp_3ph.py:441      _load_mapping: per bus / phase / connection sums of the specified powers        *)
(*   Require   -                     classification balanced / unbalanced and the relations C11 demands              *)
(* The numeric solution itself is not modelled (DESIGN 1): it is observed from the implementation and judged by      *)
(* Phase3Obs.tla with the operators of Phase3Def.tla applied to the same configuration.                              *)
(* Every state with stage "done" / "rejected" is instantiated on the real code by harness/checks/c11.py (S -> I);    *)
(* `plant` / `rows` are what the harness builds: wiring + in_service flags of the template, and the element table     *)
(* values in level units -- no wiring or level table exists in Python.                                              *)
EXTENDS Phase3Def, TLC
CONSTANTS NSlots,        \* number of element slots
          ElemBuses,     \* buses that may carry elements
          Pats,          \* level patterns of asymmetric elements: "bal" a=b=c, "unb" distinct levels, "zero" one phase 0
          Mods,          \* modifiers: "none", "oos", "half"
          VGs, Topos
VARIABLES cfg, plant, rows, stage, sup, smap, req
vars == <<cfg, plant, rows, stage, sup, smap, req>>

ElemOpts == {NoElem}
            \cup [kind : SymKinds, bus : ElemBuses, conn : Conn, pat : {"bal"}, mod : Mods]
            \cup [kind : AsymKinds, bus : ElemBuses, conn : Conn, pat : Pats, mod : Mods]
\* slots are interchangeable: keep one representative per multiset of elements (empty slots last)
KindIx(k) == CASE k = "load" -> 0 [] k = "sgen" -> 1 [] k = "asymmetric_load" -> 2 [] k = "asymmetric_sgen" -> 3 [] OTHER -> 4
PatIx(p) == CASE p = "bal" -> 0 [] p = "unb" -> 1 [] OTHER -> 2
ModIx(m) == CASE m = "none" -> 0 [] m = "oos" -> 1 [] OTHER -> 2
Code(e) == (((KindIx(e.kind) * 5 + e.bus) * 2 + (IF e.conn = "wye" THEN 0 ELSE 1)) * 3 + PatIx(e.pat)) * 3 + ModIx(e.mod)
Canon(c) == \A i \in 1..(NSlots - 1) : Code(c.elems[i]) <= Code(c.elems[i + 1])
\* modifiers: at most one modified element per configuration, and it is a symmetric element or an "unb" one (an
\* out-of-service unbalanced element must not unbalance the network; scaling must reach every phase)
ModOK(c) == /\ Cardinality({i \in 1..NSlots : c.elems[i].mod # "none"}) <= 1
            /\ \A i \in 1..NSlots : c.elems[i].mod # "none" => (c.elems[i].kind \in SymKinds \/ c.elems[i].pat = "unb")
\* Reduction by relevance (keeps the space replayable): the reference network is Dyn on the radial feeder with EVERY
\* element configuration; the other vector groups / topologies differ from it only through the transformer or the
\* buses behind line 2, so they are combined with the configurations that load the LV bus; the topologies that take
\* buses out of supply with unmodified elements; the vector groups outside the documented set (only the accept /
\* reject decision is bound) with a single element.
OnLv(c) == \E i \in 1..NSlots : c.elems[i].kind # "none" /\ c.elems[i].bus = TrafoLv
Plain(c) == \A i \in 1..NSlots : c.elems[i].mod = "none"
NetOK(c) == /\ (c.topo # "radial" => c.vg = "Dyn")
            /\ (c.vg # "Dyn" \/ c.topo # "radial" => OnLv(c))
            /\ (c.topo \in {"cut", "toff", "notrafo"} => Plain(c))
            /\ (VgClass(c.vg) # "modelled" => \A i \in 2..NSlots : c.elems[i] = NoElem)
Configs == {c \in [vg : VGs, topo : Topos, elems : [1..NSlots -> ElemOpts]] : NetOK(c) /\ Canon(c) /\ ModOK(c)}

Row(e) == [pt |-> TabTotal(e, "p"), qt |-> TabTotal(e, "q"), p |-> TabPhase(e, "p"), q |-> TabPhase(e, "q"),
           scaling2 |-> ScNum(e), in_service |-> (e.mod # "oos")]
NoMap == [b \in Bus |-> [typ \in Conn |-> [pq \in {"p", "q"} |-> [ph \in Ph |-> 0]]]]
NoReq == [class |-> "none", netbal |-> FALSE, checked |-> FALSE, perphase |-> {}, live |-> {}, slackload |-> FALSE]

\* what the harness has to build: wiring and in_service flags of the template for this topology
Plant(c) == [ends |-> LineEnds, lines |-> TopoLines(c.topo), thv |-> TrafoHv, tlv |-> TrafoLv, trafo |-> TopoTrafo(c.topo)]
Init == /\ cfg \in Configs
        /\ plant = Plant(cfg)
        /\ rows = [i \in 1..NSlots |-> Row(cfg.elems[i])]
        /\ stage = "input" /\ sup = {} /\ smap = NoMap /\ req = NoReq
Convert == /\ stage = "input"
           /\ stage' = IF Rejects(cfg) THEN "rejected" ELSE "converted"
           /\ sup' = IF Rejects(cfg) THEN {} ELSE Supplied(cfg)
           /\ UNCHANGED <<cfg, plant, rows, smap, req>>
MapLoads == /\ stage = "converted"
            /\ smap' = Mapping(cfg)
            /\ stage' = "mapped"
            /\ UNCHANGED <<cfg, plant, rows, sup, req>>
Require == /\ stage = "mapped"
           /\ req' = [class |-> Class(cfg), netbal |-> BalancedMap(smap, sup), checked |-> Checked(cfg),
                      perphase |-> {b \in Bus : PerPhase(cfg, b)}, live |-> {i \in 1..NSlots : Live(cfg, i)},
                      slackload |-> (\E i \in 1..NSlots : Live(cfg, i) /\ cfg.elems[i].bus = SlackBus)]
           /\ stage' = "done"
           /\ UNCHANGED <<cfg, plant, rows, sup, smap>>
Next == Convert \/ MapLoads \/ Require

\* ---- model-level requirements, checked by TLC on every configuration -------------------------------------------------
SumTyp(b, pq, ph) == smap[b]["wye"][pq][ph] + smap[b]["delta"][pq][ph]
\* the three-phase route and the symmetric route are given the same total power at every bus (any configuration)
M_TotalsAgree == stage = "mapped" => \A b \in Bus : \A pq \in {"p", "q"} :
                    SumTyp(b, pq, 1) + SumTyp(b, pq, 2) + SumTyp(b, pq, 3) = SymBus(cfg, b, pq)
\* all elements symmetric => every bus is given the same power in the three phases, one third of the symmetric total
M_SymmetricImpliesBalanced == stage = "done" => (req.class = "balanced" => req.netbal)
M_BalancedThird == stage = "done" /\ req.class = "balanced" =>
                      \A b \in Bus : \A pq \in {"p", "q"} : \A ph \in Ph : 3 * SumTyp(b, pq, ph) = SymBus(cfg, b, pq)
\* out-of-service elements and elements on unsupplied buses are inert: the mapping is that of the configuration
\* without them
Strip(c) == [c EXCEPT !.elems = [i \in 1..NSlots |-> IF Live(c, i) THEN c.elems[i] ELSE NoElem]]
M_DeadElementsInert == stage = "mapped" => smap = Mapping(Strip(cfg)) /\ Class(Strip(cfg)) = Class(cfg)
M_PerPhaseScope == stage = "done" => /\ req.perphase \subseteq sup
                                     /\ (req.class = "balanced" => req.perphase = sup)
                                     /\ SlackBus \in sup
M_RejectedUnchecked == stage = "rejected" => ~Checked(cfg)
M_RowsConsistent == \A i \in 1..NSlots : rows[i].pt = Sum3(rows[i].p) /\ rows[i].qt = Sum3(rows[i].q)
=============================================================================
