-------------------------------- MODULE Phase3 --------------------------------
(* C11 — model of what runpp_3ph is GIVEN and what C11 therefore REQUIRES, per abstract configuration.               *)
(* TLC enumerates every configuration of the template (Phase3Def.tla): transformer vector group x topology x the    *)
(* placement of up to NSlots elements of kind load / sgen / asymmetric_load / asymmetric_sgen with connection type,  *)
(* per-phase level pattern and modifier (out of service / scaling 0.5), x a busbar section joined to a host bus by a  *)
(* closed / open bus-bus switch (fused buses carrying elements), x the rows of the ext_grid table (several slack      *)
(* buses, any table order, out-of-service rows).  For each configuration the stages of                               *)
(* runpp_3ph up to the solver are stepped as actions:                                                                *)
(*   Convert   runpp_3ph.py:422-427  three pd2ppc conversions: in-service selection, connectivity, vector group      *)
(*   MapLoads  runpp_3ph.py:441      _load_mapping: per bus / phase / connection sums of the specified powers        *)
(*   Require   -                     classification balanced / unbalanced and the relations C11 demands              *)
(* The numeric solution itself is not modelled (DESIGN 1): it is observed from the implementation and judged by      *)
(* Phase3Obs.tla with the operators of Phase3Def.tla applied to the same configuration.                              *)
(* Every state with stage "done" / "rejected" is instantiated on the real code by harness/checks/c11.py (S -> I);    *)
(* `plant` / `rows` are what the harness builds: wiring + in_service flags of the template, and the element table     *)
(* values in level units -- no wiring or level table exists in Python.                                              *)
EXTENDS Phase3Def, TLC
CONSTANTS NSlots,        \* number of element slots
          ElemBuses,     \* buses that may carry elements
          Pats,          \* level patterns of asymmetric elements: "bal" a=b=c, "unb" distinct levels, "zero" one phase 0
          Mods,          \* modifiers: "none", "oos", "half"
          VGs, Topos,
          Cpls,          \* busbar-section arrangements (labels, CplOf): "c<h>" closed / "o<h>" open switch to host bus h
          EgSets,        \* ext_grid tables beyond the single one on bus 1 (labels, EgsOf): "g31" = rows on bus 3, bus 1;
                         \* an "x" after a bus = that row is out of service
          StrideB, StrideC, Offset   \* thinning of the families B / C: one configuration in Stride (1 = all), the slice is
                                     \* chosen by Offset (the harness derives it from the seed)
VARIABLES cfg, plant, rows, stage, sup, smap, req
vars == <<cfg, plant, rows, stage, sup, smap, req>>

ElemOptsOn(B) == {NoElem}
            \cup [kind : SymKinds, bus : B, conn : Conn, pat : {"bal"}, mod : Mods]
            \cup [kind : AsymKinds, bus : B, conn : Conn, pat : Pats, mod : Mods]
CplOf(l) == CASE l = "c4" -> [host |-> 4, state |-> "closed"] [] l = "o4" -> [host |-> 4, state |-> "open"]
              [] l = "c2" -> [host |-> 2, state |-> "closed"] [] l = "o2" -> [host |-> 2, state |-> "open"]
              [] l = "c3" -> [host |-> 3, state |-> "closed"] [] l = "c1" -> [host |-> 1, state |-> "closed"]
Row2(b1, i1, b2, i2) == <<[bus |-> b1, ins |-> i1], [bus |-> b2, ins |-> i2]>>
EgsOf(l) == CASE l = "g13" -> Row2(1, TRUE, 3, TRUE)  [] l = "g31" -> Row2(3, TRUE, 1, TRUE)
              [] l = "g12" -> Row2(1, TRUE, 2, TRUE)  [] l = "g21" -> Row2(2, TRUE, 1, TRUE)
              [] l = "g3x1" -> Row2(3, FALSE, 1, TRUE) [] l = "g31x" -> Row2(3, TRUE, 1, FALSE)
              [] l = "g13x" -> Row2(1, TRUE, 3, FALSE)
              [] l = "g321" -> <<[bus |-> 3, ins |-> TRUE], [bus |-> 2, ins |-> TRUE], [bus |-> 1, ins |-> TRUE]>>
\* slots are interchangeable: keep one representative per multiset of elements (empty slots last)
KindIx(k) == CASE k = "load" -> 0 [] k = "sgen" -> 1 [] k = "asymmetric_load" -> 2 [] k = "asymmetric_sgen" -> 3 [] OTHER -> 4
PatIx(p) == CASE p = "bal" -> 0 [] p = "unb" -> 1 [] OTHER -> 2
ModIx(m) == CASE m = "none" -> 0 [] m = "oos" -> 1 [] OTHER -> 2
Code(e) == (((KindIx(e.kind) * 6 + e.bus) * 2 + (IF e.conn = "wye" THEN 0 ELSE 1)) * 3 + PatIx(e.pat)) * 3 + ModIx(e.mod)
Canon(c) == \A i \in 1..(NSlots - 1) : Code(c.elems[i]) <= Code(c.elems[i + 1])
\* modifiers: at most one modified element per configuration, and it is a symmetric element or an "unb" one (an
\* out-of-service unbalanced element must not unbalance the network; scaling must reach every phase)
ModOK(c) == /\ Cardinality({i \in 1..NSlots : c.elems[i].mod # "none"}) <= 1
            /\ \A i \in 1..NSlots : c.elems[i].mod # "none" => (c.elems[i].kind \in SymKinds \/ c.elems[i].pat = "unb")
\* Reduction by relevance (keeps the space replayable): the reference network is Dyn on the radial feeder with EVERY
\* element configuration; the other vector groups / topologies differ from it only through the transformer or the
\* buses behind line 2, so they are combined with the configurations that load the LV bus; the topologies that take
\* buses out of supply with unmodified elements; the vector groups outside the documented set (only the accept /
\* reject decision is bound) with a single element.
OnLv(c) == \E i \in 1..NSlots : c.elems[i].kind # "none" /\ c.elems[i].bus = TrafoLv
Plain(c) == \A i \in 1..NSlots : c.elems[i].mod = "none"
NetOK(c) == /\ (c.topo # "radial" => c.vg = "Dyn")
            /\ (c.vg # "Dyn" \/ c.topo # "radial" => OnLv(c))
            /\ (c.topo \in {"cut", "toff", "notrafo"} => Plain(c))
            /\ (VgClass(c.vg) # "modelled" => \A i \in 2..NSlots : c.elems[i] = NoElem)
\* thinning: a fixed arithmetic mix of the element codes, so that a slice is spread over kinds, buses, connection types
\* and patterns (every configuration belongs to exactly one of the Stride slices)
Mix(c) == LET a == Code(c.elems[1])  b == Code(c.elems[NSlots])
          IN a * 31 + b * 17 + (a \div 9) * 7 + (b \div 18) * 13 + (a \div 54) * 5 + (b \div 108) * 3
Slice(c, stride) == (Mix(c) + Offset) % stride = 0
\* family A: one ext_grid on bus 1, no busbar section
FamA == {c \in [vg : VGs, topo : Topos, cpl : {NoCpl}, egs : {OneEg}, elems : [1..NSlots -> ElemOptsOn(ElemBuses)]] :
            NetOK(c) /\ Canon(c) /\ ModOK(c)}
\* family B: a busbar section on the reference network (Dyn, radial feeder, one ext_grid).  A section matters only through
\* the elements it carries: the elements sit on the section and on its host bus, at least one of them on the section
\* (two on the section, one on each fused bus, same or different connection type, ...); unmodified elements.
OnSec(c) == \E i \in 1..NSlots : c.elems[i].kind # "none" /\ c.elems[i].bus = BusSec
FamB == UNION {{c \in [vg : {"Dyn"}, topo : {"radial"}, cpl : {CplOf(l)}, egs : {OneEg},
                       elems : [1..NSlots -> ElemOptsOn({CplOf(l).host, BusSec})]] : OnSec(c) /\ Canon(c) /\ Plain(c) /\ Slice(c, StrideB)}
              : l \in Cpls}
\* family C: several ext_grid rows on the reference network (Dyn, radial feeder).  The ext_grids differ from the single
\* one only at the slack buses, so the (unmodified) elements sit on the buses of the ext_grid rows and on the LV bus.
FamC == UNION {{c \in [vg : {"Dyn"}, topo : {"radial"}, cpl : {NoCpl}, egs : {EgsOf(l)},
                       elems : [1..NSlots -> ElemOptsOn({EgsOf(l)[k].bus : k \in 1..Len(EgsOf(l))} \cup {TrafoLv})]] :
                  Canon(c) /\ Plain(c) /\ Slice(c, StrideC)}
              : l \in EgSets}
Configs == FamA \cup FamB \cup FamC

Row(e) == [pt |-> TabTotal(e, "p"), qt |-> TabTotal(e, "q"), p |-> TabPhase(e, "p"), q |-> TabPhase(e, "q"),
           scaling2 |-> ScNum(e), in_service |-> (e.mod # "oos")]
NoMap == <<>>
NoReq == [class |-> "none", netbal |-> FALSE, checked |-> FALSE, perphase |-> {}, live |-> {}, slackload |-> FALSE,
          fusedload |-> FALSE]

\* what the harness has to build: wiring and in_service flags of the template for this topology
Plant(c) == [ends |-> LineEnds, lines |-> TopoLines(c.topo), thv |-> TrafoHv, tlv |-> TrafoLv, trafo |-> TopoTrafo(c.topo),
             level |-> [b \in Buses(c) |-> Level(c, b)], sw |-> Switches(c), egs |-> c.egs,
             node |-> [b \in Buses(c) |-> NodeOf(c, b)]]       \* (node: for the harness' residual statistics only)
Init == /\ cfg \in Configs
        /\ plant = Plant(cfg)
        /\ rows = [i \in 1..NSlots |-> Row(cfg.elems[i])]
        /\ stage = "input" /\ sup = {} /\ smap = NoMap /\ req = NoReq
Convert == /\ stage = "input"
           /\ stage' = IF Rejects(cfg) THEN "rejected" ELSE "converted"
           /\ sup' = IF Rejects(cfg) THEN {} ELSE Supplied(cfg)
           /\ UNCHANGED <<cfg, plant, rows, smap, req>>
MapLoads == /\ stage = "converted"
            /\ smap' = Mapping(cfg)
            /\ stage' = "mapped"
            /\ UNCHANGED <<cfg, plant, rows, sup, req>>
Require == /\ stage = "mapped"
           /\ req' = [class |-> Class(cfg), netbal |-> BalancedMap(smap, sup), checked |-> Checked(cfg),
                      perphase |-> {b \in Bus : PerPhase(cfg, b)}, live |-> {i \in 1..NSlots : Live(cfg, i)},
                      slackload |-> (\E i \in 1..NSlots : Live(cfg, i) /\ cfg.elems[i].bus \in SlackBuses(cfg)),
                      \* live elements on two different buses of one node
                      fusedload |-> (\E i, j \in 1..NSlots : /\ Live(cfg, i) /\ Live(cfg, j)
                                                               /\ cfg.elems[i].bus # cfg.elems[j].bus
                                                               /\ SameNode(cfg, cfg.elems[i].bus, cfg.elems[j].bus))]
           /\ stage' = "done"
           /\ UNCHANGED <<cfg, plant, rows, sup, smap>>
Next == Convert \/ MapLoads \/ Require

\* ---- model-level requirements, checked by TLC on every configuration -------------------------------------------------
SumTyp(b, pq, ph) == smap[b]["wye"][pq][ph] + smap[b]["delta"][pq][ph]
\* the three-phase route and the symmetric route are given the same total power at every bus (any configuration)
M_TotalsAgree == stage = "mapped" => \A b \in Buses(cfg) : \A pq \in {"p", "q"} :
                    SumTyp(b, pq, 1) + SumTyp(b, pq, 2) + SumTyp(b, pq, 3) = SymBus(cfg, b, pq)
\* all elements symmetric => every bus is given the same power in the three phases, one third of the symmetric total
M_SymmetricImpliesBalanced == stage = "done" => (req.class = "balanced" => req.netbal)
M_BalancedThird == stage = "done" /\ req.class = "balanced" =>
                      \A b \in Buses(cfg) : \A pq \in {"p", "q"} : \A ph \in Ph : 3 * SumTyp(b, pq, ph) = SymBus(cfg, b, pq)
\* out-of-service elements and elements on unsupplied buses are inert: the mapping is that of the configuration
\* without them
Strip(c) == [c EXCEPT !.elems = [i \in 1..NSlots |-> IF Live(c, i) THEN c.elems[i] ELSE NoElem]]
M_DeadElementsInert == stage = "mapped" => smap = Mapping(Strip(cfg)) /\ Class(Strip(cfg)) = Class(cfg)
M_PerPhaseScope == stage = "done" => /\ req.perphase \subseteq sup
                                     /\ (req.class = "balanced" => req.perphase = sup)
                                     /\ SlackBuses(cfg) \subseteq sup /\ sup \subseteq Buses(cfg)
\* fused buses: what the solver is given at a node is the sum of what each of its buses carries (nothing is dropped,
\* nothing is counted twice), it is kept under the node's name only, and an OPEN switch fuses nothing
M_FusedSum == stage = "mapped" /\ HasSec(cfg) => \A n \in Buses(cfg) : \A typ \in Conn : \A pq \in {"p", "q"} : \A ph \in Ph :
                 smap[n][typ][pq][ph] = IF NodeOf(cfg, n) # n THEN 0
                                        ELSE SumBuses(cfg, {b \in Buses(cfg) : SameNode(cfg, b, n)}, ph, typ, pq, NBus(cfg))
M_OpenSwitchFusesNothing == stage = "input" /\ cfg.cpl.state # "closed" => \A b \in Bus : NodeOf(cfg, b) = b
M_FusedSameSupply == stage = "input" => \A a, b \in Buses(cfg) : SameNode(cfg, a, b) => (a \in Supplied(cfg) <=> b \in Supplied(cfg))
M_RejectedUnchecked == stage = "rejected" => ~Checked(cfg)
M_RowsConsistent == \A i \in 1..NSlots : rows[i].pt = Sum3(rows[i].p) /\ rows[i].qt = Sum3(rows[i].q)
=============================================================================
