------------------------------- MODULE Convert -------------------------------
(* C21, model level.  TLC enumerates every in-scope element set of template T5 (ConvertDef.tla) x route and      *)
(* computes, per configuration, the outcome of the modelled conversion pipeline: surviving buses, fused classes,  *)
(* auxiliary buses, inventory of the converted network, fields the route loses.  Every dumped state (cfg, out)   *)
(* is instantiated on the real converters by harness/checks/c21.py.  The invariants are theorems of the REQUIRED  *)
(* design: they are what makes the correspondence of ConvertObs.tla well defined.                                *)
EXTENDS ConvertDef
CONSTANTS L1S, L2S, TRS, TAPS, SHIFTS, PFES, GENS, SGENS, LD2S, SHS, SWLS, SWBS, B3S, ROUTES
VARIABLES cfg, out

Configs == {c \in [l1 : L1S, l2 : L2S, tr : TRS, tap : TAPS, shift : SHIFTS, pfe : PFES, gen : GENS, sgen : SGENS,
                   ld2 : LD2S, sh : SHS, swl : SWLS, swb : SWBS, b3 : B3S, route : ROUTES] : WellFormed(c)}

Init == cfg \in Configs /\ out = Derive(cfg)
Next == UNCHANGED <<cfg, out>>

\* the reference bus is always converted
SlackSurvives == 0 \in out.sup
\* fused classes partition the in-service buses; a class is energised as a whole (so "the counterpart of a bus" is
\* a function of its class and buses of one class must show one voltage)
AllClasses == {Class(cfg, b) : b \in BusIS(cfg)}
ClassesPartition == IsPartition(AllClasses, BusIS(cfg))
ClassEnergisedAsWhole == \A K \in AllClasses : K \subseteq out.sup \/ K \cap out.sup = {}
\* every row of the case file refers to rows that exist in it
RowsClosed == /\ out.inv.bus = Cardinality(out.classes) + Cardinality(out.aux)
              /\ out.inv.line + out.inv.trafo + out.inv.impedance = Cardinality(out.branches)
              /\ out.inv.load + out.inv.sgen <= Cardinality(out.classes)
\* netting loads and sgens per ppc bus conserves the total demand of the energised part
DemandConserved ==
  LET dem == SumF({l \in {"ld1", "ld4", "ld2"} : LoadBus[l] \in out.sup /\ (l = "ld2" => cfg.ld2 = "in")}, LoadP)
             - (IF SgenBus \in out.sup THEN SgenP(cfg.sgen) ELSE 0)
  IN SumF(out.classes, [K \in out.classes |-> PD(cfg, K)]) = dem
\* the MATPOWER TAP convention (0 = "no transformer") is undone by the reader: classification is route independent
TapConventionUndone == \A br \in BranchIds : TapAfterRoute(cfg, br) = TapOf(cfg, br)
\* the in-memory route hands every field over
PpcRouteLossless == cfg.route = "ppc" => out.lost = {}
=============================================================================
