------------------------------- MODULE Convert -------------------------------
(* C21, model level.  TLC enumerates every in-scope element set of template T5 (ConvertDef.tla) x route and      *)
(* computes, per configuration, the outcome of the modelled conversion pipeline: surviving buses, fused classes,  *)
(* auxiliary buses, inventory of the converted network, fields the route loses.  Every dumped state (cfg, out)   *)
(* is instantiated on the real converters by harness/checks/c21.py.  The invariants are theorems of the REQUIRED  *)
(* design: they are what makes the correspondence of ConvertObs.tla well defined.                                *)
EXTENDS ConvertDef
CONSTANT TIER          \* "quick" | "thorough": which sub-space of the configuration space is enumerated
VARIABLES cfg, out

\* transformer variants <<tr, tap, shift, pfe, b3>>
TrIn(tap, shift, pfe) == <<"in", tap, shift, pfe, TRUE>>
TrVariants ==
  IF TIER = "quick"
  THEN {<<"absent", "neutral", 0, "zero", TRUE>>, <<"oos", "neutral", 0, "zero", TRUE>>,
        TrIn("neutral", 0, "pos"),          \* nominal ratio, no shift: an "impedance" for from_ppc
        TrIn("plus", 150, "pos"), TrIn("plus", 0, "zero")}
  ELSE {<<"absent", "neutral", 0, "zero", TRUE>>, <<"oos", "neutral", 0, "zero", TRUE>>,
        TrIn("neutral", 0, "zero"), TrIn("neutral", 0, "pos"), TrIn("plus", 0, "pos"), TrIn("neutral", 150, "pos"),
        TrIn("plus", 150, "zero"),
        <<"in", "plus", 0, "pos", FALSE>>}  \* in-service transformer at an out-of-service LV bus
\* line variants <<l1, l2, swl>>: line 1-2, second line 0-2 and its line switch
LineVariants ==
  IF TIER = "quick" THEN {<<"in", "absent", "absent">>, <<"in", "in", "absent">>, <<"in", "in", "open">>, <<"in", "oos", "absent">>,
                          <<"oos", "absent", "absent">>}      \* only l0 left: buses 2, 3 dead, a one-branch case file
  ELSE {<<l1, x[1], x[2]>> : l1 \in {"in", "oos"},
                                x \in {<<"absent", "absent">>, <<"in", "absent">>, <<"in", "closed">>, <<"in", "open">>,
                                       <<"oos", "absent">>, <<"oos", "open">>}}
Three == {"absent", "in", "oos"}
GENS  == Three
SGENS == IF TIER = "quick" THEN {"absent", "small", "equal", "large"} ELSE {"absent", "oos", "small", "equal", "large"}
LD2S  == IF TIER = "quick" THEN {"in"} ELSE Three
SHS   == IF TIER = "quick" THEN {"absent", "in"} ELSE Three
SWBS  == IF TIER = "quick" THEN {"closed", "open"} ELSE {"absent", "closed", "open"}
ROUTES == {"ppc", "mpc"}

Configs ==
  { [l1 |-> lv[1], l2 |-> lv[2], swl |-> lv[3], tr |-> tv[1], tap |-> tv[2], shift |-> tv[3], pfe |-> tv[4], b3 |-> tv[5],
     gen |-> g, sgen |-> sg, ld2 |-> ld, sh |-> sh, swb |-> sb, route |-> r] :
      lv \in LineVariants, tv \in TrVariants, g \in GENS, sg \in SGENS, ld \in LD2S, sh \in SHS, sb \in SWBS,
      r \in ROUTES }

Init == cfg \in Configs /\ out = Derive(cfg)
AllWellFormed == WellFormed(cfg)
Next == UNCHANGED <<cfg, out>>

\* the reference bus is always converted
SlackSurvives == 0 \in out.sup
\* fused classes partition the in-service buses; a class is energised as a whole (so "the counterpart of a bus" is
\* a function of its class and buses of one class must show one voltage)
AllClasses == {Class(cfg, b) : b \in BusIS(cfg)}
ClassesPartition == IsPartition(AllClasses, BusIS(cfg))
ClassEnergisedAsWhole == \A K \in AllClasses : K \subseteq out.sup \/ K \cap out.sup = {}
\* every row of the case file refers to rows that exist in it
RowsClosed == /\ out.inv.bus = Cardinality(out.classes) + Cardinality(out.aux)
              /\ out.inv.line + out.inv.trafo + out.inv.impedance = Cardinality(out.branches)
              /\ out.inv.load + out.inv.sgen <= Cardinality(out.classes)
\* netting loads and sgens per ppc bus conserves the total demand of the energised part
DemandConserved ==
  LET dem == SumF({l \in {"ld1", "ld4", "ld2"} : LoadBus[l] \in out.sup /\ (l = "ld2" => cfg.ld2 = "in")}, LoadP)
             - (IF SgenBus \in out.sup THEN SgenP(cfg.sgen) ELSE 0)
  IN SumF(out.classes, [K \in out.classes |-> PD(cfg, K)]) = dem
\* the MATPOWER TAP convention (0 = "no transformer") is undone by the reader: classification is route independent
TapConventionUndone == \A br \in BranchIds : TapAfterRoute(cfg, br) = TapOf(cfg, br)
\* the in-memory route hands every field over
PpcRouteLossless == cfg.route = "ppc" => out.lost = {}
\* REQUIRED of every route, and NOT in Convert.cfg: the modelled file route (from_mpc.py:126-145) drops "branch_g", so TLC
\* refutes this on exactly the mpc configurations with an energised transformer with iron losses.  By the verdict
\* discipline a model-level counterexample is not reported by itself: harness/checks/c21.py replays those configurations
\* on the real converters, where they show up as C21_SlackPower / C21_TotalLosses violations keyed "lost=branch_g".
EveryRouteLossless == out.lost = {}
=============================================================================
