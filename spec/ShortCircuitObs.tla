---------------------------- MODULE ShortCircuitObs ----------------------------
(* C18, implementation level.  One case per state of ShortCircuit.tla: [kind, cfg, run, ref, a, b] where a / b are    *)
(* 1-based indices into Runs (IOEnv.RUNS_FILE), the projections of net.res_bus_sc / res_line_sc / res_trafo_sc after  *)
(* the real calc_sc call CallOf(cfg, run) resp. CallOf(cfg, ref) on the template network:                            *)
(*   [ok, rows (bus LABELS = res_bus_sc.index), vn (rated voltages of all buses in volt, row order), ikss, skss, ip, rk, xk, rk0,   *)
(*    xk0 (per row), line, thv, tlv (ikss_ka per line, ikss_hv_ka / ikss_lv_ka per trafo)]                           *)
(* every number as a wide integer round(x * 10^10) (Wide.tla); m = <<1>> NaN, <<2>>/<<3>> inf, <<4>> column absent.   *)
(* Which clause is required on which case is computed by ShortCircuitDef!Required from (cfg, run, ref, kind).         *)
(* A calc_sc call that raises has ok = FALSE: single-run clauses are then vacuous (counted by the harness), but a     *)
(* pair in which only one of the two calls returns violates the invariance clause.                                   *)
EXTENDS ShortCircuitDef, Json, IOUtils
VARIABLE i
Cases == JsonDeserialize(IOEnv.OBS_FILE)
Runs == JsonDeserialize(IOEnv.RUNS_FILE)
OInit == i \in 1..Len(Cases)
ONext == UNCHANGED i
C == Cases[i]
A == Runs[C.a]
B == Runs[C.b]
RunOf(r) == [fault |-> r.fault, sn |-> r.sn, inv |-> r.inv, buses |-> {r.buses[k] : k \in 1..Len(r.buses)}, lab |-> r.lab]
Cfg == C.cfg
Run == RunOf(C.run)
Ref == RunOf(C.ref)
Req == Required(Cfg, Run, Ref, C.kind)
Rows(o) == 1..Len(o.rows)
Pos(o, b) == CHOOSE k \in Rows(o) : o.rows[k] = b
Has(o, b) == \E k \in Rows(o) : o.rows[k] = b
\* template bus of result row k of the run A (rows are addressed by label)
BusA(k) == BusOf(Run.lab, A.rows[k])

\* binding (not a property clause; a failure is a machinery error): the net the harness built is the spec's template
Bind_Template == A.ok => /\ Len(A.vn) = Cardinality(Bus) /\ \A b \in Bus : A.vn[b + 1] = Vn(b)
                         /\ \A k \in Rows(A) : A.rows[k] \in AllLabels(Run.lab)
                         /\ A.labels = LabelSeq(Run.lab)
                         /\ Len(A.ikss) = Len(A.rows) /\ Len(A.rk) = Len(A.rows) /\ Len(A.xk) = Len(A.rows)
                         /\ (Cfg.branch => Len(A.line) = NLine /\ Len(A.thv) = NTrafo /\ Len(A.tlv) = NTrafo)

\* ---- single-run clauses (decided on the primary state of every run) ----------------------------------------------
\* "for every faulted bus": each requested bus has a result row with a finite ikss
C18_FaultedBusesReported == ("C18_FaultedBusesReported" \in Req /\ A.ok) =>
    \A b \in ReportedRows(Run) : Has(A, b) /\ IsW(A.ikss[Pos(A, b)])
C18_IkssThevenin == ("C18_IkssThevenin" \in Req /\ A.ok) =>
    \A k \in Rows(A) : /\ IsW(A.ikss[k]) /\ IsW(A.rk[k]) /\ IsW(A.xk[k])
                       /\ IkssRel(BusA(k), Cfg, A.ikss[k], A.rk[k], A.xk[k])
C18_SkssPower == ("C18_SkssPower" \in Req /\ A.ok) =>
    \A k \in Rows(A) : IsW(A.skss[k]) /\ IsW(A.ikss[k]) /\ SkssRel(BusA(k), A.skss[k], A.ikss[k])
C18_IpBounds == ("C18_IpBounds" \in Req /\ A.ok) => \A k \in Rows(A) : IpRel(Cfg, A.ip[k], A.ikss[k])

\* ---- pair clauses ------------------------------------------------------------------------------------------------
BothOk == A.ok /\ B.ok
SameBus(x, y) == /\ x.rows = y.rows
                 /\ SameSeq(x.ikss, y.ikss) /\ SameSeq(x.skss, y.skss) /\ SameSeq(x.ip, y.ip)
                 /\ SameSeq(x.rk, y.rk) /\ SameSeq(x.xk, y.xk) /\ SameSeq(x.rk0, y.rk0) /\ SameSeq(x.xk0, y.xk0)
SameBranch(x, y) == SameSeq(x.line, y.line) /\ SameSeq(x.thv, y.thv) /\ SameSeq(x.tlv, y.tlv)
C18_SnMvaInvariantBus == "C18_SnMvaInvariantBus" \in Req => (A.ok = B.ok /\ (BothOk => SameBus(A, B)))
C18_SnMvaInvariantBranch == ("C18_SnMvaInvariantBranch" \in Req /\ BothOk) => SameBranch(A, B)
C18_InverseYInvariantBus == "C18_InverseYInvariantBus" \in Req => (A.ok = B.ok /\ (BothOk => SameBus(A, B)))
C18_InverseYInvariantBranch == ("C18_InverseYInvariantBranch" \in Req /\ BothOk) => SameBranch(A, B)
\* the row of bus b does not depend on which other buses are faulted in the same call (B faults all buses)
C18_BusSubsetInvariant == "C18_BusSubsetInvariant" \in Req => (A.ok = B.ok /\ (BothOk =>
    \A k \in Rows(A) : Has(B, A.rows[k]) /\ LET j == Pos(B, A.rows[k]) IN
        /\ SameW(A.ikss[k], B.ikss[j]) /\ SameW(A.skss[k], B.skss[j]) /\ SameW(A.ip[k], B.ip[j])
        /\ SameW(A.rk[k], B.rk[j]) /\ SameW(A.xk[k], B.xk[j]) /\ SameW(A.rk0[k], B.rk0[j]) /\ SameW(A.xk0[k], B.xk0[j])))
\* the row of template bus b does not depend on how the bus table is labelled (B: default labels = row positions);
\* a relabelled call that raises while the default one returns violates the clause
C18_LabelInvariantBus == "C18_LabelInvariantBus" \in Req => (A.ok = B.ok /\ (BothOk =>
    /\ Len(A.rows) = Len(B.rows)
    /\ \A b \in Run.buses : Has(A, LabelOf(Run.lab, b)) /\ Has(B, LabelOf(Ref.lab, b)) /\
        LET k == Pos(A, LabelOf(Run.lab, b))  j == Pos(B, LabelOf(Ref.lab, b)) IN
        /\ SameW(A.ikss[k], B.ikss[j]) /\ SameW(A.skss[k], B.skss[j]) /\ SameW(A.ip[k], B.ip[j])
        /\ SameW(A.rk[k], B.rk[j]) /\ SameW(A.xk[k], B.xk[j]) /\ SameW(A.rk0[k], B.rk0[j]) /\ SameW(A.xk0[k], B.xk0[j])))
\* lines and transformers keep their own indices: the branch tables are compared position by position
C18_LabelInvariantBranch == ("C18_LabelInvariantBranch" \in Req /\ BothOk) => SameBranch(A, B)
\* A = 2ph run, B = the 3ph run with otherwise identical options
C18_TwoPhaseRatio == ("C18_TwoPhaseRatio" \in Req /\ BothOk) =>
    \A k \in Rows(A) : Has(B, A.rows[k]) /\ LET j == Pos(B, A.rows[k]) IN
        IsW(A.ikss[k]) /\ IsW(B.ikss[j]) /\ RatioRel(A.ikss[k], B.ikss[j])
=============================================================================
