------------------------------- MODULE BalanceDef -------------------------------
(* C01 / C03 / C04 / C10 — the template network of the power-balance family and WHERE each element contributes.      *)
(*                                                                                                                    *)
(* Buses 0..5: b0 20 kV (ext_grid e0), b1, b2 20 kV, b3 0.4 kV, b4 20 kV fused with b2 by a closed zero-impedance     *)
(* bus-bus switch, b5 20 kV.  Branches: lines l0(0-1) l1(1-2) l2(0-2) l3(2-5), transformer t0(2->3), three-winding   *)
(* transformer w0(0,1,3), impedance i0(1-2), impedance switch z0(1-5, z_ohm > 0), dcline d0(0->2).                    *)
(* Bus elements ("nodes"): see Node.  A configuration cfg switches every optional element on or off (in_service) and  *)
(* chooses levels / options:                                                                                          *)
(*   <element name> : BOOLEAN  (one field per optional element; cfg is a flat record)                                  *)
(*   zip    : "p" (constant power) | "mix" (30 % Z, 20 % I) | "z" (100 % Z)    ZIP fractions of load ld0              *)
(*   vdl    : voltage_depend_loads        mode : "ac" | "dc"         tmodel : trafo_model "t" | "pi"                   *)
(*   qlims  : enforce_q_lims              qtight : gens have tight reactive limits                                    *)
(*   qstag  : STAGGERED limits (effective with qtight, g2 and g0 in service): the gens at bus 1 keep the tight limits,  *)
(*            the limit of g2 at bus 2 lies between its reactive output at the set points and its output once the gens  *)
(*            of bus 1 are fixed at their limits -- the limits become binding in successive passes of the enforcement  *)
(*            (harness/balance.py stagger() places the limit by two auxiliary power flows; C.inp.stag reports success)   *)
(*   dslack : distributed_slack           wts  : slack weight pattern (1..3)                                          *)
(*   scal   : "one" | "half" scaling of ld0 / sg0 / g2   shvn : "bus" | "other" rated voltage of the shunt             *)
(*   sn     : net.sn_mva 1 | 10      ls2g : TRUE = default back-end choice (lightsim2grid where possible), FALSE = pandapower's *)
(*            own Newton-Raphson      shpq : "std" | "equal" (shunt with p_mw = q_mvar, i.e. G = -B) | "table" (step-dependent   *)
(*            shunt_characteristic_table, operated at step 2)       alg : "nr" | "fdbx" (a PYPOWER algorithm)              *)
(* Powers are micro-MW / micro-Mvar integers, voltages micro-pu, NaN is Fix!NaN.                                       *)
EXTENDS Integers, Sequences, FiniteSets, TLC

\* ---- structure ------------------------------------------------------------------------------------------------------
Node == [e0  |-> [kind |-> "ext_grid", bus |-> 0],
         g0  |-> [kind |-> "gen", bus |-> 1],  g1 |-> [kind |-> "gen", bus |-> 1],  g2 |-> [kind |-> "gen", bus |-> 2],
         g3  |-> [kind |-> "gen", bus |-> 0],                                   \* a PV generator at the ext_grid's own bus
         sg0 |-> [kind |-> "sgen", bus |-> 2], sg1 |-> [kind |-> "sgen", bus |-> 1],
         ld0 |-> [kind |-> "load", bus |-> 1], ld1 |-> [kind |-> "load", bus |-> 1], ld2 |-> [kind |-> "load", bus |-> 4],
         ld3 |-> [kind |-> "load", bus |-> 5],
         st0 |-> [kind |-> "storage", bus |-> 2], mo0 |-> [kind |-> "motor", bus |-> 3], sh0 |-> [kind |-> "shunt", bus |-> 1],
         wa0 |-> [kind |-> "ward", bus |-> 2], xw0 |-> [kind |-> "xward", bus |-> 1],
         al0 |-> [kind |-> "asymmetric_load", bus |-> 3], as0 |-> [kind |-> "asymmetric_sgen", bus |-> 3]]
NodeNames == DOMAIN Node
\* consumption-positive reference frame: result p_mw of a generating element counts negative at its bus
Sign(kind) == IF kind \in {"ext_grid", "gen", "sgen", "asymmetric_sgen"} THEN -1 ELSE 1
Generates(kind) == Sign(kind) = -1
\* branch terminals: terminal name -> bus; the result p/q of a terminal is the power flowing from the bus INTO the branch
Branch == [l0 |-> [kind |-> "line", ends |-> <<"l0_f", "l0_t">>, buses |-> <<0, 1>>],
           l1 |-> [kind |-> "line", ends |-> <<"l1_f", "l1_t">>, buses |-> <<1, 2>>],
           l2 |-> [kind |-> "line", ends |-> <<"l2_f", "l2_t">>, buses |-> <<0, 2>>],
           l3 |-> [kind |-> "line", ends |-> <<"l3_f", "l3_t">>, buses |-> <<2, 5>>],
           t0 |-> [kind |-> "trafo", ends |-> <<"t0_h", "t0_l">>, buses |-> <<2, 3>>],
           w0 |-> [kind |-> "trafo3w", ends |-> <<"w0_h", "w0_m", "w0_l">>, buses |-> <<0, 1, 3>>],
           i0 |-> [kind |-> "impedance", ends |-> <<"i0_f", "i0_t">>, buses |-> <<1, 2>>],
           z0 |-> [kind |-> "switch", ends |-> <<"z0_f", "z0_t">>, buses |-> <<1, 5>>],
           d0 |-> [kind |-> "dcline", ends |-> <<"d0_f", "d0_t">>, buses |-> <<0, 2>>]]
BranchNames == DOMAIN Branch
Buses == 0..5
\* bus fusing: closed zero-impedance bus-bus switch between b2 and b4 (build_bus.py create_bus_lookup)
Class(b) == IF b = 4 THEN 2 ELSE b
Classes == {Class(b) : b \in Buses}
Always == {"e0", "l0", "l1", "l3", "t0"}            \* never switched off: every bus stays supplied
On(cfg, n) == n \in Always \/ cfg[n]

\* ---- sums -------------------------------------------------------------------------------------------------------------
RECURSIVE SumSet(_, _)
SumSet(S, f) == IF S = {} THEN 0 ELSE LET x == CHOOSE y \in S : TRUE IN f[x] + SumSet(S \ {x}, f)
\* node elements in service at bus b / in class k
NodesAtBus(cfg, b) == {n \in NodeNames : On(cfg, n) /\ Node[n].bus = b}
NodesInClass(cfg, k) == {n \in NodeNames : On(cfg, n) /\ Class(Node[n].bus) = k}
\* terminals (as <<branch, position>>) of in-service branches in class k / at bus b
Terms(cfg) == {<<br, j>> : br \in {x \in BranchNames : On(cfg, x)}, j \in 1..3}
TermsOK(cfg) == {t \in Terms(cfg) : t[2] <= Len(Branch[t[1]].ends)}
TermsInClass(cfg, k) == {t \in TermsOK(cfg) : Class(Branch[t[1]].buses[t[2]]) = k}
TermsAtBus(cfg, b) == {t \in TermsOK(cfg) : Branch[t[1]].buses[t[2]] = b}
TermName(t) == Branch[t[1]].ends[t[2]]
AbsI(a) == IF a < 0 THEN -a ELSE a
=============================================================================
