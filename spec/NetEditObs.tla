------------------------------- MODULE NetEditObs -------------------------------
(* C22, implementation level: every case is a replayed history with the mechanical projection of the real net  *)
(* (index sets, reference columns, result indices) after every step.                                            *)
EXTENDS NetEditDef, Json, IOUtils
VARIABLE i
Cases == JsonDeserialize(IOEnv.OBS_FILE)
OInit == i \in 1..Len(Cases)
ONext == UNCHANGED i
C == Cases[i]
SetOf(s) == {s[k] : k \in 1..Len(s)}
Net(o) == [rows |-> {<<x[1], x[2]>> : x \in SetOf(o.rows)},
           refs |-> {R(r.ft, r.fi, r.col, r.tt, r.ti, r.kind) : r \in SetOf(o.refs)},
           res  |-> {<<x[1], x[2]>> : x \in SetOf(o.res)}]
\* the property, on every logged state
C22_RefIntegrity == \A k \in 1..Len(C.states) : RefIntegrity(Net(C.states[k]))
C22_ResSubset    == \A k \in 1..Len(C.states) : ResSubset(Net(C.states[k]))
\* conformance with the constructive model (divergence, not violation)
Conf_Initial   == Net(C.states[1]) = N0
Conf_PostState == C.err = "" => Net(C.states[Len(C.states)]) = Run(N0, C.hist, 1)
Conf_NoError   == C.err = ""
=============================================================================
