----------------------------- MODULE ContingencyDef -----------------------------
(* C14 / C15 — N-1 contingency analysis as a fold over case outcomes (contingency/contingency.py,                 *)
(* contingency_parallel.py).  Three lines 0,1,2; a configuration is                                               *)
(*   order : the N-1 case list (sequence of distinct lines),                                                       *)
(*   res   : res[c][e] = loading of line e when line c is out (values 1 or 3, limit 2; res[c][c] is not used),      *)
(*   own   : what the evaluation function reports for the outaged line itself (0 = NaN, 1 = the number 0),          *)
(*   fail  : a case whose evaluation raises (99 = none);  fkind : what it raises ("rt" a foreign RuntimeError, "lfnc"  *)
(*           LoadflowNotConverged) - the required result does not depend on the kind.                                   *)
(*   oos   : a line that is out of service BEFORE the analysis (99 = none).  If it is named in the case list the case  *)
(*           is skipped (contingency.py:102); it carries no results and stays out of service afterwards.              *)
(*   n     : number of lines (3 for the exhaustive matrices, 10 for the pattern family with chunked dispatch).     *)
(* The evaluation function is a stub of the harness that writes exactly these numbers into net.res_line, so the    *)
(* real aggregation code runs on the model's matrices.  Bus voltages are the fixed function BusVm.                 *)
EXTENDS Integers, Sequences, FiniteSets, TLC
El(cfg) == 0..(cfg.n - 1)
Limit == 2
N0Val(e) == 1 + e                        \* loading in the N-0 case (percent); NaN for the line that is out of service
BusVm(c, b) == 95 + ((2 * c) % 11) + b     \* vm (in percent of 1 pu) of bus b in case c (c = n: N-0)
NaNv == -1                               \* "no value" in required results

Range(s) == {s[k] : k \in 1..Len(s)}
Valid(cfg, c, e) == c \in Range(cfg.order) /\ c # cfg.fail /\ c # e /\ c # cfg.oos /\ e # cfg.oos
MaxS(S) == CHOOSE x \in S : \A y \in S : y <= x
MinS(S) == CHOOSE x \in S : \A y \in S : x <= y
Vals(cfg, e) == {cfg.res[c + 1][e + 1] : c \in {c \in El(cfg) : Valid(cfg, c, e)}}
TrueMax(cfg, e) == IF Vals(cfg, e) = {} THEN NaNv ELSE MaxS(Vals(cfg, e))
TrueMin(cfg, e) == IF Vals(cfg, e) = {} THEN NaNv ELSE MinS(Vals(cfg, e))
Overloads(cfg, c) == c \in Range(cfg.order) /\ c # cfg.fail /\ c # cfg.oos /\ \E e \in El(cfg) \ {c, cfg.oos} : cfg.res[c + 1][e + 1] > Limit
CauseOK(cfg, e, cause) == TrueMax(cfg, e) = NaNv \/ (Valid(cfg, cause, e) /\ cfg.res[cause + 1][e + 1] = TrueMax(cfg, e))
OkCases(cfg) == {c \in Range(cfg.order) : c # cfg.fail /\ c # cfg.oos}
BusMax(cfg, b) == IF OkCases(cfg) = {} THEN NaNv ELSE MaxS({BusVm(c, b) : c \in OkCases(cfg)})
BusMin(cfg, b) == IF OkCases(cfg) = {} THEN NaNv ELSE MinS({BusVm(c, b) : c \in OkCases(cfg)})
=============================================================================
