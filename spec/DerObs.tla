-------------------------------- MODULE DerObs --------------------------------
(* C33, implementation level.  One case = one initial state of Der.tla instantiated on the real DERController        *)
(* (harness/checks/c33.py): a 2-bus net, the controlled sgen(s) (sn_mva = 2) on the slack bus whose voltage is the      *)
(* configuration's level, run_control with the instance's control_step wrapped.  Logged per executed control step:      *)
(*   pre_p, pre_q, post_p, post_q   net.sgen.p_mw / q_mvar of the controlled elements before / after the step,            *)
(*                                   in 10^-4 MW/Mvar ("u4", squares stay below 2^31)                                      *)
(*   pre_qu, post_qu                 the reactive powers again in micro-Mvar                                               *)
(*   qmin, qmax, flex_ok             sn_mva * pqv_area.q_flexibility(post_p / sn_mva, vm_pu)   (micro-Mvar) — the area      *)
(*                                   object's own bounds at the element's p and v, as the property says                    *)
(*   v                               res_bus.vm_pu of the element's bus when the step ran (micro-p.u.)                      *)
(* and `fin`: the same for the state run_control leaves behind; built / raised / converged: what happened.               *)
(*                                                                                                                      *)
(* TOLERANCES (stated here, used nowhere else):                                                                          *)
(*   circle   p4^2 + q4^2 <= s4^2 + (|p4| + |q4| + 2): the allowance is exactly the rounding of p, q to 10^-4 MW            *)
(*            ((|P|+.5)^2 + (|Q|+.5)^2 - P^2 - Q^2); a real excess of 10^-4 MVA is reported;                                *)
(*   area     2 micro-Mvar;                                                                                              *)
(*   settled  run_control stops when |damped target - setpoint| <= atol + rtol |setpoint| (numpy.allclose, atol =            *)
(*            max_q_error = 10^-6, rtol = 10^-5; der_control.py:147-148), i.e. the setpoint is then within                  *)
(*            d * (atol + rtol |x|) of the feasible target: allowance d * (1 + |q|/10^5 + 1) micro-Mvar for the area,          *)
(*            3 (|p4| + |q4|) + 4 for the circle.                                                                          *)
(*   a premise "the step started from a feasible point" is evaluated WITHOUT allowance (strictly inside).                  *)
EXTENDS DerDef, Json, IOUtils
VARIABLE i
Cases == JsonDeserialize(IOEnv.OBS_FILE)
OInit == i \in 1..Len(Cases)
ONext == UNCHANGED i
O == Cases[i]
c == [area |-> O.cfg.area, rmo |-> O.cfg.rmo, pi |-> O.cfg.pi, vi |-> O.cfg.vi, qr |-> O.cfg.qr, sat |-> O.cfg.sat, d |-> O.cfg.d, geo |-> O.cfg.geo]
K == Ctl(c)
ne == NEl(c)
E == 1..ne
S4 == 2 * K.s                      \* saturate_sn_mva in u4: s [bp of sn] * sn (2 MVA) * 10^-4 / 10^-4
Ran == O.built /\ ~O.raised
Steps == O.steps

\* ---- binding of the case to the model (harness errors, never violations) -------------------------------------------------
Obs_CaseMatchesModel ==
  /\ O.sn4 = 20000
  /\ O.built => (Len(O.fin.p4) = ne /\ Len(O.fin.q4) = ne)
  /\ \A t \in 1..Len(Steps) : Len(Steps[t].pre_p) = ne /\ Len(Steps[t].post_p) = ne /\ Len(Steps[t].qmin) = ne
  \* the net holds the configuration's levels (thorough replicas: plus a seeded offset of at most 250 bp / 450 V110)
  /\ O.built => \A e \in E : Abs(O.init_p4[e] - 2 * El0(c)[e].p) <= (IF O.jittered THEN 500 ELSE 0)
                           /\ Abs(O.init_q4[e] - 2 * El0(c)[e].q) <= (IF O.jittered THEN 500 ELSE 0)
  /\ O.built => Abs(O.v0 * 11 - VLevel(c.area, c.vi) * 100) <= (IF O.jittered THEN 45033 ELSE 33)   \* 3 micro-p.u.

\* ---- the property ------------------------------------------------------------------------------------------------------
In4(p, q, slack) == p * p + q * q <= S4 * S4 + slack
Round4(p, q) == Abs(p) + Abs(q) + 2
\* after each step the apparent power does not exceed saturate_sn_mva
C33_ApparentPower ==
  (O.built /\ SatActive(K)) => \A t \in 1..Len(Steps) : \A e \in E :
     (K.d = 1 \/ In4(Steps[t].pre_p[e], Steps[t].pre_q[e], 0 - Round4(Steps[t].pre_p[e], Steps[t].pre_q[e])))
        => In4(Steps[t].post_p[e], Steps[t].post_q[e], Round4(Steps[t].post_p[e], Steps[t].post_q[e]))
\* when only an area applies, q lies within the area's own flexibility at the element's p and v
C33_ReactiveWithinArea ==
  (O.built /\ AreaOnly(K)) => \A t \in 1..Len(Steps) : \A e \in E :
     (Steps[t].flex_ok /\ (K.d = 1 \/ (Steps[t].qmin[e] <= Steps[t].pre_qu[e] /\ Steps[t].pre_qu[e] <= Steps[t].qmax[e])))
        => (Steps[t].qmin[e] - 2 <= Steps[t].post_qu[e] /\ Steps[t].post_qu[e] <= Steps[t].qmax[e] + 2)
\* the state run_control settles in after at least one step is within the capability (allowance: the convergence
\* criterion, see header; without a step the controller wrote nothing and "after each step" is vacuous)
SettleU(q) == K.d * (2 + Abs(q) \div 100000) + 2
C33_SettledWithinCapability ==
  (Ran /\ O.converged /\ Len(Steps) >= 1) => \A e \in E :
     /\ SatActive(K) => In4(O.fin.p4[e], O.fin.q4[e], 3 * (Abs(O.fin.p4[e]) + Abs(O.fin.q4[e])) + 4)
     /\ (AreaOnly(K) /\ O.fin.flex_ok) => (O.fin.qmin[e] - SettleU(O.fin.qu[e]) <= O.fin.qu[e] /\ O.fin.qu[e] <= O.fin.qmax[e] + SettleU(O.fin.qu[e]))

\* ---- conformance of the model (divergences, not violations) ---------------------------------------------------------------
\* a controller of the modelled kinds can be constructed and run; q_flexibility raises exactly where the model says
\* (only for the nominal cases: the seeded replicas are off the model's levels)
Nominal == ~O.jittered
Model_Builds == O.built
Model_Raises == (Nominal /\ O.built) => (O.raised <=> RaisesWithin(c, El0(c), 8))
Model_Converges == (Nominal /\ Ran) => O.converged
\* observed setpoints after step j (the final ones once the loop has stopped) vs the model's trajectory: 6 bp = 12 u4
ObsP(j, e) == IF j <= Len(Steps) THEN Steps[j].post_p[e] ELSE O.fin.p4[e]
ObsQ(j, e) == IF j <= Len(Steps) THEN Steps[j].post_q[e] ELSE O.fin.q4[e]
Model_Trajectory ==
  (Nominal /\ Ran /\ O.converged) => \A j \in 1..3 : LET m == Traj(c, El0(c), j) IN
     \A e \in E : Abs(ObsP(j, e) - 2 * m[e].p) <= 12 /\ Abs(ObsQ(j, e) - 2 * m[e].q) <= 12
\* the area model against the object's q_flexibility at the first step (micro-Mvar = 200 * bp; 6 bp)
Model_Flex ==
  (Nominal /\ Ran /\ c.area # "none" /\ Len(Steps) >= 1 /\ Steps[1].flex_ok) => LET m == Traj(c, El0(c), 1) IN
     \A e \in E : LET f == Flex(c.area, PSeries(m[e].p), K.v) IN
        Abs(Steps[1].qmin[e] - 200 * f[1]) <= 1200 /\ Abs(Steps[1].qmax[e] - 200 * f[2]) <= 1200
=============================================================================
