------------------------------- MODULE StdTypesObs -------------------------------
(* C25: three kinds of cases, distinguished by C.kind                                                             *)
(*  "lib"   : a replayed library history; after every step load_std_type of every name in both nets (token of the  *)
(*            data, "none" if unknown) and whether the call raised                                                 *)
(*  "apply" : an element created from / changed to a standard type: typ = the type's parameters, row = the row     *)
(*  "calc"  : power flow of the std-type element vs the same element from explicit parameters                      *)
EXTENDS StdTypesDef, Fix, Json, IOUtils
VARIABLE i
Cases == JsonDeserialize(IOEnv.OBS_FILE)
OInit == i \in 1..Len(Cases)
ONext == UNCHANGED i
C == Cases[i]
ToAct(a) == [op |-> a.op, net |-> a.net, name |-> a.name, data |-> a.data, ow |-> a.ow]
H == [k \in 1..Len(C.hist) |-> ToAct(C.hist[k])]
Lib(k) == Run(L0, SubSeq(H, 1, k), 1)
C25_LoadReturnsStored == C.kind = "lib" => \A k \in 1..Len(H) : \A n \in Nets : \A x \in AllNames :
                            C.loads[k][n][x] = Lib(k)[n][x]
C25_RaisesAsSpecified == C.kind = "lib" => \A k \in 1..Len(H) : C.raised[k] = Raises(Lib(k - 1), H[k])
\* Parameters a standard type may carry that enter calculations (power flow, short circuit, 3ph): the documented load-flow
\* parameters of create_std_type, the tap changer data and the zero-sequence data.  Purely informative entries of a type
\* (q_mm2, alpha, endtemp_degree, voltage_rating, trafo_characteristic_table, ...) are documented as "additional
\* parameters ... later loaded with parameter_from_std_type" and are not demanded in the row.
Relevant == {"r_ohm_per_km", "x_ohm_per_km", "c_nf_per_km", "g_us_per_km", "max_i_ka", "type",
             "sn_mva", "vn_hv_kv", "vn_lv_kv", "vk_percent", "vkr_percent", "pfe_kw", "i0_percent", "shift_degree",
             "sn_hv_mva", "sn_mv_mva", "sn_lv_mva", "vn_mv_kv", "vk_hv_percent", "vk_mv_percent", "vk_lv_percent",
             "vkr_hv_percent", "vkr_mv_percent", "vkr_lv_percent", "shift_mv_degree", "shift_lv_degree",
             "tap_side", "tap_neutral", "tap_min", "tap_max", "tap_step_percent", "tap_step_degree", "tap_changer_type",
             "r0_ohm_per_km", "x0_ohm_per_km", "c0_nf_per_km", "g0_us_per_km",
             "vk0_percent", "vkr0_percent", "mag0_percent", "mag0_rx", "si0_hv_partial", "vector_group"}
\* every calculation-relevant parameter defined by the type is in the row with the type's value
C25_AppliedCompletely == C.kind = "apply" => \A k \in 1..Len(C.typ) : C.typ[k][1] \in Relevant =>
                            \E j \in 1..Len(C.row) : C.row[j][1] = C.typ[k][1] /\ C.row[j][2] = C.typ[k][2]
AbsTol == 30
RelPpm == 20
C25_SameInCalculation == C.kind = "calc" => /\ C.a.conv /\ C.b.conv
                                            /\ CloseSeq(C.a.vals, C.b.vals, AbsTol, RelPpm)
=============================================================================
