--------------------------------- MODULE Curve ---------------------------------
(* C32 — Characteristic / SplineCharacteristic / LogSplineCharacteristic (pandapower/control/util/characteristic.py) *)
(*                                                                                                                  *)
(* MODEL.  A state is one characteristic object together with the history of operations applied to the net that      *)
(* holds it:                                                                                                        *)
(*   cfg   what the object was constructed from: class, interpolation kind, fill/extrapolation option, container of   *)
(*         the support data (list / numpy array / list of points through Characteristic.from_points, :88-91), and the  *)
(*         DATA SHAPE: first abscissa x1, the increments dx (strictly increasing x, unequal spacing) and the y steps dy  *)
(*         (dy[i] < 0, = 0, > 0: all increasing / decreasing / constant-run / zig-zag patterns);                         *)
(*   ops   history: "E" (the object is called, which makes the spline classes build and cache their scipy             *)
(*         interpolator) and serialisation routes (CurveDef!AllRoutes);                                                 *)
(*   cache whether the restored object carries the cached interpolator (derived state of the real object,            *)
(*         attribute `_interpolator`).                                                                                  *)
(* Every reachable state is instantiated on the real classes by harness/checks/c32.py: the object is constructed,     *)
(* the history replayed, and the object evaluated at the abscissae CurveDef!AbscSeq chooses; CurveObs.tla then         *)
(* evaluates the property clauses on the logged values.                                                             *)
(*                                                                                                                  *)
(* REQUIRED (stated on the model here, on the implementation in CurveObs):                                            *)
(*   - the value at support point i is y_i, for every kind, option and history;                                       *)
(*   - for monotone data and shape-preserving kinds the value at an interior point lies between the two neighbouring   *)
(*     support values;                                                                                               *)
(*   - the values do not depend on the history (serialisation leaves the curve unchanged): the required value is a     *)
(*     function of cfg alone — `cache` is the only thing a history may change.                                         *)
EXTENDS CurveDef, TLC
CONSTANTS NSet,        \* numbers of support points
          X1Set,       \* first abscissa + 2 (cfg files cannot hold negative numbers): 1 -> x1 = -1, 3 -> x1 = 1
          DXSet,       \* increments of x
          DYSet,       \* y steps + 1 : 0 -> -1, 1 -> 0, 2 -> +1
          Interp,      \* interpolation kinds offered to the spline classes
          Conts,       \* containers of the support data
          Routes,      \* serialisation routes
          MaxSer,      \* serialisations per history
          SerMaxN,     \* histories are explored for canonical data shapes with at most this many points (HistoryShape)
          FullMaxN     \* containers / first abscissae / all spacings are explored for data with at most this many points
VARIABLES cfg, ops, cache
vars == <<cfg, ops, cache>>

KindOptions ==
  {<<"char", "none", "na">>}
  \cup {<<c, ik, f>> : c \in {"spline", "log"}, ik \in Interp \ {"pchip"}, f \in {"extrapolate", "ends"}}
  \cup {<<c, "pchip", f>> : c \in {"spline", "log"}, f \in (IF "pchip" \in Interp THEN {"extrapolate", "noextrap"} ELSE {})}

\* spacing / ordinate patterns used to bound the configuration
MinDX == CHOOSE d \in DXSet : \A e \in DXSet : d <= e
MaxDX == CHOOSE d \in DXSet : \A e \in DXSet : d >= e
Uniform(dx) == \A k \in 1..Len(dx) : dx[k] = MinDX
Alternating(dx) == \A k \in 1..Len(dx) : dx[k] = (IF k % 2 = 1 THEN MinDX ELSE MaxDX)
AllUp(dy) == \A k \in 1..Len(dy) : dy[k] = 1
ZigZag(dy) == \A k \in 1..Len(dy) : dy[k] = (IF k % 2 = 1 THEN 1 ELSE 0 - 1)
\* the log variant documents "zero-values not supported" (characteristic.py:210-217) and log10 needs positive data;
\* to bound the configuration, data with more than FullMaxN points use one container, x1 = 1 and two spacing patterns
\* (equidistant, alternating narrow / wide) — every y pattern is still explored
WellFormed(c) == /\ c.cls = "log" => c.x1 > 0
                 /\ Len(c.dx) + 1 > FullMaxN => (c.cont = "list" /\ c.x1 = 1 /\ (Uniform(c.dx) \/ Alternating(c.dx)))
\* histories (calls before / serialisation routes) are explored on two canonical data shapes per number of points:
\* equidistant x with increasing y (monotone: all clauses apply) and with zig-zag y
HistoryShape(c) == Len(c.dx) + 1 <= SerMaxN /\ Uniform(c.dx) /\ (AllUp(c.dy) \/ ZigZag(c.dy))
ConfigsOf(n, ko) == {c \in [cls : {ko[1]}, ik : {ko[2]}, fill : {ko[3]}, cont : Conts, x1 : {x - 2 : x \in X1Set},
                              dx : [1..(n - 1) -> DXSet], dy : [1..(n - 1) -> {d - 1 : d \in DYSet}]] : WellFormed(c)}
Configs == UNION {ConfigsOf(n, ko) : n \in NSet, ko \in KindOptions}

N(c) == Len(c.dx) + 1
RECURSIVE Cum(_, _, _)
Cum(base, d, k) == IF k = 1 THEN base ELSE Cum(base, d, k - 1) + d[k - 1]
\* nominal data in micro-units (unit 1.0): x_i = x1 + dx_1 + .. ; y_i = ybase + dy_1 + .. with ybase = n for the log
\* class (keeps every y >= 1) and 0 otherwise (so that negative and zero ordinates occur)
XsOf(c) == [k \in 1..N(c) |-> 1000000 * Cum(c.x1, c.dx, k)]
YBase(c) == IF c.cls = "log" THEN N(c) ELSE 0
YsOf(c) == [k \in 1..N(c) |-> 1000000 * Cum(YBase(c), c.dy, k)]
Supported(c) == N(c) >= MinPts(c.ik)

Init == cfg \in Configs /\ ops = <<>> /\ cache = FALSE
\* the object is called once before anything else happens to it (characteristic.py:181-192 -> :171-178)
Eval == /\ ops = <<>>
        /\ Supported(cfg)
        /\ HistoryShape(cfg)
        /\ ops' = <<"E">>
        /\ cache' = CacheAfter(cfg.cls, cache, "E")
        /\ UNCHANGED cfg
\* the net holding the object is serialised and restored through route r
Ser(r) == /\ NSer(ops) < MaxSer
          /\ HistoryShape(cfg)
          /\ ops' = Append(ops, r)
          /\ cache' = CacheAfter(cfg.cls, cache, r)
          /\ UNCHANGED cfg
Next == Eval \/ \E r \in Routes : Ser(r)

(* ---- model-level requirements ------------------------------------------------------------------------------ *)
TypeOK == cfg \in Configs /\ cache \in BOOLEAN /\ \A k \in 1..Len(ops) : ops[k] \in Routes \cup {"E"}
\* bookkeeping of the lazily built interpolator: the state variable equals the fold over the history
CacheIsFoldOfHistory == cache = CacheOf(cfg.cls, ops)
\* ... and it is present exactly when the object was called and has not gone through JSON since
CacheMeaning == cache <=> (cfg.cls # "char" /\ Len(ops) > 0 /\ ops[1] = "E" /\ \A k \in 1..Len(ops) : ops[k] \notin JsonRoutes)
\* generated data are what the property quantifies over: strictly increasing x, log data positive
DataWellFormed == StrictlyIncreasing(XsOf(cfg)) /\ (cfg.cls = "log" => \A k \in 1..N(cfg) : XsOf(cfg)[k] > 0 /\ YsOf(cfg)[k] > 0)
\* the abscissae are ordered: left < x_1 < quarters of interval 1 < x_2 < ... < x_n < right
AbscissaeOrdered ==
  LET xs == XsOf(cfg) n == N(cfg) a == AbscSeq(xs, cfg.cls = "log") IN
  /\ a[n + 3 * (n - 1) + 1] < xs[1] /\ xs[n] < a[n + 3 * (n - 1) + 2]
  /\ (cfg.cls = "log" => a[n + 3 * (n - 1) + 1] > 0)
  /\ \A j \in (n + 1)..(n + 3 * (n - 1)) : xs[IntervalOf(n, j)] < a[j] /\ a[j] < xs[IntervalOf(n, j) + 1]
\* the exactly modelled kinds satisfy the property's clauses on EVERY data shape (not only the monotone ones):
\* support values reproduced, interior values enclosed by the neighbours
ExactModelMeetsRequirement ==
  LET ys == YsOf(cfg) n == N(cfg) IN
  \A j \in 1..NPts(n) : HasExact(cfg.cls, cfg.ik, cfg.fill, n, j) =>
     /\ IsSupport(n, j) => Exact(cfg.cls, cfg.ik, cfg.fill, ys, n, j) = ReqSupport(ys, j)
     /\ (IsInterior(n, j) /\ ShapePreserving(cfg.cls, cfg.ik)) =>
            /\ EnclLo(ys, n, j) <= Exact(cfg.cls, cfg.ik, cfg.fill, ys, n, j)
            /\ Exact(cfg.cls, cfg.ik, cfg.fill, ys, n, j) <= EnclHi(ys, n, j)
\* a history never changes what is required: the requirement is a function of cfg (frame condition of every action)
RequirementIndependentOfHistory == [][cfg' = cfg]_vars
=============================================================================
