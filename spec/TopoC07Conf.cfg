INIT Init
NEXT Next
INVARIANT C07_SolvedWhenRef
