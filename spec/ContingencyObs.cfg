INIT OInit
NEXT ONext
INVARIANT C14_NoError
INVARIANT C14_Max
INVARIANT C14_Min
INVARIANT C14_Cause
INVARIANT C14_CausesOverloading
INVARIANT C14_N0
INVARIANT C14_BusExtremes
INVARIANT C14_WrittenToNet
INVARIANT C14_InServiceRestored
