------------------------------ MODULE ConvertDef ------------------------------
(* C21 — PYPOWER / MATPOWER conversion round trip.  Shared definitions: the template network, the abstract      *)
(* configuration, and a model of the conversion PIPELINE                                                        *)
(*     net --to_ppc--> ppci --[_ppc2mpc, savemat, loadmat, _mat2ppc]--> ppc' --from_ppc--> net2                 *)
(* as far as it is discrete: which buses survive (in service, fused, energised), which auxiliary buses appear,   *)
(* which branch / gen / bus-injection rows exist in the case file, what from_ppc's decision functions turn each   *)
(* row into, and which data fields a route carries.  From that the spec computes, per configuration, the bus     *)
(* CORRESPONDENCE the round trip has to preserve and the element inventory of the converted network.             *)
(*                                                                                                              *)
(* Template T5 (harness/checks/c21.py builds exactly this wiring; powers in kW / kvar):                          *)
(*   buses 0 1 2 4 : 110 kV, bus 3 : 20 kV;   ext_grid at 0 (always);                                            *)
(*   l0 0-1 (always in service)   l1 1-2   l2 0-2 ("second line")   tr 2->3 (2W transformer, pi model)           *)
(*   ld1 at 1 (always)  ld4 at 4 (always)  ld2 at 3 ("second load")  sgen at 1  gen (PV) at 2  shunt at 2        *)
(*   swl : line switch of l2 at bus 0        swb : bus-bus switch 1-4 (bus 4 hangs on this switch only)         *)
EXTENDS Integers, Sequences, FiniteSets, TLC

Bus == 0..4
VnLevel == [b \in Bus |-> IF b = 3 THEN 2 ELSE 1]          \* 1 = 110 kV, 2 = 20 kV
AuxL2 == 10                                               \* auxiliary ppc bus of l2's end at bus 0 (open swl)

\* ---- abstract configuration ---------------------------------------------------------------------------------
\* l1  : "in" | "oos"                      l2, tr, gen, ld2, sh : "absent" | "in" | "oos"
\* tap : "neutral" | "plus"   shift : 0 | 150   pfe : "zero" | "pos"     (meaningful only when tr # "absent")
\* sgen: "absent" | "oos" | "small" | "equal" | "large"      (p relative to ld1: smaller / equal / larger)
\* swl : "absent" | "closed" | "open"  (only when l2 # "absent")    swb : "absent" | "closed" | "open"
\* b3  : BOOLEAN (bus 3 in service)     route : "ppc" | "mpc"
\* (parameters of things that are not there are pinned, so that no configuration is enumerated twice)
WellFormed(c) ==
  /\ (c.tr # "in" => c.tap = "neutral" /\ c.shift = 0 /\ c.pfe = "zero")
  /\ (c.tr # "in" => c.b3)
  /\ (c.l2 = "absent" => c.swl = "absent")

\* level -> kW / kvar table (the harness uses the same numbers, c21.py LEVELS)
LoadP == [ld1 |-> 8000, ld4 |-> 2000, ld2 |-> 5000]
LoadQ == [ld1 |-> 2000, ld4 |-> 1000, ld2 |-> 1000]
LoadBus == [ld1 |-> 1, ld4 |-> 4, ld2 |-> 3]
SgenP(lv) == CASE lv = "small" -> 3000 [] lv = "equal" -> 8000 [] lv = "large" -> 12000 [] OTHER -> 0
SgenQ(lv) == IF lv \in {"small", "equal", "large"} THEN 500 ELSE 0
SgenBus == 1
GenBus == 2
ShuntBus == 2

MinOf(S) == CHOOSE x \in S : \A y \in S : x <= y
RECURSIVE Reach(_, _)
Reach(S, E) == LET N == S \cup {e[2] : e \in {e \in E : e[1] \in S}} \cup {e[1] : e \in {e \in E : e[2] \in S}}
               IN IF N = S THEN S ELSE Reach(N, E)
RECURSIVE SumF(_, _)
SumF(S, f) == IF S = {} THEN 0 ELSE LET x == CHOOSE x \in S : TRUE IN f[x] + SumF(S \ {x}, f)     \* f : function with S \subseteq DOMAIN f

-----------------------------------------------------------------------------
(* Stage 1: to_ppc -> _pd2ppc  (converter/pypower/to_ppc.py:108, pd2ppc.py:100-217).  Stage1(c) is the discrete   *)
(* content of the case file: [is, rep, nodes, branches, sup, classes, aux].  (One LET chain: TLC caches LET-bound   *)
(* values, operator applications are re-evaluated on every use.)                                                *)

BusIS(c) == {b \in Bus : b # 3 \/ c.b3}                      \* auxiliary.py _select_is_elements
\* build_bus.py:61-69 ds_create: closed bus-bus switch with z_ohm = 0 between two in-service buses -> one ppc bus
FuseE(c) == IF c.swb = "closed" /\ {1, 4} \subseteq BusIS(c) THEN {<<1, 4>>} ELSE {}
Class(c, b) == Reach({b}, FuseE(c))

BranchIds == {"l0", "l1", "l2", "tr"}
Ends == [l0 |-> <<0, 1>>, l1 |-> <<1, 2>>, l2 |-> <<0, 2>>, tr |-> <<2, 3>>]
BrState(c, br) == CASE br = "l0" -> "in" [] br = "l1" -> c.l1 [] br = "l2" -> c.l2 [] br = "tr" -> c.tr

Stage1(c) ==
  LET is == BusIS(c)
      rep == [b \in is |-> MinOf(Class(c, b))]
      \* ppc node of end i of branch br; -1 = the end makes the branch unusable
      endNode == [br \in BranchIds |-> [i \in 1..2 |->
                    LET b == Ends[br][i] IN
                    IF br = "l2" /\ i = 1 /\ c.swl = "open" THEN AuxL2      \* build_branch.py:1075 _switch_branches: auxiliary bus
                    ELSE IF b \in is THEN rep[b]
                    ELSE -1]]                                                \* trafo at an out-of-service bus: dropped in _ppc2ppci
      live == {br \in BranchIds : BrState(c, br) = "in" /\ endNode[br][1] # -1 /\ endNode[br][2] # -1}
      \* pd2ppc.py:196 / auxiliary.py:831 _check_connectivity: everything not reachable from the reference bus is set out of service;
      \* pd2ppc.py:275 _ppc2ppci keeps only in-service rows -> the case file holds exactly these nodes / branches
      nodes == Reach({rep[0]}, {<<endNode[br][1], endNode[br][2]>> : br \in live})
      sup == {b \in is : rep[b] \in nodes}
  IN [ is |-> is, rep |-> rep, ends |-> endNode, nodes |-> nodes,
       branches |-> {br \in live : endNode[br][1] \in nodes /\ endNode[br][2] \in nodes},
       sup |-> sup,
       classes |-> {K \in {Class(c, b) : b \in is} : K \subseteq sup},
       aux |-> nodes \ Bus ]

\* build_bus.py:596 _calc_pq_elements_and_add_on_ppc: PD/QD of a ppc bus = in-service loads minus in-service sgens of
\* ALL pandapower buses fused into it (sgens are negative loads in the case file, not gen rows)
LoadsOn(c, K) == {l \in {"ld1", "ld4", "ld2"} : LoadBus[l] \in K /\ (l = "ld2" => c.ld2 = "in")}
SgenOn(c, K) == SgenBus \in K /\ c.sgen \in {"small", "equal", "large"}
PD(c, K) == SumF(LoadsOn(c, K), LoadP) - (IF SgenOn(c, K) THEN SgenP(c.sgen) ELSE 0)
QD(c, K) == SumF(LoadsOn(c, K), LoadQ) - (IF SgenOn(c, K) THEN SgenQ(c.sgen) ELSE 0)
HasShunt(c, K) == ShuntBus \in K /\ c.sh = "in"               \* build_bus.py:712 _calc_shunts_and_add_on_ppc -> GS/BS (from_ppc.py:95-97: GS or BS # 0 -> shunt)
\* build_gen.py: one gen row per in-service ext_grid / gen at an in-service bus; _ppc2ppci drops rows at dead buses
GenRows(c, s1) == {"eg"} \cup (IF c.gen = "in" /\ GenBus \in s1.sup THEN {"gen"} ELSE {})

\* branch row data that matter for from_ppc's classification (build_branch.py:571 _calc_tap_from_dataframe,
\* :406 _calc_branch_values_from_trafo_df): TAP = 1 for lines and for a transformer at nominal ratio, SHIFT = shift_degree
TapOf(c, br) == IF br = "tr" /\ c.tap = "plus" THEN "off" ELSE "one"
ShiftOf(c, br) == IF br = "tr" THEN c.shift ELSE 0
\* to_ppc.py:113-117: BR_G (transformer iron losses) leaves the branch matrix and travels as the extra field
\* "branch_g"; the asymmetry fields are all-zero in scope and are not written
FieldsNeeded(c, s1) == IF "tr" \in s1.branches /\ c.pfe = "pos" THEN {"branch_g"} ELSE {}

-----------------------------------------------------------------------------
(* Stage 2: the route.  ppc: the dict is handed over unchanged.  mpc: to_mpc.py:50-72 _ppc2mpc (bus numbers +1,  *)
(* TAP = 1 -> 0), scipy savemat / loadmat, from_mpc.py:84-150 _mat2ppc = _copy_data_from_mpc_to_ppc (copies        *)
(* version, baseMVA, bus, gen, branch, gencost; EVERY OTHER FIELD goes to ppc["mpc_additional_data"]) +           *)
(* _adjust_ppc_indices (-1) + _change_ppc_TAP_value (TAP = 0 -> 1).                                               *)
MpcWriteTap(t) == IF t = "one" THEN "zero" ELSE t
MpcReadTap(t) == IF t = "zero" THEN "one" ELSE t
TapAfterRoute(c, br) == IF c.route = "mpc" THEN MpcReadTap(MpcWriteTap(TapOf(c, br))) ELSE TapOf(c, br)
ExtraFields == {"branch_g", "branch_r_asym", "branch_x_asym", "branch_g_asym", "branch_b_asym"}   \* to_ppc.py:113, from_ppc.py:188-194
\* REQUIRED: a route carries every extra field.  DEVIATION of the code, named here so that the spec predicts where the
\* round trip must fail: _copy_data_from_mpc_to_ppc (from_mpc.py:126-145) moves them to ppc["mpc_additional_data"], where
\* from_ppc does not look.  The pinned from_mpc dropped ExtraFields on the "mpc" route; repaired in the repository (known_findings).
CodeDrops(route) == {}
FieldsCarried(route) == ExtraFields \ CodeDrops(route)
\* what the power flow of this configuration depends on but the route drops (REQUIRED: empty)
Lost(c, s1) == FieldsNeeded(c, s1) \ FieldsCarried(c.route)

-----------------------------------------------------------------------------
(* Stage 3: from_ppc decision functions (converter/pypower/from_ppc.py)                                         *)

\* :85-93 _from_ppc_bus: PD > 0 or (PD = 0 and QD # 0) -> load ; PD < 0 -> sgen ; else nothing
BusElem(c, K) == LET p == PD(c, K)  q == QD(c, K)
                 IN IF p > 0 \/ (p = 0 /\ q # 0) THEN "load" ELSE IF p < 0 THEN "sgen" ELSE "none"
\* :347-362 _gen_to_which: first gen row at a REF bus -> ext_grid, first at a PV bus -> gen, every further row -> sgen
\* (T5 has at most one row per ppc bus: the ext_grid's class {0} never fuses with the gen's bus 2)
GenElem(g) == IF g = "eg" THEN "ext_grid" ELSE "gen"
\* :365-380 _branch_to_which
BranchElem(c, br) ==
  LET sameVn == VnLevel[Ends[br][1]] = VnLevel[Ends[br][2]]
      tap == TapAfterRoute(c, br)
      shift == ShiftOf(c, br)
  IN IF sameVn /\ tap = "one" /\ shift = 0 THEN "line"
     ELSE IF tap # "one" \/ shift # 0 THEN "trafo"
     ELSE "impedance"                                  \* nominal-ratio transformer without phase shift

Card(S) == Cardinality(S)
Inventory(c, s1) ==
  LET be == [br \in s1.branches |-> BranchElem(c, br)]
      ke == [K \in s1.classes |-> BusElem(c, K)]
      gr == GenRows(c, s1)
  IN [ bus       |-> Card(s1.nodes),
       line      |-> Card({br \in s1.branches : be[br] = "line"}),
       trafo     |-> Card({br \in s1.branches : be[br] = "trafo"}),
       impedance |-> Card({br \in s1.branches : be[br] = "impedance"}),
       ext_grid  |-> Card({g \in gr : GenElem(g) = "ext_grid"}),
       gen       |-> Card({g \in gr : GenElem(g) = "gen"}),
       load      |-> Card({K \in s1.classes : ke[K] = "load"}),
       sgen      |-> Card({K \in s1.classes : ke[K] = "sgen"}),
       shunt     |-> Card({K \in s1.classes : HasShunt(c, K)}) ]

\* from_mpc.py:86 loads the file with scipy loadmat(squeeze_me=True): a table with ONE row comes back as a vector.
\* _adjust_ppc_indices (from_mpc.py:115-123) re-expands only "gen" before it indexes bus / branch two-dimensionally.
\* REQUIRED: the number of rows is irrelevant.  The tables at risk are named here to key findings
\* (proposed_fixes/C21_2.diff).
OneRowTables(c, s1) == IF c.route # "mpc" THEN {}
                       ELSE (IF Card(s1.branches) = 1 THEN {"branch"} ELSE {}) \cup (IF Card(s1.nodes) = 1 THEN {"bus"} ELSE {})

\* the abstract outcome of one configuration (dumped by Convert.tla, recomputed by ConvertObs.tla)
Derive(c) == LET s1 == Stage1(c)
             IN [sup |-> s1.sup, classes |-> s1.classes, aux |-> s1.aux, nodes |-> s1.nodes, branches |-> s1.branches,
                 inv |-> Inventory(c, s1), lost |-> Lost(c, s1), onerow |-> OneRowTables(c, s1)]

IsPartition(P, S) == /\ UNION P = S /\ {} \notin P
                     /\ \A x, y \in P : x # y => x \cap y = {}
=============================================================================
